(* Bridge theorems: the Netpbm serializers write_pbm (P4 raw / P1 plain), write_pam, write_ppm of segno/writers.py,
   translated statement by statement from the CURRENT source (SegnoSrc.SrcWrNetpbm, written by gen/translate_writers.py;
   the output stream is the list of everything written, Base/PySemIO.v), equal the hand-written models of Model/Netpbm.v
   for EVERY matrix of the declared size (induction over the rows and over the groups of eight cells; no finite sweep).
   Re-checked by coqc on every run.  See DESIGN.md 11.12. *)
From Coq Require Import ZArith QArith List Bool Lia.
From Coq Require String Ascii.
Import Coq.Strings.String.StringSyntax.
From Segno Require Import Base.PyLite Base.PySem Base.PySemGen Base.PySemIO Model.Iter Model.Color Model.Netpbm.
From Segno Require Import Tie.TieUtils Tie.TieUtilsIter Tie.TieWrCommon.
From Segno Require Tie.TieTables.
From Segno Require Import Tie.TieUtilsVerbose.
From SegnoSrc Require Import SrcUtils SrcUtilsIter SrcUtilsVerbose SrcFnPat SrcWrCommon SrcWrNetpbm.
From SegnoSrc Require SrcTables.
Import ListNotations.
Open Scope Z_scope.

Ltac eval_bytes :=
  repeat match goal with
         | |- context [bytes_of ?s] => let v := eval vm_compute in (bytes_of s) in change (bytes_of s) with v
         end.
Ltac norm_app := unfold py_write, py_stream_new; repeat rewrite <- app_assoc; cbn [app].

(* the cells of a symbol: 0 / 1 *)
Definition bit01 (c : Z) : Prop := c = 0 \/ c = 1.
Definition bits (m : list (list Z)) : Prop := Forall (Forall bit01) m.

Lemma Forall_repeat' {A} (P : A -> Prop) x n : P x -> Forall P (repeat x n).
Proof. intros Hx. induction n as [|n IH]; cbn [repeat]; constructor; assumption. Qed.
Lemma Forall_repeat_each' {A} (P : A -> Prop) s (l : list A) : Forall P l -> Forall P (repeat_each s l).
Proof.
  intros Hl. unfold repeat_each. induction Hl as [|x r Hx Hr IH]; cbn [flat_map]; [constructor|].
  apply Forall_app. split; [now apply Forall_repeat'|assumption].
Qed.
Lemma Forall_nth' {A} (P : A -> Prop) (l : list A) d k : Forall P l -> P d -> P (nth k l d).
Proof.
  intros Hl Hd. revert k. induction Hl as [|x r Hx Hr IH]; intros [|k]; cbn [nth]; auto.
Qed.
Lemma iter_rows_bits m w h s b : bits m -> bits (iter_rows m w h s b).
Proof.
  intros Hm. unfold iter_rows. apply Forall_repeat_each'. apply Forall_forall. intros row Hrow.
  apply in_map_iff in Hrow. destruct Hrow as (i & <- & _). apply Forall_repeat_each'. apply Forall_forall.
  intros c Hc. apply in_map_iff in Hc. destruct Hc as (j & <- & _).
  destruct ((0 <=? i) && (i <? h) && (0 <=? j) && (j <? w)); [|now left].
  unfold mcell. apply Forall_nth'; [|now left]. apply Forall_nth'; [assumption|constructor].
Qed.

(* ------------------------------------------------------------------ 1. write_pbm *)
Definition binval (g : list Z) : Z := fold_left (fun x y => 2 * x + y) g 0.

Lemma pack_row_groups_fuel f : forall l, (length l <= f)%nat -> Netpbm.pack_row l = map binval (py_grouper_fuel f 8 0 l).
Proof.
  induction f as [|f IH]; intros l Hl.
  - destruct l; [reflexivity|cbn in Hl; lia].
  - destruct l as [|a [|b [|c [|d [|e [|g [|i [|j r]]]]]]]];
      try (cbn [py_grouper_fuel py_take_fill_with skipn Netpbm.pack_row map]; rewrite ?py_grouper_fuel_nil; reflexivity).
    cbn [py_grouper_fuel py_take_fill_with skipn Netpbm.pack_row map]. f_equal. apply IH. cbn [length] in Hl. lia.
Qed.
Lemma pack_row_groups l : Netpbm.pack_row l = map binval (py_grouper 8 0 l).
Proof. unfold py_grouper. cbn [Z.leb Z.compare]. change (Z.to_nat 8) with 8%nat. now apply pack_row_groups_fuel. Qed.

Lemma py_take_fill_with_Forall (P : Z -> Prop) n fill : P fill -> forall l, Forall P l -> Forall P (py_take_fill_with n fill l).
Proof.
  intros Hf. induction n as [|n IH]; intros l Hl; cbn [py_take_fill_with]; [constructor|].
  destruct Hl as [|x r Hx Hr]; constructor; auto.
Qed.
Lemma Forall_skipn {A} (P : A -> Prop) n : forall l : list A, Forall P l -> Forall P (skipn n l).
Proof. induction n as [|n IH]; intros l Hl; cbn [skipn]; [assumption|]. destruct Hl; [constructor|now apply IH]. Qed.
Lemma py_grouper_fuel_Forall (P : Z -> Prop) fuel n fill : P fill -> forall l, Forall P l ->
  Forall (Forall P) (py_grouper_fuel fuel n fill l).
Proof.
  intros Hf. induction fuel as [|f IH]; intros l Hl; [constructor|].
  destruct l as [|x r]; cbn [py_grouper_fuel]; [constructor|]. constructor.
  - now apply py_take_fill_with_Forall.
  - apply IH. now apply Forall_skipn.
Qed.
Lemma py_grouper_Forall (P : Z -> Prop) n fill l : P fill -> Forall P l -> Forall (Forall P) (py_grouper n fill l).
Proof. intros Hf Hl. unfold py_grouper. destruct (n <=? 0); [constructor|]. now apply py_grouper_fuel_Forall. Qed.

Lemma binval_bound : forall g acc k, Forall bit01 g -> 0 <= acc < 2 ^ k -> 0 <= k ->
  0 <= fold_left (fun x y => 2 * x + y) g acc < 2 ^ (k + Z.of_nat (length g)).
Proof.
  induction g as [|b r IH]; intros acc k Hg Hacc Hk; cbn [fold_left length].
  - now rewrite Z.add_0_r.
  - inversion Hg as [|b' r' Hb Hr]; subst.
    replace (k + Z.of_nat (S (length r))) with ((k + 1) + Z.of_nat (length r)) by lia.
    apply IH; [assumption| |lia]. rewrite Z.pow_add_r, Z.pow_1_r by lia. destruct Hb as [-> | ->]; lia.
Qed.
Lemma binval_byte g : Forall bit01 g -> length g = 8%nat -> is_byte (binval g) = true.
Proof.
  intros Hg Hl. pose proof (binval_bound g 0 0 Hg ltac:(cbn; lia) ltac:(lia)) as H. rewrite Hl in H.
  change (2 ^ (0 + Z.of_nat 8)) with 256 in H. unfold is_byte, binval.
  destruct (0 <=? fold_left _ g 0) eqn:E1, (fold_left _ g 0 <? 256) eqn:E2; try reflexivity; lia.
Qed.

(* one row of the P4 raster: write(bytearray(pack_row(row))) *)
Lemma p4_row (row : list Z) : Forall bit01 row ->
  (do t1 <- py_seq_res (map (fun e => do t <- py_reduce (fun x y => Z.shiftl x 1 + y) e; Ok t) (py_grouper 8 0 row));
   py_bytearray t1) = Ok (Netpbm.pack_row row).
Proof.
  intros Hrow. rewrite pack_row_groups.
  rewrite (py_seq_res_all_ok _ binval).
  - cbn [bind]. unfold py_bytearray.
    assert (Hb : forallb is_byte (map binval (py_grouper 8 0 row)) = true).
    { apply forallb_forall. intros v Hv. apply in_map_iff in Hv. destruct Hv as (g & <- & Hg).
      apply binval_byte.
      - pose proof (py_grouper_Forall bit01 8 0 row (or_introl eq_refl) Hrow) as HF.
        rewrite Forall_forall in HF. now apply HF.
      - apply py_grouper_item_length in Hg. exact Hg. }
    now rewrite Hb.
  - intros g Hg. apply py_grouper_item_length in Hg. change (Z.to_nat 8) with 8%nat in Hg.
    rewrite py_reduce_shift; [reflexivity|]. intro Hn. subst g. discriminate.
Qed.

(* one row of the P1 raster *)
Lemma p1_row (row : list Z) :
  py_seq_res (map (fun i => do t <- py_encode_ascii (py_str_int i); Ok t) row) = Ok (map Netpbm.dec row).
Proof.
  apply (py_seq_res_all_ok _ Netpbm.dec). intros i _. rewrite (py_encode_ascii_ok _ (py_str_int_ascii i)).
  cbn [bind]. now rewrite py_str_int_netpbm_dec.
Qed.

Lemma creator_ascii : forallb py_is_ascii SrcTables.CREATOR = true.
Proof. vm_compute. reflexivity. Qed.

Lemma pbm_header_src (plain : bool) (wp hp : Z) :
  py_encode_ascii ((if negb plain then [80; 52] else [80; 49]) ++
                   [10; 35; 32; 67; 114; 101; 97; 116; 101; 100; 32; 98; 121; 32] ++ SrcTables.CREATOR ++ [10] ++
                   py_str_int wp ++ [32] ++ py_str_int hp ++ [10]) = Ok (pbm_header plain wp hp).
Proof.
  rewrite py_encode_ascii_ok.
  - unfold pbm_header, NETPBM_CREATOR, NL, SP. rewrite !py_str_int_netpbm_dec. rewrite TieTables.tie_CREATOR.
    destruct plain; cbn [negb]; eval_bytes; norm_app; reflexivity.
  - rewrite !forallb_app, creator_ascii, !py_str_int_ascii. now destruct plain.
Qed.

Theorem src_write_pbm_is_model : forall (matrix : list (list Z)) (w h scale : Z) (border : option Z) (plain : bool),
  well_formed matrix w h -> (plain = true \/ bits matrix) ->
  src_write_pbm matrix [w; h] scale border plain = Netpbm.write_pbm matrix w h scale border plain.
Proof.
  intros matrix w h scale border plain Hwf Hbits. unfold src_write_pbm, Netpbm.write_pbm. cbv zeta.
  rewrite src_valid_whb_is_model.
  rewrite (netpbm_valid_whb w h scale border).
  destruct (TextFmt.valid_width_height_and_border w h scale border) as [[[wp hp] b]|e] eqn:Ev; cbn [bind whb_list py_unpack3]; [|reflexivity].
  destruct (valid_whb_ok _ _ _ _ _ Ev) as (_ & _ & Hp). injection Hp as Hwp Hhp Hb. rewrite Hb.
  rewrite (src_matrix_iter_after_whb _ _ _ _ _ _ Hwf Ev).
  rewrite pbm_header_src. cbn [bind].
  destruct plain; cbn [negb bind].
  - (* P1 *)
    rewrite (py_for_emit_ok _ _ pbm_plain_row).
    + cbn [bind]. norm_app. reflexivity.
    + intros row acc _. rewrite p1_row. cbn [bind]. unfold pbm_plain_row, NL. rewrite py_join_nil_concat.
      rewrite flat_map_concat_map. norm_app. reflexivity.
  - (* P4 *)
    destruct Hbits as [Hpl|Hbits]; [discriminate|].
    pose proof (iter_rows_bits matrix w h scale (get_border w h border) Hbits) as Hrows.
    rewrite (py_for_emit_ok _ _ Netpbm.pack_row).
    + cbn [bind]. norm_app. reflexivity.
    + intros row acc Hin. cbn [bind].
      unfold bits in Hrows. rewrite Forall_forall in Hrows. pose proof (p4_row row (Hrows row Hin)) as Hp4.
      destruct (py_seq_res _) as [t1|e]; cbn [bind] in Hp4 |- *; [|discriminate].
      rewrite Hp4. reflexivity.
Qed.

(* ------------------------------------------------------------------ 2. colours, struct.pack *)
(* the colour arguments of the translated functions (PySemIO.py_color) seen from the model (Color.pycolor) *)
Definition to_py_color (c : pycolor) : py_color :=
  match c with CStr s => PyCStr s | CTuple t => PyCTuple t end.

Lemma pack_B_spec n vals :
  (if (lenZ vals =? n) && forallb is_byte vals then Ok vals else Err py_struct_error) = pack_B n vals.
Proof.
  unfold pack_B, py_struct_error. destruct (lenZ vals =? n); cbn [negb andb]; [|reflexivity].
  replace (forallb (fun v => (0 <=? v) && (v <=? 255)) vals) with (forallb is_byte vals); [reflexivity|].
  induction vals as [|v r IH]; cbn [forallb]; [reflexivity|]. rewrite IH. f_equal. unfold is_byte. destruct (0 <=? v); cbn [andb]; [|reflexivity].
  destruct (v <? 256) eqn:E1, (v <=? 255) eqn:E2; try reflexivity; lia.
Qed.
Lemma py_pack_1 vals : py_pack_B [62; 66] vals = pack_B 1 vals.
Proof. now rewrite <- pack_B_spec. Qed.
Lemma py_pack_2 vals : py_pack_B [62; 50; 66] vals = pack_B 2 vals.
Proof. now rewrite <- pack_B_spec. Qed.
Lemma py_pack_3 vals : py_pack_B [62; 51; 66] vals = pack_B 3 vals.
Proof. now rewrite <- pack_B_spec. Qed.
Lemma py_pack_4 vals : py_pack_B [62; 52; 66] vals = pack_B 4 vals.
Proof. now rewrite <- pack_B_spec. Qed.

(* ------------------------------------------------------------------ 3. write_ppm *)
(* _color_to_rgb is not translated: it is the parameter ext of src_write_ppm, assumed to be the model's *)
Definition ext_rgb_ok (ext : option py_color -> res (list Z)) : Prop :=
  forall c, ext (Some (to_py_color c)) = color_to_rgb c.

(* the dict colormap as the translated function sees it *)
Definition to_py_colormap (cm : list (Z * ocolor)) : list (Z * option py_color) :=
  map (fun kv => (fst kv, option_map to_py_color (snd kv))) cm.

Lemma src_has_none cm :
  existsb (fun kv : Z * option py_color => match snd kv with None => true | Some _ => false end) (to_py_colormap cm)
  = colormap_has_none cm.
Proof.
  unfold colormap_has_none, to_py_colormap. induction cm as [|[mt [c|]] r IH]; cbn [map existsb fst snd option_map]; [reflexivity| |reflexivity].
  now rewrite IH.
Qed.

Lemma src_convert_colormap ext cm : ext_rgb_ok ext -> colormap_has_none cm = false ->
  py_seq_res (map (fun kv_ : Z * option py_color => let '(mt, clr) := kv_ in do t <- ext clr; Ok (mt, t)) (to_py_colormap cm))
  = ppm_convert_colormap cm.
Proof.
  intros Hext. unfold ppm_convert_colormap, colormap_has_none, to_py_colormap.
  induction cm as [|[mt [c|]] r IH]; cbn [map existsb py_seq_res Netpbm.map_res fst snd option_map orb]; intros Hn;
    [reflexivity| |discriminate].
  rewrite Hext. destruct (color_to_rgb c) as [rgb|e]; cbn [bind]; [|reflexivity]. now rewrite IH.
Qed.

Lemma ppm_header_src (wp hp : Z) :
  py_encode_ascii ([80; 54; 32; 35; 32; 67; 114; 101; 97; 116; 101; 100; 32; 98; 121; 32] ++ SrcTables.CREATOR ++ [10] ++
                   py_str_int wp ++ [32] ++ py_str_int hp ++ [32; 50; 53; 53; 10]) = Ok (ppm_header wp hp).
Proof.
  rewrite py_encode_ascii_ok.
  - unfold ppm_header, NETPBM_CREATOR, NL, SP. rewrite !py_str_int_netpbm_dec. rewrite TieTables.tie_CREATOR.
    eval_bytes; norm_app; reflexivity.
  - rewrite !forallb_app, creator_ascii, !py_str_int_ascii. reflexivity.
Qed.

(* after _valid_width_height_and_border has accepted scale and border, matrix_iter_verbose only depends on the alignment matrix *)
Lemma src_matrix_iter_verbose_after_whb matrix am0 am w h scale border p :
  TextFmt.valid_width_height_and_border w h scale border = Ok p ->
  src_make_matrix w h false false = Ok am0 -> src_add_alignment_patterns am0 w h = Ok am ->
  src_matrix_iter_verbose matrix [w; h] (inject_Z scale) (Some (get_border w h border)) =
  Ok (iter_verbose_rows matrix am w h scale (get_border w h border)).
Proof.
  intros Hp Ham0 Ham. destruct (valid_whb_ok _ _ _ _ _ Hp) as (Hs & Hb & _).
  change (inject_Z scale) with (q_of (PInt scale)). rewrite src_matrix_iter_verbose_is_model.
  cbn [option_map py_int get_border].
  assert (Hb0 : 0 <= get_border w h border).
  { destruct border as [b1|]; cbn [get_border]; [now apply Hb|].
    unfold get_default_border_size. destruct ((17 <? w) && (w =? h)); lia. }
  pose proof (src_check_valid_border_int (Some (get_border w h border))) as Hx. cbn [option_map] in Hx.
  rewrite <- Hx, src_check_valid_border_int_spec.
  destruct (get_border w h border <? 0) eqn:E; [lia|]. cbn [bind].
  unfold check_valid_scale, q_lebz, q_of, Qle_bool, inject_Z. cbn [Qnum Qden].
  destruct (scale * 1 <=? 0 * 1) eqn:E2; [lia|]. cbn [bind]. rewrite Ham0. cbn [bind]. rewrite Ham. reflexivity.
Qed.

Theorem src_write_ppm_is_model : forall ext (matrix am0 am : list (list Z)) (w h scale : Z) (border : option Z)
    (colormap : list (Z * ocolor)),
  ext_rgb_ok ext ->
  src_make_matrix w h false false = Ok am0 -> src_add_alignment_patterns am0 w h = Ok am ->
  src_write_ppm ext matrix [w; h] (to_py_colormap colormap) scale border = Netpbm.write_ppm matrix am w h scale border colormap.
Proof.
  intros ext matrix am0 am w h scale border colormap Hext Ham0 Ham. unfold src_write_ppm, Netpbm.write_ppm. cbv zeta.
  rewrite src_valid_whb_is_model.
  rewrite (netpbm_valid_whb w h scale border).
  destruct (TextFmt.valid_width_height_and_border w h scale border) as [[[wp hp] b]|e] eqn:Ev; cbn [bind whb_list py_unpack3]; [|reflexivity].
  destruct (valid_whb_ok _ _ _ _ _ Ev) as (_ & _ & Hp). injection Hp as Hwp Hhp Hb. rewrite Hb.
  rewrite src_has_none. destruct (colormap_has_none colormap) eqn:En; [reflexivity|].
  rewrite (src_convert_colormap ext colormap Hext En).
  destruct (ppm_convert_colormap colormap) as [cm|e]; cbn [bind]; [|reflexivity].
  rewrite (src_matrix_iter_verbose_after_whb _ _ _ _ _ _ _ _ Ev Ham0 Ham).
  rewrite ppm_header_src. cbn [bind].
  rewrite (py_for_emit _ _ (fun row => do px <- Netpbm.map_res (ppm_pixel cm) row; Ok (concat px))).
  - rewrite py_seq_res_netpbm_map_res.
    destruct (Netpbm.map_res _ _) as [body|e]; cbn [bind]; [|reflexivity]. norm_app. reflexivity.
  - intros row acc _. rewrite <- py_seq_res_netpbm_map_res.
    replace (map (fun mt => do t5 <- getZ mt cm; do t6 <- py_pack_B [62; 51; 66] t5; Ok t6) row) with (map (ppm_pixel cm) row).
    + destruct (py_seq_res (map (ppm_pixel cm) row)) as [px|e]; cbn [bind]; [|reflexivity].
      now rewrite py_join_nil_concat.
    + apply map_ext. intros mt. unfold ppm_pixel. destruct (getZ mt cm) as [rgb|e]; cbn [bind]; [|reflexivity].
      now rewrite bind_ret', py_pack_3.
Qed.

(* ------------------------------------------------------------------ 4. write_pam *)
(* _color_to_rgb_or_rgba is not translated: it is the parameter ext of src_write_pam, assumed to be the model's *)
Definition ext_rgba_ok (ext : option py_color -> bool -> res (list Z)) : Prop :=
  forall c af, ext (Some (to_py_color c)) af = color_to_rgb_or_rgba c af.

Lemma truthy_falsy (c : ocolor) : py_color_truthy (option_map to_py_color c) = negb (color_falsy c).
Proof.
  destruct c as [[s|t]|]; cbn [option_map to_py_color py_color_truthy color_falsy]; try reflexivity.
  - now destruct s.
  - now destruct t.
Qed.

Lemma py_slice_0_3 {A} (l : list A) : py_slice l 0 3 = firstn 3 l.
Proof.
  unfold py_slice, py_clip. cbn [Z.ltb Z.compare]. unfold lenZ.
  replace (Z.min 0 (Z.of_nat (length l))) with 0 by lia. cbn [Z.to_nat skipn]. rewrite Z.sub_0_r.
  destruct l as [|a [|b [|c r]]]; try reflexivity.
  replace (Z.to_nat (Z.min 3 (Z.of_nat (length (a :: b :: c :: r))))) with 3%nat by (cbn [length]; lia). reflexivity.
Qed.

Lemma py_list_eqb_str_eqb a : forall b, py_list_eqb a b = str_eqb a b.
Proof. induction a as [|x a IH]; intros [|y b]; cbn [py_list_eqb str_eqb]; try reflexivity; now rewrite IH. Qed.

Lemma src_is_bw3 c : py_mem_list (py_slice c 0 3) [[0; 0; 0]; [255; 255; 255]] = is_black_or_white3 c.
Proof.
  unfold py_mem_list, is_black_or_white3. cbn [existsb]. rewrite py_slice_0_3, !py_list_eqb_str_eqb. now rewrite orb_false_r.
Qed.

Lemma pam_row (c0 c1 : list Z) row : Forall bit01 row ->
  py_seq_res (map (fun b => do t <- py_index [c0; c1] b; Ok t) row) = Ok (map (pam_pixel (c0, c1)) row).
Proof.
  intros Hrow. apply py_seq_res_all_ok. intros b Hb. rewrite Forall_forall in Hrow.
  destruct (Hrow b Hb) as [-> | ->]; reflexivity.
Qed.

Lemma pam_header_src (wp hp depth maxval : Z) (tt : list Z) (cs : list Z * list Z) : forallb py_is_ascii tt = true ->
  py_encode_ascii ([80; 55; 10; 35; 32; 67; 114; 101; 97; 116; 101; 100; 32; 98; 121; 32] ++ SrcTables.CREATOR ++
                   [10; 87; 73; 68; 84; 72; 32] ++ py_str_int wp ++ [10; 72; 69; 73; 71; 72; 84; 32] ++ py_str_int hp ++
                   [10; 68; 69; 80; 84; 72; 32] ++ py_str_int depth ++ [10; 77; 65; 88; 86; 65; 76; 32] ++ py_str_int maxval ++
                   [10; 84; 85; 80; 76; 84; 89; 80; 69; 32] ++ tt ++ [10; 69; 78; 68; 72; 68; 82; 10])
  = Ok (pam_header wp hp {| pp_depth := depth; pp_maxval := maxval; pp_tupltype := tt; pp_colours := cs |}).
Proof.
  intros Htt. rewrite py_encode_ascii_ok.
  - unfold pam_header, NETPBM_CREATOR, NL, SP. cbn [pp_depth pp_maxval pp_tupltype].
    rewrite !py_str_int_netpbm_dec. rewrite TieTables.tie_CREATOR. eval_bytes; norm_app; reflexivity.
  - rewrite !forallb_app, creator_ascii, !py_str_int_ascii, Htt. reflexivity.
Qed.

Theorem src_write_pam_is_model : forall ext (matrix : list (list Z)) (w h scale : Z) (border : option Z) (dark light : ocolor),
  ext_rgba_ok ext -> well_formed matrix w h -> bits matrix ->
  src_write_pam ext matrix [w; h] scale border (option_map to_py_color dark) (option_map to_py_color light)
  = Netpbm.write_pam matrix w h scale border dark light.
Proof.
  intros ext matrix w h scale border dark light Hext Hwf Hbits. unfold src_write_pam, Netpbm.write_pam. cbv zeta.
  rewrite truthy_falsy, negb_involutive.
  destruct (color_falsy dark) eqn:Ef; [reflexivity|].
  destruct dark as [d|]; [|discriminate]. cbn [option_map].
  rewrite src_valid_whb_is_model.
  rewrite (netpbm_valid_whb w h scale border).
  destruct (TextFmt.valid_width_height_and_border w h scale border) as [[[wp hp] b]|e] eqn:Ev; cbn [bind whb_list py_unpack3]; [|reflexivity].
  destruct (valid_whb_ok _ _ _ _ _ Ev) as (_ & _ & Hp). injection Hp as Hwp Hhp Hb. rewrite Hb.
  rewrite (src_matrix_iter_after_whb _ _ _ _ _ _ Hwf Ev).
  pose proof (iter_rows_bits matrix w h scale (get_border w h border) Hbits) as Hrows.
  set (rows := iter_rows matrix w h scale (get_border w h border)) in *.
  unfold pam_setup. rewrite Hext.
  destruct (color_to_rgb_or_rgba d false) as [stroke|e]; cbn [bind]; [|reflexivity].
  assert (Hbg : match option_map to_py_color light with
                | Some l => do t <- ext (Some l) false; Ok (Some t)
                | None => Ok None end
                = match light with Some l => do c <- color_to_rgb_or_rgba l false; Ok (Some c) | None => Ok None end).
  { destruct light as [l|]; cbn [option_map]; [now rewrite Hext|reflexivity]. }
  rewrite Hbg. clear Hbg.
  destruct (match light with Some l => _ | None => _ end) as [bg|e]; cbn [bind]; [|reflexivity].
  change (src__invert_color (py_slice stroke 0 3)) with (invert_color (py_slice stroke 0 3)).
  rewrite !(py_slice_0_3 stroke).
  set (transp := match bg with Some bg_color => (lenZ stroke =? 4) || (lenZ bg_color =? 4) | None => true end).
  set (bg1 := match bg with Some bg_color => bg_color | None => invert_color (firstn 3 stroke) ++ [0] end).
  assert (Htail : forall (c0 c1 : list Z) (D M : Z) (TT : list Z), forallb py_is_ascii TT = true ->
    (do t15 <- py_encode_ascii
        ([80; 55; 10; 35; 32; 67; 114; 101; 97; 116; 101; 100; 32; 98; 121; 32] ++ SrcTables.CREATOR ++
         [10; 87; 73; 68; 84; 72; 32] ++ py_str_int wp ++ [10; 72; 69; 73; 71; 72; 84; 32] ++ py_str_int hp ++
         [10; 68; 69; 80; 84; 72; 32] ++ py_str_int D ++ [10; 77; 65; 88; 86; 65; 76; 32] ++ py_str_int M ++
         [10; 84; 85; 80; 76; 84; 89; 80; 69; 32] ++ TT ++ [10; 69; 78; 68; 72; 68; 82; 10]);
     match py_for (A:=void) rows
        (fun (row st' : list Z) =>
         do t17 <- (do t102 <- py_seq_res (map (fun b0 : Z => do t101 <- py_index [c0; c1] b0; Ok t101) row);
                    Ok (py_join [] t102));
         Ok (CNext (py_write st' t17))) (py_write py_stream_new t15)
     with
     | Ok (inl r') => match r' return (res (list Z)) with end
     | Ok (inr st') => Ok st'
     | Err e' => Err e'
     end)
    = Ok (pam_header wp hp {| pp_depth := D; pp_maxval := M; pp_tupltype := TT; pp_colours := (c0, c1) |} ++
          flat_map (fun row => flat_map (pam_pixel (c0, c1)) row) rows)).
  { intros c0 c1 D M TT HTT. rewrite (pam_header_src wp hp D M TT (c0, c1) HTT). cbn [bind].
    rewrite (py_for_emit_ok _ _ (fun row => flat_map (pam_pixel (c0, c1)) row)).
    - norm_app. reflexivity.
    - intros row acc Hin. unfold bits in Hrows. rewrite Forall_forall in Hrows.
      rewrite (pam_row c0 c1 row (Hrows row Hin)). cbn [bind]. rewrite py_join_nil_concat, <- flat_map_concat_map. reflexivity. }
  destruct transp; cbn [bind py_unpack2 map negb andb].
  - (* an alpha channel *)
    fold (with_alpha stroke) (with_alpha bg1).
    set (st := with_alpha stroke). set (bgc := with_alpha bg1).
    rewrite !src_is_bw3, andb_false_r.
    destruct (is_black_or_white3 st && is_black_or_white3 bgc); cbn [bind map py_seq_res].
    + (* GRAYSCALE_ALPHA *)
      change (py_index bgc 0) with (nthZ bgc 0). change (py_index bgc 3) with (nthZ bgc 3).
      change (py_index st 0) with (nthZ st 0). change (py_index st 3) with (nthZ st 3).
      destruct (nthZ bgc 0) as [b0|e]; cbn [bind]; [|reflexivity].
      destruct (nthZ bgc 3) as [b3|e]; cbn [bind]; [|reflexivity].
      rewrite py_pack_2. destruct (pack_B 2 [b0; b3]) as [c0|e]; cbn [bind]; [|reflexivity].
      destruct (nthZ st 0) as [s0|e]; cbn [bind]; [|reflexivity].
      destruct (nthZ st 3) as [s3|e]; cbn [bind]; [|reflexivity].
      rewrite py_pack_2. destruct (pack_B 2 [s0; s3]) as [c1|e]; cbn [bind]; [|reflexivity].
      rewrite Htail by reflexivity. reflexivity.
    + (* RGB_ALPHA *)
      change (py_encode_ascii ([62] ++ py_str_int 4 ++ [66])) with (@Ok (list Z) [62; 52; 66]). cbn [bind].
      rewrite !py_pack_4.
      destruct (pack_B 4 bgc) as [c0|e]; cbn [bind]; [|reflexivity].
      destruct (pack_B 4 st) as [c1|e]; cbn [bind]; [|reflexivity].
      rewrite Htail by reflexivity. reflexivity.
  - (* opaque colours *)
    rewrite !src_is_bw3, andb_true_r.
    destruct (is_black_or_white3 stroke && is_black_or_white3 bg1); cbn [bind map py_seq_res].
    + (* BLACKANDWHITE *)
      change (py_index bg1 0) with (nthZ bg1 0). change (py_index stroke 0) with (nthZ stroke 0).
      destruct (nthZ bg1 0) as [b0|e]; cbn [bind]; [|reflexivity].
      rewrite py_pack_1. destruct (pack_B 1 [b0 / 255]) as [c0|e]; cbn [bind]; [|reflexivity].
      destruct (nthZ stroke 0) as [s0|e]; cbn [bind]; [|reflexivity].
      rewrite py_pack_1. destruct (pack_B 1 [s0 / 255]) as [c1|e]; cbn [bind]; [|reflexivity].
      rewrite Htail by reflexivity. reflexivity.
    + (* RGB *)
      change (py_encode_ascii ([62] ++ py_str_int 3 ++ [66])) with (@Ok (list Z) [62; 51; 66]). cbn [bind].
      rewrite !py_pack_3.
      destruct (pack_B 3 bg1) as [c0|e]; cbn [bind]; [|reflexivity].
      destruct (pack_B 3 stroke) as [c1|e]; cbn [bind]; [|reflexivity].
      rewrite Htail by reflexivity. reflexivity.
Qed.

Print Assumptions src_write_pbm_is_model.
Print Assumptions src_write_pam_is_model.
Print Assumptions src_write_ppm_is_model.
