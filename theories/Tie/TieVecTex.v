(* TieVecTex: the mechanically translated segno.writers.write_tex (build/gen/SrcVecTex.v, written by gen/translate_vector.py
   from the current source) is the hand-written model Model/Vector.v write_tex -- for EVERY matrix (any number of rows of any
   lengths, any cell values), matrix size, scale (int or float), border, colour name, unit and url of the model's typed
   domain, the two ValueError cases (scale <= 0, negative border) included.

   Parameters of the translated function (C code, not translated):
   * ext_time_strftime  -- time.strftime(format): arbitrary; the model's opaque `date` is its value on the format string
                           of the source, "%Y-%m-%dT%H:%M:%S" (so a changed format string breaks the bridge);
   * ext_q_repr         -- repr of a float given by its exact value: assumed to print the exact decimal expansion
                           (Vector.float_repr) on the floats THIS run prints ([tex_repr_ok]: the scale and the products
                           coordinate * scale); nothing is assumed for an int scale ([src_write_tex_int]). *)
From Coq Require Import String.
From Coq Require Import ZArith QArith List Bool Lia.
From Segno Require Import Base.PyLite Base.PySem Base.PySemExt Base.PySemGen Base.PySemIO Base.PySemSeg Base.PySemColor Base.PySemVec.
From Segno Require Import Model.Iter Model.Color Model.Vector.
From Segno Require Import Tie.TieUtils Tie.TieUtilsIter Tie.TieWrCommon Tie.TieVecCommon.
From SegnoSrc Require SrcTables.
From SegnoSrc Require Import SrcUtils SrcUtilsIter SrcVecCommon SrcVecTex.
Import ListNotations.
Open Scope Z_scope.

Ltac eval_lit :=
  repeat match goal with
         | |- context [lit ?s] => let v := eval vm_compute in (lit s) in change (lit s) with v
         end.
Ltac norm_app := unfold py_write, py_stream_new; repeat rewrite <- app_assoc; cbn [app].

Lemma flat_map_ext_in {A B} (f g : A -> list B) (l : list A) :
  (forall a, In a l -> f a = g a) -> flat_map f l = flat_map g l.
Proof.
  induction l as [|a r IH]; intros H; cbn [flat_map]; [reflexivity|].
  rewrite (H a (or_introl eq_refl)), IH; [reflexivity|]. intros x Hx. apply H. now right.
Qed.

(* the floats of one run: the scale, and every coordinate times the scale *)
Definition tex_lines (matrix : list (list Z)) (w h : Z) (border : option Z) : list line :=
  let b := Iter.get_border w h border in
  Iter.matrix_to_lines matrix (inject_Z b) (inject_Z (- b)) (-1 # 1)%Q.
Definition tex_repr_ok (ext : Q -> list Z) (matrix : list (list Z)) (w h : Z) (scale : pynum) (border : option Z) : Prop :=
  repr_ok ext scale /\
  forall l, In l (tex_lines matrix w h border) ->
    repr_ok ext (pn_mul (PInt (qz (l_x1 l))) scale) /\ repr_ok ext (pn_mul (PInt (qz (l_x2 l))) scale)
    /\ repr_ok ext (pn_mul (PInt (qz (l_y l))) scale).

Lemma tex_repr_ok_int ext matrix w h s border : tex_repr_ok ext matrix w h (PInt s) border.
Proof. split; [exact I|]. intros l _. repeat split. Qed.

Theorem src_write_tex_is_model :
  forall (ext_q_repr : Q -> list Z) (ext_time_strftime : list Z -> list Z)
         (matrix : list (list Z)) (w h : Z) (scale : pynum) (border : option Z) (dark : option str) (unit : str) (url : option str),
  tex_repr_ok ext_q_repr matrix w h scale border ->
  src_write_tex ext_q_repr ext_time_strftime matrix [w; h] (to_vnum scale) border dark unit url =
  Vector.write_tex matrix w h (ext_time_strftime (lit "%Y-%m-%dT%H:%M:%S")) scale border dark unit url.
Proof.
  intros ext strf matrix w h scale border dark unit url [Hscale Hlines].
  unfold src_write_tex, Vector.write_tex.
  rewrite vnum_q_of, src_check_valid_scale_is_model.
  destruct (Iter.check_valid_scale scale) as [[]|e]; cbn [bind]; [|reflexivity].
  rewrite src_check_valid_border_int.
  destruct (Iter.check_valid_border (option_map PInt border)) as [[]|e]; cbn [bind]; [|reflexivity].
  rewrite src_get_border_is_model. cbn [bind]. cbv zeta.
  unfold tex_lines in Hlines. cbv zeta in Hlines.
  set (b := Iter.get_border w h border) in *.
  change (inject_Z (-1)) with (-1 # 1)%Q.
  rewrite lines_tag_is_model. cbn [bind].
  set (ls := Iter.matrix_to_lines matrix (inject_Z b) (inject_Z (- b)) (-1 # 1)%Q) in *.
  set (g := fun it : (py_vnum * py_vnum) * (py_vnum * py_vnum) =>
              let '((x1, y1), (x2, y2)) := it in
              ([32; 32; 92; 112; 103; 102; 112; 97; 116; 104; 109; 111; 118; 101; 116; 111; 123]
               ++ ([92; 112; 103; 102; 113; 112; 111; 105; 110; 116; 123] ++ py_vnum_str ext (py_vnum_mul x1 (to_vnum scale)) ++ unit
                   ++ [125; 123] ++ py_vnum_str ext (py_vnum_mul y1 (to_vnum scale)) ++ unit ++ [125]) ++ [125; 10])
              ++ ([32; 32; 92; 112; 103; 102; 112; 97; 116; 104; 108; 105; 110; 101; 116; 111; 123]
               ++ ([92; 112; 103; 102; 113; 112; 111; 105; 110; 116; 123] ++ py_vnum_str ext (py_vnum_mul x2 (to_vnum scale)) ++ unit
                   ++ [125; 123] ++ py_vnum_str ext (py_vnum_mul y2 (to_vnum scale)) ++ unit ++ [125]) ++ [125; 10])).
  assert (Hg : flat_map g (map (tag_line false false) ls) = flat_map (tex_line unit scale) ls).
  { rewrite flat_map_concat_map, map_map, <- flat_map_concat_map.
    apply flat_map_ext_in. intros l Hl. destruct (Hlines l Hl) as (H1 & H2 & H3).
    unfold g, tag_line, tex_line, tex_point. rewrite !vnum_tag_int, !vnum_mul_int_pn.
    rewrite !vnum_str_pn by assumption. eval_lit. norm_app. reflexivity. }
  rewrite (vnum_str_pn ext scale Hscale).
  unfold Vector.CREATOR, SrcTables.CREATOR, nl. eval_lit.
  destruct url as [[|cu u]|]; destruct dark as [[|cd d]|]; cbn [lenZ length Z.of_nat Z.eqb negb andb];
    try change (py_list_eqb (cd :: d) [98; 108; 97; 99; 107]) with (str_eqb (cd :: d) [98; 108; 97; 99; 107]);
    try destruct (str_eqb (cd :: d) [98; 108; 97; 99; 107]); cbn [negb andb]; cbv zeta;
    (match goal with
     | |- context [py_for (map (tag_line false false) ls) ?body ?acc] =>
         rewrite (py_for_emit_ok (map (tag_line false false) ls) body g)
           by (intros [[x1 y1] [x2 y2]] acc' _; unfold g, py_write; now rewrite <- app_assoc)
     end);
    rewrite Hg; norm_app; reflexivity.
Qed.

(* an int scale: no hypothesis about repr *)
Corollary src_write_tex_int :
  forall ext_q_repr ext_time_strftime matrix (w h s : Z) border dark unit url,
  src_write_tex ext_q_repr ext_time_strftime matrix [w; h] (PVInt s) border dark unit url =
  Vector.write_tex matrix w h (ext_time_strftime (lit "%Y-%m-%dT%H:%M:%S")) (PInt s) border dark unit url.
Proof. intros. apply (src_write_tex_is_model _ _ _ _ _ (PInt s)). apply tex_repr_ok_int. Qed.

(* the ValueError cases *)
Corollary src_write_tex_bad_scale :
  forall ext_q_repr ext_time_strftime matrix (w h : Z) scale border dark unit url,
  Iter.check_valid_scale scale = Err ValueError ->
  src_write_tex ext_q_repr ext_time_strftime matrix [w; h] (to_vnum scale) border dark unit url = Err ValueError.
Proof.
  intros ext strf matrix w h scale border dark unit url H. unfold src_write_tex.
  rewrite vnum_q_of, src_check_valid_scale_is_model, H. reflexivity.
Qed.
Corollary src_write_tex_bad_border :
  forall ext_q_repr ext_time_strftime matrix (w h : Z) scale (b : Z) dark unit url,
  b < 0 ->
  src_write_tex ext_q_repr ext_time_strftime matrix [w; h] (to_vnum scale) (Some b) dark unit url = Err ValueError.
Proof.
  intros ext strf matrix w h scale b dark unit url H. unfold src_write_tex.
  rewrite vnum_q_of, src_check_valid_scale_is_model.
  destruct (Iter.check_valid_scale scale) as [[]|e] eqn:E; cbn [bind].
  - change (option_map inject_Z (Some b)) with (Some (inject_Z b)). rewrite src_check_valid_border_int_spec.
    destruct (b <? 0) eqn:Eb; [reflexivity|lia].
  - unfold Iter.check_valid_scale in E. destruct (q_lebz (q_of scale) 0); congruence.
Qed.

Print Assumptions src_write_tex_is_model.
Print Assumptions src_write_tex_int.
Print Assumptions src_write_tex_bad_scale.
Print Assumptions src_write_tex_bad_border.
