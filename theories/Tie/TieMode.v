(* Bridge theorems: get_mode_name, is_alphanumeric, is_kanji and find_mode of segno/encoder.py, translated statement by
   statement from the CURRENT source (SegnoSrc.SrcMode, written by gen/translate_seg.py), equal the hand-written model
   (Model/Segment.v) for byte strings of any length.  Typing: `data` is a bytes object, i.e. a [list Z]; the statements
   hold for every list (the items need not even be in range(256)).  No external parameters: the regular expression of
   is_alphanumeric is read from the compiled pattern object (class members) with the fixed semantics
   PySemSeg.py_re_class_plus, `bytes.isdigit` is PySemSeg.py_bytes_isdigit, `next(iter)` is PySemSeg.py_next.
   Re-checked by coqc on every run.  See DESIGN.md 11.9. *)
From Coq Require Import String.
From Coq Require Import ZArith List Bool Lia ZifyBool.
From Segno Require Import Base.PyLite Base.PySem Base.PySemSeg Ref.IsoData Model.Bits Model.Segment.
From Segno Require Import Lemmas.PackLemmas Lemmas.ModeLemmas.
From Segno Require Tie.TieTables.
From Segno Require Import Tie.TieBase.
From SegnoSrc Require SrcTables.
From SegnoSrc Require Import SrcMode.
Import ListNotations.
Open Scope Z_scope.
Ltac Zify.zify_post_hook ::= Z.to_euclidean_division_equations.

(* ------------------------------------------------------------------ get_mode_name *)
(* the first name of MODE_MAPPING (insertion order) that carries the constant *)
Fixpoint mode_name_of (m : Z) (l : list (String.string * Z)) : option String.string :=
  match l with [] => None | (n, v) :: r => if v =? m then Some n else mode_name_of m r end.

Lemma get_mode_name_loop m : forall l,
  py_for l (fun unp (_ : unit) => let '(name, val) := unp in
                                 if val =? m then Ok (CRet name) else Ok (CNext tt)) tt
  = Ok (match mode_name_of m l with Some n => inl n | None => inr tt end).
Proof.
  induction l as [|[n v] r IH]; cbn [py_for mode_name_of]; [reflexivity|].
  destruct (v =? m); [reflexivity|]. exact IH.
Qed.

Theorem src_get_mode_name_spec : forall m,
  src_get_mode_name m = match mode_name_of m MODE_MAPPING with Some n => Ok n | None => Err ValueError end.
Proof.
  intros m. unfold src_get_mode_name. rewrite TieTables.tie_MODE_MAPPING.
  rewrite (get_mode_name_loop m MODE_MAPPING). destruct (mode_name_of m MODE_MAPPING); reflexivity.
Qed.

(* raise ValueError(f'... {get_mode_name(m)} ...'): whatever get_mode_name does, the outcome is ValueError *)
Lemma get_mode_name_in_message {A} m (k : String.string -> res A) :
  (forall n, k n = Err ValueError) -> (do n <- src_get_mode_name m; k n) = Err ValueError.
Proof.
  intros Hk. rewrite src_get_mode_name_spec. destruct (mode_name_of m MODE_MAPPING); cbn [bind]; [apply Hk|reflexivity].
Qed.

(* ------------------------------------------------------------------ is_alphanumeric *)
Lemma memZ_alnum b : memZ b ALPHANUMERIC_CHARS = is_alnum_char b.
Proof.
  apply eq_true_iff_eq. rewrite memZ_In, is_alnum_char_In. reflexivity.
Qed.

Theorem src_is_alphanumeric_is_model : forall data,
  src_is_alphanumeric data = negb (lenZ data =? 0) && forallb is_alnum_char data.
Proof.
  intros data. unfold src_is_alphanumeric, py_re_class_plus.
  (* the class of the compiled pattern is consts.ALPHANUMERIC_CHARS, item by item *)
  match goal with |- context [memZ _ ?cls] => change cls with ALPHANUMERIC_CHARS end.
  f_equal. apply forallb_ext_in. intros b _. apply memZ_alnum.
Qed.

(* ------------------------------------------------------------------ is_kanji *)
Lemma py_range_aux_length n a step : List.length (py_range_aux n a step) = n.
Proof. revert a; induction n as [|n IH]; intros a; cbn [py_range_aux List.length]; [reflexivity|]. now rewrite IH. Qed.

(* the loop of is_kanji: the iterator delivers the bytes in pairs; the loop variable is not used *)
Lemma is_kanji_loop (body : Z -> list Z -> res (ctl bool (list Z))) :
  (forall i it, body i it =
     do (hi, it1) <- py_next it;
     do (lo, it2) <- py_next it1;
     let code := Z.lor (Z.shiftl hi 8) lo in
     if negb (((33088 <=? code) && (code <=? 40956)) || ((57408 <=? code) && (code <=? 60351))) then Ok (CRet false)
     else if negb ((64 <=? Z.land code 255) && (Z.land code 255 <=? 252)) || (Z.land code 255 =? 127) then Ok (CRet false)
     else Ok (CNext it2)) ->
  forall (xs : list Z) (it : list Z), List.length it = (2 * List.length xs)%nat ->
  py_for xs body it = Ok (if all_pairs kanji_pair it then inr [] else inl false).
Proof.
  intros Hbody. induction xs as [|x r IH]; intros it Hlen.
  - destruct it; [reflexivity|discriminate Hlen].
  - destruct it as [|hi [|lo it2]]; cbn [List.length] in Hlen; try lia.
    cbn [py_for]. rewrite Hbody. cbn [py_next bind all_pairs]. cbv zeta. unfold kanji_pair. cbv zeta.
    set (code := Z.lor (Z.shiftl hi 8) lo).
    destruct (((33088 <=? code) && (code <=? 40956)) || ((57408 <=? code) && (code <=? 60351))); cbn [negb andb]; [|reflexivity].
    destruct (64 <=? Z.land code 255); cbn [negb andb orb]; [|reflexivity].
    destruct (Z.land code 255 <=? 252); cbn [negb andb orb]; [|reflexivity].
    destruct (Z.land code 255 =? 127); cbn [negb andb orb]; [reflexivity|].
    apply IH. lia.
Qed.

Lemma even_mod2 n : (n mod 2 =? 0) = Z.even n.
Proof. rewrite <- Z.bit0_mod, Z.bit0_odd, <- Z.negb_even. destruct (Z.even n); reflexivity. Qed.

Theorem src_is_kanji_is_model : forall data, src_is_kanji data = Ok (is_kanji data).
Proof.
  intros data. unfold src_is_kanji. cbv zeta.
  destruct data as [|a r]; [reflexivity|].
  assert (Hne : (lenZ (a :: r) =? 0) = false) by (unfold lenZ; cbn [List.length]; lia).
  rewrite Hne, even_mod2. cbn [negb orb]. unfold is_kanji.
  destruct (Z.even (lenZ (a :: r))) eqn:Ev; cbn [negb andb]; [|reflexivity].
  rewrite py_range3_pos by lia. cbn [bind].
  erewrite is_kanji_loop.
  - unfold py_iter. destruct (all_pairs kanji_pair (a :: r)); reflexivity.
  - intros i it. reflexivity.
  - rewrite py_range_aux_length. unfold py_iter. apply Z.even_spec in Ev. destruct Ev as [k Hk].
    unfold lenZ in Hk |- *. lia.
Qed.

(* ------------------------------------------------------------------ find_mode *)
Theorem src_find_mode_is_model : forall data, src_find_mode data = Ok (find_mode data).
Proof.
  intros data. unfold src_find_mode, find_mode. rewrite src_is_alphanumeric_is_model, src_is_kanji_is_model.
  change (py_bytes_isdigit data) with (negb (lenZ data =? 0) && forallb is_digit data).
  unfold MODE_NUMERIC, MODE_ALPHANUMERIC, MODE_KANJI, MODE_BYTE.
  destruct (negb (lenZ data =? 0) && forallb is_digit data); [reflexivity|].
  destruct (negb (lenZ data =? 0) && forallb is_alnum_char data); [reflexivity|].
  cbn [bind]. destruct (is_kanji data); reflexivity.
Qed.

Print Assumptions src_get_mode_name_spec.
Print Assumptions src_is_alphanumeric_is_model.
Print Assumptions src_is_kanji_is_model.
Print Assumptions src_find_mode_is_model.
