(* Bridge theorem: make_wifi_data of segno/helpers.py, translated statement by statement from the CURRENT source
   (SegnoSrc.SrcHelpersWifi, written by gen/translate_helpers.py), equals the hand-written model (Model/Helpers.v) for all
   arguments of the declared types: ssid a str, password / security a str or None, hidden a bool.
   Parameter: `security.upper()` (Unicode upper-casing is CPython library code) is the function [upper] the translated
   function takes as its first argument -- ANY function: the model takes the result `security.upper()` as an input
   (security_upper), the theorem instantiates it with [upper] applied to the security string.  No hypothesis.
   Re-checked by coqc on every run.  See DESIGN.md 11.13. *)
From Coq Require Import ZArith List Bool Lia.
From Segno Require Import Base.PyLite Base.PySem Base.PySemStr Model.Color Model.Helpers.
From Segno Require Import Tie.TieHelpersEsc.
From SegnoSrc Require Import SrcHelpersEsc SrcHelpersWifi.
Import ListNotations.
Open Scope Z_scope.

Theorem src_make_wifi_data_is_model : forall (upper : list Z -> list Z) ssid password security hidden,
  src_make_wifi_data upper ssid password security hidden
  = make_wifi_data ssid password security (upper (or_empty security)) hidden.
Proof.
  intros upper ssid password security hidden.
  unfold src_make_wifi_data, make_wifi_data, mecard_field. cbv zeta.
  destruct security as [[|c s]|], password as [p|], hidden;
    cbn [py_ostr_truthy truthy py_ostr_get or_empty];
    rewrite ?src_escape_mecard_is_model, ?py_str_eqb_is_model; unfold K_nopass;
    try destruct (str_eqb (c :: s) _); cbn [negb]; rewrite <- ?app_assoc; reflexivity.
Qed.

(* the ASCII instance of the model (security values without non-ASCII letters) *)
Corollary src_make_wifi_data_ascii : forall ssid password security hidden,
  src_make_wifi_data upper_ascii ssid password security hidden = make_wifi_data_ascii ssid password security hidden.
Proof. intros. apply src_make_wifi_data_is_model. Qed.

Print Assumptions src_make_wifi_data_is_model.
