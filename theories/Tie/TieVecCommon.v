(* TieVecCommon: what the bridge files of the translated EPS / PDF / TeX writers share (TieVecTex.v, TieVecPdf.v,
   TieVecEps.v; generated code: build/gen/SrcVecCommon.v, written by gen/translate_vector.py from the current source).

   * [to_vnum]: the model's [pynum] (Model/Iter.v) seen as the translation's [py_vnum] (Base/PySemVec.v);
   * [repr_ok ext n]: the hypothesis about the PARAMETER ext_q_repr (repr of a float: C code) for ONE number -- nothing for
     an int, `ext (Qred q) = Vector.float_repr q` for a float of exact value q, i.e. "CPython prints the exact decimal
     expansion", which is how Model/Vector.v prints floats (its header states the domain where that is CPython);
   * utils.get_symbol_size and writers._valid_width_height_and_border translated at an int-or-float scale are the
     model's, for every matrix size, scale and border (errors included);
   * the typed items of utils.matrix_to_lines ([py_lines_tag]) are the model's lines, for every matrix. *)
From Coq Require Import ZArith QArith List Bool Lia.
From Coq Require PrimFloat.
From Segno Require Import Base.PyLite Base.PySem Base.PySemExt Base.PySemGen Base.PySemIO Base.PySemSeg Base.PySemColor Base.PySemVec.
From Segno Require Import Model.Iter Model.Color Model.Vector.
From Segno Require Lemmas.NetpbmLemmas Tie.TieColor.
From Segno Require Import Tie.TieUtils Tie.TieUtilsIter Tie.TieWrCommon.
From SegnoSrc Require Import SrcUtils SrcUtilsIter SrcColor SrcVecCommon.
Import ListNotations.
Open Scope Z_scope.

(* ------------------------------------------------------------------ numbers *)
Definition to_vnum (n : pynum) : py_vnum := match n with PInt z => PVInt z | PFloat q => PVFlt q end.

Lemma vnum_q_of n : py_vnum_q (to_vnum n) = q_of n.
Proof. now destruct n. Qed.
Lemma vnum_mul_pn a b : py_vnum_mul (to_vnum a) (to_vnum b) = to_vnum (pn_mul a b).
Proof. destruct a, b; reflexivity. Qed.
Lemma vnum_mul_int_pn x s : py_vnum_mul (PVInt x) (to_vnum s) = to_vnum (pn_mul (PInt x) s).
Proof. apply (vnum_mul_pn (PInt x) s). Qed.
Lemma vnum_ne_one s : negb (py_vnum_eqb (to_vnum s) (PVInt 1)) = pn_ne_one s.
Proof. unfold py_vnum_eqb, pn_ne_one, py_q_eq. now rewrite vnum_q_of. Qed.

(* str(int) of PySemIO.v is the model's [dec] *)
Lemma py_dec_digits_dec_fuel f : forall n acc, py_dec_digits f n acc = dec_fuel f n ++ acc.
Proof.
  induction f as [|f IH]; intros n acc; [reflexivity|].
  cbn [py_dec_digits dec_fuel]. destruct (n <? 10).
  - reflexivity.
  - rewrite IH. now rewrite <- app_assoc.
Qed.
Lemma py_str_int_vdec n : py_str_int n = Vector.dec n.
Proof.
  unfold py_str_int, Vector.dec, dec_nat, py_digit_fuel.
  destruct (n <? 0); rewrite py_dec_digits_dec_fuel, app_nil_r; reflexivity.
Qed.

(* repr(float): the parameter prints what the model prints *)
Definition repr_ok (ext : Q -> list Z) (n : pynum) : Prop :=
  match n with PInt _ => True | PFloat q => ext (Qred q) = float_repr q end.
Definition repr_okq (ext : Q -> list Z) (q : Q) : Prop := ext (Qred q) = float_repr q.

Lemma vnum_str_pn ext n : repr_ok ext n -> py_vnum_str ext (to_vnum n) = pn_text n.
Proof. destruct n as [z|q]; cbn [repr_ok to_vnum py_vnum_str pn_text]; [intros _; apply py_str_int_vdec|auto]. Qed.
Lemma vnum_str_int ext z : py_vnum_str ext (PVInt z) = Vector.dec z.
Proof. apply py_str_int_vdec. Qed.
Lemma vnum_str_flt ext q : repr_okq ext q -> py_vnum_str ext (PVFlt q) = float_repr q.
Proof. auto. Qed.

Lemma float_repr_Qeq p q : (p == q)%Q -> float_repr p = float_repr q.
Proof. intros H. unfold float_repr. now rewrite (Qred_complete p q H). Qed.
Lemma repr_okq_Qeq ext p q : (p == q)%Q -> repr_okq ext q -> repr_okq ext p.
Proof. unfold repr_okq. intros H Hq. now rewrite (Qred_complete p q H), (float_repr_Qeq p q H). Qed.

(* ------------------------------------------------------------------ get_symbol_size / _valid_width_height_and_border *)
Theorem src_get_symbol_size_v_is_model : forall (w h : Z) (scale : pynum) (border : option Z),
  src_get_symbol_size_v [w; h] (to_vnum scale) border =
  let b := Iter.get_border w h border in
  Ok [to_vnum (pn_mul (PInt (w + 2 * b)) scale); to_vnum (pn_mul (PInt (h + 2 * b)) scale)].
Proof.
  intros w h scale border. unfold src_get_symbol_size_v, Iter.get_border.
  destruct border as [b|].
  - cbn [bind py_unpack2]. now rewrite !vnum_mul_int_pn.
  - rewrite src_get_default_border_size_is_model. cbn [bind py_unpack2]. now rewrite !vnum_mul_int_pn.
Qed.

(* the size at scale 1 and border 0, as write_eps / write_pdf ask for it *)
Lemma src_get_symbol_size_v_unit w h :
  src_get_symbol_size_v [w; h] (PVInt 1) (Some 0) = Ok [PVInt (w + 2 * 0) ; PVInt (h + 2 * 0)].
Proof.
  change (PVInt 1) with (to_vnum (PInt 1)). rewrite src_get_symbol_size_v_is_model.
  cbn [Iter.get_border pn_mul to_vnum]. now rewrite !Z.mul_1_r.
Qed.

Definition whb_v (p : pynum * pynum * Z) : py_vnum * py_vnum * Z :=
  let '(W, H, b) := p in (to_vnum W, to_vnum H, b).

Theorem src_valid_whb_v_is_model : forall (w h : Z) (scale : pynum) (border : option Z),
  src__valid_width_height_and_border_v [w; h] (to_vnum scale) border =
  do p <- Vector.valid_width_height_and_border w h scale border; Ok (whb_v p).
Proof.
  intros w h scale border. unfold src__valid_width_height_and_border_v, Vector.valid_width_height_and_border.
  rewrite vnum_q_of, src_check_valid_scale_is_model.
  destruct (Iter.check_valid_scale scale) as [[]|e]; cbn [bind]; [|reflexivity].
  rewrite src_check_valid_border_int.
  destruct (Iter.check_valid_border (option_map PInt border)) as [[]|e]; cbn [bind]; [|reflexivity].
  rewrite src_get_border_is_model. cbn [bind].
  rewrite src_get_symbol_size_v_is_model. cbn [Iter.get_border bind py_unpack2 whb_v]. reflexivity.
Qed.

(* ------------------------------------------------------------------ the typed lines *)
Definition tag_line (fx fy : bool) (l : line) : (py_vnum * py_vnum) * (py_vnum * py_vnum) :=
  ((py_vnum_tag fx (l_x1 l), py_vnum_tag fy (l_y l)), (py_vnum_tag fx (l_x2 l), py_vnum_tag fy (l_y l))).

Theorem lines_tag_is_model : forall (fx fy : bool) (matrix : list (list Z)) (x y incby : Q),
  py_lines_tag fx fy (src_matrix_to_lines matrix x y incby) = Ok (map (tag_line fx fy) (Iter.matrix_to_lines matrix x y incby)).
Proof.
  intros fx fy matrix x y incby. unfold py_lines_tag. rewrite src_matrix_to_lines_is_model. cbn [bind].
  rewrite map_map. apply py_seq_res_map_ok. intros l _. reflexivity.
Qed.

(* an int coordinate is printed as the model prints it: dec (qz ..) *)
Lemma vnum_tag_int q : py_vnum_tag false q = PVInt (qz q).
Proof. reflexivity. Qed.

(* ------------------------------------------------------------------ 1. the colour operands: 1 / 255.0 * c *)
Definition k255 : py_float := PrimFloat.div (py_float_of_Z 1) (py_float_of_Z 255).
Definition c255 (c : Z) : py_float := py_float_mul k255 (py_float_of_Z c).

Lemma float_of_int_1 : py_float_of_int 1 = Ok (py_float_of_Z 1).
Proof. vm_compute. reflexivity. Qed.
Lemma float_div_255 : py_float_div (py_float_of_Z 1) (py_float_of_Z 255) = Ok k255.
Proof. vm_compute. reflexivity. Qed.
Lemma float_of_int_byte c : 0 <= c <= 255 -> py_float_of_int c = Ok (py_float_of_Z c).
Proof. intros H. unfold py_float_of_int. destruct (Z.abs c <? 9223372036854775808) eqn:E; [reflexivity|lia]. Qed.

Lemma to_float_int c : 0 <= c <= 255 ->
  (do t1 <- py_float_of_int 1; do t2 <- py_float_div t1 (py_float_of_Z 255); do t3 <- py_float_of_int c; Ok (py_float_mul t2 t3))
  = Ok (c255 c).
Proof. intros H. rewrite float_of_int_1. cbn [bind]. rewrite float_div_255. cbn [bind]. rewrite (float_of_int_byte c H). reflexivity. Qed.

Lemma nthZ3 {A} (a b c : A) : nthZ [a; b; c] 0 = Ok a /\ nthZ [a; b; c] 1 = Ok b /\ nthZ [a; b; c] 2 = Ok c.
Proof. repeat split. Qed.

Lemma rgb3 c rgb : color_to_rgb c = Ok rgb -> exists r g b, rgb = [r; g; b] /\ 0 <= r <= 255 /\ 0 <= g <= 255 /\ 0 <= b <= 255.
Proof.
  intros H. destruct (NetpbmLemmas.color_to_rgb_ok c rgb H) as [Hl Hb].
  destruct rgb as [|r [|g [|b [|x t]]]]; try (unfold lenZ in Hl; cbn [length] in Hl; lia).
  exists r, g, b. inversion Hb as [|? ? Hr Hb1]; subst. inversion Hb1 as [|? ? Hg Hb2]; subst. inversion Hb2 as [|? ? Hbb _]; subst.
  unfold NetpbmLemmas.byte_val in *. repeat split; lia.
Qed.

(* ------------------------------------------------------------------ 2. ASCII: the source encodes, the model does not *)
Definition all_ascii (s : list Z) : Prop := forallb py_is_ascii s = true.
Lemma ascii_app a b : all_ascii a -> all_ascii b -> all_ascii (a ++ b).
Proof. unfold all_ascii. intros Ha Hb. now rewrite forallb_app, Ha, Hb. Qed.
Lemma ascii_dec n : all_ascii (Vector.dec n).
Proof. unfold all_ascii. rewrite <- py_str_int_vdec. apply py_str_int_ascii. Qed.
Lemma ascii_repeat48 k : all_ascii (repeat 48 k).
Proof. induction k as [|k IH]; [reflexivity|]. unfold all_ascii in *. cbn [repeat forallb]. now rewrite IH. Qed.
Lemma ascii_pad0 k s : all_ascii s -> all_ascii (pad0 k s).
Proof. intros H. unfold pad0. apply ascii_app; [apply ascii_repeat48|assumption]. Qed.
Lemma ascii_float_repr q : all_ascii (float_repr q).
Proof.
  unfold float_repr. cbv zeta.
  repeat apply ascii_app; try apply ascii_dec; try reflexivity.
  - destruct (_ <? 0); reflexivity.
  - destruct (_ =? 0); [reflexivity|]. apply ascii_pad0, ascii_dec.
Qed.
Lemma ascii_pn_text n : all_ascii (pn_text n).
Proof. destruct n; [apply ascii_dec|apply ascii_float_repr]. Qed.
Lemma ascii_fmt_0d p w n : all_ascii (py_fmt_0d p w n).
Proof.
  unfold py_fmt_0d. cbv zeta. repeat apply ascii_app.
  - destruct (n <? 0); [reflexivity|]. destruct p; reflexivity.
  - apply ascii_repeat48.
  - apply py_str_int_ascii.
Qed.
Lemma write_string_ok (f s : list Z) : all_ascii s -> (do t <- py_encode_ascii s; Ok (py_write f t)) = Ok (f ++ s).
Proof. intros H. now rewrite (py_encode_ascii_ok s H). Qed.

(* ------------------------------------------------------------------ 3. format(n, '0<w>d') is pad0 *)
Lemma fmt_0d_pad0 w n : 0 <= n -> py_fmt_0d false w n = pad0 (Z.to_nat w) (Vector.dec n).
Proof.
  intros H. unfold py_fmt_0d, pad0. cbv zeta.
  destruct (n <? 0) eqn:E; [lia|]. rewrite Z.abs_eq by assumption. rewrite py_str_int_vdec. cbn [app].
  f_equal. f_equal. unfold lenZ. cbn [length]. lia.
Qed.

(* ------------------------------------------------------------------ 4. ' '.join(cmds): the commands are themselves joined words *)
Lemma py_join_vjoin sep l : py_join sep l = Vector.join sep l.
Proof. reflexivity. Qed.
Lemma join_app_ne sep (a b : list str) : a <> [] -> b <> [] -> Vector.join sep (a ++ b) = Vector.join sep a ++ sep ++ Vector.join sep b.
Proof.
  induction a as [|x [|y r] IH]; intros Ha Hb; [congruence| |].
  - destruct b; [congruence|reflexivity].
  - change (Vector.join sep ((x :: y :: r) ++ b)) with (x ++ sep ++ Vector.join sep ((y :: r) ++ b)).
    rewrite IH by congruence. change (Vector.join sep (x :: y :: r)) with (x ++ sep ++ Vector.join sep (y :: r)).
    now rewrite <- !app_assoc.
Qed.
Lemma join_chunks sep (wss : list (list str)) : Forall (fun ws => ws <> []) wss ->
  Vector.join sep (map (Vector.join sep) wss) = Vector.join sep (concat wss).
Proof.
  induction wss as [|ws [|ws2 r] IH]; intros H; [reflexivity| |].
  - cbn [map concat Vector.join]. now rewrite app_nil_r.
  - inversion H as [|? ? Hw Hr]; subst.
    change (Vector.join sep (map (Vector.join sep) (ws :: ws2 :: r)))
      with (Vector.join sep ws ++ sep ++ Vector.join sep (map (Vector.join sep) (ws2 :: r))).
    rewrite IH by assumption.
    change (concat (ws :: ws2 :: r)) with (ws ++ concat (ws2 :: r)).
    rewrite (join_app_ne sep ws (concat (ws2 :: r))); [reflexivity|assumption|].
    inversion Hr; subst. cbn [concat]. destruct ws2; [congruence|discriminate].
Qed.

(* the tuple of floats that to_pdf_color / rgb_to_floats return for a colour of the model's type: the translated nested
   functions, inlined in the generated definitions (the lambda below is their text) *)
Lemma src_to_floats_is_model (c : pycolor) :
  (do t101 <- src__color_to_rgb (TieColor.to_py_color c);
   do t103 <- py_seq_res (map (fun i : py_cnum =>
       do t102 <- match i with
                  | PyNInt c0 => do t201 <- py_float_of_int 1; do t202 <- py_float_div t201 (py_float_of_Z 255);
                                 do t203 <- py_float_of_int c0; Ok (py_float_mul t202 t203)
                  | PyNFlt c0 => if negb (py_float_leb (py_float_of_Z 0) c0 && py_float_leb c0 (py_float_of_Z 1)) then Err ValueError else Ok c0
                  end; Ok t102) t101);
   Ok t103)
  = do rgb <- color_to_rgb c; Ok (map c255 rgb).
Proof.
  rewrite TieColor.src_color_to_rgb_is_model.
  destruct (color_to_rgb c) as [rgb|e] eqn:E; cbn [bind]; [|reflexivity].
  destruct (rgb3 c rgb E) as (r & g & b & -> & Hr & Hg & Hb).
  cbn [map py_seq_res bind]. rewrite !to_float_int by assumption. reflexivity.
Qed.

Print Assumptions src_get_symbol_size_v_is_model.
Print Assumptions src_valid_whb_v_is_model.
Print Assumptions lines_tag_is_model.
Print Assumptions py_str_int_vdec.
Print Assumptions src_to_floats_is_model.
