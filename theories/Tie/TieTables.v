(* Bridge: every table of the CURRENT source (regenerated SegnoSrc.SrcTables) equals the frozen reference.
   One lemma per table so that a failure names the table. Re-checked by coqc on every run. *)
From Coq Require Import ZArith List Bool String.
From Segno Require Ref.IsoData.
From SegnoSrc Require SrcTables.

Lemma tie_MODE_NUMERIC : SrcTables.MODE_NUMERIC = IsoData.MODE_NUMERIC. Proof. vm_compute. reflexivity. Qed.
Lemma tie_MODE_ALPHANUMERIC : SrcTables.MODE_ALPHANUMERIC = IsoData.MODE_ALPHANUMERIC. Proof. vm_compute. reflexivity. Qed.
Lemma tie_MODE_STRUCTURED_APPEND : SrcTables.MODE_STRUCTURED_APPEND = IsoData.MODE_STRUCTURED_APPEND. Proof. vm_compute. reflexivity. Qed.
Lemma tie_MODE_BYTE : SrcTables.MODE_BYTE = IsoData.MODE_BYTE. Proof. vm_compute. reflexivity. Qed.
Lemma tie_MODE_ECI : SrcTables.MODE_ECI = IsoData.MODE_ECI. Proof. vm_compute. reflexivity. Qed.
Lemma tie_MODE_KANJI : SrcTables.MODE_KANJI = IsoData.MODE_KANJI. Proof. vm_compute. reflexivity. Qed.
Lemma tie_MODE_HANZI : SrcTables.MODE_HANZI = IsoData.MODE_HANZI. Proof. vm_compute. reflexivity. Qed.
Lemma tie_VERSION_M1 : SrcTables.VERSION_M1 = IsoData.VERSION_M1. Proof. vm_compute. reflexivity. Qed.
Lemma tie_VERSION_M2 : SrcTables.VERSION_M2 = IsoData.VERSION_M2. Proof. vm_compute. reflexivity. Qed.
Lemma tie_VERSION_M3 : SrcTables.VERSION_M3 = IsoData.VERSION_M3. Proof. vm_compute. reflexivity. Qed.
Lemma tie_VERSION_M4 : SrcTables.VERSION_M4 = IsoData.VERSION_M4. Proof. vm_compute. reflexivity. Qed.
Lemma tie_ERROR_LEVEL_L : SrcTables.ERROR_LEVEL_L = IsoData.ERROR_LEVEL_L. Proof. vm_compute. reflexivity. Qed.
Lemma tie_ERROR_LEVEL_M : SrcTables.ERROR_LEVEL_M = IsoData.ERROR_LEVEL_M. Proof. vm_compute. reflexivity. Qed.
Lemma tie_ERROR_LEVEL_Q : SrcTables.ERROR_LEVEL_Q = IsoData.ERROR_LEVEL_Q. Proof. vm_compute. reflexivity. Qed.
Lemma tie_ERROR_LEVEL_H : SrcTables.ERROR_LEVEL_H = IsoData.ERROR_LEVEL_H. Proof. vm_compute. reflexivity. Qed.
Lemma tie_VERSION_RANGE_01_09 : SrcTables.VERSION_RANGE_01_09 = IsoData.VERSION_RANGE_01_09. Proof. vm_compute. reflexivity. Qed.
Lemma tie_VERSION_RANGE_10_26 : SrcTables.VERSION_RANGE_10_26 = IsoData.VERSION_RANGE_10_26. Proof. vm_compute. reflexivity. Qed.
Lemma tie_VERSION_RANGE_27_40 : SrcTables.VERSION_RANGE_27_40 = IsoData.VERSION_RANGE_27_40. Proof. vm_compute. reflexivity. Qed.
Lemma tie_TYPE_FINDER_PATTERN_LIGHT : SrcTables.TYPE_FINDER_PATTERN_LIGHT = IsoData.TYPE_FINDER_PATTERN_LIGHT. Proof. vm_compute. reflexivity. Qed.
Lemma tie_TYPE_FINDER_PATTERN_DARK : SrcTables.TYPE_FINDER_PATTERN_DARK = IsoData.TYPE_FINDER_PATTERN_DARK. Proof. vm_compute. reflexivity. Qed.
Lemma tie_TYPE_SEPARATOR : SrcTables.TYPE_SEPARATOR = IsoData.TYPE_SEPARATOR. Proof. vm_compute. reflexivity. Qed.
Lemma tie_TYPE_ALIGNMENT_PATTERN_LIGHT : SrcTables.TYPE_ALIGNMENT_PATTERN_LIGHT = IsoData.TYPE_ALIGNMENT_PATTERN_LIGHT. Proof. vm_compute. reflexivity. Qed.
Lemma tie_TYPE_ALIGNMENT_PATTERN_DARK : SrcTables.TYPE_ALIGNMENT_PATTERN_DARK = IsoData.TYPE_ALIGNMENT_PATTERN_DARK. Proof. vm_compute. reflexivity. Qed.
Lemma tie_TYPE_TIMING_LIGHT : SrcTables.TYPE_TIMING_LIGHT = IsoData.TYPE_TIMING_LIGHT. Proof. vm_compute. reflexivity. Qed.
Lemma tie_TYPE_TIMING_DARK : SrcTables.TYPE_TIMING_DARK = IsoData.TYPE_TIMING_DARK. Proof. vm_compute. reflexivity. Qed.
Lemma tie_TYPE_FORMAT_LIGHT : SrcTables.TYPE_FORMAT_LIGHT = IsoData.TYPE_FORMAT_LIGHT. Proof. vm_compute. reflexivity. Qed.
Lemma tie_TYPE_FORMAT_DARK : SrcTables.TYPE_FORMAT_DARK = IsoData.TYPE_FORMAT_DARK. Proof. vm_compute. reflexivity. Qed.
Lemma tie_TYPE_VERSION_LIGHT : SrcTables.TYPE_VERSION_LIGHT = IsoData.TYPE_VERSION_LIGHT. Proof. vm_compute. reflexivity. Qed.
Lemma tie_TYPE_VERSION_DARK : SrcTables.TYPE_VERSION_DARK = IsoData.TYPE_VERSION_DARK. Proof. vm_compute. reflexivity. Qed.
Lemma tie_TYPE_DARKMODULE : SrcTables.TYPE_DARKMODULE = IsoData.TYPE_DARKMODULE. Proof. vm_compute. reflexivity. Qed.
Lemma tie_TYPE_DATA_LIGHT : SrcTables.TYPE_DATA_LIGHT = IsoData.TYPE_DATA_LIGHT. Proof. vm_compute. reflexivity. Qed.
Lemma tie_TYPE_DATA_DARK : SrcTables.TYPE_DATA_DARK = IsoData.TYPE_DATA_DARK. Proof. vm_compute. reflexivity. Qed.
Lemma tie_TYPE_QUIET_ZONE : SrcTables.TYPE_QUIET_ZONE = IsoData.TYPE_QUIET_ZONE. Proof. vm_compute. reflexivity. Qed.
Lemma tie_DEFAULT_BYTE_ENCODING : SrcTables.DEFAULT_BYTE_ENCODING = IsoData.DEFAULT_BYTE_ENCODING. Proof. vm_compute. reflexivity. Qed.
Lemma tie_KANJI_ENCODING : SrcTables.KANJI_ENCODING = IsoData.KANJI_ENCODING. Proof. vm_compute. reflexivity. Qed.
Lemma tie_HANZI_ENCODING : SrcTables.HANZI_ENCODING = IsoData.HANZI_ENCODING. Proof. vm_compute. reflexivity. Qed.
Lemma tie_ALPHANUMERIC_CHARS : SrcTables.ALPHANUMERIC_CHARS = IsoData.ALPHANUMERIC_CHARS. Proof. vm_compute. reflexivity. Qed.
Lemma tie_MICRO_VERSIONS : SrcTables.MICRO_VERSIONS = IsoData.MICRO_VERSIONS. Proof. vm_compute. reflexivity. Qed.
Lemma tie_MODE_TO_MICRO_MODE_MAPPING : SrcTables.MODE_TO_MICRO_MODE_MAPPING = IsoData.MODE_TO_MICRO_MODE_MAPPING. Proof. vm_compute. reflexivity. Qed.
Lemma tie_ERROR_LEVEL_TO_MICRO_MAPPING : SrcTables.ERROR_LEVEL_TO_MICRO_MAPPING = IsoData.ERROR_LEVEL_TO_MICRO_MAPPING. Proof. vm_compute. reflexivity. Qed.
Lemma tie_MODE_MAPPING : SrcTables.MODE_MAPPING = IsoData.MODE_MAPPING. Proof. vm_compute. reflexivity. Qed.
Lemma tie_ERROR_MAPPING : SrcTables.ERROR_MAPPING = IsoData.ERROR_MAPPING. Proof. vm_compute. reflexivity. Qed.
Lemma tie_MICRO_VERSION_MAPPING : SrcTables.MICRO_VERSION_MAPPING = IsoData.MICRO_VERSION_MAPPING. Proof. vm_compute. reflexivity. Qed.
Lemma tie_ECI_ASSIGNMENT_NUM : SrcTables.ECI_ASSIGNMENT_NUM = IsoData.ECI_ASSIGNMENT_NUM. Proof. vm_compute. reflexivity. Qed.
Lemma tie_SUPPORTED_MODES : SrcTables.SUPPORTED_MODES = IsoData.SUPPORTED_MODES. Proof. vm_compute. reflexivity. Qed.
Lemma tie_TERMINATOR_LENGTH : SrcTables.TERMINATOR_LENGTH = IsoData.TERMINATOR_LENGTH. Proof. vm_compute. reflexivity. Qed.
Lemma tie_CHAR_COUNT_INDICATOR_LENGTH : SrcTables.CHAR_COUNT_INDICATOR_LENGTH = IsoData.CHAR_COUNT_INDICATOR_LENGTH. Proof. vm_compute. reflexivity. Qed.
Lemma tie_SYMBOL_CAPACITY : SrcTables.SYMBOL_CAPACITY = IsoData.SYMBOL_CAPACITY. Proof. vm_compute. reflexivity. Qed.
Lemma tie_ECC : SrcTables.ECC = IsoData.ECC. Proof. vm_compute. reflexivity. Qed.
Lemma tie_FORMAT_INFO : SrcTables.FORMAT_INFO = IsoData.FORMAT_INFO. Proof. vm_compute. reflexivity. Qed.
Lemma tie_FORMAT_INFO_MICRO : SrcTables.FORMAT_INFO_MICRO = IsoData.FORMAT_INFO_MICRO. Proof. vm_compute. reflexivity. Qed.
Lemma tie_VERSION_INFO : SrcTables.VERSION_INFO = IsoData.VERSION_INFO. Proof. vm_compute. reflexivity. Qed.
Lemma tie_ALIGNMENT_POS : SrcTables.ALIGNMENT_POS = IsoData.ALIGNMENT_POS. Proof. vm_compute. reflexivity. Qed.
Lemma tie_GEN_POLY : SrcTables.GEN_POLY = IsoData.GEN_POLY. Proof. vm_compute. reflexivity. Qed.
Lemma tie_GALIOS_LOG : SrcTables.GALIOS_LOG = IsoData.GALIOS_LOG. Proof. vm_compute. reflexivity. Qed.
Lemma tie_GALIOS_EXP : SrcTables.GALIOS_EXP = IsoData.GALIOS_EXP. Proof. vm_compute. reflexivity. Qed.
Lemma tie_FINDER_PATTERN : SrcTables.FINDER_PATTERN = IsoData.FINDER_PATTERN. Proof. vm_compute. reflexivity. Qed.
Lemma tie_NAME2RGB : SrcTables.NAME2RGB = IsoData.NAME2RGB. Proof. vm_compute. reflexivity. Qed.
Lemma tie_ALPHA_COMMONS : SrcTables.ALPHA_COMMONS = IsoData.ALPHA_COMMONS. Proof. vm_compute. reflexivity. Qed.
Lemma tie_VALID_SERIALIZERS : SrcTables.VALID_SERIALIZERS = IsoData.VALID_SERIALIZERS. Proof. vm_compute. reflexivity. Qed.
Lemma tie_CREATOR : SrcTables.CREATOR = IsoData.CREATOR. Proof. vm_compute. reflexivity. Qed.
