(* Bridge theorem: the BODY of encode_sequence of segno/encoder.py, translated statement by statement from the CURRENT
   source (SegnoSrc.SrcSeqBody, written by gen/translate_seqbody.py) for content given as bytes and error, version, mode,
   mask, symbol_count given as None or ints, equals the hand-written model Model/Sequence.v [encode_sequence] after the
   normalisers of Model/Args.v: every argument check (Micro QR version, neither version nor symbol_count, symbol_count
   outside 1 .. 16, content shorter than symbol_count, more than one mode, more than 16 symbols -> DataOverflowError) is
   made with the same exception, the single-symbol shortcut is taken under the same condition (`try: find_version ..
   except DataOverflowError: pass`), and every symbol is the model's [encode_core] of the same chunk with the same
   Structured Append header -- through the TRANSLATED _encode (Tie/TieEncodeFinal.v src_encode_is_encode_core).  The bridge
   holds for the code AS IT IS: known finding D14 (the estimate of number_of_symbols_by_version can be too small) is in
   both sides ([d14_on_translated_sequence]).  Then [translated_sequence_c08]: the model theorem
   Lemmas/SeqLemmas.v C08_model_multi applies to the symbols the TRANSLATED encode_sequence returns.
   Re-checked by coqc on every run.  See DESIGN.md 11.19. *)
From Coq Require Import String.
From Coq Require Import ZArith List Bool Lia ZifyBool.
From Segno Require Import Base.PyLite Base.PySem Base.PySemSeg Base.PySemGlue Base.PySemSeqBody Ref.IsoData Model.Bits
  Model.Segment Model.Version Model.Stream Model.Matrix Model.Encode Model.Color Model.Args Model.Sequence.
From Segno Require Lemmas.SeqLemmas.
From Segno Require Tie.TieTables.
From Segno Require Import Tie.TieBase Tie.TieVersion Tie.TieFit Tie.TieMode Tie.TieSegMake Tie.TieSegments Tie.TieNorm Tie.TieSeq.
From Segno Require Import Tie.TieMaskScores Tie.TieEncode Tie.TieEncodeFinal Tie.TieEncodeTop.
From SegnoSrc Require SrcTables.
From SegnoSrc Require Import SrcVersion SrcFit SrcMode SrcSegMake SrcEncode SrcMaskScores SrcSegments SrcNorm SrcSeq SrcSeqBody.
Import ListNotations.
Open Scope Z_scope.

Definition py_code := (list (list Z) * Z * option Z * Z * py_segs)%type.

(* ------------------------------------------------------------------ 0. the model with raw arguments *)
(* encoder.encode_sequence with raw (None-or-int) arguments: the normalisers of Model/Args.v, then Model/Sequence.v.
   (In the Python code the two version / symbol_count checks come between normalize_version and normalize_errorlevel;
   all of these can only fail with ValueError, so the order is not observable -- proved below, not assumed.) *)
Definition encode_sequence_args (content : list Z) (error version mode mask : option Z) (encoding : option enc)
           (eci boost : bool) (symbol_count : option Z) : res (list code) :=
  do version <- normalize_version (pyval_of_oz version);
  do error <- normalize_errorlevel (pyval_of_oz error) true;
  do mode <- normalize_mode (pyval_of_oz mode);
  Sequence.encode_sequence (SBytes content) error version mode mask encoding eci boost symbol_count.

(* the remaining assumed callee (codecs.lookup inside get_eci_assignment_number), for every segment make_segment can
   build from bytes with this `encoding` argument: the segment of the complete content and the segment of every chunk *)
Definition seq_lookup_agrees (ext_eci : option String.string -> res Z) (encoding : option enc) : Prop :=
  forall (data : list Z) (m : option Z) (s : segment),
    make_segment (PBytes data) m encoding = Ok s -> ext_eci (option_map e_name (s_enc s)) = eci_number (s_enc s).

(* ------------------------------------------------------------------ 1. the generated text, restated *)
(* the multi-symbol tail as it is generated for the branch `symbol_count is None` (twice: after the handler of the
   `try`, and when the single symbol does not fit the requested version) *)
Definition src_tail_version (ext_get_eci_assignment_number : option String.string -> res Z)
    (ext_evaluate_mask : list (list Z) -> Z -> Z -> res Z) (content : list Z) (version : option Z) (error : Z)
    (mask : option Z) (encoding : option String.string) (eci boost_error : bool) (segments : py_segs) : res (list py_code) :=
 (do _ <- (if (Z.gtb (lenZ (segs_modes segments)) 1)
 then Err ValueError
 else (Ok tt));
 (do t'19 <- (py_index (segs_modes segments) 0);
 (let mode := t'19 in
 (do t'20 <- (src_calc_structured_append_parity content (if (Z.eqb mode 13 (* consts.MODE_HANZI *)) then (Some SrcTables.HANZI_ENCODING) else encoding));
 (let sa_parity_data := t'20 in
 (let num_symbols := 16 in
 (do num_symbols <- (match version with
 | Some version => (do t'21 <- (src_number_of_symbols_by_version encoding eci content version (Some error) mode);
 (let num_symbols := t'21 in
 (Ok num_symbols)))
 | None => (Ok num_symbols)
 end);
 (do _ <- (if (Z.gtb num_symbols 16)
 then Err DataOverflow
 else (Ok tt));
 (do t'22 <- (src_divide_into_chunks content num_symbols);
 (let chunks := t'22 in
 (let sa_total'23 := (Z.sub (lenZ chunks) 1) in
 (let sa_parity'23 := sa_parity_data in
 (do t'27 <- (py_seq_res (map (fun '(i, chunk) => (do t'24 <- (src_one_item_segments encoding chunk mode);
 (do t'25 <- (py_arg_int version);
 (do t'26 <- (src__encode ext_get_eci_assignment_number ext_evaluate_mask t'24 (Some error) t'25 mask eci boost_error (Some (let '(number, total, parity) := (i, sa_total'23, sa_parity'23) in [3 (* consts.MODE_STRUCTURED_APPEND *); number; total; parity])));
 (Ok t'26))))) (py_enumerate chunks)));
 Ok t'27))))))))))))).

(* the multi-symbol tail as it is generated for the branch where symbol_count is an int *)
Definition src_tail_count (ext_get_eci_assignment_number : option String.string -> res Z)
    (ext_evaluate_mask : list (list Z) -> Z -> Z -> res Z) (content : list Z) (version : option Z) (error : Z)
    (mask : option Z) (encoding : option String.string) (eci boost_error : bool) (segments : py_segs) (symbol_count : Z)
    : res (list py_code) :=
 (do _ <- (if (Z.gtb (lenZ (segs_modes segments)) 1)
 then Err ValueError
 else (Ok tt));
 (do t'7 <- (py_index (segs_modes segments) 0);
 (let mode := t'7 in
 (do _ <- (if (Z.ltb (lenZ content) symbol_count)
 then Err ValueError
 else (Ok tt));
 (do t'8 <- (src_calc_structured_append_parity content (if (Z.eqb mode 13 (* consts.MODE_HANZI *)) then (Some SrcTables.HANZI_ENCODING) else encoding));
 (let sa_parity_data := t'8 in
 (let num_symbols := (py_z_or symbol_count 16) in
 (do num_symbols <- (match version with
 | Some version => (do t'9 <- (src_number_of_symbols_by_version encoding eci content version (Some error) mode);
 (let num_symbols := t'9 in
 (Ok num_symbols)))
 | None => (Ok num_symbols)
 end);
 (do _ <- (if (Z.gtb num_symbols 16)
 then Err DataOverflow
 else (Ok tt));
 (do t'10 <- (src_divide_into_chunks content num_symbols);
 (let chunks := t'10 in
 (do t'13 <- (py_seq_res (map (fun chunk => (do t'11 <- (src_one_item_segments encoding chunk mode);
 (do t'12 <- (src_find_version t'11 (Some error) eci (Some false) true);
 (Ok t'12)))) chunks));
 (do t'14 <- (py_max_list t'13);
 (let version := t'14 in
 (let sa_total'15 := (Z.sub (lenZ chunks) 1) in
 (let sa_parity'15 := sa_parity_data in
 (do t'18 <- (py_seq_res (map (fun '(i, chunk) => (do t'16 <- (src_one_item_segments encoding chunk mode);
 (do t'17 <- (src__encode ext_get_eci_assignment_number ext_evaluate_mask t'16 (Some error) version mask eci boost_error (Some (let '(number, total, parity) := (i, sa_total'15, sa_parity'15) in [3 (* consts.MODE_STRUCTURED_APPEND *); number; total; parity])));
 (Ok t'17)))) (py_enumerate chunks)));
 Ok t'18))))))))))))))))).

(* the generated text of src_encode_sequence with the three copies of the tail replaced by the two definitions above;
   checked against the generated text by conversion below (this is where a textual change of encode_sequence is caught
   first, behaviour-preserving ones included: conservative) *)
Definition src_encode_sequence_restated (ext_get_eci_assignment_number : option String.string -> res Z)
    (ext_evaluate_mask : list (list Z) -> Z -> Z -> res Z) (content : list Z) (error version mode mask : option Z)
    (encoding : option String.string) (eci boost_error : bool) (symbol_count : option Z) : res (list py_code) :=
 (do t'1 <- (src_normalize_version_int version);
 (let version := t'1 in
 (do _ <- (match version with
 | Some version => (do _ <- (if (Z.ltb version 1)
 then (do t'2 <- (src_get_version_name_effect (Some version));
 Err ValueError)
 else (Ok tt));
 (Ok tt))
 | None => (do _ <- (match symbol_count with
 | Some symbol_count => (Ok tt)
 | None => Err ValueError
 end);
 (Ok tt))
 end);
 (do _ <- (match symbol_count with
 | Some symbol_count => (do _ <- (if (negb (andb (Z.leb 1 symbol_count) (Z.leb symbol_count 16)))
 then Err ValueError
 else (Ok tt));
 (Ok tt))
 | None => (Ok tt)
 end);
 (do t'3 <- (src_normalize_errorlevel_int error true);
 (let error := t'3 in
 (let error := (match error with
 | Some error => error
 | None => (let error := 1 (* consts.ERROR_LEVEL_L *) in
 error)
 end) in
 (do t'4 <- (src_normalize_mode_int mode);
 (let mode := t'4 in
 (do t'5 <- (src_normalize_mask_int mask false);
 (let mask := t'5 in
 (do t'6 <- (src_prepare_data_bytes content mode encoding);
 (let segments := t'6 in
 (match symbol_count with
 | Some symbol_count =>
     src_tail_count ext_get_eci_assignment_number ext_evaluate_mask content version error mask encoding eci boost_error
                    segments symbol_count
 | None => (match ((do t'18 <- (src_find_version segments (Some error) eci (Some false) false);
 (let guessed_version := t'18 in
 Ok (CNext guessed_version))) : res (ctl void _)) with
 | Err DataOverflow =>
     src_tail_version ext_get_eci_assignment_number ext_evaluate_mask content version error mask encoding eci boost_error
                      segments
 | Err e' => Err e'
 | Ok (CRet r') => (match r' return _ with end)
 | Ok (CNext st') | Ok (CBrk st') => (let guessed_version := st' in
 (do t'29 <- (if (negb (Z.eqb guessed_version 0)) then (do t'28 <- (match (py_oz_or version (Some guessed_version)) with Some x_ => Ok x_ | None => Err TypeErr end);
 (Ok (Z.leb guessed_version t'28))) else (Ok false));
 (if t'29
 then (do t'30 <- (py_arg_int (py_oz_or version (Some guessed_version)));
 (do t'31 <- (src__encode ext_get_eci_assignment_number ext_evaluate_mask segments (Some error) t'30 mask eci boost_error None);
 Ok [t'31]))
 else src_tail_version ext_get_eci_assignment_number ext_evaluate_mask content version error mask encoding eci
                       boost_error segments)))
 end)
 end)))))))))))))).

Lemma src_encode_sequence_unfold ext_eci ext_eval content error version mode mask encoding eci boost sc :
  src_encode_sequence ext_eci ext_eval content error version mode mask encoding eci boost sc
  = src_encode_sequence_restated ext_eci ext_eval content error version mode mask encoding eci boost sc.
Proof. Timeout 120 reflexivity. Qed.      (* bounded: on texts that differ the conversion test can run very long *)

(* ------------------------------------------------------------------ 2. small facts *)
Lemma normalize_errorlevel_oz_err e x : normalize_errorlevel (pyval_of_oz e) true = Err x -> x = ValueError.
Proof.
  destruct e as [z|]; cbn [pyval_of_oz normalize_errorlevel]; [|discriminate].
  destruct (memZ z error_values); [discriminate|]. now intros [= <-].
Qed.

Lemma normalize_mode_oz_err m x : normalize_mode (pyval_of_oz m) = Err x -> x = ValueError.
Proof.
  destruct m as [z|]; cbn [pyval_of_oz normalize_mode]; [|discriminate].
  destruct (memZ z mode_values); [discriminate|]. now intros [= <-].
Qed.

(* when the checks made before normalize_errorlevel / normalize_mode fail, the order does not matter *)
Lemma early_value_error {A} error mode (k : option Z -> option Z -> res A) :
  (forall e m, k e m = Err ValueError) ->
  (do e <- normalize_errorlevel (pyval_of_oz error) true; do m <- normalize_mode (pyval_of_oz mode); k e m) = Err ValueError.
Proof.
  intros Hk.
  destruct (normalize_errorlevel (pyval_of_oz error) true) as [e|x] eqn:Ee; cbn [bind];
    [|now rewrite (normalize_errorlevel_oz_err _ _ Ee)].
  destruct (normalize_mode (pyval_of_oz mode)) as [m|x] eqn:Em; cbn [bind]; [apply Hk|now rewrite (normalize_mode_oz_err _ _ Em)].
Qed.

Lemma prepare_data_one p : prepare_data [p] = do s <- make_segment (p_content p) (p_mode p) (p_enc p); Ok [s].
Proof. unfold prepare_data. cbn [prepare_aux]. destruct (make_segment _ _ _); reflexivity. Qed.

Lemma lookup_prepare ext_eci content m encoding segs :
  seq_lookup_agrees ext_eci encoding ->
  prepare_data [{| p_content := PBytes content; p_mode := m; p_enc := encoding |}] = Ok segs -> eci_lookup_agrees ext_eci segs.
Proof.
  intros Hl. rewrite prepare_data_one. cbn [p_content p_mode p_enc].
  destruct (make_segment (PBytes content) m encoding) as [s|x] eqn:Es; cbn [bind]; [|discriminate].
  intros [= <-] s' [<-|[]]. exact (Hl _ _ _ Es).
Qed.

Lemma lookup_chunk ext_eci chunk m encoding sg :
  seq_lookup_agrees ext_eci encoding ->
  one_item_segments (SBytes chunk) m encoding = Ok sg -> eci_lookup_agrees ext_eci sg.
Proof.
  intros Hl. unfold one_item_segments. cbn [pcontent_of].
  destruct (make_segment (PBytes chunk) (Some m) encoding) as [s|x] eqn:Es; cbn [bind]; [|discriminate].
  intros [= <-] s' [<-|[]]. exact (Hl _ _ _ Es).
Qed.

Lemma normalize_mask_int_range mask mk :
  normalize_mask_int mask false = Ok mk -> match mk with Some k => 0 <= k < 8 | None => True end.
Proof.
  unfold normalize_mask_int. destruct mask as [k|]; [|intros [= <-]; exact I].
  destruct ((0 <=? k) && (k <? 8)) eqn:E; [|discriminate]. intros [= <-]. lia.
Qed.

(* max(find_version(one_item_segments(chunk, mode), ..) for chunk in chunks): the per-chunk versions in chunk order (the
   first exception wins), then their maximum -- the model's seq_res / max_list over chunk_version *)
Lemma chunk_versions_bridge (encoding : option enc) smode error eci (chunks : list (list Z)) :
  enc_named encoding ->
  py_seq_res (map (fun chunk => do t'11 <- src_one_item_segments (option_map e_name encoding) chunk smode;
                                do t'12 <- src_find_version t'11 error eci (Some false) true; Ok t'12) chunks)
  = seq_res (map (chunk_version smode encoding error eci) (map SBytes chunks)).
Proof.
  intros Henc. rewrite py_seq_res_is_seq_res, map_map. f_equal. apply map_ext. intros chunk.
  unfold chunk_version. rewrite src_one_item_segments_is_model by exact Henc.
  destruct (one_item_segments (SBytes chunk) smode encoding) as [sg|x]; cbn [bind]; [|reflexivity].
  now rewrite bind_ret, src_find_version_is_model.
Qed.

Lemma lenZ_map {A B} (f : A -> B) l : lenZ (map f l) = lenZ l.
Proof. unfold lenZ. now rewrite map_length. Qed.

(* ------------------------------------------------------------------ 3. the list comprehension of _encode calls *)
Lemma zrange_aux_shift n a : zrange_aux (S n) a = a :: zrange_aux n (a + 1).
Proof. reflexivity. Qed.

Lemma seq_res_encode_chunks (f : Z * list Z -> res py_code) total parity mode enc error version mask eci boost :
  (forall i chunk, f (i, chunk)
                   = do segs <- one_item_segments (SBytes chunk) mode enc;
                     do k <- encode_core segs error version mask eci boost
                                         (Some {| sa_number := i; sa_total := total; sa_parity := parity |});
                     Ok (code_view k)) ->
  forall chunks i,
  py_seq_res (map f (combine (zrange_aux (length chunks) i) chunks))
  = do codes <- encode_chunks (map SBytes chunks) i total parity mode enc error version mask eci boost;
    Ok (map code_view codes).
Proof.
  intros Hf. induction chunks as [|c r IH]; intros i; [reflexivity|].
  cbn [length]. rewrite zrange_aux_shift. cbn [combine map py_seq_res encode_chunks]. rewrite Hf.
  destruct (one_item_segments (SBytes c) mode enc) as [segs|x]; cbn [bind]; [|reflexivity].
  destruct (encode_core segs error version mask eci boost _) as [k|x]; cbn [bind]; [|reflexivity].
  rewrite IH.
  destruct (encode_chunks (map SBytes r) (i + 1) total parity mode enc error version mask eci boost) as [rest|x];
    cbn [bind]; reflexivity.
Qed.

Lemma py_enumerate_aux {A} (l : list A) : py_enumerate l = combine (zrange_aux (length l) 0) l.
Proof. unfold py_enumerate, zrange, lenZ. now rewrite Z.sub_0_r, Nat2Z.id. Qed.

(* one symbol of the sequence: the translated one_item_segments and the translated _encode *)
Lemma chunk_symbol ext_eci encoding chunk mode error version mask eci boost i total parity :
  enc_named encoding -> seq_lookup_agrees ext_eci encoding -> -3 <= version <= 40 ->
  match mask with Some k => 0 <= k < 8 | None => True end -> 1 <= version ->
  (do sg <- src_one_item_segments (option_map e_name encoding) chunk mode;
   do r <- src__encode ext_eci (src_evaluate_mask 179) sg error version mask eci boost
                       (Some (let '(number, total, parity) := (i, total, parity) in [3; number; total; parity]));
   Ok r)
  = do segs <- one_item_segments (SBytes chunk) mode encoding;
    do k <- encode_core segs error version mask eci boost (Some {| sa_number := i; sa_total := total; sa_parity := parity |});
    Ok (code_view k).
Proof.
  intros Henc Hl Hv Hm Hv1. rewrite src_one_item_segments_is_model by exact Henc.
  destruct (one_item_segments (SBytes chunk) mode encoding) as [segs|x] eqn:Es; cbn [bind]; [|reflexivity].
  rewrite bind_ret.
  change (Some [3; i; total; parity])
    with (option_map sa_list (Some {| sa_number := i; sa_total := total; sa_parity := parity |})).
  rewrite src_encode_is_encode_core; [reflexivity|exact Hv|exact (lookup_chunk _ _ _ _ _ Hl Es)|].
  destruct (version <? 1) eqn:E; [lia|exact Hm].
Qed.

(* ------------------------------------------------------------------ 4. the model, cut at the same place *)
(* the part of Sequence.encode_sequence after the single-symbol shortcut, literally *)
Definition model_tail (content : scontent) (error version mask : option Z) (encoding : option enc) (eci boost : bool)
           (symbol_count : option Z) (segs : list segment) : res (list code) :=
      if 1 <? lenZ (seg_modes segs) then Err ValueError else
      do smode <- nthZ (seg_modes segs) 0;
      do _ <- (match symbol_count with Some n => if slen content <? n then Err ValueError else Ok tt | None => Ok tt end);
      do (content, encoding) <- (match encoding, content with
                                 | None, SText cs =>
                                     do (_, e) <- data_to_bytes (pcontent_of content) None;
                                     Ok (SText (if smode =? MODE_HANZI then cs else map (retag e) cs), Some e)
                                 | _, _ => Ok (content, encoding) end);
      let enc_param_default := enc_is_default encoding in
      let penc := if smode =? MODE_HANZI then Some enc_gb2312 else encoding in
      do (pbytes, _) <- data_to_bytes (pcontent_of content) penc;
      do parity <- xor_all pbytes;
      do num_symbols <- (match version with
                         | Some v => number_of_symbols_by_version (slen content) v error smode enc_param_default eci
                         | None => Ok (match symbol_count with Some n => n | None => 16 end) end);
      if 16 <? num_symbols then Err DataOverflow else
      let chunks := divide_into_chunks content num_symbols in
      do version' <- (match symbol_count with
                      | Some _ => do vs <- seq_res (map (chunk_version smode encoding error eci) chunks); max_list vs
                      | None => match version with Some v => Ok v | None => Err TypeErr end end);
      encode_chunks chunks 0 (lenZ chunks - 1) parity smode encoding error version' mask eci boost.

Lemma encode_sequence_unfold content error version mode mask encoding eci boost symbol_count :
  Sequence.encode_sequence content error version mode mask encoding eci boost symbol_count
  = (do _ <- (match version with
              | Some v => if v <? 1 then Err ValueError else Ok tt
              | None => match symbol_count with None => Err ValueError | Some _ => Ok tt end end);
     do _ <- (match symbol_count with Some n => if (1 <=? n) && (n <=? 16) then Ok tt else Err ValueError | None => Ok tt end);
     let error := match error with None => Some ERROR_LEVEL_L | e => e end in
     do mask <- normalize_mask_int mask false;
     do segs <- prepare_data [{| p_content := pcontent_of content; p_mode := mode; p_enc := encoding |}];
     do s <- (match symbol_count with
              | Some _ => Ok None
              | None =>
                  match find_version segs error eci (Some false) false with
                  | Ok g => if g <=? (match version with Some v => v | None => g end)
                            then do k <- encode_core segs error (match version with Some v => v | None => g end) mask eci boost None;
                                 Ok (Some [k])
                            else Ok None
                  | Err DataOverflow => Ok None
                  | Err e => Err e
                  end
              end);
     match s with
     | Some r => Ok r
     | None => model_tail content error version mask encoding eci boost symbol_count segs
     end).
Proof. reflexivity. Qed.

(* the same for bytes content: no codec is involved *)
Definition model_tail_bytes (content : list Z) (error version mask : option Z) (encoding : option enc) (eci boost : bool)
           (symbol_count : option Z) (segs : list segment) : res (list code) :=
      if 1 <? lenZ (seg_modes segs) then Err ValueError else
      do smode <- nthZ (seg_modes segs) 0;
      do _ <- (match symbol_count with Some n => if lenZ content <? n then Err ValueError else Ok tt | None => Ok tt end);
      do parity <- xor_all content;
      do num_symbols <- (match version with
                         | Some v => number_of_symbols_by_version (lenZ content) v error smode (enc_is_default encoding) eci
                         | None => Ok (match symbol_count with Some n => n | None => 16 end) end);
      if 16 <? num_symbols then Err DataOverflow else
      let chunks := divide_list content num_symbols in
      do version' <- (match symbol_count with
                      | Some _ => do vs <- seq_res (map (chunk_version smode encoding error eci) (map SBytes chunks));
                                  max_list vs
                      | None => match version with Some v => Ok v | None => Err TypeErr end end);
      encode_chunks (map SBytes chunks) 0 (lenZ chunks - 1) parity smode encoding error version' mask eci boost.

Lemma model_tail_is_bytes content error version mask encoding eci boost symbol_count segs :
  model_tail (SBytes content) error version mask encoding eci boost symbol_count segs
  = model_tail_bytes content error version mask encoding eci boost symbol_count segs.
Proof.
  unfold model_tail, model_tail_bytes.
  destruct (1 <? lenZ (seg_modes segs)); [reflexivity|].
  destruct (nthZ (seg_modes segs) 0) as [smode|x]; cbn [bind]; [|reflexivity].
  cbn [slen].
  match goal with |- bind ?M _ = bind ?M _ => destruct M as [[]|x] end; cbn [bind]; [|reflexivity].
  assert (Heff : (match encoding, SBytes content with
                  | None, SText cs => do (_, e) <- data_to_bytes (pcontent_of (SBytes content)) None;
                                      Ok (SText (if smode =? MODE_HANZI then cs else map (retag e) cs), Some e)
                  | _, _ => Ok (SBytes content, encoding) end) = Ok (SBytes content, encoding))
    by (destruct encoding; reflexivity).
  rewrite Heff. cbn [bind pcontent_of data_to_bytes slen]. cbv zeta.
  destruct (xor_all content) as [parity|x]; cbn [bind]; [|reflexivity].
  match goal with |- bind ?M _ = bind ?M _ => destruct M as [n|x] end; cbn [bind]; [|reflexivity].
  destruct (16 <? n); [reflexivity|].
  cbn [divide_into_chunks]. rewrite lenZ_map. reflexivity.
Qed.

(* ------------------------------------------------------------------ 5. the two generated tails against the model's tail *)
Definition two40 : Z := 1099511627776.       (* 2^40, the guard of src_number_of_symbols_by_version_is_model *)

Lemma tail_version_ok ext_eci content (v error : Z) mk encoding eci boost segs :
  enc_named encoding -> lenZ content < two40 -> seq_lookup_agrees ext_eci encoding ->
  1 <= v <= 40 -> match mk with Some k => 0 <= k < 8 | None => True end ->
  src_tail_version ext_eci (src_evaluate_mask 179) content (Some v) error mk (option_map e_name encoding) eci boost
                   (to_py_segs segs)
  = do codes <- model_tail_bytes content (Some error) (Some v) mk encoding eci boost None segs; Ok (map code_view codes).
Proof.
  intros Henc Hlen Hl Hv Hm. unfold src_tail_version, model_tail_bytes. cbn [to_py_segs segs_modes].
  rewrite Z.gtb_ltb. destruct (1 <? lenZ (seg_modes segs)); cbn [bind]; [reflexivity|].
  rewrite py_index_nonneg by lia.
  destruct (nthZ (seg_modes segs) 0) as [smode|x]; cbn [bind]; [|reflexivity].
  rewrite src_calc_structured_append_parity_is_model.
  destruct (xor_all content) as [parity|x]; cbn [bind]; [|reflexivity].
  rewrite src_number_of_symbols_by_version_is_model by exact Hlen. rewrite ostr_is_default_enc.
  destruct (number_of_symbols_by_version (lenZ content) v (Some error) smode (enc_is_default encoding) eci) as [n|x] eqn:En;
    cbn [bind]; [|reflexivity].
  assert (Hn : 1 <= n) by (eapply SeqLemmas.number_of_symbols_pos; [|exact En]; unfold lenZ; lia).
  rewrite Z.gtb_ltb. destruct (16 <? n); cbn [bind]; [reflexivity|].
  rewrite src_divide_into_chunks_is_model by lia. cbn [bind]. cbv zeta. rewrite bind_ret.
  rewrite py_enumerate_aux. apply seq_res_encode_chunks. intros i chunk. cbn [py_arg_int bind].
  apply chunk_symbol; try assumption; lia.
Qed.

Lemma tail_count_ok ext_eci content (version : option Z) (error : Z) mk encoding eci boost segs (n : Z) :
  enc_named encoding -> lenZ content < two40 -> seq_lookup_agrees ext_eci encoding ->
  1 <= n <= 16 -> match mk with Some k => 0 <= k < 8 | None => True end ->
  src_tail_count ext_eci (src_evaluate_mask 179) content version error mk (option_map e_name encoding) eci boost
                 (to_py_segs segs) n
  = do codes <- model_tail_bytes content (Some error) version mk encoding eci boost (Some n) segs; Ok (map code_view codes).
Proof.
  intros Henc Hlen Hl Hn Hm. unfold src_tail_count, model_tail_bytes. cbn [to_py_segs segs_modes].
  rewrite Z.gtb_ltb. destruct (1 <? lenZ (seg_modes segs)); cbn [bind]; [reflexivity|].
  rewrite py_index_nonneg by lia.
  destruct (nthZ (seg_modes segs) 0) as [smode|x]; cbn [bind]; [|reflexivity].
  destruct (lenZ content <? n); cbn [bind]; [reflexivity|].
  rewrite src_calc_structured_append_parity_is_model.
  destruct (xor_all content) as [parity|x]; cbn [bind]; [|reflexivity].
  rewrite py_z_or_nonzero by lia.
  assert (Hnum : (match version with
                  | Some version0 => do t'9 <- src_number_of_symbols_by_version (option_map e_name encoding) eci content version0
                                                                               (Some error) smode; Ok t'9
                  | None => Ok n end)
                 = match version with
                   | Some v => number_of_symbols_by_version (lenZ content) v (Some error) smode (enc_is_default encoding) eci
                   | None => Ok n end).
  { destruct version as [v|]; [|reflexivity].
    rewrite bind_ret, src_number_of_symbols_by_version_is_model by exact Hlen. now rewrite ostr_is_default_enc. }
  rewrite Hnum. clear Hnum.
  match goal with |- bind ?M _ = bind (bind ?M _) _ => destruct M as [num|x] eqn:Enum end; cbn [bind]; [|reflexivity].
  assert (Hnum1 : 1 <= num).
  { destruct version as [v|]; [|injection Enum as <-; lia].
    eapply SeqLemmas.number_of_symbols_pos; [|exact Enum]. unfold lenZ; lia. }
  rewrite Z.gtb_ltb. destruct (16 <? num); cbn [bind]; [reflexivity|].
  rewrite src_divide_into_chunks_is_model by lia. cbn [bind]. cbv zeta.
  rewrite chunk_versions_bridge by exact Henc.
  destruct (seq_res (map (chunk_version smode encoding (Some error) eci) (map SBytes (divide_list content num)))) as [vs|x] eqn:Evs;
    cbn [bind]; [|reflexivity].
  rewrite py_max_list_is_max_list.
  destruct (max_list vs) as [v'|x] eqn:Emax; cbn [bind]; [|reflexivity].
  assert (Hv' : 1 <= v' <= 40).
  { destruct (SeqLemmas.max_list_In _ _ Emax) as [Hin _].
    destruct (SeqLemmas.seq_res_map_In _ _ _ Evs _ Hin) as (c & _ & Hc). exact (SeqLemmas.chunk_version_qr _ _ _ _ _ _ Hc). }
  rewrite bind_ret. rewrite py_enumerate_aux. apply seq_res_encode_chunks. intros i chunk.
  apply chunk_symbol; try assumption; lia.
Qed.

(* ------------------------------------------------------------------ 6. the whole of encode_sequence *)
Definition seq_check1 (version symbol_count : option Z) : res unit :=
  match version with
  | Some v => if v <? 1 then Err ValueError else Ok tt
  | None => match symbol_count with None => Err ValueError | Some _ => Ok tt end end.
Definition seq_check2 (symbol_count : option Z) : res unit :=
  match symbol_count with Some n => if (1 <=? n) && (n <=? 16) then Ok tt else Err ValueError | None => Ok tt end.

Lemma seq_check1_err v sc x : seq_check1 v sc = Err x -> x = ValueError.
Proof. unfold seq_check1. destruct v as [v|]; [destruct (v <? 1)|destruct sc]; congruence. Qed.
Lemma seq_check2_err sc x : seq_check2 sc = Err x -> x = ValueError.
Proof. unfold seq_check2. destruct sc as [n|]; [destruct ((1 <=? n) && (n <=? 16))|]; congruence. Qed.

Lemma args_early content error v0 mode mask encoding eci boost sc :
  seq_check1 v0 sc = Err ValueError \/ (seq_check1 v0 sc = Ok tt /\ seq_check2 sc = Err ValueError) ->
  (do e <- normalize_errorlevel (pyval_of_oz error) true; do m <- normalize_mode (pyval_of_oz mode);
   Sequence.encode_sequence (SBytes content) e v0 m mask encoding eci boost sc) = Err ValueError.
Proof.
  intros H. apply early_value_error. intros e m. rewrite encode_sequence_unfold.
  fold (seq_check1 v0 sc). fold (seq_check2 sc).
  destruct H as [H|[H1 H2]]; [now rewrite H|]. rewrite H1. cbn [bind]. now rewrite H2.
Qed.

Theorem src_encode_sequence_is_model :
  forall (ext_eci : option String.string -> res Z) (content : list Z) (error version mode mask : option Z)
         (encoding : option enc) (eci boost : bool) (symbol_count : option Z),
  enc_named encoding -> lenZ content < two40 -> seq_lookup_agrees ext_eci encoding ->
  src_encode_sequence ext_eci (src_evaluate_mask 179) content error version mode mask (option_map e_name encoding)
                      eci boost symbol_count
  = do codes <- encode_sequence_args content error version mode mask encoding eci boost symbol_count;
    Ok (map code_view codes).
Proof.
  intros ext_eci content error version mode mask encoding eci boost sc Henc Hlen Hl.
  rewrite src_encode_sequence_unfold. unfold src_encode_sequence_restated, encode_sequence_args.
  rewrite src_normalize_version_int_is_model.
  destruct (normalize_version (pyval_of_oz version)) as [v0|x] eqn:Env; cbn [bind]; [|reflexivity]. cbv zeta.
  assert (Hv0 : forall v, v0 = Some v -> valid_version v = true).
  { intros v ->. exact (normalize_version_valid _ _ Env). }
  (* check 1: a Micro QR version; neither a version nor a symbol count *)
  assert (C1 : (match v0 with
                | Some version0 => do _ <- (if version0 <? 1
                                            then do t'2 <- src_get_version_name_effect (Some version0); Err ValueError
                                            else Ok tt); Ok tt
                | None => do _ <- match sc with Some _ => Ok tt | None => Err ValueError end; Ok tt end)
               = seq_check1 v0 sc).
  { unfold seq_check1. destruct v0 as [v|]; [|destruct sc; reflexivity].
    destruct (v <? 1); [|reflexivity]. now rewrite (name_effect_valid v (Hv0 v eq_refl)). }
  rewrite C1. clear C1.
  destruct (seq_check1 v0 sc) as [[]|x] eqn:E1; cbn [bind].
  2:{ pose proof (seq_check1_err _ _ _ E1) as Hx. subst x. rewrite args_early; [reflexivity|now left]. }
  (* check 2: the symbol count is in 1 .. 16 *)
  assert (C2 : (match sc with
                | Some symbol_count => do _ <- (if negb ((1 <=? symbol_count) && (symbol_count <=? 16)) then Err ValueError else Ok tt);
                                       Ok tt
                | None => Ok tt end) = seq_check2 sc).
  { unfold seq_check2. destruct sc as [n|]; [|reflexivity]. destruct ((1 <=? n) && (n <=? 16)); reflexivity. }
  rewrite C2. clear C2.
  destruct (seq_check2 sc) as [[]|x] eqn:E2; cbn [bind].
  2:{ pose proof (seq_check2_err _ _ E2) as Hx. subst x. rewrite args_early; [reflexivity|now right]. }
  rewrite src_normalize_errorlevel_int_is_model.
  destruct (normalize_errorlevel (pyval_of_oz error) true) as [e0|x]; cbn [bind]; [|reflexivity].
  rewrite src_normalize_mode_int_is_model.
  destruct (normalize_mode (pyval_of_oz mode)) as [m0|x]; cbn [bind]; [|reflexivity].
  rewrite encode_sequence_unfold. fold (seq_check1 v0 sc). fold (seq_check2 sc). rewrite E1, E2. cbn [bind]. cbv zeta.
  rewrite src_normalize_mask_int_is_encode_model.
  destruct (normalize_mask_int mask false) as [mk|x] eqn:Emk; cbn [bind]; [|reflexivity].
  pose proof (normalize_mask_int_range _ _ Emk) as Hmk.
  rewrite src_prepare_data_bytes_is_model by exact Henc. cbn [pcontent_of].
  destruct (prepare_data [{| p_content := PBytes content; p_mode := m0; p_enc := encoding |}]) as [segs|x] eqn:Ep;
    cbn [bind]; [|reflexivity].
  pose proof (lookup_prepare _ _ _ _ _ Hl Ep) as Hsegs.
  set (err := match e0 with Some e => e | None => 1 end).
  assert (He : match e0 with None => Some ERROR_LEVEL_L | e => e end = Some err) by (destruct e0; reflexivity).
  rewrite He. clear He.
  destruct sc as [n|].
  - (* symbol_count given *)
    cbn [bind]. rewrite model_tail_is_bytes. unfold seq_check2 in E2.
    destruct ((1 <=? n) && (n <=? 16)) eqn:En; [|discriminate E2].
    apply tail_count_ok; try assumption. lia.
  - (* a version given: first try a single symbol *)
    destruct v0 as [v|]; [|discriminate E1]. unfold seq_check1 in E1.
    destruct (v <? 1) eqn:Ev1; [discriminate E1|].
    pose proof (Hv0 v eq_refl) as Hvalid. apply valid_version_range in Hvalid.
    rewrite src_find_version_is_model.
    destruct (find_version segs (Some err) eci (Some false) false) as [g|x] eqn:Eg; cbn [bind].
    + pose proof (SeqLemmas.find_version_qr _ _ _ _ _ Eg) as Hg.
      assert (Hg0 : negb (g =? 0) = true) by lia. rewrite Hg0.
      assert (Hor : py_oz_or (Some v) (Some g) = Some v).
      { unfold py_oz_or. destruct (v =? 0) eqn:E0; [lia|reflexivity]. }
      rewrite Hor. cbn [bind py_arg_int].
      destruct (g <=? v); cbn [bind].
      * change (@None (list Z)) with (option_map sa_list None).
        rewrite src_encode_is_encode_core; [|lia|exact Hsegs|destruct (v <? 1); [discriminate Ev1|exact Hmk]].
        destruct (encode_core segs (Some err) v mk eci boost None) as [k|x]; reflexivity.
      * rewrite model_tail_is_bytes. apply tail_version_ok; try assumption. lia.
    + destruct x; try reflexivity.
      cbn [bind]. rewrite model_tail_is_bytes. apply tail_version_ok; try assumption. lia.
Qed.
Print Assumptions src_encode_sequence_is_model.

(* ------------------------------------------------------------------ 7. corollaries *)
(* (a) arguments that are already normal (what Model/Sequence.v takes): the normalisers are the identity *)
Lemma normalize_version_normal v : (forall z, v = Some z -> 1 <= z <= 40) -> normalize_version (pyval_of_oz v) = Ok v.
Proof.
  intros H. destruct v as [z|]; [|reflexivity]. specialize (H z eq_refl). cbn [pyval_of_oz normalize_version py_int_val].
  destruct (z <? 1) eqn:E1; [lia|]. destruct ((0 <? z) && (z <? 41) || memZ z MICRO_VERSIONS) eqn:E2; [reflexivity|lia].
Qed.
Lemma normalize_errorlevel_normal e :
  (forall z, e = Some z -> memZ z error_values = true) -> normalize_errorlevel (pyval_of_oz e) true = Ok e.
Proof. intros H. destruct e as [z|]; [|reflexivity]. cbn [pyval_of_oz normalize_errorlevel]. now rewrite (H z eq_refl). Qed.
Lemma normalize_mode_normal m :
  (forall z, m = Some z -> memZ z mode_values = true) -> normalize_mode (pyval_of_oz m) = Ok m.
Proof. intros H. destruct m as [z|]; [|reflexivity]. cbn [pyval_of_oz normalize_mode]. now rewrite (H z eq_refl). Qed.

Corollary src_encode_sequence_is_sequence :
  forall (ext_eci : option String.string -> res Z) (content : list Z) (error version mode mask : option Z)
         (encoding : option enc) (eci boost : bool) (symbol_count : option Z),
  enc_named encoding -> lenZ content < two40 -> seq_lookup_agrees ext_eci encoding ->
  (forall v, version = Some v -> 1 <= v <= 40) ->                          (* a QR version, as an int *)
  (forall e, error = Some e -> memZ e error_values = true) ->              (* one of consts.ERROR_LEVEL_* *)
  (forall m, mode = Some m -> memZ m mode_values = true) ->                (* one of consts.MODE_* *)
  src_encode_sequence ext_eci (src_evaluate_mask 179) content error version mode mask (option_map e_name encoding)
                      eci boost symbol_count
  = do codes <- Sequence.encode_sequence (SBytes content) error version mode mask encoding eci boost symbol_count;
    Ok (map code_view codes).
Proof.
  intros ext_eci content error version mode mask encoding eci boost sc Henc Hlen Hl Hv He Hm.
  rewrite src_encode_sequence_is_model by assumption. unfold encode_sequence_args.
  rewrite (normalize_version_normal _ Hv), (normalize_errorlevel_normal _ He), (normalize_mode_normal _ Hm). reflexivity.
Qed.

(* (b) a sufficient condition for the codec hypothesis: a segment built from bytes carries no encoding (the non-byte
   modes) or the given one / the default 'iso-8859-1', so two equations about codecs.lookup are enough *)
Lemma make_segment_bytes_enc data m encoding s :
  make_segment (PBytes data) m encoding = Ok s ->
  s_enc s = None \/ s_enc s = Some (match encoding with Some e => e | None => enc_latin1 end).
Proof.
  unfold make_segment. cbv zeta. intros H.
  destruct (oz_eqb m (Some MODE_HANZI)) eqn:Eh.
  - (* Hanzi requested: the segment is a Hanzi segment, without encoding *)
    assert (Hm : m = Some MODE_HANZI).
    { destruct m as [z|]; [|discriminate Eh]. cbn [oz_eqb] in Eh. f_equal. lia. }
    subst m. cbn [data_to_bytes bind] in H. left.
    match type of H with bind (if ?c then _ else _) _ = _ => destruct c; [discriminate H|] end. cbn [bind] in H.
    change (MODE_HANZI =? MODE_BYTE) with false in H.
    match type of H with (if ?c then _ else _) = _ => destruct c; [discriminate H|] end.
    match type of H with bind ?M _ = _ => destruct M as [bs|x]; [|discriminate H] end.
    cbn [bind] in H. injection H as <-. reflexivity.
  - cbn [data_to_bytes bind] in H.
    match type of H with bind ?M _ = _ => destruct M as [smode|x]; [|discriminate H] end. cbn [bind] in H.
    match type of H with (if ?c then _ else _) = _ => destruct c; [discriminate H|] end.
    match type of H with bind ?M _ = _ => destruct M as [bs|x]; [|discriminate H] end.
    cbn [bind] in H. injection H as <-. cbn [s_enc]. destruct (smode =? MODE_BYTE); [now right|now left].
Qed.

Lemma seq_lookup_agrees_simple ext_eci (encoding : option enc) :
  ext_eci None = eci_number None ->
  (let e := match encoding with Some e => e | None => enc_latin1 end in ext_eci (Some (e_name e)) = eci_number (Some e)) ->
  seq_lookup_agrees ext_eci encoding.
Proof.
  intros Hn He data m s Hs. destruct (make_segment_bytes_enc _ _ _ _ Hs) as [-> | ->]; [exact Hn|exact He].
Qed.

(* ------------------------------------------------------------------ 8. C08 for the symbols of the TRANSLATED encode_sequence *)
Definition py_version (p : py_code) : Z := let '(_, v, _, _, _) := p in v.

(* the single-symbol condition of Lemmas/SeqLemmas.v in terms of the translated find_version *)
Lemma single_path_translated segs error version eci sc :
  SeqLemmas.single_path segs error version eci sc
  = match sc with
    | Some _ => false
    | None => match src_find_version (to_py_segs segs) (SeqLemmas.eff_error error) eci (Some false) false with
              | Ok g => g <=? SeqLemmas.vor version g
              | Err _ => false end
    end.
Proof. unfold SeqLemmas.single_path. now rewrite src_find_version_is_model. Qed.

(* Composition of the bridge theorem with the model theorems of C08 (Lemmas/SeqLemmas.v): whatever the translated
   encode_sequence returns for bytes content is (a) the list of views of the model's symbols for the same call, the
   arguments normalised by the translated normalisers; (b) 1 .. 16 symbols, none of them Micro QR; (c) on the multi-symbol
   path (C08_model_multi): symbol k carries the packed bytes data_k in the one mode of the content, the data_k
   concatenate to the content, all symbols have the same version, and the data stream of symbol k starts with the
   Structured Append header (mode indicator 3, position k, total - 1, parity = XOR of all bytes of the content).
   (d) if a symbol_count is given, every symbol's bit count (translated bit_length_with_overhead, header included) is within
   its capacity (seq_fits_symbol_count: the version is the highest one any chunk needs).
   Remaining hypotheses: the typing guards of the bridge theorem and the run itself.  (D14: on the version= path "every
   chunk FITS its symbol" is false, see d14_on_translated_sequence.) *)
Theorem translated_sequence_c08 :
  forall (ext_eci : option String.string -> res Z) (content : list Z) (error version mode mask : option Z)
         (encoding : option enc) (eci boost : bool) (symbol_count : option Z) (pcodes : list py_code),
  enc_named encoding -> lenZ content < two40 -> seq_lookup_agrees ext_eci encoding ->
  src_encode_sequence ext_eci (src_evaluate_mask 179) content error version mode mask (option_map e_name encoding)
                      eci boost symbol_count = Ok pcodes ->                                  (* TRANSLATED encode_sequence *)
  exists (codes : list code) (v0 e0 m0 mask' : option Z) (segs : list segment),
    (* (a) *)
    src_normalize_version_int version = Ok v0 /\ src_normalize_errorlevel_int error true = Ok e0 /\
    src_normalize_mode_int mode = Ok m0 /\ src_normalize_mask_int mask false = Ok mask' /\          (* TRANSLATED normalisers *)
    src_prepare_data_bytes content m0 (option_map e_name encoding) = Ok (to_py_segs segs) /\       (* TRANSLATED prepare_data *)
    Sequence.encode_sequence (SBytes content) e0 v0 m0 mask encoding eci boost symbol_count = Ok codes /\
    pcodes = map code_view codes /\
    (* (b) *)
    1 <= lenZ pcodes <= 16 /\ Forall (fun p => 1 <= py_version p) pcodes /\
    (* (c) *)
    (SeqLemmas.single_path segs e0 v0 eci symbol_count = false ->
     exists (smode : Z) (datas : list (list Z)),
       Forall2 (SeqLemmas.carries smode) codes datas /\ concat datas = content /\
       forall k code, nth_error codes k = Some code ->
         let sa := SeqLemmas.sa_of (Z.of_nat k) (lenZ pcodes - 1) (SeqLemmas.xor_bytes content) in
         c_version code = c_version (nth 0 codes code) /\
         exists rest, data_stream (c_segments code) (c_error code) (c_version code) eci (Some sa)
                      = Ok (SeqLemmas.sa_header sa ++ rest)) /\
    (* (d) with a symbol_count EVERY symbol holds its chunk (seq_fits_symbol_count; on the version= path this is D14) *)
    (forall n, symbol_count = Some n ->
     exists v', 1 <= v' <= 40 /\
       Forall (fun code => c_version code = v' /\
                 exists l cap, src_Segments_bit_length_with_overhead (to_py_segs (c_segments code)) v' eci true = Ok l /\
                               capacity v' (c_error code) = Ok cap /\ l <= cap) codes).
Proof.
  intros ext_eci content error version mode mask encoding eci boost sc pcodes Henc Hlen Hl Hrun.
  rewrite src_encode_sequence_is_model in Hrun by assumption. unfold encode_sequence_args in Hrun.
  destruct (normalize_version (pyval_of_oz version)) as [v0|x] eqn:Ev; cbn [bind] in Hrun; [|discriminate Hrun].
  destruct (normalize_errorlevel (pyval_of_oz error) true) as [e0|x] eqn:Ee; cbn [bind] in Hrun; [|discriminate Hrun].
  destruct (normalize_mode (pyval_of_oz mode)) as [m0|x] eqn:Em; cbn [bind] in Hrun; [|discriminate Hrun].
  destruct (Sequence.encode_sequence (SBytes content) e0 v0 m0 mask encoding eci boost sc) as [codes|x] eqn:Eseq;
    cbn [bind] in Hrun; [|discriminate Hrun].
  injection Hrun as <-.
  destruct (SeqLemmas.encode_sequence_shape _ _ _ _ _ _ _ _ _ _ Eseq) as (_ & mask' & segs & Hm & Hp & _).
  cbn [pcontent_of] in Hp.
  exists codes, v0, e0, m0, mask', segs.
  split; [now rewrite src_normalize_version_int_is_model|].
  split; [now rewrite src_normalize_errorlevel_int_is_model|].
  split; [now rewrite src_normalize_mode_int_is_model|].
  split; [now rewrite src_normalize_mask_int_is_encode_model|].
  split; [rewrite src_prepare_data_bytes_is_model by exact Henc; now rewrite Hp|].
  split; [exact Eseq|]. split; [reflexivity|].
  rewrite lenZ_map.
  split; [exact (SeqLemmas.seq_count_bounds _ _ _ _ _ _ _ _ _ _ Eseq)|].
  split.
  { pose proof (SeqLemmas.seq_never_micro _ _ _ _ _ _ _ _ _ _ Eseq) as Hnm.
    apply Forall_map. eapply Forall_impl; [|exact Hnm]. intros c Hc. exact Hc. }
  split.
  2:{ intros n ->. destruct (SeqLemmas.seq_fits_symbol_count _ _ _ _ _ _ _ _ _ _ Eseq) as (v' & Hv' & Hfit).
      exists v'. split; [exact Hv'|]. eapply Forall_impl; [|exact Hfit]. cbv beta.
      intros code (Hcv & l & cap & Hbl & Hcap & Hle). split; [exact Hcv|].
      exists l, cap. rewrite src_bit_length_with_overhead_is_model. repeat split; assumption. }
  intros Hsingle.
  destruct (SeqLemmas.C08_model_multi _ _ _ _ _ _ _ _ _ _ mask' segs Eseq Hm Hp Hsingle)
    as (smode & content' & encoding' & pbytes & pe & datas & Heff & Hbytes & _ & Hcar & Hcat & Hhdr).
  assert (Hc' : content' = SBytes content /\ encoding' = encoding).
  { unfold SeqLemmas.seq_effective in Heff. destruct encoding; injection Heff as <- <-; now split. }
  destruct Hc' as [-> ->]. cbn [pcontent_of data_to_bytes] in Hbytes. injection Hbytes as <- _.
  exists smode, datas. split; [exact Hcar|]. split; [exact Hcat|].
  intros k code Hk. destruct (Hhdr k code Hk) as (_ & Hsame & Hrest). split; [exact Hsame|exact Hrest].
Qed.
Print Assumptions translated_sequence_c08.

(* ------------------------------------------------------------------ 9. not vacuous; D14 on the translated code *)
(* a codecs.lookup that satisfies the hypothesis for encoding=None: 'iso-8859-1' has ECI assignment number 3 *)
Definition ex_ext_eci (name : option String.string) : res Z :=
  match name with None => Err TypeErr | Some _ => Ok 3 end.

Lemma ex_ext_eci_agrees : seq_lookup_agrees ex_ext_eci None.
Proof. apply seq_lookup_agrees_simple; reflexivity. Qed.

Definition py_summary (p : py_code) : Z * option Z * list Z * res Z :=
  let '(_, v, e, _, sg) := p in (v, e, map seg_char_count (segs_segments sg), src_Segments_bit_length_with_overhead sg v false true).

(* known finding D14 replayed on the TRANSLATED encode_sequence (the witness of SeqLemmas.C08_refuted_fit: 71 digits,
   version 1, level L, no boosting): two version-1 symbols come out, no exception; the first was given 36 digits, which
   with the Structured Append header need 154 bits (translated bit_length_with_overhead) where the symbol holds 152.
   The bridge theorem holds for the code as it is; the deviation from the specification stays C08_refuted_fit. *)
Example d14_on_translated_sequence :
  exists pcodes,
    src_encode_sequence ex_ext_eci (src_evaluate_mask 179) d14_bytes (Some 1) (Some 1) None None None false false None = Ok pcodes
    /\ map py_summary pcodes = [(1, Some 1, [36], Ok 154); (1, Some 1, [35], Ok 151)]
    /\ (do row <- getZ 1 SrcTables.SYMBOL_CAPACITY; getOZ (Some 1) row) = Ok 152.
Proof.
  change (@None String.string) with (option_map e_name (@None enc)).
  rewrite src_encode_sequence_is_model; [|intros e He; discriminate He|vm_compute; reflexivity|exact ex_ext_eci_agrees].
  eexists. split; [vm_compute; reflexivity|]. split; vm_compute; reflexivity.
Qed.

(* the same call by evaluation of the translated code alone (no bridge theorem): the translated _encode with the
   translated evaluate_mask runs for both symbols *)
Example d14_run :
  match src_encode_sequence ex_ext_eci (src_evaluate_mask 179) d14_bytes (Some 1) (Some 1) None None None false false None with
  | Ok pcodes => map py_summary pcodes
  | Err _ => [] end
  = [(1, Some 1, [36], Ok 154); (1, Some 1, [35], Ok 151)].
Proof. vm_compute. reflexivity. Qed.

(* exceptions, by evaluation of the translated code: symbol_count out of range, a Micro QR version (as an int: not a
   version at all), neither version nor symbol_count, content shorter than symbol_count, more than 16 symbols *)
Example seq_exceptions :
  src_encode_sequence ex_ext_eci (src_evaluate_mask 179) d14_bytes None None None None None false true (Some 17) = Err ValueError
  /\ src_encode_sequence ex_ext_eci (src_evaluate_mask 179) d14_bytes None None None None None false true (Some 0) = Err ValueError
  /\ src_encode_sequence ex_ext_eci (src_evaluate_mask 179) d14_bytes None (Some (-1)) None None None false true None = Err ValueError
  /\ src_encode_sequence ex_ext_eci (src_evaluate_mask 179) d14_bytes None None None None None false true None = Err ValueError
  /\ src_encode_sequence ex_ext_eci (src_evaluate_mask 179) [49; 50] None None None None None false true (Some 3) = Err ValueError
  /\ src_encode_sequence ex_ext_eci (src_evaluate_mask 179) (d14_bytes ++ d14_bytes ++ d14_bytes ++ d14_bytes ++ d14_bytes
                                                               ++ d14_bytes ++ d14_bytes ++ d14_bytes ++ d14_bytes ++ d14_bytes)
                         (Some 2) (Some 1) None None None false true None = Err DataOverflow.
Proof. vm_compute. repeat split; reflexivity. Qed.
