(* Bridge theorems: make_blocks (the Reed-Solomon division loop over the Galois tables) of segno/encoder.py, translated
   statement by statement from the CURRENT source (SegnoSrc.SrcEcc, written by gen/translate.py with the Python
   semantics of Base/PySem.v), equals the hand-written model (Model/Stream.v).  The data are arbitrary (unbounded);
   the tables enter through finite facts.  Re-checked by coqc on every run.  See DESIGN.md 11.7. *)
From Coq Require Import ZArith List Bool Lia ZifyBool.
From Segno Require Import Base.PyLite Base.PySem Ref.IsoData Model.Bits Model.Segment Model.Version Model.Stream.
From Segno Require Tie.TieTables.
From Segno Require Import Tie.TieBase.
From Segno Require Tie.TieMat.
From SegnoSrc Require SrcTables.
From SegnoSrc Require Import SrcEcc.
Import ListNotations.
Open Scope Z_scope.

Definition byte (x : Z) : Prop := 0 <= x < 256.
Lemma is_byte_true x : byte x -> is_byte x = true.
Proof. unfold byte, is_byte. lia. Qed.
Lemma forallb_is_byte l : Forall byte l -> forallb is_byte l = true.
Proof. intros H. apply forallb_forall. intros x Hx. apply is_byte_true. now apply (proj1 (Forall_forall _ _) H). Qed.
Lemma lxor_byte a b : byte a -> byte b -> byte (Z.lxor a b).
Proof.
  unfold byte. intros Ha Hb. split; [apply Z.lxor_nonneg; lia|].
  destruct (Z.eq_dec (Z.lxor a b) 0) as [->|Hne]; [lia|].
  apply Z.log2_lt_pow2 with (b := 8); [pose proof (Z.lxor_nonneg a b); lia|].
  eapply Z.le_lt_trans; [apply Z.log2_lxor; lia|].
  apply Z.max_lub_lt.
  - destruct (Z.eq_dec a 0) as [->|]; [cbn; lia|]. apply Z.log2_lt_pow2; lia.
  - destruct (Z.eq_dec b 0) as [->|]; [cbn; lia|]. apply Z.log2_lt_pow2; lia.
Qed.

(* ------------------------------------------------------------------ list indexing *)
Lemma lenZ_app {A} (a b : list A) : lenZ (a ++ b) = lenZ a + lenZ b.
Proof. unfold lenZ. rewrite app_length. lia. Qed.
Lemma lenZ_nonneg {A} (l : list A) : 0 <= lenZ l.
Proof. unfold lenZ. lia. Qed.

Lemma nthZ_app_mid {A} (a : list A) x b : nthZ (a ++ x :: b) (lenZ a) = Ok x.
Proof.
  unfold nthZ, lenZ. destruct (Z.of_nat (length a) <? 0) eqn:E; [lia|].
  rewrite Nat2Z.id. rewrite nth_error_app2 by lia. now rewrite Nat.sub_diag.
Qed.
Lemma nthZ_end {A} (a : list A) : nthZ a (lenZ a) = Err IndexErr.
Proof.
  unfold nthZ, lenZ. destruct (Z.of_nat (length a) <? 0) eqn:E; [reflexivity|].
  rewrite Nat2Z.id. destruct (nth_error a (length a)) eqn:H; [|reflexivity].
  assert (Hlt : (length a < length a)%nat) by (apply nth_error_Some; congruence). lia.
Qed.
Lemma py_index_app_mid {A} (a : list A) x b : py_index (a ++ x :: b) (lenZ a) = Ok x.
Proof. rewrite py_index_nonneg by apply lenZ_nonneg. apply nthZ_app_mid. Qed.
Lemma py_index_end {A} (a : list A) : py_index a (lenZ a) = Err IndexErr.
Proof. rewrite py_index_nonneg by apply lenZ_nonneg. apply nthZ_end. Qed.

Lemma upd_nat_app_mid {A} (a : list A) x b v : upd_nat (a ++ x :: b) (length a) v = a ++ v :: b.
Proof. induction a as [|y a IH]; cbn; [reflexivity|]. now rewrite IH. Qed.

Lemma py_set_item_app_mid a x b v : byte v -> py_set_item (a ++ x :: b) (lenZ a) v = Ok (a ++ v :: b).
Proof.
  intros Hv. unfold py_set_item. rewrite is_byte_true by assumption. unfold py_norm_index.
  rewrite lenZ_app. pose proof (lenZ_nonneg a) as Ha. pose proof (lenZ_nonneg b) as Hb.
  destruct (lenZ a <? 0) eqn:E; [lia|].
  replace (lenZ (x :: b)) with (1 + lenZ b) by (unfold lenZ; cbn [length]; lia).
  destruct ((0 <=? lenZ a) && (lenZ a <? lenZ a + (1 + lenZ b))) eqn:E2; [|lia].
  cbn [bind]. unfold lenZ at 1. rewrite Nat2Z.id. now rewrite upd_nat_app_mid.
Qed.

Lemma py_slice_from_app {A} (a b : list A) : py_slice_from (a ++ b) (lenZ a) = b.
Proof.
  unfold py_slice_from. pose proof (lenZ_nonneg a). destruct (lenZ a <? 0) eqn:E; [lia|].
  unfold lenZ. rewrite Nat2Z.id. rewrite skipn_app, skipn_all, Nat.sub_diag. reflexivity.
Qed.

(* ------------------------------------------------------------------ finite facts about the Galois tables *)
Lemma exp_table_bytes : forallb is_byte GALIOS_EXP = true.
Proof. vm_compute. reflexivity. Qed.
Lemma log_table_nonneg : forallb (fun x => 0 <=? x) GALIOS_LOG = true.
Proof. vm_compute. reflexivity. Qed.
Lemma gen_poly_ok : forallb (fun kg => (lenZ (snd kg) =? fst kg) && forallb (fun x => 0 <=? x) (snd kg)) GEN_POLY = true.
Proof. vm_compute. reflexivity. Qed.

Lemma nthZ_In {A} (l : list A) i x : nthZ l i = Ok x -> In x l.
Proof.
  unfold nthZ. destruct (i <? 0); [discriminate|]. destruct (nth_error l (Z.to_nat i)) eqn:H; [|discriminate].
  intros [= <-]. eapply nth_error_In; eauto.
Qed.
Lemma exp_byte i e : nthZ GALIOS_EXP i = Ok e -> byte e.
Proof.
  intros H. apply nthZ_In in H. pose proof exp_table_bytes as T. rewrite forallb_forall in T.
  specialize (T _ H). unfold is_byte, byte in *. lia.
Qed.
Lemma log_nonneg i l : nthZ GALIOS_LOG i = Ok l -> 0 <= l.
Proof.
  intros H. apply nthZ_In in H. pose proof log_table_nonneg as T. rewrite forallb_forall in T.
  specialize (T _ H). lia.
Qed.
Lemma gen_poly_facts k gen : getZ k GEN_POLY = Ok gen -> lenZ gen = k /\ Forall (fun x => 0 <= x) gen.
Proof.
  unfold getZ. destruct (assocZ k GEN_POLY) as [g|] eqn:H; [|discriminate]. intros [= ->].
  apply assocZ_In' in H. pose proof gen_poly_ok as T. rewrite forallb_forall in T. specialize (T _ H).
  cbn [fst snd] in T. apply andb_true_iff in T. destruct T as [T1 T2]. split; [lia|].
  apply Forall_forall. intros x Hx. rewrite forallb_forall in T2. specialize (T2 _ Hx). lia.
Qed.

(* ------------------------------------------------------------------ the innermost loop: error_block[k+n+1] ^= exp[lcoef + gen[n]] *)
Definition xor_body (gen : list Z) (lcoef k : Z) := fun (n : Z) (eb : list Z) =>
  do t8 <- py_index eb (k + n + 1);
  do t9 <- py_index gen n;
  do t10 <- py_index GALIOS_EXP (lcoef + t9);
  do eb' <- py_set_item eb (k + n + 1) (Z.lxor t8 t10);
  Ok (@CNext void _ eb').

Lemma xor_loop lcoef k pre : 0 <= lcoef -> lenZ pre = k + 1 ->
  forall gtodo gdone xdone xtodo, length gdone = length xdone -> Forall byte xtodo -> Forall (fun x => 0 <= x) gtodo ->
  py_for (zrange_aux (length gtodo) (lenZ gdone)) (xor_body (gdone ++ gtodo) lcoef k) (pre ++ xdone ++ xtodo)
  = match xor_gen lcoef gtodo xtodo with Ok r => Ok (inr (pre ++ xdone ++ r)) | Err e => Err e end.
Proof.
  intros Hl Hpre. induction gtodo as [|g gt IH]; intros gdone xdone xtodo Hlen Hx Hg.
  - reflexivity.
  - cbn [length zrange_aux py_for xor_gen]. unfold xor_body at 1.
    assert (Hidx : k + lenZ gdone + 1 = lenZ (pre ++ xdone)).
    { rewrite lenZ_app. unfold lenZ in *. lia. }
    rewrite Hidx. rewrite app_assoc.
    destruct xtodo as [|b br].
    + rewrite app_nil_r. rewrite py_index_end. reflexivity.
    + rewrite py_index_app_mid. cbn [bind]. rewrite py_index_app_mid. cbn [bind].
      inversion Hg as [|? ? Hg0 Hgt]; subst. inversion Hx as [|? ? Hb Hbr]; subst.
      rewrite py_index_nonneg by lia. unfold gen_exp.
      destruct (nthZ GALIOS_EXP (lcoef + g)) as [e|ex] eqn:He; cbn [bind]; [|reflexivity].
      rewrite py_set_item_app_mid by (apply lxor_byte; [assumption|eapply exp_byte; eauto]). cbn [bind].
      specialize (IH (gdone ++ [g]) (xdone ++ [Z.lxor b e]) br).
      rewrite <- !app_assoc in IH. cbn [app] in IH.
      replace (lenZ gdone + 1) with (lenZ (gdone ++ [g])) by (rewrite lenZ_app; reflexivity).
      rewrite <- app_assoc. rewrite IH; [|rewrite !app_length; cbn; lia|assumption|assumption].
      destruct (xor_gen lcoef gt br) as [r|ex]; cbn [bind]; [now rewrite <- app_assoc|reflexivity].
Qed.

Lemma xor_gen_bytes lcoef : forall gen blk r, Forall byte blk -> xor_gen lcoef gen blk = Ok r -> Forall byte r.
Proof.
  induction gen as [|g gr IH]; intros blk r Hb H; cbn [xor_gen] in H.
  - now injection H as <-.
  - destruct blk as [|b br]; [discriminate|]. inversion Hb; subst. unfold gen_exp in H.
    destruct (nthZ GALIOS_EXP (lcoef + g)) as [e|] eqn:He; cbn [bind] in H; [|discriminate].
    destruct (xor_gen lcoef gr br) as [rest|] eqn:Hr; cbn [bind] in H; [|discriminate].
    injection H as <-. constructor; [apply lxor_byte; [assumption|eapply exp_byte; eauto]|eapply IH; eauto].
Qed.

(* ------------------------------------------------------------------ the division loop over k *)
Definition div_body (gen : list Z) (num_ec : Z) := fun (k : Z) (eb : list Z) =>
  do t6 <- py_index eb k;
  let coef := t6 in
  do eb' <- (if negb (coef =? 0)
             then do t7 <- py_index GALIOS_LOG coef;
                  let lcoef := t7 in
                  match py_for (zrange 0 num_ec) (xor_body gen lcoef k) eb with
                  | Err e' => Err e'
                  | Ok (inl r') => match r' return _ with end
                  | Ok (inr st') => Ok st'
                  end
             else Ok eb);
  Ok (@CNext void _ eb').

Lemma div_loop gen : Forall (fun x => 0 <= x) gen -> forall n done tail, Forall byte tail ->
  match division n gen tail with
  | Ok r => exists pre', lenZ pre' = lenZ done + Z.of_nat n /\
                         py_for (zrange_aux n (lenZ done)) (div_body gen (lenZ gen)) (done ++ tail) = Ok (inr (pre' ++ r))
  | Err e => py_for (zrange_aux n (lenZ done)) (div_body gen (lenZ gen)) (done ++ tail) = Err e
  end.
Proof.
  intros Hgen. induction n as [|n IH]; intros done tail Ht; cbn [division zrange_aux py_for].
  - exists done. split; [lia|reflexivity].
  - unfold div_body at 1 3. destruct tail as [|coef rest].
    + rewrite app_nil_r, py_index_end. reflexivity.
    + rewrite py_index_app_mid. cbn [bind]. cbv zeta. inversion Ht as [|? ? Hc Hr]; subst.
      assert (Hstep : forall rest', Forall byte rest' ->
        match division n gen rest' with
        | Ok r => exists pre', lenZ pre' = lenZ done + Z.of_nat (S n) /\
             py_for (zrange_aux n (lenZ done + 1)) (div_body gen (lenZ gen)) ((done ++ [coef]) ++ rest') = Ok (inr (pre' ++ r))
        | Err e => py_for (zrange_aux n (lenZ done + 1)) (div_body gen (lenZ gen)) ((done ++ [coef]) ++ rest') = Err e
        end).
      { intros rest' Hr'. specialize (IH (done ++ [coef]) rest' Hr'). rewrite lenZ_app in IH.
        change (lenZ [coef]) with 1 in IH. destruct (division n gen rest') as [r|e]; [|exact IH].
        destruct IH as [pre' [Hp Hf]]. exists pre'. split; [lia|exact Hf]. }
      destruct (coef =? 0) eqn:Ec; cbn [negb bind].
      * specialize (Hstep rest Hr). rewrite <- app_assoc in Hstep. exact Hstep.
      * unfold byte in Hc. rewrite py_index_nonneg by lia. unfold gen_log.
        destruct (nthZ GALIOS_LOG coef) as [l|ex] eqn:Hl; cbn [bind]; [|reflexivity].
        pose proof (log_nonneg _ _ Hl) as Hl0.
        unfold zrange. rewrite Z.sub_0_r. replace (Z.to_nat (lenZ gen)) with (length gen) by (unfold lenZ; lia).
        pose proof (xor_loop l (lenZ done) (done ++ [coef]) Hl0) as HX.
        specialize (HX ltac:(rewrite lenZ_app; reflexivity) gen [] [] rest eq_refl Hr Hgen).
        cbn [app] in HX. change (lenZ (@nil Z)) with 0 in HX.
        replace (done ++ coef :: rest) with ((done ++ [coef]) ++ rest) by (now rewrite <- app_assoc).
        rewrite HX. destruct (xor_gen l gen rest) as [rest'|ex] eqn:Hxg; cbn [bind]; [|reflexivity].
        apply Hstep. eapply xor_gen_bytes; eauto.
Qed.

(* ------------------------------------------------------------------ one block, the blocks of one EC entry, all entries *)
Definition blk_body (nd num_ec : Z) (gen : list Z) := fun (i : Z) (st' : list Z * list (list Z) * list (list Z)) =>
  let '(codewords, data_blocks, error_blocks) := st' in
  do (t'3, codewords0) <- py_islice codewords nd;
  do t'4 <- py_bytearray t'3;
  let block := t'4 in
  let data_blocks0 := data_blocks ++ [block] in
  let len_data := lenZ block in
  do t'5 <- py_bytearray block;
  let error_block := t'5 in
  do error_block0 <- py_buf_extend error_block (py_repeat [0] num_ec);
  match py_for (zrange 0 len_data) (div_body gen num_ec) error_block0 with
  | Err e' => Err e'
  | Ok (inl r') => match r' return _ with end
  | Ok (inr st'0) =>
      let error_block1 := st'0 in
      let error_blocks0 := error_blocks ++ [py_slice_from error_block1 len_data] in
      Ok (@CNext void _ (codewords0, data_blocks0, error_blocks0))
  end.

Lemma Forall_firstn {A} (P : A -> Prop) n : forall l, Forall P l -> Forall P (firstn n l).
Proof. induction n as [|n IH]; intros [|x l] H; cbn; auto. inversion H; subst. constructor; auto. Qed.
Lemma Forall_skipn {A} (P : A -> Prop) n : forall l, Forall P l -> Forall P (skipn n l).
Proof. induction n as [|n IH]; intros [|x l] H; cbn; auto. inversion H; subst. auto. Qed.
Lemma Forall_byte_zeros n : Forall byte (repeat 0 n).
Proof. induction n; cbn; constructor; auto. unfold byte. lia. Qed.

Lemma blk_loop nd num_ec gen : 0 <= nd -> lenZ gen = num_ec -> Forall (fun x => 0 <= x) gen ->
  forall n a cw ds es, Forall byte cw ->
  py_for (zrange_aux n a) (blk_body nd num_ec gen) (cw, ds, es)
  = match blocks_of_info n nd num_ec gen cw with
    | Ok (ds', es', cw') => Ok (inr (cw', ds ++ ds', es ++ es'))
    | Err e => Err e
    end.
Proof.
  intros Hnd Hlen Hgen. induction n as [|n IH]; intros a cw ds es Hcw; cbn [zrange_aux py_for blocks_of_info].
  - now rewrite !app_nil_r.
  - unfold blk_body at 1. unfold py_islice. destruct (nd <? 0) eqn:E; [lia|]. cbn [bind].
    set (block := firstn (Z.to_nat nd) cw). set (cw' := skipn (Z.to_nat nd) cw).
    assert (Hblock : Forall byte block) by (apply Forall_firstn; assumption).
    assert (Hcw' : Forall byte cw') by (apply Forall_skipn; assumption).
    unfold py_bytearray. rewrite forallb_is_byte by assumption. cbn [bind]. cbv zeta.
    rewrite forallb_is_byte by assumption. cbn [bind].
    unfold py_buf_extend. rewrite py_repeat_zeros, forallb_is_byte_repeat0. cbn [bind].
    unfold error_words.
    pose proof (div_loop gen Hgen (length block) [] (block ++ repeat 0 (Z.to_nat num_ec))) as HD.
    specialize (HD ltac:(apply Forall_app; split; [assumption|apply Forall_byte_zeros])).
    cbn [app] in HD. change (lenZ (@nil Z)) with 0 in HD. rewrite Hlen in HD.
    unfold zrange. rewrite Z.sub_0_r. replace (Z.to_nat (lenZ block)) with (length block) by (unfold lenZ; lia).
    destruct (division (length block) gen (block ++ repeat 0 (Z.to_nat num_ec))) as [r|e].
    + destruct HD as [pre' [Hpre HD]]. rewrite HD. cbn [bind]. cbv zeta.
      replace (lenZ block) with (lenZ pre') by (unfold lenZ in *; lia). rewrite py_slice_from_app.
      rewrite IH by assumption. fold cw'.
      destruct (blocks_of_info n nd num_ec gen cw') as [[[ds' es'] cw'']|e]; cbn [bind]; [|reflexivity].
      now rewrite <- !app_assoc.
    + rewrite HD. reflexivity.
Qed.

Definition info_body := fun (ec_info : Z * Z * Z) (st' : list Z * list (list Z) * list (list Z)) =>
  let '(codewords, data_blocks, error_blocks) := st' in
  let num_error_words := ec_num_total ec_info - ec_num_data ec_info in
  do t'2 <- getZ num_error_words GEN_POLY;
  let gen := t'2 in
  match py_for (zrange 0 (ec_num_blocks ec_info)) (blk_body (ec_num_data ec_info) num_error_words gen)
               (codewords, data_blocks, error_blocks) with
  | Err e' => Err e'
  | Ok (inl r') => match r' return _ with end
  | Ok (inr st'0) => let '(codewords0, data_blocks0, error_blocks0) := st'0 in
                     Ok (@CNext void _ (codewords0, data_blocks0, error_blocks0))
  end.

Lemma infos_loop : forall infos cw ds es, Forall (fun e => 0 <= ec_num_data e) infos -> Forall byte cw ->
  match make_blocks_aux infos cw with
  | Ok (ds', es') => exists cw', py_for infos info_body (cw, ds, es) = Ok (inr (cw', ds ++ ds', es ++ es'))
  | Err e => py_for infos info_body (cw, ds, es) = Err e
  end.
Proof.
  induction infos as [|[[nb nt] nd] r IH]; intros cw ds es Hwf Hcw; cbn [make_blocks_aux py_for].
  - exists cw. now rewrite !app_nil_r.
  - inversion Hwf as [|? ? Hnd Hr]; subst. unfold ec_num_data in Hnd. cbn [fst snd] in Hnd.
    unfold info_body at 1 3. unfold ec_num_total, ec_num_data, ec_num_blocks. cbn [fst snd]. cbv zeta.
    destruct (getZ (nt - nd) GEN_POLY) as [gen|e] eqn:Hgen; cbn [bind]; [|reflexivity].
    destruct (gen_poly_facts _ _ Hgen) as [Hlen Hnn].
    unfold zrange. rewrite Z.sub_0_r. rewrite (blk_loop nd (nt - nd) gen Hnd Hlen Hnn) by assumption.
    destruct (blocks_of_info (Z.to_nat nb) nd (nt - nd) gen cw) as [[[ds1 es1] cw1]|e] eqn:Hb; cbn [bind]; [|reflexivity].
    assert (Hcw1 : Forall byte cw1).
    { clear - Hb Hcw. revert cw ds1 es1 cw1 Hb Hcw. induction (Z.to_nat nb) as [|n IHn]; intros cw ds1 es1 cw1 Hb Hcw;
        cbn [blocks_of_info] in Hb.
      - now injection Hb as <- <- <-.
      - destruct (error_words gen (firstn (Z.to_nat nd) cw) (nt - nd)); cbn [bind] in Hb; [|discriminate].
        destruct (blocks_of_info n nd (nt - nd) gen (skipn (Z.to_nat nd) cw)) as [[[d e0] c]|] eqn:Hb2; cbn [bind] in Hb; [|discriminate].
        injection Hb as <- <- <-. eapply IHn; [exact Hb2|]. now apply Forall_skipn. }
    specialize (IH cw1 (ds ++ ds1) (es ++ es1) Hr Hcw1).
    destruct (make_blocks_aux r cw1) as [[ds2 es2]|e]; cbn [bind].
    + destruct IH as [cw' IH]. exists cw'. rewrite IH. now rewrite <- !app_assoc.
    + exact IH.
Qed.

(* ------------------------------------------------------------------ Buffer.toints *)
Lemma take_fill_bits n : forall l, py_take_fill n (bitsZ l) = bitsZ (take_pad n l).
Proof. induction n as [|n IH]; intros [|b r]; cbn [py_take_fill take_pad bitsZ map]; try reflexivity; f_equal; apply (IH []) || apply IH. Qed.
Lemma fold_bits l : forall acc, fold_left (fun a b => 2 * a + b) (bitsZ l) acc = fold_left (fun a b => 2 * a + bit_z b) l acc.
Proof. induction l as [|b r IH]; intros acc; cbn; [reflexivity|apply IH]. Qed.
Lemma toints_fuel_src : forall f l, py_toints_fuel f (bitsZ l) = toints_fuel f l.
Proof.
  induction f as [|f IH]; intros l; [reflexivity|]. cbn [py_toints_fuel toints_fuel].
  destruct l as [|b r]; [reflexivity|]. cbn [bitsZ map]. change (bit_z b :: map bit_z r) with (bitsZ (b :: r)).
  rewrite take_fill_bits. unfold int_of_bits. rewrite fold_bits. f_equal.
  unfold bitsZ. rewrite skipn_map. apply IH.
Qed.
Lemma bits_are_bits l : forallb is_bit (bitsZ l) = true.
Proof. induction l as [|[|] r IH]; cbn; auto. Qed.
Lemma src_toints_is_model buff : py_buffer_toints (bitsZ buff) = Ok (toints buff).
Proof.
  unfold py_buffer_toints, toints. rewrite bits_are_bits. f_equal.
  unfold bitsZ at 1. rewrite map_length. apply toints_fuel_src.
Qed.

Lemma int_of_bits_8_byte l : length l = 8%nat -> byte (int_of_bits l).
Proof.
  intros H. do 8 (destruct l as [|? l]; [discriminate H|]). destruct l; [|discriminate H].
  unfold byte. destruct b, b0, b1, b2, b3, b4, b5, b6; vm_compute; split; congruence.
Qed.
Lemma take_pad_length n : forall bs, length (take_pad n bs) = n.
Proof. induction n as [|n IH]; intros [|b r]; cbn [take_pad length]; auto. Qed.
Lemma toints_bytes buff : Forall byte (toints buff).
Proof.
  unfold toints. generalize (S (length buff)) as f. intros f. revert buff.
  induction f as [|f IH]; intros bs; cbn [toints_fuel]; [constructor|].
  destruct bs as [|b r]; [constructor|]. constructor; [|apply IH].
  apply int_of_bits_8_byte, take_pad_length.
Qed.

(* ------------------------------------------------------------------ make_blocks *)
(* guard: the number of data codewords of every EC entry is not negative (islice raises ValueError otherwise, the model
   takes nothing); true for every entry of consts.ECC, see [ecc_table_wf] *)
Theorem src_make_blocks_is_model : forall (ec_infos : list (Z * Z * Z)) (buff : bits),
  Forall (fun e => 0 <= ec_num_data e) ec_infos ->
  src_make_blocks ec_infos (bitsZ buff)
  = do p <- Stream.make_blocks ec_infos buff; Ok [fst p; snd p].
Proof.
  intros infos buff Hwf. unfold src_make_blocks, Stream.make_blocks.
  rewrite ?TieTables.tie_GALIOS_LOG, ?TieTables.tie_GALIOS_EXP, ?TieTables.tie_GEN_POLY.
  rewrite src_toints_is_model. cbn [bind]. cbv zeta.
  rewrite (py_for_ext infos _ info_body) by (intros x [[c d] e] _; reflexivity).
  pose proof (infos_loop infos (toints buff) [] [] Hwf (toints_bytes buff)) as HL.
  destruct (make_blocks_aux infos (toints buff)) as [[ds es]|e]; cbn [bind fst snd].
  - destruct HL as [cw' HL]. rewrite HL. reflexivity.
  - rewrite HL. reflexivity.
Qed.

Lemma ecc_table_wf_all :
  forallb (fun vr => forallb (fun kr => forallb (fun e => 0 <=? ec_num_data e) (snd kr)) (snd vr)) ECC = true.
Proof. vm_compute. reflexivity. Qed.
Theorem ecc_table_wf version error infos : ec_infos version error = Ok infos -> Forall (fun e => 0 <= ec_num_data e) infos.
Proof.
  unfold ec_infos, getZ, getOZ. destruct (assocZ version ECC) as [row|] eqn:Hr; cbn [bind]; [|discriminate].
  destruct (assocOZ error row) as [i|] eqn:Hi; [|discriminate]. intros [= <-].
  apply assocZ_In' in Hr. apply assocOZ_In' in Hi. destruct Hi as [k Hk].
  pose proof ecc_table_wf_all as T. rewrite forallb_forall in T. specialize (T _ Hr). cbn [snd] in T.
  rewrite forallb_forall in T. specialize (T _ Hk). cbn [snd] in T.
  apply Forall_forall. intros e He. rewrite forallb_forall in T. specialize (T _ He). lia.
Qed.

(* ------------------------------------------------------------------ make_final_message *)
Lemma land1_testbit x n : 0 <= n -> Z.land (Z.shiftr x n) 1 = bit_z (Z.testbit x n).
Proof.
  intros Hn. change 1 with (Z.ones 1). rewrite Z.land_ones by lia. change (2 ^ 1) with 2.
  rewrite <- Z.bit0_mod, Z.shiftr_spec by lia. cbn [Z.add]. now destruct (Z.testbit x n).
Qed.

Lemma rev_zrange_aux_S n : rev (zrange_aux (S n) 0) = Z.of_nat n :: rev (zrange_aux n 0).
Proof.
  replace (S n) with (n + 1)%nat by lia. rewrite TieMat.zrange_aux_app. cbn [zrange_aux]. rewrite rev_app_distr. reflexivity.
Qed.

Lemma to_binary_bits val len :
  map (fun i => Z.land (Z.shiftr val i) 1) (rev (zrange 0 len)) = bitsZ (bits_of val len).
Proof.
  unfold zrange, bits_of. rewrite Z.sub_0_r. induction (Z.to_nat len) as [|n IH]; [reflexivity|].
  rewrite rev_zrange_aux_S. cbn [map bits_of_aux bitsZ]. rewrite land1_testbit by lia. f_equal. exact IH.
Qed.

Lemma py_somes_app {A} (a b : list (option A)) : py_somes (a ++ b) = py_somes a ++ py_somes b.
Proof. induction a as [|[x|] a IH]; cbn; [reflexivity| |]; now rewrite IH. Qed.

Lemma somes_heads (blocks : list (list Z)) :
  py_somes (map (fun l => match l with [] => None | x :: _ => Some x end) blocks)
  = flat_map (fun b => match b with [] => [] | x :: _ => [x] end) blocks.
Proof. induction blocks as [|[|x b] r IH]; cbn; [reflexivity|exact IH|now rewrite IH]. Qed.

Lemma zip_longest_interleave : forall f (blocks : list (list Z)),
  py_somes (concat (py_zip_longest_fuel f blocks)) = interleave_fuel f blocks.
Proof.
  induction f as [|f IH]; intros blocks; [reflexivity|]. cbn [py_zip_longest_fuel interleave_fuel].
  unfold py_all_nil. destruct (forallb _ blocks); [reflexivity|].
  cbn [concat]. rewrite py_somes_app, somes_heads, IH. reflexivity.
Qed.

Lemma src_interleave (blocks : list (list Z)) : py_somes (concat (py_zip_longest blocks)) = interleave blocks.
Proof. apply zip_longest_interleave. Qed.

Lemma bits8_src (l : list Z) :
  concat (map (fun map_x => map (fun i => Z.land (Z.shiftr map_x i) 1) (rev (zrange 0 8))) (map (fun x => x) l))
  = bitsZ (flat_map (fun x => bits_of x 8) l).
Proof.
  rewrite map_id. induction l as [|x r IH]; [reflexivity|]. cbn [map concat flat_map].
  rewrite bitsZ_app, to_binary_bits, IH. reflexivity.
Qed.

Lemma bits_are_bytes l : forallb is_byte (bitsZ l) = true.
Proof. induction l as [|[|] r IH]; cbn; auto. Qed.
Lemma extend_bits a b : py_buf_extend (bitsZ a) (bitsZ b) = Ok (bitsZ (a ++ b)).
Proof. unfold py_buf_extend. now rewrite bits_are_bytes, bitsZ_app. Qed.

Lemma extend_bits_nil b : py_buf_extend [] (bitsZ b) = Ok (bitsZ b).
Proof. apply (extend_bits [] b). Qed.

Lemma removelast_rev {A} (l : list A) x fr : rev l = x :: fr -> removelast l = rev fr.
Proof.
  intros H. assert (Hl : l = rev fr ++ [x]) by (rewrite <- (rev_involutive l), H; reflexivity).
  rewrite Hl. apply removelast_last.
Qed.

Lemma is_m1_m3_src version :
  (version =? -3) || ((version =? -1) || false) = is_m1_m3 version.
Proof. unfold is_m1_m3, VERSION_M1, VERSION_M3. now rewrite orb_false_r. Qed.

Theorem src_make_final_message_is_model : forall (version : Z) (error : option Z) (buff : bits),
  src_make_final_message version error (bitsZ buff)
  = do r <- Stream.make_final_message version error buff; Ok (bitsZ r).
Proof.
  intros version error buff. unfold src_make_final_message, Stream.make_final_message. cbv zeta.
  rewrite TieTables.tie_ECC. unfold ec_infos at 1.
  destruct (getZ version ECC) as [row|e] eqn:Hrow; cbn [bind]; [|reflexivity].
  destruct (getOZ error row) as [infos|e] eqn:Hinfos; cbn [bind]; [|reflexivity].
  assert (Hwf : Forall (fun e => 0 <= ec_num_data e) infos).
  { apply (ecc_table_wf version error). unfold ec_infos. rewrite Hrow. cbn [bind]. exact Hinfos. }
  rewrite src_make_blocks_is_model by assumption.
  destruct (Stream.make_blocks infos buff) as [[ds es]|e]; cbn [bind fst snd py_unpack2]; [|reflexivity].
  rewrite is_m1_m3_src.
  destruct (is_m1_m3 version).
  - destruct ds as [|b0 rest]; [reflexivity|]. cbn [py_index]. unfold py_index, nthZ. cbn [Z.ltb Z.compare Z.to_nat nth_error bind].
    unfold py_pop_last. destruct (rev b0) as [|last front] eqn:Hrev; [reflexivity|]. cbn [bind].
    unfold py_list_set_item, py_norm_index. cbn [Z.ltb Z.compare].
    replace ((0 <=? 0) && (0 <? lenZ (b0 :: rest))) with true by (unfold lenZ; cbn [length]; lia).
    cbn [bind Z.to_nat upd_nat]. cbn [negb].
    rewrite (removelast_rev _ _ _ Hrev).
    rewrite (bits8_src (py_somes (concat (py_zip_longest (rev front :: rest))))) || idtac.
    rewrite !src_interleave. rewrite !bits8_src. rewrite extend_bits_nil. cbn [bind].
    rewrite to_binary_bits. rewrite extend_bits. cbn [bind]. rewrite extend_bits. cbn [bind].
    unfold remainder_bits, memZ. cbn [existsb].
    match goal with |- context [py_repeat [0] ?r] => rewrite (py_repeat_zeros r), <- (bitsZ_zeros r) end.
    rewrite extend_bits. cbn [bind app]. rewrite <- !app_assoc. reflexivity.
  - cbn [bind negb]. rewrite !src_interleave, !bits8_src. rewrite extend_bits_nil. cbn [bind]. rewrite extend_bits. cbn [bind].
    unfold remainder_bits, memZ. cbn [existsb].
    match goal with |- context [py_repeat [0] ?r] => rewrite (py_repeat_zeros r), <- (bitsZ_zeros r) end.
    rewrite extend_bits. cbn [bind app]. rewrite <- !app_assoc. reflexivity.
Qed.

Print Assumptions src_make_blocks_is_model.
Print Assumptions src_make_final_message_is_model.
