(* Bridge theorems: make_blocks (the Reed-Solomon division loop over the Galois tables) of segno/encoder.py, translated
   statement by statement from the CURRENT source (SegnoSrc.SrcEcc, written by gen/translate.py with the Python
   semantics of Base/PySem.v), equals the hand-written model (Model/Stream.v).  The data are arbitrary (unbounded);
   the tables enter through finite facts.  Re-checked by coqc on every run.  See DESIGN.md 11.7. *)
From Coq Require Import ZArith List Bool Lia ZifyBool.
From Segno Require Import Base.PyLite Base.PySem Ref.IsoData Model.Bits Model.Segment Model.Version Model.Stream.
From Segno Require Tie.TieTables.
From Segno Require Import Tie.TieBase.
From SegnoSrc Require SrcTables.
From SegnoSrc Require Import SrcEcc.
Import ListNotations.
Open Scope Z_scope.

Definition byte (x : Z) : Prop := 0 <= x < 256.
Lemma is_byte_true x : byte x -> is_byte x = true.
Proof. unfold byte, is_byte. lia. Qed.
Lemma forallb_is_byte l : Forall byte l -> forallb is_byte l = true.
Proof. intros H. apply forallb_forall. intros x Hx. apply is_byte_true. now apply (proj1 (Forall_forall _ _) H). Qed.
Lemma lxor_byte a b : byte a -> byte b -> byte (Z.lxor a b).
Proof.
  unfold byte. intros Ha Hb. split; [apply Z.lxor_nonneg; lia|].
  destruct (Z.eq_dec (Z.lxor a b) 0) as [->|Hne]; [lia|].
  apply Z.log2_lt_pow2 with (b := 8); [pose proof (Z.lxor_nonneg a b); lia|].
  eapply Z.le_lt_trans; [apply Z.log2_lxor; lia|].
  apply Z.max_lub_lt.
  - destruct (Z.eq_dec a 0) as [->|]; [cbn; lia|]. apply Z.log2_lt_pow2; lia.
  - destruct (Z.eq_dec b 0) as [->|]; [cbn; lia|]. apply Z.log2_lt_pow2; lia.
Qed.

(* ------------------------------------------------------------------ list indexing *)
Lemma lenZ_app {A} (a b : list A) : lenZ (a ++ b) = lenZ a + lenZ b.
Proof. unfold lenZ. rewrite app_length. lia. Qed.
Lemma lenZ_nonneg {A} (l : list A) : 0 <= lenZ l.
Proof. unfold lenZ. lia. Qed.

Lemma nthZ_app_mid {A} (a : list A) x b : nthZ (a ++ x :: b) (lenZ a) = Ok x.
Proof.
  unfold nthZ, lenZ. destruct (Z.of_nat (length a) <? 0) eqn:E; [lia|].
  rewrite Nat2Z.id. rewrite nth_error_app2 by lia. now rewrite Nat.sub_diag.
Qed.
Lemma nthZ_end {A} (a : list A) : nthZ a (lenZ a) = Err IndexErr.
Proof.
  unfold nthZ, lenZ. destruct (Z.of_nat (length a) <? 0) eqn:E; [reflexivity|].
  rewrite Nat2Z.id. destruct (nth_error a (length a)) eqn:H; [|reflexivity].
  assert (Hlt : (length a < length a)%nat) by (apply nth_error_Some; congruence). lia.
Qed.
Lemma py_index_app_mid {A} (a : list A) x b : py_index (a ++ x :: b) (lenZ a) = Ok x.
Proof. rewrite py_index_nonneg by apply lenZ_nonneg. apply nthZ_app_mid. Qed.
Lemma py_index_end {A} (a : list A) : py_index a (lenZ a) = Err IndexErr.
Proof. rewrite py_index_nonneg by apply lenZ_nonneg. apply nthZ_end. Qed.

Lemma upd_nat_app_mid {A} (a : list A) x b v : upd_nat (a ++ x :: b) (length a) v = a ++ v :: b.
Proof. induction a as [|y a IH]; cbn; [reflexivity|]. now rewrite IH. Qed.

Lemma py_set_item_app_mid a x b v : byte v -> py_set_item (a ++ x :: b) (lenZ a) v = Ok (a ++ v :: b).
Proof.
  intros Hv. unfold py_set_item. rewrite is_byte_true by assumption. unfold py_norm_index.
  rewrite lenZ_app. pose proof (lenZ_nonneg a) as Ha. pose proof (lenZ_nonneg b) as Hb.
  destruct (lenZ a <? 0) eqn:E; [lia|].
  replace (lenZ (x :: b)) with (1 + lenZ b) by (unfold lenZ; cbn [length]; lia).
  destruct ((0 <=? lenZ a) && (lenZ a <? lenZ a + (1 + lenZ b))) eqn:E2; [|lia].
  cbn [bind]. unfold lenZ at 1. rewrite Nat2Z.id. now rewrite upd_nat_app_mid.
Qed.

Lemma py_slice_from_app {A} (a b : list A) : py_slice_from (a ++ b) (lenZ a) = b.
Proof.
  unfold py_slice_from. pose proof (lenZ_nonneg a). destruct (lenZ a <? 0) eqn:E; [lia|].
  unfold lenZ. rewrite Nat2Z.id. rewrite skipn_app, skipn_all, Nat.sub_diag. reflexivity.
Qed.

(* ------------------------------------------------------------------ finite facts about the Galois tables *)
Lemma exp_table_bytes : forallb is_byte GALIOS_EXP = true.
Proof. vm_compute. reflexivity. Qed.
Lemma log_table_nonneg : forallb (fun x => 0 <=? x) GALIOS_LOG = true.
Proof. vm_compute. reflexivity. Qed.
Lemma gen_poly_ok : forallb (fun kg => (lenZ (snd kg) =? fst kg) && forallb (fun x => 0 <=? x) (snd kg)) GEN_POLY = true.
Proof. vm_compute. reflexivity. Qed.

Lemma nthZ_In {A} (l : list A) i x : nthZ l i = Ok x -> In x l.
Proof.
  unfold nthZ. destruct (i <? 0); [discriminate|]. destruct (nth_error l (Z.to_nat i)) eqn:H; [|discriminate].
  intros [= <-]. eapply nth_error_In; eauto.
Qed.
Lemma exp_byte i e : nthZ GALIOS_EXP i = Ok e -> byte e.
Proof.
  intros H. apply nthZ_In in H. pose proof exp_table_bytes as T. rewrite forallb_forall in T.
  specialize (T _ H). unfold is_byte, byte in *. lia.
Qed.
Lemma log_nonneg i l : nthZ GALIOS_LOG i = Ok l -> 0 <= l.
Proof.
  intros H. apply nthZ_In in H. pose proof log_table_nonneg as T. rewrite forallb_forall in T.
  specialize (T _ H). lia.
Qed.
Lemma gen_poly_facts k gen : getZ k GEN_POLY = Ok gen -> lenZ gen = k /\ Forall (fun x => 0 <= x) gen.
Proof.
  unfold getZ. destruct (assocZ k GEN_POLY) as [g|] eqn:H; [|discriminate]. intros [= ->].
  apply assocZ_In' in H. pose proof gen_poly_ok as T. rewrite forallb_forall in T. specialize (T _ H).
  cbn [fst snd] in T. apply andb_true_iff in T. destruct T as [T1 T2]. split; [lia|].
  apply Forall_forall. intros x Hx. rewrite forallb_forall in T2. specialize (T2 _ Hx). lia.
Qed.

(* ------------------------------------------------------------------ the innermost loop: error_block[k+n+1] ^= exp[lcoef + gen[n]] *)
Definition xor_body (gen : list Z) (lcoef k : Z) := fun (n : Z) (eb : list Z) =>
  do t8 <- py_index eb (k + n + 1);
  do t9 <- py_index gen n;
  do t10 <- py_index GALIOS_EXP (lcoef + t9);
  do eb' <- py_set_item eb (k + n + 1) (Z.lxor t8 t10);
  Ok (@CNext void _ eb').

Lemma xor_loop lcoef k pre : 0 <= lcoef -> lenZ pre = k + 1 ->
  forall gtodo gdone xdone xtodo, length gdone = length xdone -> Forall byte xtodo -> Forall (fun x => 0 <= x) gtodo ->
  py_for (zrange_aux (length gtodo) (lenZ gdone)) (xor_body (gdone ++ gtodo) lcoef k) (pre ++ xdone ++ xtodo)
  = match xor_gen lcoef gtodo xtodo with Ok r => Ok (inr (pre ++ xdone ++ r)) | Err e => Err e end.
Proof.
  intros Hl Hpre. induction gtodo as [|g gt IH]; intros gdone xdone xtodo Hlen Hx Hg.
  - reflexivity.
  - cbn [length zrange_aux py_for xor_gen]. unfold xor_body at 1.
    assert (Hidx : k + lenZ gdone + 1 = lenZ (pre ++ xdone)).
    { rewrite lenZ_app. unfold lenZ in *. lia. }
    rewrite Hidx. rewrite app_assoc.
    destruct xtodo as [|b br].
    + rewrite app_nil_r. rewrite py_index_end. reflexivity.
    + rewrite py_index_app_mid. cbn [bind]. rewrite py_index_app_mid. cbn [bind].
      inversion Hg as [|? ? Hg0 Hgt]; subst. inversion Hx as [|? ? Hb Hbr]; subst.
      rewrite py_index_nonneg by lia. unfold gen_exp.
      destruct (nthZ GALIOS_EXP (lcoef + g)) as [e|ex] eqn:He; cbn [bind]; [|reflexivity].
      rewrite py_set_item_app_mid by (apply lxor_byte; [assumption|eapply exp_byte; eauto]). cbn [bind].
      specialize (IH (gdone ++ [g]) (xdone ++ [Z.lxor b e]) br).
      rewrite <- !app_assoc in IH. cbn [app] in IH.
      replace (lenZ gdone + 1) with (lenZ (gdone ++ [g])) by (rewrite lenZ_app; reflexivity).
      rewrite <- app_assoc. rewrite IH; [|rewrite !app_length; cbn; lia|assumption|assumption].
      destruct (xor_gen lcoef gt br) as [r|ex]; cbn [bind]; [now rewrite <- app_assoc|reflexivity].
Qed.

Lemma xor_gen_bytes lcoef : forall gen blk r, Forall byte blk -> xor_gen lcoef gen blk = Ok r -> Forall byte r.
Proof.
  induction gen as [|g gr IH]; intros blk r Hb H; cbn [xor_gen] in H.
  - now injection H as <-.
  - destruct blk as [|b br]; [discriminate|]. inversion Hb; subst. unfold gen_exp in H.
    destruct (nthZ GALIOS_EXP (lcoef + g)) as [e|] eqn:He; cbn [bind] in H; [|discriminate].
    destruct (xor_gen lcoef gr br) as [rest|] eqn:Hr; cbn [bind] in H; [|discriminate].
    injection H as <-. constructor; [apply lxor_byte; [assumption|eapply exp_byte; eauto]|eapply IH; eauto].
Qed.

(* ------------------------------------------------------------------ the division loop over k *)
Definition div_body (gen : list Z) (num_ec : Z) := fun (k : Z) (eb : list Z) =>
  do t6 <- py_index eb k;
  let coef := t6 in
  do eb' <- (if negb (coef =? 0)
             then do t7 <- py_index GALIOS_LOG coef;
                  let lcoef := t7 in
                  match py_for (zrange 0 num_ec) (xor_body gen lcoef k) eb with
                  | Err e' => Err e'
                  | Ok (inl r') => match r' return _ with end
                  | Ok (inr st') => Ok st'
                  end
             else Ok eb);
  Ok (@CNext void _ eb').

Lemma div_loop gen : Forall (fun x => 0 <= x) gen -> forall n done tail, Forall byte tail ->
  match division n gen tail with
  | Ok r => exists pre', lenZ pre' = lenZ done + Z.of_nat n /\
                         py_for (zrange_aux n (lenZ done)) (div_body gen (lenZ gen)) (done ++ tail) = Ok (inr (pre' ++ r))
  | Err e => py_for (zrange_aux n (lenZ done)) (div_body gen (lenZ gen)) (done ++ tail) = Err e
  end.
Proof.
  intros Hgen. induction n as [|n IH]; intros done tail Ht; cbn [division zrange_aux py_for].
  - exists done. split; [lia|reflexivity].
  - unfold div_body at 1 3. destruct tail as [|coef rest].
    + rewrite app_nil_r, py_index_end. reflexivity.
    + rewrite py_index_app_mid. cbn [bind]. cbv zeta. inversion Ht as [|? ? Hc Hr]; subst.
      assert (Hstep : forall rest', Forall byte rest' ->
        match division n gen rest' with
        | Ok r => exists pre', lenZ pre' = lenZ done + Z.of_nat (S n) /\
             py_for (zrange_aux n (lenZ done + 1)) (div_body gen (lenZ gen)) ((done ++ [coef]) ++ rest') = Ok (inr (pre' ++ r))
        | Err e => py_for (zrange_aux n (lenZ done + 1)) (div_body gen (lenZ gen)) ((done ++ [coef]) ++ rest') = Err e
        end).
      { intros rest' Hr'. specialize (IH (done ++ [coef]) rest' Hr'). rewrite lenZ_app in IH.
        change (lenZ [coef]) with 1 in IH. destruct (division n gen rest') as [r|e]; [|exact IH].
        destruct IH as [pre' [Hp Hf]]. exists pre'. split; [lia|exact Hf]. }
      destruct (coef =? 0) eqn:Ec; cbn [negb bind].
      * specialize (Hstep rest Hr). rewrite <- app_assoc in Hstep. exact Hstep.
      * unfold byte in Hc. rewrite py_index_nonneg by lia. unfold gen_log.
        destruct (nthZ GALIOS_LOG coef) as [l|ex] eqn:Hl; cbn [bind]; [|reflexivity].
        pose proof (log_nonneg _ _ Hl) as Hl0.
        unfold zrange. rewrite Z.sub_0_r. replace (Z.to_nat (lenZ gen)) with (length gen) by (unfold lenZ; lia).
        pose proof (xor_loop l (lenZ done) (done ++ [coef]) Hl0) as HX.
        specialize (HX ltac:(rewrite lenZ_app; reflexivity) gen [] [] rest eq_refl Hr Hgen).
        cbn [app lenZ length] in HX. change (Z.of_nat 0) with 0 in HX.
        replace (done ++ coef :: rest) with ((done ++ [coef]) ++ rest) by (now rewrite <- app_assoc).
        rewrite HX. destruct (xor_gen l gen rest) as [rest'|ex] eqn:Hxg; cbn [bind]; [|reflexivity].
        apply Hstep. eapply xor_gen_bytes; eauto.
Qed.
