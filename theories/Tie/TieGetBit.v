(* C11 in the kernel: the module classifier translated from the CURRENT utils.matrix_iter_verbose.get_bit
   against the ISO classifier of Ref/Geometry.v, for every position of all 44 symbol sizes and every
   module value ISO allows at that position. *)
From Coq Require Import ZArith List Bool Lia.
From Segno Require Import Base.PyLite Ref.Geometry Ref.Classify.
From SegnoSrc Require Import SrcFuns.
Import ListNotations.
Open Scope Z_scope.

Definition mismatches (size : Z) : list (Z * Z * Z) :=
  let cs := align_centres (version_of_size size) in
  let am := align_matrix size cs in
  let rng := zrange 0 size in
  flat_map (fun i => flat_map (fun j =>
    let t := iso_type size cs i j in
    flat_map (fun val =>
      if (match t with Alignment => negb (am i j =? val) | _ => false end) then [] else
      let got := src_get_bit (fun _ _ => val) am size size true (is_micro_size size) i j in
      if got =? code_of t (val =? 1) then [] else [(i, j, val)]) (allowed_vals t)) rng) rng.

Lemma get_bit_sweep :
  forallb (fun size => forallb (fun '(i, j, _) => kf_fmt_col size i j) (mismatches size)) all_sizes = true.
Proof. vm_compute. reflexivity. Qed.

(* quiet zone: any position outside the symbol *)
Lemma get_bit_quiet size i j m am sq mi :
  negb ((0 <=? i) && (i <? size) && (0 <=? j) && (j <? size)) = true ->
  src_get_bit m am size size sq mi i j = 18.
Proof.
  intros H. unfold src_get_bit.
  destruct (0 <=? i) eqn:?, (i <? size) eqn:?, (0 <=? j) eqn:?, (j <? size) eqn:?;
    cbn in H; try discriminate; reflexivity.
Qed.

(* ---- lifting the sweep to a statement about every position ---- *)
Definition get_bit_at (size i j val : Z) : Z :=
  let cs := align_centres (version_of_size size) in
  src_get_bit (fun _ _ => val) (align_matrix size cs) size size true (is_micro_size size) i j.
Definition iso_code_at (size i j val : Z) : Z :=
  code_of (iso_type size (align_centres (version_of_size size)) i j) (val =? 1).
(* (val) is a value the module at (i,j) can have in a symbol: function patterns have fixed values *)
Definition admissible_val (size i j val : Z) : Prop :=
  let cs := align_centres (version_of_size size) in
  let t := iso_type size cs i j in
  In val (allowed_vals t) /\ (t = Alignment -> align_matrix size cs i j = val).

Lemma in_mismatches size i j val :
  0 <= i < size -> 0 <= j < size -> admissible_val size i j val ->
  get_bit_at size i j val <> iso_code_at size i j val -> In (i, j, val) (mismatches size).
Proof.
  intros Hi Hj [Hval Hal] Hne. unfold mismatches.
  apply in_flat_map. exists i. split; [apply zrange_In; lia|].
  apply in_flat_map. exists j. split; [apply zrange_In; lia|].
  apply in_flat_map. exists val. split; [exact Hval|].
  set (cs := align_centres (version_of_size size)) in *.
  destruct (iso_type size cs i j) eqn:Et;
    try (unfold get_bit_at, iso_code_at in Hne; fold cs in Hne; rewrite Et in Hne;
         match goal with |- In _ (if (?a =? ?b) then _ else _) => destruct (a =? b) eqn:E end;
         [apply Z.eqb_eq in E; contradiction | now left]).
  (* Alignment *)
  rewrite (Hal eq_refl), Z.eqb_refl. cbn [negb].
  unfold get_bit_at, iso_code_at in Hne; fold cs in Hne; rewrite Et in Hne.
  match goal with |- In _ (if (?a =? ?b) then _ else _) => destruct (a =? b) eqn:E end;
    [apply Z.eqb_eq in E; contradiction | now left].
Qed.

Theorem get_bit_is_iso_except_kf size i j val :
  In size all_sizes -> 0 <= i < size -> 0 <= j < size -> admissible_val size i j val ->
  kf_fmt_col size i j = false -> get_bit_at size i j val = iso_code_at size i j val.
Proof.
  intros Hs Hi Hj Hv Hkf.
  destruct (Z.eq_dec (get_bit_at size i j val) (iso_code_at size i j val)) as [E|Hne]; [exact E|exfalso].
  pose proof get_bit_sweep as H. rewrite forallb_forall in H. specialize (H size Hs).
  rewrite forallb_forall in H. specialize (H _ (in_mismatches size i j val Hi Hj Hv Hne)).
  cbn in H. congruence.
Qed.

(* the deviation is real: version 1, module (8, 12) is a data module reported as format information *)
Lemma get_bit_kf_witness : get_bit_at 21 8 12 0 = 14 /\ iso_code_at 21 8 12 0 = 4 /\ kf_fmt_col 21 8 12 = true.
Proof. vm_compute. repeat split; reflexivity. Qed.
Lemma get_bit_kf_everywhere :
  forallb (fun size => is_micro_size size || negb (get_bit_at size 8 (size - 9) 0 =? iso_code_at size 8 (size - 9) 0)) all_sizes = true.
Proof. vm_compute. reflexivity. Qed.
