(* Model of the payload builders of segno/helpers.py:
     _MECARD_ESCAPE, _VCARD_ESCAPE, _VCARD_ESCAPE_NAME, _escape_mecard, _escape_vcard,
     make_wifi_data, make_mecard_data, make_vcard_data, make_geo_data, make_make_email_data,
     _make_epc_qr_data.

   Strings are lists of code points ([str] of Model/Color.v).  Argument encoding:
   * `str`                      -> [str]
   * `str or None`              -> [option str]
   * `str, iterable of str, None` (multi-valued) -> [list str]:   None, '' and an empty iterable are [[]] (all
     three are falsy and take the same branch), a single non-empty str s is [[s]], an iterable is its list.
   * `bool`                     -> [bool]
   * numbers (float / int / Decimal): the EXACT decimal value as [dec] = (sign, mantissa, scale) meaning
     +-mantissa / 10^scale (every float is such a decimal: Decimal(f).as_tuple()), or nan / +-inf.
   * date objects: the already formatted string (strftime is not modelled).
   Oracle results (things computed by CPython that are not modelled): `security.upper()` (Unicode upper-casing),
   the result of the `_looks_like_datetime` regex, `str(lat)`/`bool(lat)`, and for EPC the encodability of the
   payload text in the eight encodings.

   Exceptions: [Err ValueError] = ValueError proper; [Err UnicodeErr] = UnicodeEncodeError (a subclass of
   ValueError).  No other exception class occurs for inputs of the documented types (state of helpers.py after
   commit 662d46b: decimal.InvalidOperation is caught and turned into ValueError). *)
From Coq Require Import ZArith List Bool.
From Segno Require Import Base.PyLite Model.Color.
Import ListNotations.
Open Scope Z_scope.

(* ---------------------------------------------------------------------------------------------- *)
(* generic string helpers *)

Definition nonempty (s : str) : bool := match s with [] => false | _ => true end.
(* Python truthiness of a `str or None` value *)
Definition truthy (o : option str) : bool := match o with Some (_ :: _) => true | _ => false end.
Definition or_empty (o : option str) : str := match o with Some s => s | None => [] end.

Fixpoint join (sep : str) (l : list str) : str :=
  match l with
  | [] => []
  | x :: r => match r with [] => x | _ => x ++ sep ++ join sep r end
  end.

(* str.translate(table): a code point with an entry is replaced by the entry, others are kept *)
Definition translate (tbl : list (Z * str)) (s : str) : str :=
  flat_map (fun c => match assocZ c tbl with Some r => r | None => [c] end) s.

(* str.rstrip(chars) / lstrip for a character class p *)
Fixpoint rstrip_by (p : Z -> bool) (s : str) : str :=
  match s with
  | [] => []
  | x :: r => match rstrip_by p r with
              | [] => if p x then [] else [x]
              | r' => x :: r'
              end
  end.
Fixpoint lstrip_by (p : Z -> bool) (s : str) : str :=
  match s with
  | [] => []
  | x :: r => if p x then lstrip_by p r else s
  end.
Definition rstrip_char (c : Z) (s : str) : str := rstrip_by (Z.eqb c) s.

(* str.isspace() for one code point (CPython 3.12 / Unicode 15: checked over all 0x110000 code points) *)
Definition is_space (c : Z) : bool :=
  ((9 <=? c) && (c <=? 13)) || ((28 <=? c) && (c <=? 32)) || (c =? 133) || (c =? 160) || (c =? 5760)
  || ((8192 <=? c) && (c <=? 8202)) || (c =? 8232) || (c =? 8233) || (c =? 8239) || (c =? 8287) || (c =? 12288).
Definition py_rstrip (s : str) : str := rstrip_by is_space s.
Definition py_strip (s : str) : str := rstrip_by is_space (lstrip_by is_space s).

(* str.upper() restricted to ASCII letters (the general function is an oracle, e.g. 'ß'.upper() = 'SS') *)
Definition upper_cp (c : Z) : Z := if (97 <=? c) && (c <=? 122) then c - 32 else c.
Definition upper_ascii (s : str) : str := map upper_cp s.

(* ---------------------------------------------------------------------------------------------- *)
(* constants *)
Definition K_WIFI : str := [87; 73; 70; 73; 58].  (* 'WIFI:' *)
Definition K_T : str := [84].  (* 'T' *)
Definition K_S : str := [83].  (* 'S' *)
Definition K_P : str := [80].  (* 'P' *)
Definition K_HTRUE : str := [72; 58; 116; 114; 117; 101; 59].  (* 'H:true;' *)
Definition K_H : str := [72].  (* 'H' *)
Definition K_true : str := [116; 114; 117; 101].  (* 'true' *)
Definition K_nopass : str := [110; 111; 112; 97; 115; 115].  (* 'nopass' *)
Definition K_MECARD : str := [77; 69; 67; 65; 82; 68; 58].  (* 'MECARD:' *)
Definition K_N : str := [78].  (* 'N' *)
Definition K_SOUND : str := [83; 79; 85; 78; 68].  (* 'SOUND' *)
Definition K_TEL : str := [84; 69; 76].  (* 'TEL' *)
Definition K_TELAV : str := [84; 69; 76; 65; 86].  (* 'TELAV' *)
Definition K_EMAIL : str := [69; 77; 65; 73; 76].  (* 'EMAIL' *)
Definition K_NICKNAME : str := [78; 73; 67; 75; 78; 65; 77; 69].  (* 'NICKNAME' *)
Definition K_BDAY : str := [66; 68; 65; 89].  (* 'BDAY' *)
Definition K_URL : str := [85; 82; 76].  (* 'URL' *)
Definition K_ADR : str := [65; 68; 82].  (* 'ADR' *)
Definition K_MEMO : str := [77; 69; 77; 79].  (* 'MEMO' *)
Definition K_BEGIN : str := [66; 69; 71; 73; 78; 58; 86; 67; 65; 82; 68].  (* 'BEGIN:VCARD' *)
Definition K_VERSION : str := [86; 69; 82; 83; 73; 79; 78; 58; 51; 46; 48].  (* 'VERSION:3.0' *)
Definition K_END : str := [69; 78; 68; 58; 86; 67; 65; 82; 68].  (* 'END:VCARD' *)
Definition K_FN : str := [70; 78].  (* 'FN' *)
Definition K_ORG : str := [79; 82; 71].  (* 'ORG' *)
Definition K_TELFAX : str := [84; 69; 76; 59; 84; 89; 80; 69; 61; 70; 65; 88].  (* 'TEL;TYPE=FAX' *)
Definition K_TELVIDEO : str := [84; 69; 76; 59; 84; 89; 80; 69; 61; 86; 73; 68; 69; 79].  (* 'TEL;TYPE=VIDEO' *)
Definition K_TELCELL : str := [84; 69; 76; 59; 84; 89; 80; 69; 61; 67; 69; 76; 76].  (* 'TEL;TYPE=CELL' *)
Definition K_TELHOME : str := [84; 69; 76; 59; 84; 89; 80; 69; 61; 72; 79; 77; 69].  (* 'TEL;TYPE=HOME' *)
Definition K_TELWORK : str := [84; 69; 76; 59; 84; 89; 80; 69; 61; 87; 79; 82; 75].  (* 'TEL;TYPE=WORK' *)
Definition K_TITLE : str := [84; 73; 84; 76; 69].  (* 'TITLE' *)
Definition K_PHOTO : str := [80; 72; 79; 84; 79; 59; 86; 65; 76; 85; 69; 61; 117; 114; 105].  (* 'PHOTO;VALUE=uri' *)
Definition K_GEO : str := [71; 69; 79].  (* 'GEO' *)
Definition K_SOURCE : str := [83; 79; 85; 82; 67; 69].  (* 'SOURCE' *)
Definition K_NOTE : str := [78; 79; 84; 69].  (* 'NOTE' *)
Definition K_REV : str := [82; 69; 86].  (* 'REV' *)
Definition K_geo : str := [103; 101; 111; 58].  (* 'geo:' *)
Definition K_mailto : str := [109; 97; 105; 108; 116; 111; 58].  (* 'mailto:' *)
Definition K_cc : str := [99; 99].  (* 'cc' *)
Definition K_bcc : str := [98; 99; 99].  (* 'bcc' *)
Definition K_subject : str := [115; 117; 98; 106; 101; 99; 116].  (* 'subject' *)
Definition K_body : str := [98; 111; 100; 121].  (* 'body' *)
Definition K_BCD : str := [66; 67; 68].  (* 'BCD' *)
Definition K_002 : str := [48; 48; 50].  (* '002' *)
Definition K_SCT : str := [83; 67; 84].  (* 'SCT' *)
Definition K_EUR : str := [69; 85; 82].  (* 'EUR' *)
Definition K_nan : str := [110; 97; 110].  (* 'nan' *)
Definition K_inf : str := [105; 110; 102].  (* 'inf' *)
Definition K_minf : str := [45; 105; 110; 102].  (* '-inf' *)
Definition CRLF : str := [13; 10].

(* ---------------------------------------------------------------------------------------------- *)
(* escape tables *)

Definition MECARD_ESCAPE : list (Z * str) :=
  [(92, [92; 92]); (59, [92; 59]); (58, [92; 58]); (34, [92; 34])].

Definition VCARD_ESCAPE : list (Z * str) :=
  [(92, [92; 92]); (44, [92; 44]); (59, [92; 59]); (10, [92; 110]); (13, [])].

(* {k: v for k, v in _VCARD_ESCAPE.items() if k not in (ord(','), ord(';'))} *)
Definition VCARD_ESCAPE_NAME : list (Z * str) :=
  filter (fun kv => negb (memZ (fst kv) [44; 59])) VCARD_ESCAPE.

Definition escape_mecard (s : str) : str := translate MECARD_ESCAPE s.
Definition escape_vcard (s : str) : str := translate VCARD_ESCAPE s.
Definition escape_vcard_name (s : str) : str := translate VCARD_ESCAPE_NAME s.

(* ---------------------------------------------------------------------------------------------- *)
(* make_wifi_data(ssid, password=None, security=None, hidden=False)
   [security_upper] is the oracle result of `security.upper()`; it is used only when security is a non-empty
   string different from "nopass".  [make_wifi_data_ascii] computes it for ASCII security values. *)

(* f'{key}:{escape(v)};' *)
Definition mecard_field (key v : str) : str := key ++ [58] ++ escape_mecard v ++ [59].

Definition make_wifi_data (ssid : str) (password : option str) (security : option str)
           (security_upper : str) (hidden : bool) : str :=
  K_WIFI
  ++ (if truthy security
      then mecard_field K_T (if str_eqb (or_empty security) K_nopass then or_empty security else security_upper)
      else [])
  ++ mecard_field K_S ssid
  ++ (match password with Some p => mecard_field K_P p | None => [] end)
  ++ (if hidden then K_HTRUE else [59]).

Definition make_wifi_data_ascii (ssid : str) (password security : option str) (hidden : bool) : str :=
  make_wifi_data ssid password security (upper_ascii (or_empty security)) hidden.

(* ---------------------------------------------------------------------------------------------- *)
(* make_mecard_data *)

Record mecard_args := {
  mc_name : str;
  mc_reading : option str;
  mc_email : list str;
  mc_phone : list str;
  mc_videophone : list str;
  mc_memo : option str;
  mc_nickname : option str;
  mc_birthday : option str;        (* str, or date.strftime('%Y%m%d') *)
  mc_url : list str;
  mc_pobox : option str;
  mc_roomno : option str;
  mc_houseno : option str;
  mc_city : option str;
  mc_prefecture : option str;
  mc_zipcode : option str;
  mc_country : option str }.

Definition mecard_multi (key : str) (vals : list str) : list str := map (mecard_field key) vals.
Definition mecard_opt (key : str) (o : option str) : list str :=
  if truthy o then [mecard_field key (or_empty o)] else [].

Definition mecard_adr_props (a : mecard_args) : list (option str) :=
  [mc_pobox a; mc_roomno a; mc_houseno a; mc_city a; mc_prefecture a; mc_zipcode a; mc_country a].

(* 'ADR:{0},{1},{2},{3},{4},{5},{6};' *)
Definition mecard_adr (props : list (option str)) : list str :=
  if existsb truthy props
  then [K_ADR ++ [58] ++ join [44] (map (fun o => escape_mecard (or_empty o)) props) ++ [59]]
  else [].

Definition mecard_pieces (a : mecard_args) : list str :=
  [mecard_field K_N (mc_name a)]
  ++ mecard_opt K_SOUND (mc_reading a)
  ++ mecard_multi K_TEL (mc_phone a)
  ++ mecard_multi K_TELAV (mc_videophone a)
  ++ mecard_multi K_EMAIL (mc_email a)
  ++ mecard_opt K_NICKNAME (mc_nickname a)
  ++ mecard_opt K_BDAY (mc_birthday a)
  ++ mecard_multi K_URL (mc_url a)
  ++ mecard_adr (mecard_adr_props a)
  ++ mecard_opt K_MEMO (mc_memo a).

Definition make_mecard_data (a : mecard_args) : str :=
  K_MECARD ++ concat (mecard_pieces a) ++ [59].

(* ---------------------------------------------------------------------------------------------- *)
(* make_vcard_data *)

Record vcard_args := {
  vc_name : str;
  vc_displayname : str;
  vc_email : list str;
  vc_phone : list str;
  vc_fax : list str;
  vc_videophone : list str;
  vc_memo : option str;
  vc_nickname : option str;
  vc_birthday : option (str * bool);   (* (text or strftime('%Y-%m-%d'), result of _looks_like_datetime) *)
  vc_url : list str;
  vc_pobox : option str;
  vc_street : option str;
  vc_city : option str;
  vc_region : option str;
  vc_zipcode : option str;
  vc_country : option str;
  vc_org : option str;
  vc_lat : option (bool * str);        (* (bool(lat), str(lat)); the bool is IGNORED since commit 6ed14bf
                                          (only `lat is None` matters); kept so that the type is stable *)
  vc_lng : option (bool * str);
  vc_source : option str;
  vc_rev : option (str * bool);
  vc_title : list str;
  vc_photo_uri : list str;
  vc_cellphone : list str;
  vc_homephone : list str;
  vc_workphone : list str }.

(* f'{name}:{value}' *)
Definition vline (name v : str) : str := name ++ [58] ++ v.
Definition vcard_multi (name : str) (vals : list str) : list str := map (fun v => vline name (escape_vcard v)) vals.
Definition vcard_opt (name : str) (o : option str) : list str :=
  if truthy o then [vline name (escape_vcard (or_empty o))] else [].

Definition vcard_adr_props (a : vcard_args) : list (option str) :=
  [vc_pobox a; vc_street a; vc_city a; vc_region a; vc_zipcode a; vc_country a].

(* 'ADR:{0};;{1};{2};{3};{4};{5}' *)
Definition vcard_adr (props : list (option str)) : list str :=
  if existsb truthy props
  then match map (fun o => escape_vcard (or_empty o)) props with
       | p0 :: rest => [vline K_ADR (join [59] (p0 :: [] :: rest))]
       | [] => []
       end
  else [].

(* `x is not None` *)
Definition geo_given (o : option (bool * str)) : bool := match o with Some _ => true | None => false end.
Definition geo_text (o : option (bool * str)) : str := match o with Some (_, s) => s | None => [] end.

(* birthday / rev: `if v:` ... `if not _looks_like_datetime(v): raise ValueError` ... f'{name}:{v}' *)
Definition vcard_date (name : str) (o : option (str * bool)) : res (list str) :=
  match o with
  | Some (s, ok) => if nonempty s then (if ok then Ok [vline name s] else Err ValueError) else Ok []
  | None => Ok []
  end.

Definition vcard_lines (a : vcard_args) : res (list str) :=
  let head :=
    [K_BEGIN; K_VERSION; vline K_N (escape_vcard_name (vc_name a)); vline K_FN (escape_vcard (vc_displayname a))]
    ++ vcard_opt K_ORG (vc_org a)
    ++ vcard_multi K_EMAIL (vc_email a)
    ++ vcard_multi K_TEL (vc_phone a)
    ++ vcard_multi K_TELFAX (vc_fax a)
    ++ vcard_multi K_TELVIDEO (vc_videophone a)
    ++ vcard_multi K_TELCELL (vc_cellphone a)
    ++ vcard_multi K_TELHOME (vc_homephone a)
    ++ vcard_multi K_TELWORK (vc_workphone a)
    ++ vcard_multi K_URL (vc_url a)
    ++ vcard_multi K_TITLE (vc_title a)
    ++ vcard_multi K_PHOTO (vc_photo_uri a)
    ++ vcard_opt K_NICKNAME (vc_nickname a)
    ++ vcard_adr (vcard_adr_props a) in
  do bday <- vcard_date K_BDAY (vc_birthday a);
  let lat := geo_given (vc_lat a) in
  let lng := geo_given (vc_lng a) in
  (* if (lat is None) != (lng is None): raise ValueError *)
  if negb (Bool.eqb lat lng) then Err ValueError else
  let geo := if lat && lng then [vline K_GEO (geo_text (vc_lat a) ++ [59] ++ geo_text (vc_lng a))] else [] in
  let tail1 := vcard_opt K_SOURCE (vc_source a) ++ vcard_opt K_NOTE (vc_memo a) in
  do rev <- vcard_date K_REV (vc_rev a);
  Ok (head ++ bday ++ geo ++ tail1 ++ rev ++ [K_END; []]).

Definition make_vcard_data (a : vcard_args) : res str :=
  do ls <- vcard_lines a; Ok (join CRLF ls).

(* ---------------------------------------------------------------------------------------------- *)
(* decimal numbers and '{:.Nf}' formatting *)

(* +-mant / 10^scale, 0 <= mant, 0 <= scale *)
Record dec := { d_neg : bool; d_mant : Z; d_scale : Z }.
Inductive fnum := NFin (d : dec) | NNan | NInf (neg : bool).

(* decimal digits of n >= 0, most significant first; the fuel is never exhausted when 2^fuel > n *)
Fixpoint digits_fuel (fuel : nat) (n : Z) : str :=
  if n <? 10 then [48 + n] else
  match fuel with
  | O => [48 + n mod 10]
  | S f => digits_fuel f (n / 10) ++ [48 + n mod 10]
  end.
Definition digits (n : Z) : str := digits_fuel (S (Z.to_nat (Z.log2 n))) n.

(* exactly k digits: the k low decimal digits of r *)
Fixpoint lowdigits (k : nat) (r : Z) : str :=
  match k with O => [] | S k' => lowdigits k' (r / 10) ++ [48 + r mod 10] end.

(* mant / 10^scale rounded half-even to k fraction digits, as the integer q with value q / 10^k *)
Definition round_half_even (mant scale k : Z) : Z :=
  if scale <=? k then mant * 10 ^ (k - scale) else
  let d := 10 ^ (scale - k) in
  let q := mant / d in
  let r := mant mod d in
  if 2 * r <? d then q else if d <? 2 * r then q + 1 else if Z.even q then q else q + 1.

(* '{:.kf}' of +-q/10^k *)
Definition fixed_str (k : nat) (neg : bool) (q : Z) : str :=
  (if neg then [45] else []) ++ digits (q / 10 ^ Z.of_nat k) ++ [46] ++ lowdigits k q.

Definition format_fixed (k : nat) (d : dec) : str :=
  fixed_str k (d_neg d) (round_half_even (d_mant d) (d_scale d) (Z.of_nat k)).

(* s.rstrip('0').rstrip('.') *)
Definition py_trim (s : str) : str := rstrip_char 46 (rstrip_char 48 s).

(* float.__format__(f, '.8f') *)
Definition float_fmt8 (x : fnum) : str :=
  match x with
  | NFin d => format_fixed 8 d
  | NNan => K_nan
  | NInf false => K_inf
  | NInf true => K_minf
  end.

(* make_geo_data(lat, lng) *)
Definition geo_float_to_str (x : fnum) : str := py_trim (float_fmt8 x).
Definition make_geo_data (lat lng : fnum) : str :=
  K_geo ++ geo_float_to_str lat ++ [44] ++ geo_float_to_str lng.

(* ---------------------------------------------------------------------------------------------- *)
(* UTF-8 and urllib.parse.quote(bytes) with the default safe='/' *)

Definition utf8_cp (c : Z) : res (list Z) :=
  if c <? 0 then Err UnicodeErr
  else if c <? 128 then Ok [c]
  else if c <? 2048 then Ok [192 + c / 64; 128 + c mod 64]
  else if c <? 65536 then
    if (55296 <=? c) && (c <=? 57343) then Err UnicodeErr   (* lone surrogate: UnicodeEncodeError *)
    else Ok [224 + c / 4096; 128 + (c / 64) mod 64; 128 + c mod 64]
  else if c <? 1114112 then Ok [240 + c / 262144; 128 + (c / 4096) mod 64; 128 + (c / 64) mod 64; 128 + c mod 64]
  else Err UnicodeErr.

Fixpoint utf8_encode (s : str) : res (list Z) :=
  match s with
  | [] => Ok []
  | c :: r => do b <- utf8_cp c; do br <- utf8_encode r; Ok (b ++ br)
  end.

(* A-Z a-z 0-9 _ . - ~ and '/' *)
Definition quote_safe (b : Z) : bool :=
  ((65 <=? b) && (b <=? 90)) || ((97 <=? b) && (b <=? 122)) || ((48 <=? b) && (b <=? 57))
  || (b =? 95) || (b =? 46) || (b =? 45) || (b =? 126) || (b =? 47).
Definition hexdigit_upper (n : Z) : Z := if n <? 10 then 48 + n else 55 + n.
Definition quote_byte (b : Z) : str :=
  if quote_safe b then [b] else [37; hexdigit_upper (b / 16); hexdigit_upper (b mod 16)].
Definition quote_bytes (bs : list Z) : str := flat_map quote_byte bs.
(* quote(val.encode('utf-8')) *)
Definition quote_utf8 (s : str) : res str := do bs <- utf8_encode s; Ok (quote_bytes bs).

(* ---------------------------------------------------------------------------------------------- *)
(* make_make_email_data(to, cc=None, bcc=None, subject=None, body=None) *)

(* one step of `for key, val in (('cc', cc), ('bcc', bcc))`: returns (text appended, new delim) *)
Definition email_addr_part (delim : Z) (key : str) (vals : list str) : str * Z :=
  match vals with
  | [] => ([], delim)
  | _ => ([delim] ++ key ++ [61] ++ join [44] vals, 38)
  end.

(* one step of `for key, val in (('subject', subject), ('body', body))`: returns (text appended, new delim);
   the delimiter becomes '&' only when the value was written (commit 578204b) *)
Definition email_text_part (delim : Z) (key : str) (val : option str) : res (str * Z) :=
  match val with
  | Some v => do q <- quote_utf8 v; Ok ([delim] ++ key ++ [61] ++ q, 38)
  | None => Ok ([], delim)
  end.

Definition make_make_email_data (to cc bcc : list str) (subject body : option str) : res str :=
  match to with
  | [] => Err ValueError
  | _ =>
    let '(p_cc, d1) := email_addr_part 63 K_cc cc in
    let '(p_bcc, d2) := email_addr_part d1 K_bcc bcc in
    do (p_subject, d3) <- email_text_part d2 K_subject subject;
    do (p_body, _) <- email_text_part d3 K_body body;
    Ok (K_mailto ++ join [44] to ++ p_cc ++ p_bcc ++ p_subject ++ p_body)
  end.

(* ---------------------------------------------------------------------------------------------- *)
(* _make_epc_qr_data(name, iban, amount, text=None, reference=None, bic=None, purpose=None, encoding=None) *)

Definition EPC_ENCODINGS : list str :=
  [[117; 116; 102; 45; 56] (* utf-8 *);
   [105; 115; 111; 45; 56; 56; 53; 57; 45; 49] (* iso-8859-1 *);
   [105; 115; 111; 45; 56; 56; 53; 57; 45; 50] (* iso-8859-2 *);
   [105; 115; 111; 45; 56; 56; 53; 57; 45; 52] (* iso-8859-4 *);
   [105; 115; 111; 45; 56; 56; 53; 57; 45; 53] (* iso-8859-5 *);
   [105; 115; 111; 45; 56; 56; 53; 57; 45; 55] (* iso-8859-7 *);
   [105; 115; 111; 45; 56; 56; 53; 57; 45; 49; 48] (* iso-8859-10 *);
   [105; 115; 111; 45; 56; 56; 53; 57; 45; 49; 53] (* iso-8859-15 *)].

(* amount: int / float / Decimal given by its exact value; ABad = a string decimal.Decimal cannot parse
   (not a documented type).  decimal.InvalidOperation (ABad: conversion, ANaN: comparison) is caught by the
   function and becomes `in_range = False`, i.e. ValueError. *)
Inductive amount := AFin (d : dec) | ANaN | AInf (neg : bool) | ABad.
Inductive epc_encoding := EncNone | EncName (s : str) | EncNum (n : Z).

Record epc_args := {
  epc_name : option str;
  epc_iban : option str;
  epc_amount : amount;
  epc_text : option str;
  epc_reference : option str;
  epc_bic : option str;
  epc_purpose : option str;
  epc_enc : epc_encoding }.

(* `x.f() if x else x` *)
Definition map_truthy (f : str -> str) (o : option str) : option str :=
  if truthy o then Some (f (or_empty o)) else o.

(* tuple.index *)
Fixpoint index_of (x : str) (l : list str) (i : Z) : option Z :=
  match l with [] => None | y :: r => if str_eqb x y then Some i else index_of x r (i + 1) end.

(* the `encoding` argument -> requested charset number (None = automatic).  `encoding.lower()`: the ASCII lowering
   [lower] gives the same lookups as Python's str.lower() because every name in EPC_ENCODINGS is ASCII without 'k'
   (U+212A -> 'k' and U+0130 -> 'i' + U+0307 are the only non-ASCII code points whose lower() contains an ASCII
   character: Base/PyCase.v; Lemmas/CaseLemmas.v epc_requested_py_lower). *)
Definition epc_requested (e : epc_encoding) : res (option Z) :=
  match e with
  | EncNone => Ok None
  | EncName s => match index_of (lower s) EPC_ENCODINGS 1 with Some i => Ok (Some i) | None => Err ValueError end
  | EncNum n => if (1 <=? n) && (n <=? lenZ EPC_ENCODINGS) then Ok (Some n) else Err ValueError
  end.

(* Decimal('0.01') <= amount <= Decimal('999999999.99') on exact values *)
Definition amount_in_range (d : dec) : bool :=
  negb (d_neg d) && (10 ^ d_scale d <=? 100 * d_mant d) && (100 * d_mant d <=? 99999999999 * 10 ^ d_scale d).

(* f'EUR{amount:.2f}'.rstrip('0').rstrip('.') *)
Definition epc_amount_str (d : dec) : str := py_trim (K_EUR ++ format_fixed 2 d).

Definition epc_check_amount (a : amount) : res dec :=
  match a with
  | ABad => Err ValueError              (* decimal.InvalidOperation (ConversionSyntax) caught *)
  | ANaN => Err ValueError              (* decimal.InvalidOperation of the comparison caught *)
  | AInf _ => Err ValueError
  | AFin d => if amount_in_range d then Ok d else Err ValueError
  end.

(* first of 2..8 whose encoding can encode the data, else 1 *)
Definition epc_auto_charset (encodable : Z -> bool) : Z :=
  match find encodable [2; 3; 4; 5; 6; 7; 8] with Some i => i | None => 1 end.

Definition epc_lines (charset : Z) (bic name iban amount_s purpose reference : str) (text : option str) : list str :=
  [K_BCD; K_002; digits charset; K_SCT; bic; name; iban; amount_s; purpose; reference]
  ++ (if truthy text then [or_empty text] else []).

(* result: (character set number, payload text); the bytes of the real function are
   payload.encode(encodings[charset - 1]).
   [encodable n]  = "the payload text can be encoded with encoding number n" (independent of the digit on line 3)
   [byte_len n t] = len(t.encode(encodings[n - 1])) *)
Definition make_epc_qr_data (encodable : Z -> bool) (byte_len : Z -> str -> Z) (a : epc_args)
  : res (Z * str) :=
  let text := map_truthy py_rstrip (epc_text a) in
  let reference := map_truthy py_rstrip (epc_reference a) in
  let bic := map_truthy py_strip (epc_bic a) in
  let name := map_truthy py_strip (epc_name a) in
  do requested <- epc_requested (epc_enc a);
  if (negb (truthy text) && negb (truthy reference)) || (truthy text && truthy reference) then Err ValueError else
  if truthy text && negb (lenZ (or_empty text) <=? 140) then Err ValueError else
  if truthy reference && negb (lenZ (or_empty reference) <=? 35) then Err ValueError else
  match name with
  | None => Err ValueError
  | Some nm =>
    if negb ((0 <? lenZ nm) && (lenZ nm <=? 70)) then Err ValueError else
    match epc_iban a with
    | None => Err ValueError
    | Some iban =>
      if negb ((4 <? lenZ iban) && (lenZ iban <=? 34)) then Err ValueError else
      if truthy bic && negb (memZ (lenZ (or_empty bic)) [8; 11]) then Err ValueError else
      if truthy (epc_purpose a) && negb (lenZ (or_empty (epc_purpose a)) =? 4) then Err ValueError else
      do amt <- epc_check_amount (epc_amount a);
      let charset := match requested with Some n => n | None => epc_auto_charset encodable end in
      let payload := join [10] (epc_lines charset (or_empty bic) nm iban (epc_amount_str amt)
                                          (or_empty (epc_purpose a)) (or_empty reference) text) in
      if negb (encodable charset) then Err UnicodeErr else
      if 331 <? byte_len charset payload then Err ValueError else
      Ok (charset, payload)
    end
  end.

(* Instance for differential testing: [enc] lists, for charset numbers 1..8, whether the user-supplied text
   can be encoded; the byte length is computed: UTF-8 length for charset 1, one byte per code point otherwise
   (ISO 8859-x are single-byte encodings). *)
Definition std_byte_len (n : Z) (t : str) : Z :=
  if n =? 1 then match utf8_encode t with Ok b => lenZ b | Err _ => 0 end else lenZ t.
Definition make_epc_qr_data_std (enc : list bool) (a : epc_args) : res (Z * str) :=
  make_epc_qr_data (fun n => nth (Z.to_nat (n - 1)) enc false) std_byte_len a.
