(* Model of segno.utils: border/scale checks, matrix_iter, matrix_iter_verbose, matrix_to_lines. *)
From Coq Require Import ZArith List Bool Lia QArith.
From Segno Require Import Base.PyLite Ref.IsoData.
Import ListNotations.
Open Scope Z_scope.

(* a Python number given for `scale` / `border`: int or float (floats as exact rationals) *)
Inductive pynum := PInt (z : Z) | PFloat (q : Q).
Definition q_of (n : pynum) : Q := match n with PInt z => inject_Z z | PFloat q => q end.
(* int(x): truncation toward zero *)
Definition py_int (n : pynum) : Z :=
  match n with
  | PInt z => z
  | PFloat q => Z.quot (Qnum q) (Zpos (Qden q))
  end.
Definition q_lebz (q : Q) (z : Z) : bool := Qle_bool q (inject_Z z).
Definition q_ltz (q : Q) (z : Z) : bool := negb (Qle_bool (inject_Z z) q).

Definition get_default_border_size (width height : Z) : Z := if (17 <? width) && (width =? height) then 4 else 2.
Definition check_valid_scale (scale : pynum) : res unit :=
  if q_lebz (q_of scale) 0 then Err ValueError else Ok tt.
Definition check_valid_border (border : option pynum) : res unit :=
  match border with
  | None => Ok tt
  | Some b => if negb (Qeq_bool (inject_Z (py_int b)) (q_of b)) || q_ltz (q_of b) 0 then Err ValueError else Ok tt
  end.
(* documented domain: border is None or an int *)
Definition get_border (width height : Z) (border : option Z) : Z :=
  match border with Some b => b | None => get_default_border_size width height end.

Definition mcell (matrix : list (list Z)) (i j : Z) : Z := nth (Z.to_nat j) (nth (Z.to_nat i) matrix []) 0.

Definition repeat_each {A} (n : Z) (l : list A) : list A := flat_map (fun x => repeat x (Z.to_nat n)) l.

(* matrix_iter(matrix, (width, height), scale, border) with scale already an int >= 1 *)
Definition iter_rows (matrix : list (list Z)) (width height scale border : Z) : list (list Z) :=
  repeat_each scale
    (map (fun i => repeat_each scale
            (map (fun j => if (0 <=? i) && (i <? height) && (0 <=? j) && (j <? width) then mcell matrix i j else 0)
                 (zrange (- border) (width + border))))
         (zrange (- border) (height + border))).

Definition border_z (b : option pynum) : option Z := match b with Some x => Some (py_int x) | None => None end.

Definition matrix_iter (matrix : list (list Z)) (width height : Z) (scale : pynum) (border : option pynum) : res (list (list Z)) :=
  do _ <- check_valid_border border;
  let s := py_int scale in
  do _ <- check_valid_scale (PInt s);
  Ok (iter_rows matrix width height s (get_border width height (border_z border))).

(* get_bit of matrix_iter_verbose (hand transcription; Tie/TieGetBit proves it equal to the translated source) *)
Definition get_bit (matrix alignment_matrix : Z -> Z -> Z) (width height : Z) (is_square is_micro : bool) (i j : Z) : Z :=
  if (0 <=? i) && (i <? height) && (0 <=? j) && (j <? width) then
    let val := matrix i j in
    let two (l d : Z) := if val =? 0 then l else d in
    let av := alignment_matrix i j in
    if negb is_micro && negb (av =? 2) then (if av =? 0 then TYPE_ALIGNMENT_PATTERN_LIGHT else TYPE_ALIGNMENT_PATTERN_DARK) else
    if negb is_micro && is_square && (41 <? width)
       && (((i <? 6) && (width - 12 <? j) && (j <? width - 8)) || ((height - 12 <? i) && (i <? height - 8) && (j <? 6)))
    then two TYPE_VERSION_LIGHT TYPE_VERSION_DARK else
    if negb is_micro && (i =? height - 8) && (j =? 8) then TYPE_DARKMODULE else
    if (negb is_micro && (((i =? 6) && (7 <? j) && (j <? width - 8)) || ((j =? 6) && (7 <? i) && (i <? height - 8))))
       || (is_micro && (((i =? 0) && (7 <? j)) || ((j =? 0) && (7 <? i))))
    then two TYPE_TIMING_LIGHT TYPE_TIMING_DARK else
    if ((i =? 8) && ((j <? 9) || (negb is_micro && (width - 10 <? j))))
       || ((j =? 8) && ((i <? 8) || (negb is_micro && (height - 9 <? i))))
    then two TYPE_FORMAT_LIGHT TYPE_FORMAT_DARK else
    if ((i <? 7) && ((j <? 7) || (negb is_micro && (width - 8 <? j)))) || (negb is_micro && (height - 8 <? i) && (j <? 7))
    then two TYPE_FINDER_PATTERN_LIGHT TYPE_FINDER_PATTERN_DARK else
    if ((i <? 8) && ((j <? 8) || (negb is_micro && (width - 9 <? j)))) || (negb is_micro && (height - 9 <? i) && (j <? 8))
    then TYPE_SEPARATOR
    else two TYPE_DATA_LIGHT TYPE_DATA_DARK
  else TYPE_QUIET_ZONE.

Definition iter_verbose_rows (matrix alignment_matrix : list (list Z)) (width height scale border : Z) : list (list Z) :=
  let is_square := width =? height in
  let is_micro := is_square && (width <? 21) in
  repeat_each scale
    (map (fun i => repeat_each scale
            (map (fun j => get_bit (mcell matrix) (mcell alignment_matrix) width height is_square is_micro i j)
                 (zrange (- border) (width + border))))
         (zrange (- border) (height + border))).

(* matrix_to_lines(matrix, x, y, incby): horizontal runs of dark modules as ((x1, y), (x2, y)); coordinates as
   rationals because callers pass y = border + .5 *)
Record line := { l_x1 : Q; l_x2 : Q; l_y : Q }.
(* state: (x1, x2, last_bit) *)
Fixpoint lines_row (row : list Z) (x1 x2 : Q) (last_bit : Z) (y : Q) : list line * (Q * Q * Z) :=
  match row with
  | [] => ([], (x1, x2, last_bit))
  | bit :: r =>
      let emit := negb (last_bit =? bit) && (bit =? 0) in
      let x1a := if emit then x2 else x1 in
      let x2' := (x2 + 1)%Q in
      let x1b := if bit =? 0 then (x1a + 1)%Q else x1a in
      let '(ls, st) := lines_row r x1b x2' bit y in
      ((if emit then [{| l_x1 := x1; l_x2 := x2; l_y := y |}] else []) ++ ls, st)
  end.
Fixpoint lines_rows (rows : list (list Z)) (x y incby : Q) (last_bit : Z) : list line :=
  match rows with
  | [] => []
  | row :: r =>
      let y' := (y + incby)%Q in
      let '(ls, (x1, x2, lb)) := lines_row row x x last_bit y' in
      ls ++ (if negb (lb =? 0) then [{| l_x1 := x1; l_x2 := x2; l_y := y' |}] else [])
         ++ lines_rows r x y' incby (if negb (lb =? 0) then 0 else lb)
  end.
Definition matrix_to_lines (matrix : list (list Z)) (x y incby : Q) : list line :=
  lines_rows matrix x (y - incby)%Q incby 1.
