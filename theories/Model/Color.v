(* Model of the colour handling of segno.writers: _color_to_rgba, _hex_to_rgb_or_rgba, _alpha_value,
   _color_to_rgb_or_rgba, _color_to_rgb, _color_is_black/_white, _make_colormap.
   Strings are lists of code points. Documented colour inputs: a str (name or hex) or a tuple of ints
   (R, G, B) / (R, G, B, A); None where the writer allows it.
   `color.lower()` is Base/PyCase.v [py_lower]: CPython's str.lower() as far as ASCII characters are concerned (the
   Kelvin sign U+212A lowers to 'k': 'blacK' IS black, 'darKblue' is #00008b; U+0130 lowers to 'i' + U+0307, which is
   in no name).  The lowered string is only compared with the ASCII names of _NAME2RGB and the literals '#000', 'black',
   ...; the hexadecimal digits are checked and read on the ORIGINAL string, as in the Python code (DESIGN.md 11.14.1). *)
From Coq Require Import ZArith List Bool Lia.
From Segno Require Import Base.PyLite Base.PyCase Ref.IsoData.
Import ListNotations.
Open Scope Z_scope.

Definition str := list Z.
Inductive pycolor := CStr (s : str) | CTuple (parts : list Z).

(* ASCII-only lowering (= PyCase.ascii_lower).  NOT used for colours; kept for the comparisons with ASCII names that
   contain no 'k' (Model/Route.v: file extensions and `kind`; Model/Helpers.v: EPC encodings), where it is
   interchangeable with str.lower(): PyCase.py_lower_is_ascii_lower. *)
Definition lower_cp (c : Z) : Z := if (65 <=? c) && (c <=? 90) then c + 32 else c.
Definition lower (s : str) : str := map lower_cp s.
Fixpoint str_eqb (a b : str) : bool :=
  match a, b with [], [] => true | x :: a', y :: b' => (x =? y) && str_eqb a' b' | _, _ => false end.
Fixpoint assoc_str {A} (k : str) (l : list (str * A)) : option A :=
  match l with [] => None | (k', v) :: r => if str_eqb k k' then Some v else assoc_str k r end.

(* int(two chars, 16) after the check that every character is one of 0-9 a-f A-F *)
Definition hexval (c : Z) : option Z :=
  if (48 <=? c) && (c <=? 57) then Some (c - 48)
  else if (97 <=? c) && (c <=? 102) then Some (c - 87)
  else if (65 <=? c) && (c <=? 70) then Some (c - 55) else None.
Definition int16_2 (a b : Z) : res Z :=
  match hexval a, hexval b with
  | Some x, Some y => Ok (16 * x + y)
  | _, _ => Err ValueError
  end.

(* alpha: None = opaque-by-default marker is not used here; alpha_float=True gives units of 1/10000,
   alpha_float=False gives the integer 0..255 *)
Definition alpha_value (c : Z) (alpha_float : bool) : res Z :=
  if (0 <=? c) && (c <=? 255) then
    if alpha_float then
      match assocZ c ALPHA_COMMONS with
      | Some v => Ok v
      | None => Ok (100 * ((200 * c + 255) / 510))     (* float('%.02f' % (c / 255.0)): nearest hundredth, never a tie *)
      end
    else Ok c
  else Err ValueError.
Definition opaque (alpha_float : bool) : Z := if alpha_float then 10000 else 255.

Fixpoint pairs_hex (s : str) : res (list Z) :=
  match s with
  | [] => Ok []
  | [_] => Err ValueError
  | a :: b :: r => do v <- int16_2 a b; do t <- pairs_hex r; Ok (v :: t)
  end.

Definition hex_to_rgb_or_rgba (color : str) (alpha_float : bool) : res (list Z) :=
  match color with
  | [] => Err ValueError                                 (* empty: neither 6 nor 8 hex digits *)
  | c0 :: rest =>
      let color := if c0 =? 35 then rest else color in
      let color := if (2 <? lenZ color) && (lenZ color <? 5) then flat_map (fun c => [c; c]) color else color in
      if negb ((lenZ color =? 6) || (lenZ color =? 8)) then Err ValueError else
      do vals <- pairs_hex color;
      if alpha_float && (lenZ color =? 8) then
        match vals with
        | [r; g; b; a] => do a' <- alpha_value a alpha_float; Ok [r; g; b; a']
        | _ => Err ValueError end
      else Ok vals
  end.

(* (R, G, B, A) with A in the unit selected by alpha_float *)
Definition color_to_rgba (color : pycolor) (alpha_float : bool) : res (list Z) :=
  match color with
  | CTuple parts =>
      let ok c := (0 <=? c) && (c <=? 255) in
      match parts with
      | [r; g; b] => if ok r && ok g && ok b then Ok [r; g; b; opaque alpha_float] else Err ValueError
      | [r; g; b; a] => if ok r && ok g && ok b then do a' <- alpha_value a alpha_float; Ok [r; g; b; a'] else Err ValueError
      | _ => Err ValueError
      end
  | CStr s =>
      match assoc_str (py_lower s) NAME2RGB with
      | Some (r, g, b) => Ok [r; g; b; opaque alpha_float]
      | None =>
          match hex_to_rgb_or_rgba s alpha_float with
          | Ok [r; g; b] => Ok [r; g; b; opaque alpha_float]
          | Ok l => Ok l
          | Err ValueError => Err ValueError
          | Err e => Err e
          end
      end
  end.

Definition color_to_rgb_or_rgba (color : pycolor) (alpha_float : bool) : res (list Z) :=
  do rgba <- color_to_rgba color alpha_float;
  match rgba with
  | [r; g; b; a] => if (a =? opaque alpha_float) then Ok [r; g; b] else Ok rgba
  | _ => Ok rgba end.

Definition color_to_rgb (color : pycolor) : res (list Z) :=
  do c <- color_to_rgb_or_rgba color true;
  if lenZ c =? 3 then Ok c else Err ValueError.

Definition s_of (l : list Z) : str := l.
Definition color_is_black (color : pycolor) : bool :=
  match color with
  | CStr s => let l := py_lower s in
              str_eqb l [35;48;48;48] || str_eqb l [35;48;48;48;48;48;48] || str_eqb l [98;108;97;99;107]
  | CTuple [0; 0; 0] | CTuple [0; 0; 0; 255] | CTuple [0; 0; 0; 1] => true
  | _ => false end.
Definition color_is_white (color : pycolor) : bool :=
  match color with
  | CStr s => let l := py_lower s in
              str_eqb l [35;102;102;102] || str_eqb l [35;102;102;102;102;102;102] || str_eqb l [119;104;105;116;101]
  | CTuple [255; 255; 255] | CTuple [255; 255; 255; 255] | CTuple [255; 255; 255; 1] => true
  | _ => false end.

(* ---- _make_colormap for square symbols ---- *)
(* an option that was not given is `False` in Python: modelled as None; a given value may itself be None (transparent) *)
Definition ocolor := option pycolor.
Record color_opts := {
  o_dark : ocolor; o_light : ocolor;
  o_finder_dark : option ocolor; o_finder_light : option ocolor; o_data_dark : option ocolor; o_data_light : option ocolor;
  o_version_dark : option ocolor; o_version_light : option ocolor; o_format_dark : option ocolor; o_format_light : option ocolor;
  o_alignment_dark : option ocolor; o_alignment_light : option ocolor; o_timing_dark : option ocolor; o_timing_light : option ocolor;
  o_separator : option ocolor; o_dark_module : option ocolor; o_quiet_zone : option ocolor }.

Definition pick (o : option ocolor) (dflt : ocolor) : ocolor := match o with Some c => c | None => dflt end.

Definition make_colormap (width : Z) (o : color_opts) : list (Z * ocolor) :=
  let unsupported :=
    if width <? 45 then
      [TYPE_VERSION_DARK; TYPE_VERSION_LIGHT] ++
      (if width <? 21 then [TYPE_DARKMODULE; TYPE_ALIGNMENT_PATTERN_DARK; TYPE_ALIGNMENT_PATTERN_LIGHT] else [])
    else [] in
  let d := o_dark o in let l := o_light o in
  filter (fun '(mt, _) => negb (memZ mt unsupported))
    [(TYPE_FINDER_PATTERN_DARK, pick (o_finder_dark o) d); (TYPE_FINDER_PATTERN_LIGHT, pick (o_finder_light o) l);
     (TYPE_DATA_DARK, pick (o_data_dark o) d); (TYPE_DATA_LIGHT, pick (o_data_light o) l);
     (TYPE_VERSION_DARK, pick (o_version_dark o) d); (TYPE_VERSION_LIGHT, pick (o_version_light o) l);
     (TYPE_ALIGNMENT_PATTERN_DARK, pick (o_alignment_dark o) d); (TYPE_ALIGNMENT_PATTERN_LIGHT, pick (o_alignment_light o) l);
     (TYPE_TIMING_DARK, pick (o_timing_dark o) d); (TYPE_TIMING_LIGHT, pick (o_timing_light o) l);
     (TYPE_FORMAT_DARK, pick (o_format_dark o) d); (TYPE_FORMAT_LIGHT, pick (o_format_light o) l);
     (TYPE_SEPARATOR, pick (o_separator o) l); (TYPE_DARKMODULE, pick (o_dark_module o) d);
     (TYPE_QUIET_ZONE, pick (o_quiet_zone o) l)].
