(* Model of the Netpbm serializers of segno.writers: write_pbm (P4 raw / P1 plain), write_pam (P7),
   write_ppm (P6).  Definitions only; proofs are in Lemmas/NetpbmLemmas.v.

   Conventions (FORMAT_TASKS.md): a file is a [list Z] of bytes; the matrix is a [list (list Z)] of 0/1 cells;
   `matrix_size` is given as [width height]; `scale` is the already-converted `int(scale)`; `border` is
   [option Z] (None = Python None); colours are [ocolor = option pycolor] (None = Python None).
   Exception classes: ValueError -> Err ValueError; struct.error (pack '>nB') -> Err TypeErr (PyLite has no
   constructor for struct.error); IndexError (clr[0], clr[3]) -> Err IndexErr; KeyError (colormap[mt]) -> Err KeyErr.
   The struct.error / IndexError paths are kept in the model for fidelity; Lemmas/NetpbmLemmas.v proves that they
   are unreachable for CStr / CTuple / None colour inputs (write_pam_only_ValueError, write_ppm_error).
   Colour parsing is Model/Color.v.  State of /repo modelled: after 15a482c (PAM uses the requested colours),
   f9f808f (integer alpha 1 is not opaque), 5c1c158 (non-hex characters refused), a5cbe35 ('' -> ValueError). *)
From Coq Require Import ZArith List Bool Lia.
From Coq Require String Ascii.
From Segno Require Import Base.PyLite Ref.IsoData Model.Iter Model.Color.
Import String.StringSyntax.
Import ListNotations.
Open Scope Z_scope.
Delimit Scope string_scope with string.

(* ---------- text helpers ---------- *)
Fixpoint bytes_of (s : String.string) : list Z :=
  match s with
  | String.EmptyString => []
  | String.String c r => Z.of_N (Ascii.N_of_ascii c) :: bytes_of r
  end.

(* str(n) for an int *)
Fixpoint dec_nat (fuel : nat) (n : Z) : list Z :=
  match fuel with
  | O => [48 + n]
  | S f => if n <? 10 then [48 + n] else dec_nat f (n / 10) ++ [48 + n mod 10]
  end.
Definition dec_pos (n : Z) : list Z := dec_nat (S (Z.to_nat (Z.log2 n))) n.
Definition dec (n : Z) : list Z := if n <? 0 then 45 :: dec_pos (- n) else dec_pos n.

Definition NETPBM_CREATOR : list Z := bytes_of "Segno <https://pypi.org/project/segno/>"%string.
Definition NL : Z := 10.
Definition SP : Z := 32.

(* sequencing over lists, left to right, first error wins (a Python for-loop / generator that raises) *)
Fixpoint map_res {A B} (f : A -> res B) (l : list A) : res (list B) :=
  match l with
  | [] => Ok []
  | x :: r => do y <- f x; do t <- map_res f r; Ok (y :: t)
  end.

(* ---------- _valid_width_height_and_border ---------- *)
Definition valid_width_height_and_border (width height scale : Z) (border : option Z) : res (Z * Z * Z) :=
  do _ <- check_valid_scale (PInt scale);
  do _ <- check_valid_border (match border with Some b => Some (PInt b) | None => None end);
  let b := get_border width height border in
  Ok ((width + 2 * b) * scale, (height + 2 * b) * scale, b).

(* ---------- write_pbm ---------- *)
(* reduce(lambda x, y: (x << 1) + y, e) over an 8-tuple *)
Definition byte8 (a b c d e f g h : Z) : Z := fold_left (fun x y => 2 * x + y) [b; c; d; e; f; g; h] a.

(* pack_row: groups of eight via zip_longest with fillvalue 0, then reduce *)
Fixpoint pack_row (row : list Z) : list Z :=
  match row with
  | [] => []
  | [a] => [byte8 a 0 0 0 0 0 0 0]
  | [a; b] => [byte8 a b 0 0 0 0 0 0]
  | [a; b; c] => [byte8 a b c 0 0 0 0 0]
  | [a; b; c; d] => [byte8 a b c d 0 0 0 0]
  | [a; b; c; d; e] => [byte8 a b c d e 0 0 0]
  | [a; b; c; d; e; f] => [byte8 a b c d e f 0 0]
  | [a; b; c; d; e; f; g] => [byte8 a b c d e f g 0]
  | a :: b :: c :: d :: e :: f :: g :: h :: r => byte8 a b c d e f g h :: pack_row r
  end.

Definition pbm_header (plain : bool) (w h : Z) : list Z :=
  bytes_of (if plain then "P1" else "P4")%string ++ [NL] ++
  bytes_of "# Created by "%string ++ NETPBM_CREATOR ++ [NL] ++
  dec w ++ [SP] ++ dec h ++ [NL].

Definition pbm_plain_row (row : list Z) : list Z := flat_map dec row ++ [NL].

Definition write_pbm (matrix : list (list Z)) (width height scale : Z) (border : option Z) (plain : bool)
  : res (list Z) :=
  do (w, h, b) <- valid_width_height_and_border width height scale border;
  let rows := iter_rows matrix width height scale b in
  Ok (pbm_header plain w h ++
      (if plain then flat_map pbm_plain_row rows else flat_map pack_row rows)).

(* ---------- write_pam ---------- *)
(* `not dark` : None, '' and () are falsy *)
Definition color_falsy (c : ocolor) : bool :=
  match c with None => true | Some (CStr []) => true | Some (CTuple []) => true | _ => false end.

Definition invert_color (l : list Z) : list Z := map (fun c => 255 - c) l.

(* struct.pack('>nB', *vals): wrong argument count or a value outside 0..255 -> struct.error *)
Definition pack_B (n : Z) (vals : list Z) : res (list Z) :=
  if negb (lenZ vals =? n) then Err TypeErr
  else if forallb (fun v => (0 <=? v) && (v <=? 255)) vals then Ok vals else Err TypeErr.

Record pam_params := {
  pp_depth : Z; pp_maxval : Z; pp_tupltype : list Z;
  pp_colours : list Z * list Z            (* (colours[0], colours[1]) = bytes of a light / a dark module *)
}.

(* clr[:3] in ((0, 0, 0), (255, 255, 255)) *)
Definition is_black_or_white3 (c : list Z) : bool :=
  let c3 := firstn 3 c in str_eqb c3 [0; 0; 0] || str_eqb c3 [255; 255; 255].
(* clr if len(clr) == 4 else clr + (255,) *)
Definition with_alpha (c : list Z) : list Z := if lenZ c =? 4 then c else c ++ [255].

Definition pam_setup (dark : pycolor) (light : ocolor) : res pam_params :=
  do stroke <- color_to_rgb_or_rgba dark false;
  do bg <- match light with
           | Some l => do c <- color_to_rgb_or_rgba l false; Ok (Some c)
           | None => Ok None end;
  let transparency := match bg with None => true | Some b => (lenZ stroke =? 4) || (lenZ b =? 4) end in
  let bg1 := match bg with None => invert_color (firstn 3 stroke) ++ [0] | Some b => b end in
  let st := if transparency then with_alpha stroke else stroke in
  let bgc := if transparency then with_alpha bg1 else bg1 in
  let is_gray := is_black_or_white3 st && is_black_or_white3 bgc in
  if is_gray && negb transparency then
    (* 1 = white, 0 = black *)
    do b0 <- nthZ bgc 0; do c0 <- pack_B 1 [b0 / 255];
    do s0 <- nthZ st 0; do c1 <- pack_B 1 [s0 / 255];
    Ok {| pp_depth := 1; pp_maxval := 1; pp_tupltype := bytes_of "BLACKANDWHITE"%string; pp_colours := (c0, c1) |}
  else if is_gray then
    do b0 <- nthZ bgc 0; do b3 <- nthZ bgc 3; do c0 <- pack_B 2 [b0; b3];
    do s0 <- nthZ st 0; do s3 <- nthZ st 3; do c1 <- pack_B 2 [s0; s3];
    Ok {| pp_depth := 2; pp_maxval := 255; pp_tupltype := bytes_of "GRAYSCALE_ALPHA"%string; pp_colours := (c0, c1) |}
  else
    let depth := if transparency then 4 else 3 in
    do c0 <- pack_B depth bgc;
    do c1 <- pack_B depth st;
    Ok {| pp_depth := depth; pp_maxval := 255;
          pp_tupltype := if transparency then bytes_of "RGB_ALPHA"%string else bytes_of "RGB"%string;
          pp_colours := (c0, c1) |}.

Definition pam_header (w h : Z) (p : pam_params) : list Z :=
  bytes_of "P7"%string ++ [NL] ++
  bytes_of "# Created by "%string ++ NETPBM_CREATOR ++ [NL] ++
  bytes_of "WIDTH "%string ++ dec w ++ [NL] ++
  bytes_of "HEIGHT "%string ++ dec h ++ [NL] ++
  bytes_of "DEPTH "%string ++ dec (pp_depth p) ++ [NL] ++
  bytes_of "MAXVAL "%string ++ dec (pp_maxval p) ++ [NL] ++
  bytes_of "TUPLTYPE "%string ++ pp_tupltype p ++ [NL] ++
  bytes_of "ENDHDR"%string ++ [NL].

(* colours[b]: the bytes written for one module value b (0 / 1) *)
Definition pam_pixel (colours : list Z * list Z) (b : Z) : list Z :=
  if b =? 0 then fst colours else snd colours.

Definition write_pam (matrix : list (list Z)) (width height scale : Z) (border : option Z)
                     (dark light : ocolor) : res (list Z) :=
  if color_falsy dark then Err ValueError else
  match dark with
  | None => Err ValueError
  | Some d =>
      do (w, h, b) <- valid_width_height_and_border width height scale border;
      do p <- pam_setup d light;
      let rows := iter_rows matrix width height scale b in
      Ok (pam_header w h p ++ flat_map (fun row => flat_map (pam_pixel (pp_colours p)) row) rows)
  end.

(* ---------- write_ppm ---------- *)
(* [colormap] is the dict produced by _make_colormap (insertion order), e.g. Color.make_colormap *)
Definition ppm_header (w h : Z) : list Z :=
  bytes_of "P6 # Created by "%string ++ NETPBM_CREATOR ++ [NL] ++ dec w ++ [SP] ++ dec h ++ [SP] ++ bytes_of "255"%string ++ [NL].

Definition colormap_has_none (colormap : list (Z * ocolor)) : bool :=
  existsb (fun '(_, c) => match c with None => true | Some _ => false end) colormap.

Definition ppm_convert_colormap (colormap : list (Z * ocolor)) : res (list (Z * list Z)) :=
  map_res (fun '(mt, c) => match c with
                           | Some c => do rgb <- color_to_rgb c; Ok (mt, rgb)
                           | None => Err ValueError end) colormap.

Definition ppm_pixel (cm : list (Z * list Z)) (mt : Z) : res (list Z) :=
  do rgb <- getZ mt cm; pack_B 3 rgb.

Definition write_ppm (matrix alignment_matrix : list (list Z)) (width height scale : Z) (border : option Z)
                     (colormap : list (Z * ocolor)) : res (list Z) :=
  do (w, h, b) <- valid_width_height_and_border width height scale border;
  if colormap_has_none colormap then Err ValueError else
  do cm <- ppm_convert_colormap colormap;
  let rows := iter_verbose_rows matrix alignment_matrix width height scale b in
  do body <- map_res (fun row => do px <- map_res (ppm_pixel cm) row; Ok (concat px)) rows;
  Ok (ppm_header w h ++ concat body).

(* write_ppm as called through the @colorful decorator for a square symbol *)
Definition write_ppm_colorful (matrix alignment_matrix : list (list Z)) (size scale : Z) (border : option Z)
                              (o : color_opts) : res (list Z) :=
  write_ppm matrix alignment_matrix size size scale border (make_colormap size o).
