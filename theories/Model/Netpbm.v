(* Model of the Netpbm serializers of segno.writers: write_pbm (P4 raw / P1 plain), write_pam (P7),
   write_ppm (P6).  Definitions only; proofs are in Lemmas/NetpbmLemmas.v.

   Conventions (FORMAT_TASKS.md): a file is a [list Z] of bytes; the matrix is a [list (list Z)] of 0/1 cells;
   `matrix_size` is given as [width height]; `scale` is the already-converted `int(scale)`; `border` is
   [option Z] (None = Python None); colours are [ocolor = option pycolor] (None = Python None).
   Every exception class that the Python code can raise for these input types is represented:
     ValueError                      -> Err ValueError
     struct.error (pack '>nB')       -> Err TypeErr     (PyLite has no constructor for struct.error)
     KeyError   (colormap[mt])       -> Err KeyErr
   Colour parsing is Model/Color.v; whatever it returns is propagated unchanged (before upstream commit a5cbe35
   an empty colour string gave IndexError, since then ValueError; Color.v follows the tree).               *)
From Coq Require Import ZArith List Bool Lia.
From Coq Require String Ascii.
From Segno Require Import Base.PyLite Ref.IsoData Model.Iter Model.Color.
Import String.StringSyntax.
Import ListNotations.
Open Scope Z_scope.
Delimit Scope string_scope with string.

(* ---------- text helpers ---------- *)
Fixpoint bytes_of (s : String.string) : list Z :=
  match s with
  | String.EmptyString => []
  | String.String c r => Z.of_N (Ascii.N_of_ascii c) :: bytes_of r
  end.

(* str(n) for an int *)
Fixpoint dec_nat (fuel : nat) (n : Z) : list Z :=
  match fuel with
  | O => [48 + n]
  | S f => if n <? 10 then [48 + n] else dec_nat f (n / 10) ++ [48 + n mod 10]
  end.
Definition dec_pos (n : Z) : list Z := dec_nat (S (Z.to_nat (Z.log2 n))) n.
Definition dec (n : Z) : list Z := if n <? 0 then 45 :: dec_pos (- n) else dec_pos n.

Definition NETPBM_CREATOR : list Z := bytes_of "Segno <https://pypi.org/project/segno/>"%string.
Definition NL : Z := 10.
Definition SP : Z := 32.

(* sequencing over lists, left to right, first error wins (a Python for-loop / generator that raises) *)
Fixpoint map_res {A B} (f : A -> res B) (l : list A) : res (list B) :=
  match l with
  | [] => Ok []
  | x :: r => do y <- f x; do t <- map_res f r; Ok (y :: t)
  end.

(* ---------- _valid_width_height_and_border ---------- *)
Definition valid_width_height_and_border (width height scale : Z) (border : option Z) : res (Z * Z * Z) :=
  do _ <- check_valid_scale (PInt scale);
  do _ <- check_valid_border (match border with Some b => Some (PInt b) | None => None end);
  let b := get_border width height border in
  Ok ((width + 2 * b) * scale, (height + 2 * b) * scale, b).

(* ---------- write_pbm ---------- *)
(* reduce(lambda x, y: (x << 1) + y, e) over an 8-tuple *)
Definition byte8 (a b c d e f g h : Z) : Z := fold_left (fun x y => 2 * x + y) [b; c; d; e; f; g; h] a.

(* pack_row: groups of eight via zip_longest with fillvalue 0, then reduce *)
Fixpoint pack_row (row : list Z) : list Z :=
  match row with
  | [] => []
  | [a] => [byte8 a 0 0 0 0 0 0 0]
  | [a; b] => [byte8 a b 0 0 0 0 0 0]
  | [a; b; c] => [byte8 a b c 0 0 0 0 0]
  | [a; b; c; d] => [byte8 a b c d 0 0 0 0]
  | [a; b; c; d; e] => [byte8 a b c d e 0 0 0]
  | [a; b; c; d; e; f] => [byte8 a b c d e f 0 0]
  | [a; b; c; d; e; f; g] => [byte8 a b c d e f g 0]
  | a :: b :: c :: d :: e :: f :: g :: h :: r => byte8 a b c d e f g h :: pack_row r
  end.

Definition pbm_header (plain : bool) (w h : Z) : list Z :=
  bytes_of (if plain then "P1" else "P4")%string ++ [NL] ++
  bytes_of "# Created by "%string ++ NETPBM_CREATOR ++ [NL] ++
  dec w ++ [SP] ++ dec h ++ [NL].

Definition pbm_plain_row (row : list Z) : list Z := flat_map dec row ++ [NL].

Definition write_pbm (matrix : list (list Z)) (width height scale : Z) (border : option Z) (plain : bool)
  : res (list Z) :=
  do (w, h, b) <- valid_width_height_and_border width height scale border;
  let rows := iter_rows matrix width height scale b in
  Ok (pbm_header plain w h ++
      (if plain then flat_map pbm_plain_row rows else flat_map pack_row rows)).

(* ---------- write_pam ---------- *)
(* `not dark` : None, '' and () are falsy *)
Definition color_falsy (c : ocolor) : bool :=
  match c with None => true | Some (CStr []) => true | Some (CTuple []) => true | _ => false end.

(* _color_to_rgb_or_rgba(color, alpha_float=False).  The Python test is `rgba[3] in (1.0, 255)`; with integer
   alpha values BOTH 255 and 1 (== 1.0) are treated as opaque and stripped.  (Color.color_to_rgb_or_rgba _ false
   only strips 255, hence this local definition.) *)
Definition color_to_rgb_or_rgba_int (color : pycolor) : res (list Z) :=
  do rgba <- color_to_rgba color false;
  match rgba with
  | [r; g; b; a] => if (a =? 255) || (a =? 1) then Ok [r; g; b] else Ok rgba
  | _ => Ok rgba
  end.

Definition invert_color (l : list Z) : list Z := map (fun c => 255 - c) l.

(* struct.pack('>nB', *vals): wrong argument count or a value outside 0..255 -> struct.error *)
Definition pack_B (n : Z) (vals : list Z) : res (list Z) :=
  if negb (lenZ vals =? n) then Err TypeErr
  else if forallb (fun v => (0 <=? v) && (v <=? 255)) vals then Ok vals else Err TypeErr.

(* max() of a non-empty sequence *)
Definition list_max (l : list Z) : Z := fold_left Z.max (tl l) (hd 0 l).

Record pam_params := {
  pp_depth : Z; pp_maxval : Z; pp_tupltype : list Z;
  pp_colours : option (list Z * list Z)     (* (colours[0], colours[1]); None = invert_row_bits *)
}.

Definition is_bw (c : list Z) : bool := color_is_black (CTuple c) || color_is_white (CTuple c).

Definition pam_setup (dark : pycolor) (light : ocolor) : res pam_params :=
  do stroke <- color_to_rgb_or_rgba_int dark;
  do bg <- match light with
           | Some l => do c <- color_to_rgb_or_rgba_int l; Ok (Some c)
           | None => Ok None end;
  let colored_stroke := negb (is_bw stroke) in
  match bg with
  | None =>
      if colored_stroke then
        let bgc := invert_color (firstn 3 stroke) ++ [0] in
        let st := if lenZ stroke =? 4 then stroke else stroke ++ [255] in
        let maxval := list_max (st ++ bgc) in
        do c0 <- pack_B 4 bgc;
        do c1 <- pack_B 4 st;
        Ok {| pp_depth := 4; pp_maxval := maxval; pp_tupltype := bytes_of "RGB_ALPHA"%string; pp_colours := Some (c0, c1) |}
      else
        Ok {| pp_depth := 2; pp_maxval := 1; pp_tupltype := bytes_of "GRAYSCALE_ALPHA"%string;
              pp_colours := Some ([1; 0], [0; 1]) |}
  | Some bgc =>
      if colored_stroke || negb (is_bw bgc) then
        let maxval := list_max (stroke ++ bgc) in
        do c0 <- pack_B 3 bgc;
        do c1 <- pack_B 3 stroke;
        Ok {| pp_depth := 3; pp_maxval := maxval; pp_tupltype := bytes_of "RGB"%string; pp_colours := Some (c0, c1) |}
      else
        Ok {| pp_depth := 1; pp_maxval := 1; pp_tupltype := bytes_of "BLACKANDWHITE"%string; pp_colours := None |}
  end.

Definition pam_header (w h : Z) (p : pam_params) : list Z :=
  bytes_of "P7"%string ++ [NL] ++
  bytes_of "# Created by "%string ++ NETPBM_CREATOR ++ [NL] ++
  bytes_of "WIDTH "%string ++ dec w ++ [NL] ++
  bytes_of "HEIGHT "%string ++ dec h ++ [NL] ++
  bytes_of "DEPTH "%string ++ dec (pp_depth p) ++ [NL] ++
  bytes_of "MAXVAL "%string ++ dec (pp_maxval p) ++ [NL] ++
  bytes_of "TUPLTYPE "%string ++ pp_tupltype p ++ [NL] ++
  bytes_of "ENDHDR"%string ++ [NL].

(* the bytes written for one module value b (0 / 1) *)
Definition pam_pixel (colours : option (list Z * list Z)) (b : Z) : list Z :=
  match colours with
  | None => [Z.lxor b 1]
  | Some (c0, c1) => if b =? 0 then c0 else c1
  end.

Definition write_pam (matrix : list (list Z)) (width height scale : Z) (border : option Z)
                     (dark light : ocolor) : res (list Z) :=
  if color_falsy dark then Err ValueError else
  match dark with
  | None => Err ValueError
  | Some d =>
      do (w, h, b) <- valid_width_height_and_border width height scale border;
      do p <- pam_setup d light;
      let rows := iter_rows matrix width height scale b in
      Ok (pam_header w h p ++ flat_map (fun row => flat_map (pam_pixel (pp_colours p)) row) rows)
  end.

(* ---------- write_ppm ---------- *)
(* [colormap] is the dict produced by _make_colormap (insertion order), e.g. Color.make_colormap *)
Definition ppm_header (w h : Z) : list Z :=
  bytes_of "P6 # Created by "%string ++ NETPBM_CREATOR ++ [NL] ++ dec w ++ [SP] ++ dec h ++ [SP] ++ bytes_of "255"%string ++ [NL].

Definition colormap_has_none (colormap : list (Z * ocolor)) : bool :=
  existsb (fun '(_, c) => match c with None => true | Some _ => false end) colormap.

Definition ppm_convert_colormap (colormap : list (Z * ocolor)) : res (list (Z * list Z)) :=
  map_res (fun '(mt, c) => match c with
                           | Some c => do rgb <- color_to_rgb c; Ok (mt, rgb)
                           | None => Err ValueError end) colormap.

Definition ppm_pixel (cm : list (Z * list Z)) (mt : Z) : res (list Z) :=
  do rgb <- getZ mt cm; pack_B 3 rgb.

Definition write_ppm (matrix alignment_matrix : list (list Z)) (width height scale : Z) (border : option Z)
                     (colormap : list (Z * ocolor)) : res (list Z) :=
  do (w, h, b) <- valid_width_height_and_border width height scale border;
  if colormap_has_none colormap then Err ValueError else
  do cm <- ppm_convert_colormap colormap;
  let rows := iter_verbose_rows matrix alignment_matrix width height scale b in
  do body <- map_res (fun row => do px <- map_res (ppm_pixel cm) row; Ok (concat px)) rows;
  Ok (ppm_header w h ++ concat body).

(* write_ppm as called through the @colorful decorator for a square symbol *)
Definition write_ppm_colorful (matrix alignment_matrix : list (list Z)) (size scale : Z) (border : option Z)
                              (o : color_opts) : res (list Z) :=
  write_ppm matrix alignment_matrix size size scale border (make_colormap size o).
