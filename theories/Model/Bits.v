(* Buffer operations of segno.encoder.Buffer, as pure functions on bit lists. *)
From Coq Require Import ZArith List Bool Lia.
From Segno Require Import Base.PyLite.
Import ListNotations.
Open Scope Z_scope.

Definition bits := list bool.

(* Buffer.append_bits(val, length): ((val >> i) & 1 for i in reversed(range(length))) *)
Fixpoint bits_of_aux (n : nat) (val : Z) : bits :=
  match n with O => [] | S k => Z.testbit val (Z.of_nat k) :: bits_of_aux k val end.
Definition bits_of (val len : Z) : bits := bits_of_aux (Z.to_nat len) val.

Definition bit_z (b : bool) : Z := if b then 1 else 0.

(* int(''.join(bits), 2) *)
Definition int_of_bits (bs : bits) : Z := fold_left (fun acc b => 2 * acc + bit_z b) bs 0.

(* Buffer.toints(): groups of 8 via zip_longest(fillvalue=0) *)
Fixpoint take_pad (n : nat) (bs : bits) : bits :=
  match n with O => [] | S k => match bs with [] => false :: take_pad k [] | b :: r => b :: take_pad k r end end.
Fixpoint toints_fuel (fuel : nat) (bs : bits) : list Z :=
  match fuel with O => [] | S f =>
    match bs with [] => [] | _ => int_of_bits (take_pad 8 bs) :: toints_fuel f (skipn 8 bs) end end.
Definition toints (bs : bits) : list Z := toints_fuel (S (length bs)) bs.

