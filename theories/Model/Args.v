(* Model of the argument normalisation of segno.encoder (normalize_version / _mode / _mask / _errorlevel) and of the
   public factories segno.make / make_qr / make_micro / make_sequence, over the documented option types:
   None, bool, int, str.  A str is the list of its code points.  int(str) is modelled for EVERY str (CPython 3.12,
   Unicode 15.0.0, see [int_of_str]).  str.upper() / str.lower() are Base/PyCase.v [py_upper] / [py_lower]: CPython's as
   far as ASCII characters are concerned, which is all a lookup in a dict with ASCII keys can see (DESIGN.md 11.14.1):
   normalize_mode('\u212aanji') is kanji as in CPython (the Kelvin sign lowers to 'k'); 'kanj\u0131', 'byt\xe9' are
   refused.  For normalize_version / normalize_errorlevel the Unicode mappings change nothing -- no image of a non-ASCII
   code point under upper() is one of "M1" .. "M4", "L", "M", "Q", "H" ('\u017f'.upper() is 'S', '\u0131'.upper()
   'I', '\ufb02'.upper() 'FL', '\u1e96'.upper() 'H' + U+0331) -- but they are modelled all the same. *)
From Coq Require Import ZArith List Bool Lia.
From Segno Require Import Base.PyLite Base.PyCase Ref.IsoData Model.Bits Model.Segment Model.Version Model.Stream Model.Matrix Model.Encode Model.Sequence Model.Color.
Import ListNotations.
Open Scope Z_scope.

Inductive pyval := VNone | VBool (b : bool) | VInt (z : Z) | VStr (s : list Z).

(* ---- int(s) for a str, base 10: CPython 3.12 Objects/longobject.c PyLong_FromUnicodeObject ----
   1. A pure-ASCII str (all code points < 128) goes to PyLong_FromString as it is.  Any other str is first rewritten
      by _PyUnicode_TransformDecimalAndSpaceToASCII, code point by code point: c < 127 stays; a Py_UNICODE_ISSPACE
      code point (= str.isspace) becomes ' '; a Unicode decimal digit (Py_UNICODE_TODECIMAL >= 0) becomes its ASCII
      digit; anything else becomes '?' (CPython cuts the text there; a '?' is refused wherever it stands).
   2. PyLong_FromString skips Py_ISSPACE characters (space, \t \n \v \f \r) on both sides, takes one optional sign,
      then digits with single underscores between digits.  NOTE \x1c .. \x1f are str.isspace() but are never skipped:
      they are below 127, so step 1 keeps them, and they are not Py_ISSPACE: int('\x1c5') and int('\x1c5\u2003')
      raise ValueError, int('\u20035\xa0') is 5, int('\uff15') and int('\u0665') are 5.
   3. More than sys.get_int_max_str_digits() = 4300 (the default) digit characters: ValueError.
   The two tables are those of the Unicode database 15.0.0 (unicodedata.unidata_version of CPython 3.12):
     UNI_SPACES     = [c for c in range(127, 0x110000) if chr(c).isspace()]
     DECIMAL_ZEROS  = [c for c in range(0x110000) if unicodedata.decimal(chr(c), None) == 0]
   and every decimal digit is z + d for a listed z and its value d in 0 .. 9 (680 code points, 68 runs of ten).
   harness/props/c14.py compares both lists (oracle command int_tables) with a sweep of int() of the running
   interpreter over all code points. *)
Definition is_ws (c : Z) : bool := memZ c [32; 9; 10; 11; 12; 13].      (* Py_ISSPACE *)
Definition UNI_SPACES : list Z :=
  [133; 160; 5760; 8192; 8193; 8194; 8195; 8196; 8197; 8198; 8199; 8200; 8201; 8202; 8232; 8233; 8239; 8287; 12288].
Definition DECIMAL_ZEROS : list Z :=
  [48; 1632; 1776; 1984; 2406; 2534; 2662; 2790; 2918; 3046; 3174; 3302; 3430; 3558; 3664; 3792; 3872;
   4160; 4240; 6112; 6160; 6470; 6608; 6784; 6800; 6992; 7088; 7232; 7248; 42528; 43216; 43264; 43472;
   43504; 43600; 44016; 65296; 66720; 68912; 69734; 69872; 69942; 70096; 70384; 70736; 70864; 71248;
   71360; 71472; 71904; 72016; 72784; 73040; 73120; 73552; 92768; 92864; 93008; 120782; 120792; 120802;
   120812; 120822; 123200; 123632; 124144; 125264; 130032].
Fixpoint decimal_of (c : Z) (zeros : list Z) : option Z :=
  match zeros with
  | [] => None
  | z :: r => if (z <=? c) && (c <=? z + 9) then Some (c - z) else decimal_of c r
  end.
Definition to_ascii_cp (c : Z) : Z :=
  if c <? 127 then c
  else if memZ c UNI_SPACES then 32
  else match decimal_of c DECIMAL_ZEROS with Some d => 48 + d | None => 63 end.
Definition is_ascii (s : list Z) : bool := forallb (fun c => c <? 128) s.
Definition int_text (s : list Z) : list Z := if is_ascii s then s else map to_ascii_cp s.
Definition MAX_STR_DIGITS : Z := 4300.

Fixpoint lstrip (s : list Z) : list Z := match s with c :: r => if is_ws c then lstrip r else s | [] => [] end.
Definition strip (s : list Z) : list Z := rev (lstrip (rev (lstrip s))).
Definition is_dig (c : Z) : bool := (48 <=? c) && (c <=? 57).
(* digits with single underscores between digits *)
Fixpoint digits_val (s : list Z) (acc : Z) (prev_digit : bool) : option Z :=
  match s with
  | [] => if prev_digit then Some acc else None
  | c :: r => if is_dig c then digits_val r (10 * acc + (c - 48)) true
              else if (c =? 95) && prev_digit then
                     match r with d :: _ => if is_dig d then digits_val r acc false else None | [] => None end
              else None
  end.
(* PyLong_FromString on an ASCII text, without the digit limit *)
Definition int_of_ascii (t : list Z) : option Z :=
  match strip t with
  | [] => None
  | c :: r => if c =? 45 then option_map Z.opp (digits_val r 0 false)
              else if c =? 43 then digits_val r 0 false
              else digits_val (c :: r) 0 false
  end.
(* int(str) in base 10 *)
Definition int_of_str (s : list Z) : option Z :=
  let t := int_text s in
  if MAX_STR_DIGITS <? lenZ (filter is_dig t) then None else int_of_ascii t.
Definition py_int_val (v : pyval) : res Z :=
  match v with
  | VNone => Err TypeErr
  | VBool b => Ok (if b then 1 else 0)
  | VInt z => Ok z
  | VStr s => match int_of_str s with Some z => Ok z | None => Err ValueError end
  end.

Definition str_of_string (s : String.string) : list Z :=
  (fix go (s : String.string) := match s with String.EmptyString => [] | String.String a r => Z.of_nat (Ascii.nat_of_ascii a) :: go r end) s.
Fixpoint assoc_sz (k : list Z) (l : list (String.string * Z)) : option Z :=
  match l with [] => None | (k', v) :: r => if str_eqb k (str_of_string k') then Some v else assoc_sz k r end.

Definition normalize_version (version : pyval) : res (option Z) :=
  match version with
  | VNone => Ok None
  | _ =>
      let r := match py_int_val version with
               | Ok z => if z <? 1 then None else Some z
               | Err _ => match version with
                          | VStr s => assoc_sz (py_upper s) MICRO_VERSION_MAPPING
                          | _ => None end
               end in
      match r with
      | None => Err ValueError
      | Some v => if ((0 <? v) && (v <? 41)) || memZ v MICRO_VERSIONS then Ok (Some v) else Err ValueError
      end
  end.

Definition mode_values : list Z := map snd MODE_MAPPING.
Definition normalize_mode (mode : pyval) : res (option Z) :=
  match mode with
  | VNone => Ok None
  | VInt z => if memZ z mode_values then Ok (Some z) else Err ValueError
  | VBool b => if memZ (if b then 1 else 0) mode_values then Ok (Some (if b then 1 else 0)) else Err ValueError
  | VStr s => match assoc_sz (py_lower s) MODE_MAPPING with Some m => Ok (Some m) | None => Err ValueError end
  end.

Definition normalize_mask (mask : pyval) (is_micro : bool) : res (option Z) :=
  match mask with
  | VNone => Ok None
  | _ => do k <- py_int_val mask;
         if (0 <=? k) && (k <? (if is_micro then 4 else 8)) then Ok (Some k) else Err ValueError
  end.

Definition error_values : list Z := map snd ERROR_MAPPING.
Definition normalize_errorlevel (error : pyval) (accept_none : bool) : res (option Z) :=
  match error with
  | VNone => if accept_none then Ok None else Err ValueError
  | VStr s => match assoc_sz (py_upper s) ERROR_MAPPING with Some e => Ok (Some e) | None => Err ValueError end
  | VInt z => if memZ z error_values then Ok (Some z) else Err ValueError
  | VBool b => if memZ (if b then 1 else 0) error_values then Ok (Some (if b then 1 else 0)) else Err ValueError
  end.

Definition truthy (v : pyval) : bool :=
  match v with VNone => false | VBool b => b | VInt z => negb (z =? 0) | VStr s => negb (lenZ s =? 0) end.
(* `micro` as encode() sees it: None, or its truth value *)
Definition micro_of (v : pyval) : option bool := match v with VNone => None | _ => Some (truthy v) end.

(* encoder.encode with raw arguments: normalisation in the order of the Python code, then the core *)
Definition encode_args (parts_of_mode : option Z -> list part) (error version mode mask : pyval) (eci : bool)
           (micro : pyval) (boost_error : bool) : res code :=
  do version <- normalize_version version;
  let in_micro v := match v with Some x => memZ x MICRO_VERSIONS | None => false end in
  let mic := micro_of micro in
  if (match mic with Some false => true | _ => false end) && in_micro version then Err ValueError else
  if otruthy mic && (match version with Some x => negb (memZ x MICRO_VERSIONS) | None => false end) then Err ValueError else
  do error <- normalize_errorlevel error true;
  do mode <- normalize_mode mode;
  do _ <- (match mode, version with
           | Some m, Some v => do b <- is_mode_supported m v; if b then Ok tt else Err ValueError
           | _, _ => Ok tt end);
  if oz_eqb error (Some ERROR_LEVEL_H) && (otruthy mic || in_micro version) then Err ValueError else
  if eci && (otruthy mic || in_micro version) then Err ValueError else
  do segs <- prepare_data (parts_of_mode mode);
  do guessed <- find_version segs error eci mic false;
  do version <- (match version with
                 | None => Ok guessed
                 | Some v => if v <? guessed then Err DataOverflow else Ok v end);
  let error := match error with None => if version =? VERSION_M1 then None else Some ERROR_LEVEL_L | e => e end in
  do cap <- capacity version error;
  do len <- bit_length_with_overhead segs version eci false;
  if cap <? len then Err DataOverflow else
  do mask <- normalize_mask mask (version <? 1);
  encode_core segs error version mask eci boost_error None.
