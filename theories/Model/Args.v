(* Model of the argument normalisation of segno.encoder (normalize_version / _mode / _mask / _errorlevel) and of the
   public factories segno.make / make_qr / make_micro / make_sequence, over the documented option types:
   None, bool, int, str (ASCII strings: Python's int() and str.upper()/lower() also know non-ASCII digits and
   letters; those are outside the model). *)
From Coq Require Import ZArith List Bool Lia.
From Segno Require Import Base.PyLite Ref.IsoData Model.Bits Model.Segment Model.Version Model.Stream Model.Matrix Model.Encode Model.Sequence Model.Color.
Import ListNotations.
Open Scope Z_scope.

Inductive pyval := VNone | VBool (b : bool) | VInt (z : Z) | VStr (s : list Z).

Definition is_ws (c : Z) : bool := memZ c [32; 9; 10; 11; 12; 13; 28; 29; 30; 31].
Fixpoint lstrip (s : list Z) : list Z := match s with c :: r => if is_ws c then lstrip r else s | [] => [] end.
Definition strip (s : list Z) : list Z := rev (lstrip (rev (lstrip s))).
Definition is_dig (c : Z) : bool := (48 <=? c) && (c <=? 57).
(* digits with single underscores between digits *)
Fixpoint digits_val (s : list Z) (acc : Z) (prev_digit : bool) : option Z :=
  match s with
  | [] => if prev_digit then Some acc else None
  | c :: r => if is_dig c then digits_val r (10 * acc + (c - 48)) true
              else if (c =? 95) && prev_digit then
                     match r with d :: _ => if is_dig d then digits_val r acc false else None | [] => None end
              else None
  end.
(* int(str) in base 10 *)
Definition int_of_str (s : list Z) : option Z :=
  match strip s with
  | [] => None
  | c :: r => if c =? 45 then option_map Z.opp (digits_val r 0 false)
              else if c =? 43 then digits_val r 0 false
              else digits_val (c :: r) 0 false
  end.
Definition py_int_val (v : pyval) : res Z :=
  match v with
  | VNone => Err TypeErr
  | VBool b => Ok (if b then 1 else 0)
  | VInt z => Ok z
  | VStr s => match int_of_str s with Some z => Ok z | None => Err ValueError end
  end.

Definition upper_cp (c : Z) : Z := if (97 <=? c) && (c <=? 122) then c - 32 else c.
Definition upper (s : list Z) : list Z := map upper_cp s.
Definition str_of_string (s : String.string) : list Z :=
  (fix go (s : String.string) := match s with String.EmptyString => [] | String.String a r => Z.of_nat (Ascii.nat_of_ascii a) :: go r end) s.
Fixpoint assoc_sz (k : list Z) (l : list (String.string * Z)) : option Z :=
  match l with [] => None | (k', v) :: r => if str_eqb k (str_of_string k') then Some v else assoc_sz k r end.

Definition normalize_version (version : pyval) : res (option Z) :=
  match version with
  | VNone => Ok None
  | _ =>
      let r := match py_int_val version with
               | Ok z => if z <? 1 then None else Some z
               | Err _ => match version with
                          | VStr s => assoc_sz (upper s) MICRO_VERSION_MAPPING
                          | _ => None end
               end in
      match r with
      | None => Err ValueError
      | Some v => if ((0 <? v) && (v <? 41)) || memZ v MICRO_VERSIONS then Ok (Some v) else Err ValueError
      end
  end.

Definition mode_values : list Z := map snd MODE_MAPPING.
Definition normalize_mode (mode : pyval) : res (option Z) :=
  match mode with
  | VNone => Ok None
  | VInt z => if memZ z mode_values then Ok (Some z) else Err ValueError
  | VBool b => if memZ (if b then 1 else 0) mode_values then Ok (Some (if b then 1 else 0)) else Err ValueError
  | VStr s => match assoc_sz (lower s) MODE_MAPPING with Some m => Ok (Some m) | None => Err ValueError end
  end.

Definition normalize_mask (mask : pyval) (is_micro : bool) : res (option Z) :=
  match mask with
  | VNone => Ok None
  | _ => do k <- py_int_val mask;
         if (0 <=? k) && (k <? (if is_micro then 4 else 8)) then Ok (Some k) else Err ValueError
  end.

Definition error_values : list Z := map snd ERROR_MAPPING.
Definition normalize_errorlevel (error : pyval) (accept_none : bool) : res (option Z) :=
  match error with
  | VNone => if accept_none then Ok None else Err ValueError
  | VStr s => match assoc_sz (upper s) ERROR_MAPPING with Some e => Ok (Some e) | None => Err ValueError end
  | VInt z => if memZ z error_values then Ok (Some z) else Err ValueError
  | VBool b => if memZ (if b then 1 else 0) error_values then Ok (Some (if b then 1 else 0)) else Err ValueError
  end.

Definition truthy (v : pyval) : bool :=
  match v with VNone => false | VBool b => b | VInt z => negb (z =? 0) | VStr s => negb (lenZ s =? 0) end.
(* `micro` as encode() sees it: None, or its truth value *)
Definition micro_of (v : pyval) : option bool := match v with VNone => None | _ => Some (truthy v) end.

(* encoder.encode with raw arguments: normalisation in the order of the Python code, then the core *)
Definition encode_args (parts_of_mode : option Z -> list part) (error version mode mask : pyval) (eci : bool)
           (micro : pyval) (boost_error : bool) : res code :=
  do version <- normalize_version version;
  let in_micro v := match v with Some x => memZ x MICRO_VERSIONS | None => false end in
  let mic := micro_of micro in
  if (match mic with Some false => true | _ => false end) && in_micro version then Err ValueError else
  if otruthy mic && (match version with Some x => negb (memZ x MICRO_VERSIONS) | None => false end) then Err ValueError else
  do error <- normalize_errorlevel error true;
  do mode <- normalize_mode mode;
  do _ <- (match mode, version with
           | Some m, Some v => do b <- is_mode_supported m v; if b then Ok tt else Err ValueError
           | _, _ => Ok tt end);
  if oz_eqb error (Some ERROR_LEVEL_H) && (otruthy mic || in_micro version) then Err ValueError else
  if eci && (otruthy mic || in_micro version) then Err ValueError else
  do segs <- prepare_data (parts_of_mode mode);
  do guessed <- find_version segs error eci mic false;
  do version <- (match version with
                 | None => Ok guessed
                 | Some v => if v <? guessed then Err DataOverflow else Ok v end);
  let error := match error with None => if version =? VERSION_M1 then None else Some ERROR_LEVEL_L | e => e end in
  do cap <- capacity version error;
  do len <- bit_length_with_overhead segs version eci false;
  if cap <? len then Err DataOverflow else
  do mask <- normalize_mask mask (version <? 1);
  encode_core segs error version mask eci boost_error None.
