(* Model of segno.encoder.encode_sequence (Structured Append), after argument normalisation.
   Content is a list of characters (str) or bytes; a character carries the bytes each relevant codec
   gives for it (stateless per-character codecs: ISO-8859-1, Shift JIS, UTF-8, GB2312, requested one). *)
From Coq Require Import String.
From Coq Require Import ZArith List Bool Lia.
From Segno Require Import Base.PyLite Ref.IsoData Model.Bits Model.Segment Model.Version Model.Stream Model.Matrix Model.Encode.
Import ListNotations.
Open Scope Z_scope.

Record schar := { ch_given : codec_result; ch_latin1 : codec_result; ch_sjis : codec_result; ch_utf8 : codec_result }.
Inductive scontent := SBytes (bs : list Z) | SText (cs : list schar).

Definition cat_codec (rs : list codec_result) : codec_result :=
  fold_left (fun acc r => match acc, r with
                          | CROk a, CROk b => CROk (a ++ b)
                          | CROk _, e => e
                          | e, _ => e end) rs (CROk []).
Definition pcontent_of (c : scontent) : pcontent :=
  match c with
  | SBytes bs => PBytes bs
  | SText cs => PText (cat_codec (map ch_given cs)) (cat_codec (map ch_latin1 cs))
                      (cat_codec (map ch_sjis cs)) (cat_codec (map ch_utf8 cs))
  end.
(* once the fallback chain picked an encoding, that codec's result is "the requested encoding's" result *)
Definition retag (e : enc) (c : schar) : schar :=
  {| ch_given := if String.eqb (e_name e) DEFAULT_BYTE_ENCODING then ch_latin1 c
                 else if String.eqb (e_name e) KANJI_ENCODING then ch_sjis c else ch_utf8 c;
     ch_latin1 := ch_latin1 c; ch_sjis := ch_sjis c; ch_utf8 := ch_utf8 c |}.
Definition slen (c : scontent) : Z := match c with SBytes bs => lenZ bs | SText cs => lenZ cs end.

Definition slice_z {A} (l : list A) (a b : Z) : list A := firstn (Z.to_nat (b - a)) (skipn (Z.to_nat a) l).
Definition divide_list {A} (data : list A) (num : Z) : list (list A) :=
  let k := lenZ data / num in
  let m := lenZ data mod num in
  map (fun i => slice_z data (i * k + Z.min i m) ((i + 1) * k + Z.min (i + 1) m)) (zrange 0 num).
Definition divide_into_chunks (c : scontent) (num : Z) : list scontent :=
  match c with
  | SBytes bs => map SBytes (divide_list bs num)
  | SText cs => map SText (divide_list cs num)
  end.

Definition ceil_div (a b : Z) : Z := (a + b - 1) / b.

(* [enc_is_default_param]: the raw `encoding` argument equals 'iso-8859-1' (None is not) *)
Definition calc_qrcode_bit_length (char_count ver_range mode : Z) (enc_param_default is_eci is_sa : bool) : res Z :=
  do cci <- cci_length mode ver_range;
  let overhead := 4 + cci + (if is_eci && (mode =? MODE_BYTE) && negb enc_param_default then 12 else 0)
                  + (if is_sa then 20 else 0) in
  let bits := if mode =? MODE_NUMERIC then (char_count / 3) * 10 + (if char_count mod 3 =? 1 then 4 else 7)
              else if mode =? MODE_ALPHANUMERIC then (char_count / 2) * 11 + (if char_count mod 2 =? 0 then 0 else 6)
              else if mode =? MODE_BYTE then char_count * 8
              else if (mode =? MODE_KANJI) || (mode =? MODE_HANZI) then char_count * 13 else 0 in
  Ok (overhead + bits).

Definition number_of_symbols_by_version (length version : Z) (error : option Z) (mode : Z)
           (enc_param_default eci : bool) : res Z :=
  do vr <- version_range version;
  do bl <- calc_qrcode_bit_length length vr mode enc_param_default eci true;
  do cap <- capacity version error;
  let cnt := ceil_div bl cap in
  let bl2 := bl + 20 * (cnt - 1) + (if eci then 12 * (cnt - 1) else 0) in
  Ok (ceil_div bl2 cap).

Fixpoint xor_all (l : list Z) : res Z :=    (* reduce(xor, data): TypeError on empty input *)
  match l with [] => Err TypeErr | [x] => Ok x | x :: r => do y <- xor_all r; Ok (Z.lxor x y) end.

Definition one_item_segments (chunk : scontent) (mode : Z) (encoding : option enc) : res (list segment) :=
  do s <- make_segment (pcontent_of chunk) (Some mode) encoding; Ok [s].

(* the version one chunk needs with its Structured Append header:
   find_version(one_item_segments(chunk, mode), error, eci=eci, micro=False, is_sa=True) *)
Definition chunk_version (mode : Z) (encoding : option enc) (error : option Z) (eci : bool) (chunk : scontent) : res Z :=
  do sg <- one_item_segments chunk mode encoding; find_version sg error eci (Some false) true.

Fixpoint encode_chunks (chunks : list scontent) (i total parity mode : Z) (encoding : option enc)
         (error : option Z) (version : Z) (mask : option Z) (eci boost : bool) : res (list code) :=
  match chunks with
  | [] => Ok []
  | c :: r =>
      do segs <- one_item_segments c mode encoding;
      do k <- encode_core segs error version mask eci boost (Some {| sa_number := i; sa_total := total; sa_parity := parity |});
      do rest <- encode_chunks r (i + 1) total parity mode encoding error version mask eci boost;
      Ok (k :: rest)
  end.

(* [content_is_int]: the content was given as an int (its decimal digits arrive as SText) *)
Definition encode_sequence (content : scontent) (error : option Z) (version : option Z) (mode : option Z)
           (mask : option Z) (encoding : option enc) (eci boost : bool)
           (symbol_count : option Z) : res (list code) :=
  do _ <- (match version with
           | Some v => if v <? 1 then Err ValueError else Ok tt
           | None => match symbol_count with None => Err ValueError | Some _ => Ok tt end end);
  do _ <- (match symbol_count with Some n => if (1 <=? n) && (n <=? 16) then Ok tt else Err ValueError | None => Ok tt end);
  let error := match error with None => Some ERROR_LEVEL_L | e => e end in
  do mask <- normalize_mask_int mask false;
  do segs <- prepare_data [{| p_content := pcontent_of content; p_mode := mode; p_enc := encoding |}];
  let single :=
    match symbol_count with
    | Some _ => Ok None
    | None =>
        match find_version segs error eci (Some false) false with
        | Ok g => if g <=? (match version with Some v => v | None => g end)
                  then do k <- encode_core segs error (match version with Some v => v | None => g end) mask eci boost None;
                       Ok (Some [k])
                  else Ok None
        | Err DataOverflow => Ok None
        | Err e => Err e
        end
    end in
  do s <- single;
  match s with
  | Some r => Ok r
  | None =>
      if 1 <? lenZ (seg_modes segs) then Err ValueError else
      do smode <- nthZ (seg_modes segs) 0;
      do _ <- (match symbol_count with Some n => if slen content <? n then Err ValueError else Ok tt | None => Ok tt end);
      (* without an explicit encoding the encoding found for the complete text is used for every chunk *)
      do (content, encoding) <- (match encoding, content with
                                 | None, SText cs =>
                                     do (_, e) <- data_to_bytes (pcontent_of content) None;
                                     Ok (SText (if smode =? MODE_HANZI then cs else map (retag e) cs), Some e)
                                 | _, _ => Ok (content, encoding) end);
      let enc_param_default := enc_is_default encoding in
      let penc := if smode =? MODE_HANZI then Some enc_gb2312 else encoding in
      do (pbytes, _) <- data_to_bytes (pcontent_of content) penc;
      do parity <- xor_all pbytes;
      do num_symbols <- (match version with
                         | Some v => number_of_symbols_by_version (slen content) v error smode enc_param_default eci
                         | None => Ok (match symbol_count with Some n => n | None => 16 end) end);
      if 16 <? num_symbols then Err DataOverflow else
      let chunks := divide_into_chunks content num_symbols in
      do version' <- (match symbol_count with
                      | Some _ =>      (* the highest version any chunk needs (chunks of a text are cut by characters: a
                                          chunk with fewer characters can need more bits); max() of a generator:
                                          the first exception wins, ValueError on no chunk *)
                          do vs <- seq_res (map (chunk_version smode encoding error eci) chunks); max_list vs
                      | None => match version with Some v => Ok v | None => Err TypeErr end end);
      encode_chunks chunks 0 (lenZ chunks - 1) parity smode encoding error version' mask eci boost
  end.

(* known finding D14: the estimate of number_of_symbols_by_version can be too small: some chunk, with its
   Structured Append header, exceeds the capacity of the symbol and is cut *)
Definition chunk_overflows (chunk : scontent) (mode : Z) (encoding : option enc) (error : option Z) (version : Z) (eci : bool) : bool :=
  match one_item_segments chunk mode encoding with
  | Ok sg => match bit_length_with_overhead sg version eci true, capacity version error with
             | Ok l, Ok c => c <? l
             | _, _ => false end
  | Err _ => false end.
