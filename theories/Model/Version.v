(* Model of version selection and error-level boosting (segno.encoder.find_version, boost_error_level,
   Segments.bit_length_with_overhead, version_range, is_mode_supported, find_minimum_version_for_mode). *)
From Coq Require Import String.
From Coq Require Import ZArith List Bool Lia.
From Segno Require Import Base.PyLite Ref.IsoData Model.Bits Model.Segment.
Import ListNotations.
Open Scope Z_scope.

Definition version_range (version : Z) : res Z :=
  if (0 <? version) && (version <? 10) then Ok VERSION_RANGE_01_09
  else if (9 <? version) && (version <? 27) then Ok VERSION_RANGE_10_26
  else if (26 <? version) && (version <? 41) then Ok VERSION_RANGE_27_40
  else Err ValueError.

Definition is_mode_supported (mode ver : Z) : res bool :=
  let v := if 0 <? ver then None else Some ver in
  match assocZ mode SUPPORTED_MODES with
  | Some l => Ok (memOZ v l)
  | None => Err ValueError
  end.

Fixpoint first_supported (mode : Z) (vs : list Z) : res Z :=
  match vs with
  | [] => Ok 1
  | v :: r => do b <- is_mode_supported mode v; if b then Ok v else first_supported mode r
  end.
Definition find_minimum_version_for_mode (mode : Z) : res Z := first_supported mode MICRO_VERSIONS.

Definition capacity (version : Z) (error : option Z) : res Z :=
  do row <- getZ version SYMBOL_CAPACITY; getOZ error row.

Definition cci_length (mode ver_range : Z) : res Z :=
  do row <- getZ mode CHAR_COUNT_INDICATOR_LENGTH; getZ ver_range row.

Fixpoint sum_res (l : list (res Z)) : res Z :=
  match l with [] => Ok 0 | x :: r => do a <- x; do b <- sum_res r; Ok (a + b) end.

Definition count_eci_headers (segs : list segment) : Z :=
  lenZ (filter (fun s => (s_mode s =? MODE_BYTE) && negb (enc_is_default (s_enc s))) segs).

Definition bit_length_with_overhead (segs : list segment) (version : Z) (eci is_sa : bool) : res Z :=
  let modes := seg_modes segs in
  let o_eci := if eci then count_eci_headers segs * 4 + count_eci_headers segs * 8 else 0 in
  let o_sa := if is_sa then 20 else 0 in
  let o_mode := if 0 <? version
                then lenZ modes * 4 + lenZ (filter (Z.eqb MODE_HANZI) modes) * 4
                else if VERSION_M1 <? version then lenZ modes * (version + 3) else 0 in
  do ver_range <- (if 0 <? version then version_range version else Ok version);
  do o_cci <- sum_res (map (fun m => cci_length m ver_range) modes);
  Ok (o_eci + o_sa + o_mode + o_cci + seg_bit_length segs).

Fixpoint max_list (l : list Z) : res Z :=   (* max() of a non-empty list *)
  match l with
  | [] => Err ValueError
  | [x] => Ok x
  | x :: r => do m <- max_list r; Ok (Z.max x m)
  end.
Fixpoint seq_res {A} (l : list (res A)) : res (list A) :=
  match l with [] => Ok [] | x :: r => do a <- x; do b <- seq_res r; Ok (a :: b) end.

(* the loop of find_version: [error] is rebound to L once a version other than M1 is tried *)
Fixpoint find_version_loop (segs : list segment) (eci is_sa : bool) (vs : list Z) (error : option Z) : res Z :=
  match vs with
  | [] => Err DataOverflow
  | version :: r =>
      let error := match error with None => if version =? VERSION_M1 then None else Some ERROR_LEVEL_L
                                  | e => e end in
      match capacity version error with
      | Err KeyErr => find_version_loop segs eci is_sa r error
      | Err e => Err e
      | Ok cap =>
          match bit_length_with_overhead segs version eci is_sa with
          | Err KeyErr => find_version_loop segs eci is_sa r error
          | Err e => Err e
          | Ok len => if len <=? cap then Ok version else find_version_loop segs eci is_sa r error
          end
      end
  end.

Definition otruthy (micro : option bool) : bool := match micro with Some true => true | _ => false end.

Definition find_version (segs : list segment) (error : option Z) (eci : bool) (micro : option bool) (is_sa : bool) : res Z :=
  if eci && otruthy micro then Err AssertErr else
  let micro_allowed := (match micro with Some b => b | None => true end) && negb eci in
  let max_version := if otruthy micro then VERSION_M4 else 40 in
  do min_version <- (if micro_allowed
                     then do ms <- seq_res (map find_minimum_version_for_mode (seg_modes segs)); max_list ms
                     else Ok 1);
  let min_version := match error with Some _ => if micro_allowed then VERSION_M2 else min_version
                                    | None => min_version end in
  find_version_loop segs eci is_sa (zrange min_version (max_version + 1)) error.

(* boost_error_level *)
Definition boost_levels (version : Z) : list Z :=
  if version <? 1 then (if version <? VERSION_M4 then [ERROR_LEVEL_L; ERROR_LEVEL_M]
                        else [ERROR_LEVEL_L; ERROR_LEVEL_M; ERROR_LEVEL_Q])
  else [ERROR_LEVEL_L; ERROR_LEVEL_M; ERROR_LEVEL_Q; ERROR_LEVEL_H].

Fixpoint drop_through (x : Z) (l : list Z) : res (list Z) :=   (* l[l.index(x) + 1:] *)
  match l with [] => Err ValueError | y :: r => if x =? y then Ok r else drop_through x r end.

Fixpoint boost_loop (version data_length : Z) (levels : list Z) (error : Z) : res Z :=
  match levels with
  | [] => Ok error
  | l :: r => do cap <- capacity version (Some l);
              if data_length <=? cap then boost_loop version data_length r l else Ok error
  end.

Definition boost_error_level (version : Z) (error : option Z) (segs : list segment) (eci is_sa : bool) : res (option Z) :=
  match error with
  | None => Ok None
  | Some e =>
      if (e =? ERROR_LEVEL_H) || negb (lenZ segs =? 1) then Ok (Some e) else
      do len <- bit_length_with_overhead segs version eci is_sa;
      do higher <- drop_through e (boost_levels version);
      do e' <- boost_loop version len higher e;
      Ok (Some e')
  end.
