(* Model of the data bit stream: write_segment, write_terminator, write_padding_bits,
   write_pad_codewords, make_blocks, make_final_message. *)
From Coq Require Import String.
From Coq Require Import ZArith List Bool Lia.
From Segno Require Import Base.PyLite Ref.IsoData Model.Bits Model.Segment Model.Version.
Import ListNotations.
Open Scope Z_scope.

Definition eci_number (e : option enc) : res Z :=
  match e with
  | None => Err TypeErr               (* codecs.lookup(None) *)
  | Some x => match e_canon x with
              | None => Err LookupErr
              | Some c => match assocS c ECI_ASSIGNMENT_NUM with Some n => Ok n | None => Err ValueError end
              end
  end.

(* ver = None for QR, Some v for Micro; ver_range as in _encode *)
Definition write_segment (s : segment) (ver : option Z) (ver_range : Z) (eci : bool) : res bits :=
  let mode := s_mode s in
  do hdr_eci <- (if eci && (mode =? MODE_BYTE) && negb (enc_is_default (s_enc s))
                 then do n <- eci_number (s_enc s); Ok (bits_of MODE_ECI 4 ++ bits_of n 8)
                 else Ok []);
  do hdr_mode <- (match ver with
                  | None => Ok (bits_of mode 4 ++ (if mode =? MODE_HANZI then bits_of 1 4 else []))
                  | Some v => if VERSION_M1 <? v
                              then do mm <- getZ mode MODE_TO_MICRO_MODE_MAPPING; Ok (bits_of mm (v + 3))
                              else Ok []
                  end);
  do cci <- cci_length mode ver_range;
  Ok (hdr_eci ++ hdr_mode ++ bits_of (s_count s) cci ++ s_bits s).

Definition zeros (n : Z) : bits := repeat false (Z.to_nat n).     (* [0] * n, empty for n <= 0 *)

Definition write_terminator (buff : bits) (cap : Z) (ver : option Z) : res bits :=
  do t <- getOZ ver TERMINATOR_LENGTH;
  Ok (buff ++ zeros (Z.min (cap - lenZ buff) t)).

Definition is_m1_m3 (version : Z) : bool := (version =? VERSION_M1) || (version =? VERSION_M3).

Definition write_padding_bits (buff : bits) (version : Z) : bits :=
  if is_m1_m3 version then buff else buff ++ zeros (8 - lenZ buff mod 8).

Definition pad_codeword (i : Z) : bits :=
  if i mod 2 =? 0 then [true; true; true; false; true; true; false; false]
  else [false; false; false; true; false; false; false; true].
Definition pad_codewords (n : Z) : bits := flat_map pad_codeword (zrange 0 n).

Definition write_pad_codewords (buff : bits) (version cap : Z) : bits :=
  let length := lenZ buff in
  if is_m1_m3 version then
    let last_codeword_start := cap - 4 in
    let buff1 := if length <? last_codeword_start
                 then buff ++ zeros ((- length) mod 8)
                           ++ pad_codewords (last_codeword_start / 8 - (length + 7) / 8)
                 else buff in
    buff1 ++ zeros (cap - lenZ buff1)
  else buff ++ pad_codewords (cap / 8 - length / 8).

(* ---- Reed-Solomon blocks (extended synthetic division with the log/exp tables) ---- *)
Definition gen_exp (k : Z) : res Z := nthZ GALIOS_EXP k.
Definition gen_log (a : Z) : res Z := nthZ GALIOS_LOG a.

(* one step k of the division: error_block[k+n+1] ^= exp[log coef + gen[n]] for all n *)
Fixpoint xor_gen (lcoef : Z) (gen : list Z) (blk : list Z) : res (list Z) :=
  match gen, blk with
  | [], _ => Ok blk
  | g :: gr, b :: br => do e <- gen_exp (lcoef + g); do rest <- xor_gen lcoef gr br; Ok (Z.lxor b e :: rest)
  | _ :: _, [] => Err IndexErr
  end.
(* blk = the not yet processed tail error_block[k:] *)
Fixpoint division (n : nat) (gen : list Z) (blk : list Z) : res (list Z) :=
  match n with
  | O => Ok blk
  | S m => match blk with
           | [] => Err IndexErr
           | coef :: rest =>
               do rest' <- (if coef =? 0 then Ok rest else do l <- gen_log coef; xor_gen l gen rest);
               division m gen rest'
           end
  end.
Definition error_words (gen : list Z) (data : list Z) (num_error_words : Z) : res (list Z) :=
  division (length data) gen (data ++ repeat 0 (Z.to_nat num_error_words)).

(* blocks of one EC info; [cw] is the shared codeword iterator *)
Fixpoint blocks_of_info (n : nat) (num_data num_ec : Z) (gen : list Z) (cw : list Z)
  : res (list (list Z) * list (list Z) * list Z) :=
  match n with
  | O => Ok ([], [], cw)
  | S m =>
      let block := firstn (Z.to_nat num_data) cw in
      do ec <- error_words gen block num_ec;
      do (p, cw') <- blocks_of_info m num_data num_ec gen (skipn (Z.to_nat num_data) cw);
      let (ds, es) := p in
      Ok (block :: ds, ec :: es, cw')
  end.
Fixpoint make_blocks_aux (infos : list (Z * Z * Z)) (cw : list Z) : res (list (list Z) * list (list Z)) :=
  match infos with
  | [] => Ok ([], [])
  | (num_blocks, num_total, num_data) :: r =>
      let num_ec := num_total - num_data in
      do gen <- getZ num_ec GEN_POLY;
      do (p, cw') <- blocks_of_info (Z.to_nat num_blocks) num_data num_ec gen cw;
      let (ds, es) := p in
      do (ds2, es2) <- make_blocks_aux r cw';
      Ok (ds ++ ds2, es ++ es2)
  end.
Definition make_blocks (infos : list (Z * Z * Z)) (buff : bits) : res (list (list Z) * list (list Z)) :=
  make_blocks_aux infos (toints buff).

(* chain.from_iterable(zip_longest of the blocks) without the fill values: column-wise interleaving *)
Fixpoint interleave_fuel (fuel : nat) (blocks : list (list Z)) : list Z :=
  match fuel with O => [] | S f =>
    if forallb (fun b => match b with [] => true | _ => false end) blocks then []
    else flat_map (fun b => match b with [] => [] | x :: _ => [x] end) blocks
         ++ interleave_fuel f (map (fun b => match b with [] => [] | _ :: r => r end) blocks)
  end.
Definition interleave (blocks : list (list Z)) : list Z :=
  interleave_fuel (S (fold_left (fun a b => Nat.max a (length b)) blocks O)) blocks.

Definition remainder_bits (version : Z) : Z :=
  if memZ version [2; 3; 4; 5; 6] then 7
  else if memZ version [14; 15; 16; 17; 18; 19; 20; 28; 29; 30; 31; 32; 33; 34] then 3
  else if memZ version [21; 22; 23; 24; 25; 26; 27] then 4 else 0.

Definition ec_infos (version : Z) (error : option Z) : res (list (Z * Z * Z)) :=
  do row <- getZ version ECC; getOZ error row.

Definition make_final_message (version : Z) (error : option Z) (buff : bits) : res bits :=
  do infos <- ec_infos version error;
  do (data_blocks, error_blocks) <- make_blocks infos buff;
  do (data_blocks', cw_four) <-
     (if is_m1_m3 version then
        match data_blocks with
        | [] => Err IndexErr
        | b0 :: rest => match rev b0 with
                        | [] => Err IndexErr
                        | last :: front => Ok (rev front :: rest, bits_of (Z.shiftr last 4) 4)
                        end
        end
      else Ok (data_blocks, []));
  Ok (flat_map (fun x => bits_of x 8) (interleave data_blocks') ++ cw_four
      ++ flat_map (fun x => bits_of x 8) (interleave error_blocks) ++ zeros (remainder_bits version)).
