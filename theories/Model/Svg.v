(* Model of segno.writers.write_svg (+ _color_to_webcolor, xml.sax.saxutils.escape / quoteattr,
   as_svg_data_uri).  Definitions only.

   Text = list of code points (Color.str).  `write_svg` returns the exact text Python builds in the
   variable `svg`; `write_svg_utf8` is the byte stream for encoding None / 'utf-8'.

   Typed options
   * scale      : `SInt z` (a Python int) or `SHalf t` (the Python float t/2, e.g. SHalf 5 = 2.5, SHalf 2 = 1.0).
                  Other floats are NOT modelled (their products with the size need float rounding and repr()).
                  Float repr is modelled as <int>.0 / <int>.5, exact for |value| < 10^16.
   * border     : None or an int (documented domain).
   * svgversion : None, `VInt z` (Python int) or `VFloat ip frac` = the non-negative Python float whose
                  repr() is  dec ip ++ "." ++ frac  (frac = non-empty digit string as repr prints it, e.g.
                  VFloat 1 "1" = 1.1, VFloat 2 "0" = 2.0).
   * title/desc/svgid/svgclass/lineclass/unit/encoding : None or a str.
   * colours    : Color.color_opts (tuple colours hold ints only; a float alpha inside a tuple is not modelled).
   * the symbol is square (side `size`); `align` is the auxiliary alignment matrix that
     matrix_iter_verbose builds (Classify.align_aux_matrix), only used in the multi-colour case.
   y coordinates are kept in HALF units (yh = 2*y); x coordinates and lengths are ints. *)
From Coq Require Import String Ascii.
From Coq Require Import ZArith List Bool Lia QArith.
From Segno Require Import Base.PyLite Ref.IsoData Model.Iter Model.Color.
Import ListNotations.
Open Scope Z_scope.

(* ---------- string helpers ---------- *)
(* str.isspace() / the regular-expression class \s on str patterns *)
Definition is_py_space (c : Z) : bool :=
  memZ c [32; 9; 10; 11; 12; 13; 28; 29; 30; 31; 133; 160; 5760; 8192; 8193; 8194; 8195; 8196; 8197; 8198; 8199;
          8200; 8201; 8202; 8232; 8233; 8239; 8287; 12288].
Definition lit (s : String.string) : str :=
  map (fun a => Z.of_nat (Ascii.nat_of_ascii a)) (String.list_ascii_of_string s).
Arguments lit s%string.

(* decimal digits of a non-negative number; fuel = number of digits allowed *)
Fixpoint dec_digits (fuel : nat) (n : Z) : str :=
  match fuel with
  | O => []
  | S f => if n <? 10 then [48 + n] else dec_digits f (n / 10) ++ [48 + n mod 10]
  end.
Definition dec_nat (n : Z) : str := dec_digits (S (Z.to_nat (Z.log2 n))) n.
(* str(int) *)
Definition dec (n : Z) : str := if n <? 0 then 45 :: dec_nat (- n) else dec_nat n.

(* a number given in half units, printed as Python prints  (int(v) if int(v) == v else v)  for the float v = h/2 *)
Definition print_half (h : Z) : str :=
  if Z.even h then dec (h / 2)
  else (if h <? 0 then [45] else []) ++ dec_nat (Z.abs h / 2) ++ lit ".5".
(* repr(float h/2) *)
Definition float_half_repr (h : Z) : str :=
  (if h <? 0 then [45] else []) ++ dec_nat (Z.abs h / 2) ++ (if Z.even h then lit ".0" else lit ".5").

Fixpoint is_prefix (p s : str) : bool :=
  match p, s with
  | [], _ => true
  | a :: p', b :: s' => (a =? b) && is_prefix p' s'
  | _ :: _, [] => false
  end.
(* str.replace(pat, rep) for a non-empty pattern; fuel >= length s *)
Fixpoint replace_fuel (fuel : nat) (pat rep s : str) : str :=
  match fuel with
  | O => s
  | S f =>
      match s with
      | [] => []
      | c :: r => if is_prefix pat s then rep ++ replace_fuel f pat rep (skipn (length pat) s)
                  else c :: replace_fuel f pat rep r
      end
  end.
Definition str_replace (pat rep s : str) : str := replace_fuel (length s) pat rep s.

Fixpoint span_not (q : Z) (s : str) : str * str :=
  match s with
  | [] => ([], [])
  | c :: r => if c =? q then ([], s) else let '(a, b) := span_not q r in (c :: a, b)
  end.
(* re.sub(r'\sclass=Q[^Q]+Q', '', s) where Q is the double quote character *)
Fixpoint re_sub_class_fuel (fuel : nat) (s : str) : str :=
  match fuel with
  | O => s
  | S f =>
      match s with
      | [] => []
      | c :: r =>
          if is_py_space c && is_prefix (lit "class=""") r then
            let '(body, rest) := span_not 34 (skipn 7 r) in
            match body, rest with
            | _ :: _, _ :: rest' => re_sub_class_fuel f rest'
            | _, _ => c :: re_sub_class_fuel f r
            end
          else c :: re_sub_class_fuel f r
      end
  end.
Definition re_sub_class (s : str) : str := re_sub_class_fuel (length s) s.

(* ---------- xml.sax.saxutils ---------- *)
Definition escape_cp (c : Z) : str :=
  if c =? 38 then lit "&amp;" else if c =? 62 then lit "&gt;" else if c =? 60 then lit "&lt;" else [c].
Definition escape (s : str) : str := flat_map escape_cp s.
Definition attr_cp (c : Z) : str :=
  if c =? 10 then lit "&#10;" else if c =? 13 then lit "&#13;" else if c =? 9 then lit "&#9;" else escape_cp c.
Definition quoteattr (s : str) : str :=
  let d := flat_map attr_cp s in
  if memZ 34 d then
    if memZ 39 d then [34] ++ flat_map (fun c => if c =? 34 then lit "&quot;" else [c]) d ++ [34]
    else [39] ++ d ++ [39]
  else [34] ++ d ++ [34].

(* ---------- _color_to_webcolor ---------- *)
Definition hexdigit (v : Z) : Z := if v <? 10 then 48 + v else 87 + v.
(* '{:02x}'.format(v); colour components are 0..255, the branch for negative values is kept for totality *)
Definition fmt02x (v : Z) : str :=
  if v <? 0 then [45; hexdigit (- v)] else [hexdigit (v / 16); hexdigit (v mod 16)].
(* str(float) of an alpha value given in units of 1/10000 *)
Fixpoint strip_zeros_rev (l : str) : str := match l with 48 :: r => strip_zeros_rev r | _ => l end.
Definition alpha_str (u : Z) : str :=
  let f := u mod 10000 in
  let ds := [48 + f / 1000; 48 + f / 100 mod 10; 48 + f / 10 mod 10; 48 + f mod 10] in
  let st := rev (strip_zeros_rev (rev ds)) in
  dec (u / 10000) ++ [46] ++ (match st with [] => [48] | _ => st end).

Inductive webcolor := WPlain (s : str) | WAlpha (s : str) (alpha : Z).

Definition hex_optimized (r g b : Z) : str :=
  let hx := [35] ++ fmt02x r ++ fmt02x g ++ fmt02x b in
  if str_eqb hx (lit "#d2b48c") then lit "tan"
  else if str_eqb hx (lit "#ff0000") then lit "red"
  else match hx with
       | [_; a1; a2; b1; b2; c1; c2] => if (a1 =? a2) && (b1 =? b2) && (c1 =? c2) then [35; a1; b1; c1] else hx
       | _ => hx
       end.

Definition color_to_webcolor (color : pycolor) (allow_css3_colors : bool) : res webcolor :=
  if color_is_black color then Ok (WPlain (lit "#000"))
  else if color_is_white color then Ok (WPlain (lit "#fff"))
  else
    do clr <- color_to_rgb_or_rgba color true;
    match clr with
    | [r; g; b; a] =>
        if allow_css3_colors
        then Ok (WPlain (lit "rgba(" ++ dec r ++ [44] ++ dec g ++ [44] ++ dec b ++ [44] ++ alpha_str a ++ [41]))
        else Ok (WAlpha (hex_optimized r g b) a)
    | [r; g; b] => Ok (WPlain (hex_optimized r g b))
    | _ => Err ValueError
    end.

(* ---------- options ---------- *)
Inductive svgscale := SInt (z : Z) | SHalf (twice : Z).
Inductive svgver := VInt (z : Z) | VFloat (ip : Z) (frac : str).

Record svg_opts := {
  so_scale : svgscale; so_border : option Z; so_xmldecl : bool; so_svgns : bool;
  so_title : option str; so_desc : option str; so_svgid : option str; so_svgclass : option str;
  so_lineclass : option str; so_omitsize : bool; so_unit : option str; so_encoding : option str;
  so_svgversion : option svgver; so_nl : bool; so_draw_transparent : bool }.

Definition default_svg_opts : svg_opts :=
  {| so_scale := SInt 1; so_border := None; so_xmldecl := true; so_svgns := true; so_title := None; so_desc := None;
     so_svgid := None; so_svgclass := Some (lit "segno"); so_lineclass := Some (lit "qrline"); so_omitsize := false;
     so_unit := None; so_encoding := Some (lit "utf-8"); so_svgversion := None; so_nl := true;
     so_draw_transparent := false |}.

(* the decorator's defaults: dark='#000', light=None, everything else not given *)
Definition two_colors (dark light : ocolor) : color_opts :=
  {| o_dark := dark; o_light := light; o_finder_dark := None; o_finder_light := None; o_data_dark := None;
     o_data_light := None; o_version_dark := None; o_version_light := None; o_format_dark := None;
     o_format_light := None; o_alignment_dark := None; o_alignment_light := None; o_timing_dark := None;
     o_timing_light := None; o_separator := None; o_dark_module := None; o_quiet_zone := None |}.
Definition default_colors : color_opts := two_colors (Some (CStr (lit "#000"))) None.

Definition scale_le0 (s : svgscale) : bool := match s with SInt z => z <=? 0 | SHalf t => t <=? 0 end.
Definition scale_is_1 (s : svgscale) : bool := match s with SInt z => z =? 1 | SHalf t => t =? 2 end.
Definition scale_str (s : svgscale) : str := match s with SInt z => dec z | SHalf t => float_half_repr t end.
(* str(n * scale) *)
Definition scaled_str (n : Z) (s : svgscale) : str :=
  match s with SInt z => dec (n * z) | SHalf t => float_half_repr (n * t) end.
Definition ver_ge2 (v : svgver) : bool := match v with VInt z => 2 <=? z | VFloat ip _ => 2 <=? ip end.
Definition ver_str (v : svgver) : str := match v with VInt z => dec z | VFloat ip frac => dec ip ++ [46] ++ frac end.
Definition truthy (o : option str) : option str := match o with Some ((_ :: _) as s) => Some s | _ => None end.

(* ---------- colour-keyed insertion-ordered dicts ---------- *)
Definition pycolor_eqb (a b : pycolor) : bool :=
  match a, b with CStr x, CStr y => str_eqb x y | CTuple x, CTuple y => str_eqb x y | _, _ => false end.
Definition ocolor_eqb (a b : ocolor) : bool :=
  match a, b with None, None => true | Some x, Some y => pycolor_eqb x y | _, _ => false end.
Fixpoint od_get {A} (k : ocolor) (d : list (ocolor * A)) : option A :=
  match d with [] => None | (k', v) :: r => if ocolor_eqb k k' then Some v else od_get k r end.
Fixpoint od_set {A} (k : ocolor) (v : A) (d : list (ocolor * A)) : list (ocolor * A) :=
  match d with [] => [(k, v)] | (k', v') :: r => if ocolor_eqb k k' then (k', v) :: r else (k', v') :: od_set k v r end.
Definition od_del {A} (k : ocolor) (d : list (ocolor * A)) : list (ocolor * A) :=
  filter (fun kv => negb (ocolor_eqb k (fst kv))) d.
Fixpoint distinct_colors (l : list ocolor) : list ocolor :=
  match l with [] => [] | c :: r => if existsb (ocolor_eqb c) r then distinct_colors r else c :: distinct_colors r end.

(* ---------- the line iterators ---------- *)
Definition q_floor (q : Q) : Z := Qnum q / Zpos (Qden q).
Definition q_half (q : Q) : Z := 2 * Qnum q / Zpos (Qden q).
(* one item of `miter`: colour, (x1, x2, yh) *)
Definition seg := (Z * Z * Z)%type.
Definition seg_of_line (l : line) : seg := (q_floor (l_x1 l), q_floor (l_x2 l), q_half (l_y l)).
(* x, y = border, border + .5 *)
Definition two_color_lines (matrix : list (list Z)) (border : Z) : list seg :=
  map seg_of_line (matrix_to_lines matrix (inject_Z border) ((2 * border + 1) # 2) 1).

(* matrix_to_lines_verbose; `last` = None is invalid_color *)
Fixpoint verbose_row (row : list ocolor) (last : option ocolor) (x1 x2 yh : Z) : list (ocolor * seg) :=
  match row with
  | [] => match last with Some c => [(c, (x1, x2, yh))] | None => [] end
  | c :: r =>
      match last with
      | Some lc => if negb (ocolor_eqb lc c) then (lc, (x1, x2, yh)) :: verbose_row r (Some c) x2 (x2 + 1) yh
                   else verbose_row r (Some c) x1 (x2 + 1) yh
      | None => verbose_row r (Some c) x1 (x2 + 1) yh
      end
  end.
Fixpoint verbose_rows (rows : list (list ocolor)) (yh : Z) : list (ocolor * seg) :=
  match rows with [] => [] | row :: r => verbose_row row None 0 0 (yh + 2) ++ verbose_rows r (yh + 2) end.
Fixpoint map_res {A B} (f : A -> res B) (l : list A) : res (list B) :=
  match l with [] => Ok [] | a :: r => do b <- f a; do t <- map_res f r; Ok (b :: t) end.
Definition multi_color_lines (matrix align : list (list Z)) (size border : Z) (cm : list (Z * ocolor))
  : res (list (ocolor * seg)) :=
  do rows <- map_res (map_res (fun mt => getZ mt cm)) (iter_verbose_rows matrix align size size 1 border);
  Ok (verbose_rows rows (-1)).

(* relative coordinates (x, yh, length) per colour plus the current point of that colour *)
Definition coord := (Z * Z * Z)%type.
Fixpoint accumulate (items : list (ocolor * seg)) (d : list (ocolor * (list coord * (Z * Z))))
  : list (ocolor * (list coord * (Z * Z))) :=
  match items with
  | [] => d
  | (clr, (x1, x2, y1)) :: r =>
      let '(cs, (x, y)) := match od_get clr d with Some e => e | None => ([], (0, 0)) end in
      accumulate r (od_set clr (cs ++ [(x1 - x, y1 - y, x2 - x1)], (x2, y1)) d)
  end.

(* ---------- path text ---------- *)
Fixpoint path_data (first : bool) (cs : list coord) : str :=
  match cs with
  | [] => []
  | (x, yh, l) :: r => [if first then 77 else 109] ++ dec x ++ [32] ++ print_half yh ++ [104] ++ dec l ++ path_data false r
  end.
Definition path_text (p : str) (clr : option webcolor) (cs : list coord) : str :=
  p ++ (match clr with
        | None => []
        | Some (WPlain c) => lit " stroke=" ++ quoteattr c
        | Some (WAlpha c a) => lit " stroke=" ++ quoteattr c ++ lit " stroke-opacity=" ++ quoteattr (alpha_str a)
        end) ++ lit " d=""" ++ path_data true cs ++ lit """/>".
Definition svg_color (allow_css3 : bool) (c : ocolor) : res (option webcolor) :=
  match c with None => Ok None | Some c => do w <- color_to_webcolor c allow_css3; Ok (Some w) end.
(* the background path: fill instead of stroke, closed, no class *)
Definition bg_fixup (m : Z) (path : str) : str :=
  re_sub_class (str_replace (lit """/>") ([118] ++ dec m ++ lit "h-" ++ dec m ++ lit "z""/>")
                            (str_replace (lit "stroke") (lit "fill") path)).

(* sorted(l, key=len): stable *)
Fixpoint insert_by_len (p : str) (l : list str) : list str :=
  match l with [] => [p] | q :: r => if lenZ p <=? lenZ q then p :: l else q :: insert_by_len p r end.
Definition sort_by_len (l : list str) : list str := fold_right insert_by_len [] l.

Definition opt_str (o : option str) (f : str -> str) : str := match o with Some s => f s | None => [] end.

Definition write_svg (matrix align : list (list Z)) (size : Z) (colors : color_opts) (o : svg_opts) : res str :=
  let colormap := make_colormap size colors in
  let scale := so_scale o in
  (* _valid_width_height_and_border *)
  if scale_le0 scale then Err ValueError else
  if match so_border o with Some b => b <? 0 | None => false end then Err ValueError else
  let border := get_border size size (so_border o) in
  let m := size + 2 * border in
  let unit := match so_unit o with Some u => u | None => [] end in
  if negb (lenZ unit =? 0) && so_omitsize o then Err ValueError else
  let allow_css3 := match so_svgversion o with Some v => ver_ge2 v | None => false end in
  do quiet <- getZ TYPE_QUIET_ZONE colormap;
  do ddark <- getZ TYPE_DATA_DARK colormap;
  (* more than two colours, or the colours are not a plain "dark modules / light modules" map *)
  let is_multicolor :=
    (2 <? lenZ (distinct_colors (map snd colormap)))
    || existsb (fun kv => negb (ocolor_eqb (snd kv) (if Z.shiftr (fst kv) 8 =? 0 then quiet else ddark))) colormap in
  let need_background := negb is_multicolor && (match quiet with Some _ => true | None => false end) in
  let need_svg_group := negb (scale_is_1 scale) && (need_background || is_multicolor) in
  do items <- (if is_multicolor then multi_color_lines matrix align size border colormap
               else Ok (map (fun s => (ddark, s)) (two_color_lines matrix border)));
  let coords0 := map (fun kv => (fst kv, fst (snd kv))) (accumulate items []) in
  let coords1 := if need_background then od_set quiet [(0, 0, m)] coords0 else coords0 in
  let coords := if so_draw_transparent o then coords1 else od_del None coords1 in
  let scale_info := if scale_is_1 scale then [] else lit " transform=""scale(" ++ scale_str scale ++ lit ")""" in
  let p := lit "<path" ++ (if need_svg_group then [] else scale_info)
           ++ opt_str (truthy (so_lineclass o)) (fun c => lit " class=" ++ quoteattr c) in
  do paths <- map_res (fun kv => do w <- svg_color allow_css3 (fst kv); Ok (fst kv, path_text p w (snd kv))) coords;
  let paths := if need_background
               then match od_get quiet paths with Some pk => od_set quiet (bg_fixup m pk) paths | None => paths end
               else paths in
  Ok (  (if so_xmldecl o
         then lit "<?xml version=""1.0""" ++ opt_str (so_encoding o) (fun e => lit " encoding=" ++ quoteattr e)
              ++ lit "?>" ++ [10]
         else [])
     ++ lit "<svg"
     ++ (if so_svgns o then lit " xmlns=""http://www.w3.org/2000/svg""" else [])
     ++ (match so_svgversion o with
         | Some v => if ver_ge2 v then [] else lit " version=" ++ quoteattr (ver_str v)
         | None => [] end)
     ++ (if so_omitsize o then []
         else lit " width=""" ++ scaled_str m scale ++ unit ++ lit """ height=""" ++ scaled_str m scale ++ unit ++ lit """")
     ++ (if so_omitsize o || negb (lenZ unit =? 0)
         then lit " viewBox=""0 0 " ++ scaled_str m scale ++ [32] ++ scaled_str m scale ++ lit """" else [])
     ++ opt_str (truthy (so_svgid o)) (fun s => lit " id=" ++ quoteattr s)
     ++ opt_str (truthy (so_svgclass o)) (fun s => lit " class=" ++ quoteattr s)
     ++ [62]
     ++ opt_str (so_title o) (fun t => lit "<title>" ++ escape t ++ lit "</title>")
     ++ opt_str (so_desc o) (fun t => lit "<desc>" ++ escape t ++ lit "</desc>")
     ++ (if need_svg_group then lit "<g" ++ scale_info ++ [62] else [])
     ++ concat (sort_by_len (map snd paths))
     ++ (if need_svg_group then lit "</g>" else [])
     ++ lit "</svg>"
     ++ (if so_nl o then [10] else [])).

(* ---------- bytes for encoding None / 'utf-8' ---------- *)
Definition utf8_cp (c : Z) : res (list Z) :=
  if c <? 128 then Ok [c]
  else if c <? 2048 then Ok [192 + c / 64; 128 + c mod 64]
  else if (55296 <=? c) && (c <=? 57343) then Err UnicodeErr          (* lone surrogate *)
  else if c <? 65536 then Ok [224 + c / 4096; 128 + c / 64 mod 64; 128 + c mod 64]
  else Ok [240 + c / 262144; 128 + c / 4096 mod 64; 128 + c / 64 mod 64; 128 + c mod 64].
Definition utf8 (s : str) : res (list Z) := do l <- map_res utf8_cp s; Ok (concat l).
Definition write_svg_utf8 (matrix align : list (list Z)) (size : Z) (colors : color_opts) (o : svg_opts) : res (list Z) :=
  do t <- write_svg matrix align size colors o; utf8 t.

(* ---------- as_svg_data_uri (result is ASCII text) ---------- *)
(* _replace_quotes: re.sub(rb'(=)Q([^Q]+)Q', rb'\1A\2A', data) where Q is the double quote, A the apostrophe *)
Fixpoint replace_quotes_fuel (fuel : nat) (s : list Z) : list Z :=
  match fuel with
  | O => s
  | S f =>
      match s with
      | 61 :: 34 :: r =>
          let '(body, rest) := span_not 34 r in
          match body, rest with
          | _ :: _, _ :: rest' => [61; 39] ++ body ++ [39] ++ replace_quotes_fuel f rest'
          | _, _ => 61 :: replace_quotes_fuel f (34 :: r)
          end
      | c :: r => c :: replace_quotes_fuel f r
      | [] => []
      end
  end.
Definition replace_quotes (s : list Z) : list Z := replace_quotes_fuel (length s) s.
Definition is_unreserved (b : Z) : bool :=
  ((65 <=? b) && (b <=? 90)) || ((97 <=? b) && (b <=? 122)) || ((48 <=? b) && (b <=? 57)) || memZ b [95; 46; 45; 126].
Definition HEXDIGIT (v : Z) : Z := if v <? 10 then 48 + v else 55 + v.
(* urllib.parse.quote(bytes, safe=...) *)
Definition url_quote (safe : list Z) (bs : list Z) : str :=
  flat_map (fun b => if is_unreserved b || memZ b safe then [b] else [37; HEXDIGIT (b / 16); HEXDIGIT (b mod 16)]) bs.
(* encoding must be None or 'utf-8' for the byte stream to be modelled; the charset text is `encoding` as given *)
Definition as_svg_data_uri (matrix align : list (list Z)) (size : Z) (colors : color_opts) (o : svg_opts)
                           (encode_minimal omit_charset : bool) : res str :=
  do bytes <- write_svg_utf8 matrix align size colors o;
  do enc <- match so_encoding o with Some e => Ok e | None => if omit_charset then Ok [] else Err TypeErr end;
  Ok (lit "data:image/svg+xml" ++ (if omit_charset then [] else lit ";charset=" ++ enc) ++ [44]
      ++ url_quote (if encode_minimal then lit " :/='" else []) (replace_quotes bytes)).
