(* Model of segno.encoder._encode / encode / encode_sequence (after argument normalisation). *)
From Coq Require Import String.
From Coq Require Import ZArith List Bool Lia FMapPositive.
From Segno Require Import Base.PyLite Ref.IsoData Model.Bits Model.Segment Model.Version Model.Stream Model.Matrix.
Import ListNotations.
Open Scope Z_scope.

Record code := { c_matrix : list (list bool); c_version : Z; c_error : option Z; c_mask : Z;
                 c_segments : list segment }.

Record sa_info := { sa_number : Z; sa_total : Z; sa_parity : Z }.

Definition calc_matrix_size (ver : Z) : Z := if 0 <? ver then ver * 4 + 17 else (ver + 4) * 2 + 9.

Fixpoint write_segments (segs : list segment) (ver : option Z) (ver_range : Z) (eci : bool) : res bits :=
  match segs with
  | [] => Ok []
  | s :: r => do a <- write_segment s ver ver_range eci; do b <- write_segments r ver ver_range eci; Ok (a ++ b)
  end.

(* the data bit stream of _encode up to and including the pad codewords *)
Definition data_stream (segs : list segment) (error : option Z) (version : Z) (eci : bool)
           (sa : option sa_info) : res bits :=
  let is_micro := version <? 1 in
  do ver_range <- (if is_micro then Ok version else version_range version);
  let ver := if is_micro then Some version else None in
  let hdr := match sa with
             | Some i => bits_of MODE_STRUCTURED_APPEND 4 ++ bits_of (sa_number i) 4 ++ bits_of (sa_total i) 4
                         ++ bits_of (sa_parity i) 8
             | None => [] end in
  do body <- write_segments segs ver ver_range eci;
  do cap <- capacity version error;
  do b1 <- write_terminator (hdr ++ body) cap ver;
  let b2 := write_padding_bits b1 version in
  Ok (write_pad_codewords b2 version cap).

Definition encode_core (segs : list segment) (error : option Z) (version : Z) (mask : option Z)
           (eci boost_error : bool) (sa : option sa_info) : res code :=
  do error <- (if boost_error then boost_error_level version error segs eci (match sa with Some _ => true | None => false end)
               else Ok error);
  do buff <- data_stream segs error version eci sa;
  do final <- make_final_message version error buff;
  let size := calc_matrix_size version in
  do m1 <- add_finder_patterns size (make_matrix size true true);
  do m2 <- add_alignment_patterns size m1;
  do m3 <- add_codewords size version m2 final;
  do (mask', m4) <- find_and_apply_best_mask size m3 mask;
  do m5 <- add_format_info size version error mask' m4;
  do m6 <- add_version_info size version m5;
  Ok {| c_matrix := rows_of size m6; c_version := version; c_error := error; c_mask := mask';
        c_segments := segs |}.

Definition normalize_mask_int (mask : option Z) (is_micro : bool) : res (option Z) :=
  match mask with
  | None => Ok None
  | Some k => if (0 <=? k) && (k <? (if is_micro then 4 else 8)) then Ok (Some k) else Err ValueError
  end.

(* encode() after normalize_version / normalize_errorlevel / normalize_mode, mask still raw int *)
Definition encode (parts : list part) (error : option Z) (version : option Z) (mode : option Z)
           (mask : option Z) (eci : bool) (micro : option bool) (boost_error : bool) : res code :=
  let in_micro v := match v with Some x => memZ x MICRO_VERSIONS | None => false end in
  if (match micro with Some false => true | _ => false end) && in_micro version then Err ValueError else
  if otruthy micro && (match version with Some x => negb (memZ x MICRO_VERSIONS) | None => false end) then Err ValueError else
  do _ <- (match mode, version with
           | Some m, Some v => do b <- is_mode_supported m v; if b then Ok tt else Err ValueError
           | _, _ => Ok tt end);
  if oz_eqb error (Some ERROR_LEVEL_H) && (otruthy micro || in_micro version) then Err ValueError else
  if eci && (otruthy micro || in_micro version) then Err ValueError else
  do segs <- prepare_data parts;
  do guessed <- find_version segs error eci micro false;
  do version <- (match version with
                 | None => Ok guessed
                 | Some v => if v <? guessed then Err DataOverflow else Ok v end);
  let error := match error with None => if version =? VERSION_M1 then None else Some ERROR_LEVEL_L | e => e end in
  do cap <- capacity version error;
  do len <- bit_length_with_overhead segs version eci false;
  if cap <? len then Err DataOverflow else
  do mask <- normalize_mask_int mask (version <? 1);
  encode_core segs error version mask eci boost_error None.
