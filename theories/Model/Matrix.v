(* Model of the module matrix: make_matrix, finder/alignment/timing patterns, add_codewords,
   masking, mask evaluation, format and version information. Square symbols only. *)
From Coq Require Import String.
From Coq Require Import ZArith List Bool Lia FMapPositive.
From Segno Require Import Base.PyLite Ref.IsoData Model.Bits.
Import ListNotations.
Open Scope Z_scope.
Module PM := PositiveMap.

(* a cell is absent while it holds the "illegal" value 0x2 of make_matrix *)
Definition mat := PM.t bool.
Definition idx (size i j : Z) : positive := Z.to_pos (i * size + j + 1).
Definition mget (size : Z) (m : mat) (i j : Z) : option bool := PM.find (idx size i j) m.
Definition mset (size : Z) (m : mat) (i j : Z) (b : bool) : mat := PM.add (idx size i j) b m.
(* Python index normalisation for negative indices *)
Definition pyi (size i : Z) : Z := if i <? 0 then i + size else i.

Definition set_all (size : Z) (m : mat) (cells : list (Z * Z * bool)) : mat :=
  fold_left (fun m '(i, j, b) => mset size m i j b) cells m.

Definition add_timing_pattern (size : Z) (micro : bool) (m : mat) : mat :=
  let '(j, stop) := if micro then (0, size) else (6, size - 8) in
  set_all size m (flat_map (fun i => let bit := Z.even (i - 8) in [(i, j, bit); (j, i, bit)]) (zrange 8 stop)).

Definition make_matrix (size : Z) (reserve_regions add_timing : bool) : mat :=
  let micro := size <? 21 in
  let m0 : mat := PM.empty bool in
  let m1 := if reserve_regions then
      let mv := if 41 <? size then
          set_all size m0 (flat_map (fun i =>
            [(i, size - 11, false); (i, size - 10, false); (i, size - 9, false);
             (size - 11, i, false); (size - 10, i, false); (size - 9, i, false)]) (zrange 0 6))
        else m0 in
      set_all size mv (flat_map (fun i =>
        [(i, 8, false); (8, i, false)] ++
        (if micro then [] else [(pyi size (- i), 8, false); (8, pyi size (- i), false)])) (zrange 0 9))
    else m0 in
  if add_timing then add_timing_pattern size micro m1 else m1.

Definition finder_cell (r c : Z) : res bool :=
  do row <- nthZ FINDER_PATTERN r; do v <- nthZ row c; Ok (negb (v =? 0)).

Fixpoint set_all_res (size : Z) (m : mat) (cells : list (Z * Z * res bool)) : res mat :=
  match cells with
  | [] => Ok m
  | (i, j, rb) :: r => do b <- rb; set_all_res size (mset size m i j b) r
  end.

Definition add_finder_patterns (size : Z) (m : mat) : res mat :=
  let corners := if size <? 21 then [(0, 0)] else [(0, 0); (0, size - 8); (-8, 0)] in
  set_all_res size m (flat_map (fun '(i, j) =>
    let offset := if i =? 0 then 1 else 0 in
    let sepoffset := if negb (j =? 0) then 0 else 1 in
    flat_map (fun r => map (fun c => (pyi size (i + r), j + c, finder_cell (offset + r) (sepoffset + c))) (zrange 0 8))
             (zrange 0 8)) corners).

Definition alignment_pattern : list Z :=
  [1;1;1;1;1; 1;0;0;0;1; 1;0;1;0;1; 1;0;0;0;1; 1;1;1;1;1].

Definition add_alignment_patterns (size : Z) (m : mat) : res mat :=
  let version := (size - 17) / 4 in
  if version <? 2 then Ok m else
  do positions <- nthZ ALIGNMENT_POS (version - 2);
  do min_pos <- nthZ positions 0;
  do max_pos <- py_index positions (-1);
  let is_finder x y := ((x =? min_pos) && (y =? min_pos)) || ((x =? min_pos) && (y =? max_pos))
                       || ((x =? max_pos) && (y =? min_pos)) in
  set_all_res size m (flat_map (fun x => flat_map (fun y =>
    if is_finder x y then [] else
    flat_map (fun r => map (fun c => (x - 2 + r, y - 2 + c,
                                      do v <- nthZ alignment_pattern (r * 5 + c); Ok (negb (v =? 0))))
                           (zrange 0 5)) (zrange 0 5)) positions) positions).

(* visiting order of add_codewords *)
Definition visit_order (size version : Z) : list (Z * Z) :=
  let micro := version <? 1 in
  let inc := if (version =? VERSION_M1) || (version =? VERSION_M3) then 2 else 0 in
  flat_map (fun k =>
    let right0 := size - 1 - 2 * k in
    let right := if negb micro && (right0 <=? 6) then right0 - 1 else right0 in
    flat_map (fun vertical => map (fun z =>
      let j := right - z in
      let up0 := Z.land (right + inc) 2 =? 0 in
      let upwards := if micro then up0 else xorb up0 (j <? 6) in
      let i := if upwards then size - 1 - vertical else vertical in
      (i, j)) [0; 1]) (zrange 0 size)) (zrange 0 ((size - 1 + 1) / 2)).

Fixpoint place_visit (size : Z) (m : mat) (visit : list (Z * Z)) (bs : bits) : mat * bits :=
  match visit with
  | [] => (m, bs)
  | (i, j) :: r =>
      match mget size m i j, bs with
      | None, b :: bs' => place_visit size (mset size m i j b) r bs'
      | _, _ => place_visit size m r bs
      end
  end.
Definition add_codewords (size version : Z) (m : mat) (codewords : bits) : res mat :=
  let '(m', rest) := place_visit size m (visit_order size version) codewords in
  match rest with [] => Ok m' | _ => Err ValueError end.

(* data mask predicates, ISO Table 10 in the form the implementation uses them *)
Definition mask_fn (micro : bool) (k : Z) (i j : Z) : bool :=
  let k := if micro then match k with 0 => 1 | 1 => 4 | 2 => 6 | _ => 7 end else k in
  match k with
  | 0 => Z.land (i + j) 1 =? 0
  | 1 => Z.land i 1 =? 0
  | 2 => j mod 3 =? 0
  | 3 => (i + j) mod 3 =? 0
  | 4 => Z.land (i / 2 + j / 3) 1 =? 0
  | 5 => Z.land (i * j) 1 + (i * j) mod 3 =? 0
  | 6 => Z.land (Z.land (i * j) 1 + (i * j) mod 3) 1 =? 0
  | _ => Z.land (Z.land (i + j) 1 + (i * j) mod 3) 1 =? 0
  end.

Definition function_matrix (size : Z) : res mat :=
  do m1 <- add_finder_patterns size (make_matrix size true true);
  do m2 <- add_alignment_patterns size m1;
  Ok (if size <? 21 then m2 else mset size m2 (size - 8) 8 true).

Definition all_cells (size : Z) : list (Z * Z) :=
  flat_map (fun i => map (fun j => (i, j)) (zrange 0 size)) (zrange 0 size).

(* cells of the encoding region: still unset in the function matrix *)
Definition region (size : Z) (fm : mat) : list (Z * Z) :=
  filter (fun '(i, j) => match mget size fm i j with None => true | Some _ => false end) (all_cells size).

Definition apply_mask (size : Z) (m : mat) (reg : list (Z * Z)) (f : Z -> Z -> bool) : mat :=
  fold_left (fun m '(i, j) => match mget size m i j with
                              | Some b => mset size m i j (xorb b (f i j))
                              | None => m end) reg m.

Definition rows_of (size : Z) (m : mat) : list (list bool) :=
  map (fun i => map (fun j => match mget size m i j with Some b => b | None => false end) (zrange 0 size)) (zrange 0 size).

(* ---- mask evaluation (7.8.3.1) on row lists ---- *)
(* N1: runs of >= 5 equal modules score len - 2 *)
Fixpoint n1_line_aux (prev : bool) (run : Z) (l : list bool) : Z :=
  match l with
  | [] => if 5 <=? run then run - 2 else 0
  | b :: r => if Bool.eqb b prev then n1_line_aux prev (run + 1) r
              else (if 5 <=? run then run - 2 else 0) + n1_line_aux b 1 r
  end.
Definition n1_line (l : list bool) : Z :=
  match l with [] => 0 | b :: r => n1_line_aux b 1 r end.

Fixpoint n2_rows (prev cur : list bool) : Z :=
  match prev, cur with
  | p1 :: ((p2 :: _) as pr), c1 :: ((c2 :: _) as cr) =>
      (if Bool.eqb c2 c1 && Bool.eqb c2 p2 && Bool.eqb c2 p1 then 3 else 0) + n2_rows pr cr
  | _, _ => 0
  end.
Fixpoint n2_all (rows : list (list bool)) : Z :=
  match rows with
  | r1 :: ((r2 :: _) as rest) => n2_rows r1 r2 + n2_all rest
  | _ => 0
  end.

Definition n3_pattern : list bool := [true; false; true; true; true; false; true].
Fixpoint starts_with (p l : list bool) : bool :=
  match p, l with
  | [], _ => true
  | a :: p', b :: l' => Bool.eqb a b && starts_with p' l'
  | _ :: _, [] => false
  end.
Definition any_dark (l : list bool) : bool := existsb (fun b => b) l.
Definition slice {A} (l : list A) (a b : Z) : list A :=   (* l[a:b] for 0 <= a *)
  firstn (Z.to_nat (b - a)) (skipn (Z.to_nat a) l).

(* seq.find(pattern, start): smallest idx >= start with a match, scanning the suffix *)
Fixpoint find_from (suffix : list bool) (pos : Z) : option Z :=
  match suffix with
  | [] => None
  | _ :: r => if starts_with n3_pattern suffix then Some pos else find_from r (pos + 1)
  end.
(* n3_pattern_occurrences: after a hit at idx the search resumes at idx + 4 *)
Fixpoint n3_loop (fuel : nat) (seq : list bool) (size : Z) (start : Z) : Z :=
  match fuel with O => 0 | S f =>
    match find_from (skipn (Z.to_nat start) seq) start with
    | None => 0
    | Some idx =>
        let offset := idx + 7 in
        let hit := (idx =? 0) || (idx =? size - 7)
                   || negb (any_dark (slice seq (Z.max (idx - 4) 0) (Z.min idx size)))
                   || negb (any_dark (slice seq (Z.max offset 0) (Z.min (offset + 4) size))) in
        (if hit then 40 else 0) + n3_loop f seq size (idx + 4)
    end end.
Definition n3_line (size : Z) (seq : list bool) : Z := n3_loop (S (length seq)) seq size 0.

Fixpoint transpose_fuel (fuel : nat) (rows : list (list bool)) : list (list bool) :=
  match fuel with O => [] | S f =>
    match rows with
    | [] => []
    | [] :: _ => []
    | _ => map (fun r => hd false r) rows :: transpose_fuel f (map (fun r => tl r) rows)
    end end.
Definition transpose (rows : list (list bool)) : list (list bool) :=
  transpose_fuel (length (hd [] rows)) rows.

Definition dark_count (rows : list (list bool)) : Z :=
  fold_left (fun a r => fold_left (fun a b => a + bit_z b) r a) rows 0.

(* N4 = 10 * int(abs(percent * 100 - 50) / 5) in exact arithmetic *)
Definition n4_score (size dark : Z) : Z :=
  10 * (Z.abs (100 * dark - 50 * (size * size)) / (5 * (size * size))).

Definition mask_scores (size : Z) (rows : list (list bool)) : Z * Z * Z * Z :=
  let cols := transpose rows in
  let n1 := fold_left (fun a r => a + n1_line r) rows 0 + fold_left (fun a r => a + n1_line r) cols 0 in
  let n2 := n2_all rows in
  let n3 := fold_left (fun a r => a + n3_line size r) rows 0 + fold_left (fun a r => a + n3_line size r) cols 0 in
  (n1, n2, n3, n4_score size (dark_count rows)).
Definition evaluate_mask (size : Z) (rows : list (list bool)) : Z :=
  let '(a, b, c, d) := mask_scores size rows in a + b + c + d.

Definition evaluate_micro_mask (size : Z) (rows : list (list bool)) : Z :=
  let last_row := last rows [] in
  let sum1 := fold_left (fun a r => a + bit_z (last r false)) (tl rows) 0 in
  let sum2 := fold_left (fun a b => a + bit_z b) (tl last_row) 0 in
  if sum1 <=? sum2 then sum1 * 16 + sum2 else sum2 * 16 + sum1.

(* find_and_apply_best_mask *)
Fixpoint best_mask_loop (size : Z) (micro : bool) (m : mat) (reg : list (Z * Z)) (ks : list Z)
         (best_score : Z) (best : option (Z * mat)) : option (Z * mat) :=
  match ks with
  | [] => best
  | k :: r =>
      let mk := apply_mask size m reg (mask_fn micro k) in
      let score := if micro then evaluate_micro_mask size (rows_of size mk) else evaluate_mask size (rows_of size mk) in
      if (if micro then best_score <? score else score <? best_score)
      then best_mask_loop size micro m reg r score (Some (k, mk))
      else best_mask_loop size micro m reg r best_score best
  end.

Definition max_penalty : Z := 9223372036854775807.   (* sys.maxsize *)

Definition find_and_apply_best_mask (size : Z) (m : mat) (proposed : option Z) : res (Z * mat) :=
  let micro := size <? 21 in
  do fm <- function_matrix size;
  let reg := region size fm in
  match proposed with
  | Some k => Ok (k, apply_mask size m reg (mask_fn micro k))
  | None =>
      match best_mask_loop size micro m reg (zrange 0 (if micro then 4 else 8))
                           (if micro then -1 else max_penalty) None with
      | Some r => Ok r
      | None => Err TypeErr     (* best_pattern unbound *)
      end
  end.

(* ---- format and version information ---- *)
Definition calc_format_info (version : Z) (error : option Z) (mask : Z) : res Z :=
  if 0 <? version then
    let fmt := mask + (if oz_eqb error (Some ERROR_LEVEL_L) then 8
                       else if oz_eqb error (Some ERROR_LEVEL_H) then 16
                       else if oz_eqb error (Some ERROR_LEVEL_Q) then 24 else 0) in
    nthZ FORMAT_INFO fmt
  else
    do row <- getZ version ERROR_LEVEL_TO_MICRO_MAPPING;
    do e <- getOZ error row;
    nthZ FORMAT_INFO_MICRO (mask + Z.shiftl e 2).

Definition add_format_info (size version : Z) (error : option Z) (mask : Z) (m : mat) : res mat :=
  let micro := version <? 1 in
  do fi <- calc_format_info version error mask;
  let cells := flat_map (fun i =>
      let vbit := Z.testbit fi i in
      let hbit := Z.testbit fi (14 - i) in
      let voffset := if micro then 1 else if 6 <=? i then 1 else 0 in
      let hoffset := if micro then 1 else if 6 <=? i then 1 else 0 in
      [(i + voffset, 8, vbit); (8, i + hoffset, hbit)] ++
      (if micro then [] else [(8, size - 1 - i, vbit); (size - 1 - i, 8, hbit)])) (zrange 0 8) in
  let m1 := set_all size m cells in
  Ok (if micro then m1 else mset size m1 (size - 8) 8 true).

Definition add_version_info (size version : Z) (m : mat) : res mat :=
  if version <? 7 then Ok m else
  do vi <- nthZ VERSION_INFO (version - 7);
  Ok (set_all size m (flat_map (fun i =>
    let b1 := Z.testbit vi (i * 3) in
    let b2 := Z.testbit vi (i * 3 + 1) in
    let b3 := Z.testbit vi (i * 3 + 2) in
    [(size - 11, i, b1); (size - 10, i, b2); (size - 9, i, b3);
     (i, size - 11, b1); (i, size - 10, b2); (i, size - 9, b3)]) (zrange 0 6))).
