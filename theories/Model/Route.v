(* Model of the output routing: writers.save (extension / kind -> serializer), QRCodeSequence.save file names,
   cli.build_config (which command line values reach the serializer).  Values are represented by their
   Python repr (a string); only the routing logic is modelled, not the serializers. *)
From Coq Require Import ZArith List Bool Lia.
From Segno Require Import Base.PyLite Ref.IsoData Model.Color.
Import ListNotations.
Open Scope Z_scope.

Definition mkstr (l : list Z) : str := l.
(* str.rfind('.') *)
Fixpoint rfind_dot_aux (s : str) (pos : Z) (last : Z) : Z :=
  match s with [] => last | c :: r => rfind_dot_aux r (pos + 1) (if c =? 46 then pos else last) end.
Definition rfind_dot (s : str) : Z := rfind_dot_aux s 0 (-1).
Definition ext_of (fname : str) : str := lower (skipn (Z.to_nat (rfind_dot fname + 1)) fname).

Definition mem_str (k : str) (l : list str) : bool := existsb (str_eqb k) l.
Definition svgz : str := [115; 118; 103; 122].
Definition svg : str := [115; 118; 103].

(* writers.save: returns (serializer key, wrap in gzip?) *)
Definition resolve (kind : option str) (fname : str) (is_stream_with_name : bool) : res (str * bool) :=
  let ext := match kind with Some k => lower k | None => ext_of fname end in
  let is_stream := match kind with Some _ => false | None => is_stream_with_name end in
  let is_svgz := negb is_stream && str_eqb ext svgz in
  let key := if is_svgz then svg else ext in
  if mem_str key VALID_SERIALIZERS then Ok (key, is_svgz) else Err ValueError.

(* '{0:02d}' *)
Definition dec_digit (d : Z) : Z := 48 + d.
Fixpoint dec_aux (fuel : nat) (n : Z) (acc : str) : str :=
  match fuel with O => acc | S f => if n <? 10 then dec_digit n :: acc else dec_aux f (n / 10) (dec_digit (n mod 10) :: acc) end.
(* one step per decimal digit: a non-negative n has at most log2 n + 1 of them (no fixed bound on the number of symbols) *)
Definition dec (n : Z) : str := dec_aux (S (Z.to_nat (Z.log2 n))) n [].
Definition dec02 (n : Z) : str := if n <? 10 then 48 :: dec n else dec n.
(* QRCodeSequence.save: file name of symbol n (1-based) of m *)
Definition sequence_filename (out : str) (m n : Z) : str :=
  let dot := rfind_dot out in
  if (1 <? m) && (-1 <? dot)
  then firstn (Z.to_nat dot) out ++ [45] ++ dec02 m ++ [45] ++ dec02 n ++ skipn (Z.to_nat dot) out
  else out.

(* ---- cli.build_config: config = association list dest -> repr(value) ---- *)
Definition config := list (str * str).
Fixpoint cfg_get (k : str) (c : config) : option str :=
  match c with [] => None | (k', v) :: r => if str_eqb k k' then Some v else cfg_get k r end.
Definition cfg_remove (k : str) (c : config) : config := filter (fun '(k', _) => negb (str_eqb k k')) c.
Definition cfg_set (k v : str) (c : config) : config := cfg_remove k c ++ [(k, v)].

Definition r_None : str := [78; 111; 110; 101].
Definition r_False : str := [70; 97; 108; 115; 101].
Definition r_True : str := [84; 114; 117; 101].
Definition r_transparent : str := [39;116;114;97;110;115;112;97;114;101;110;116;39].
Definition r_trans : str := [39;116;114;97;110;115;39].
Definition r_empty : str := [39; 39].
(* Python truthiness of a value given by its repr, for the values argparse can deliver (None, bool, int, float, str, list) and the
   other empty containers: None False 0 0.0 -0.0 '' [] () {} set() b'' are false, everything else is true *)
Definition falsy_reprs : list str :=
  [r_None; r_False; [48]; [48; 46; 48]; [45; 48; 46; 48]; r_empty; [91; 93]; [40; 41]; [123; 125]; [115; 101; 116; 40; 41]; [98; 39; 39]].
Definition falsy (v : str) : bool := mem_str v falsy_reprs.

Definition color_keys : list str :=
  map mkstr [[100;97;114;107]; [108;105;103;104;116]; [102;105;110;100;101;114;95;100;97;114;107]; [102;105;110;100;101;114;95;108;105;103;104;116];
         [102;111;114;109;97;116;95;100;97;114;107]; [102;111;114;109;97;116;95;108;105;103;104;116];
         [97;108;105;103;110;109;101;110;116;95;100;97;114;107]; [97;108;105;103;110;109;101;110;116;95;108;105;103;104;116];
         [116;105;109;105;110;103;95;100;97;114;107]; [116;105;109;105;110;103;95;108;105;103;104;116];
         [100;97;116;97;95;100;97;114;107]; [100;97;116;97;95;108;105;103;104;116];
         [118;101;114;115;105;111;110;95;100;97;114;107]; [118;101;114;115;105;111;110;95;108;105;103;104;116];
         [113;117;105;101;116;95;122;111;110;101]; [100;97;114;107;95;109;111;100;117;108;101]; [115;101;112;97;114;97;116;111;114]].
Definition k_svgid : str := [115;118;103;105;100].
Definition k_svgclass : str := [115;118;103;99;108;97;115;115].
Definition k_lineclass : str := [108;105;110;101;99;108;97;115;115].
Definition k_no_classes : str := [110;111;95;99;108;97;115;115;101;115].
Definition k_encoding : str := [101;110;99;111;100;105;110;103].
Definition k_svgencoding : str := [115;118;103;101;110;99;111;100;105;110;103].
Definition k_unit : str := [117;110;105;116].
Definition r_utf8 : str := [39;117;116;102;45;56;39].

Definition build_config (c : config) (filename : option str) : config :=
  (* colours: 'transparent'/'trans' -> None; other truthy values kept; falsy ones dropped *)
  let c1 := fold_left (fun c k =>
              match cfg_get k c with
              | None => c
              | Some v => let c' := cfg_remove k c in
                          if str_eqb v r_transparent || str_eqb v r_trans then cfg_set k r_None c'
                          else if falsy v then c' else cfg_set k v c'
              end) color_keys c in
  let c2 := fold_left (fun c k => match cfg_get k c with Some v => if str_eqb v r_None then cfg_remove k c else c | None => c end)
                      [k_svgid; k_svgclass; k_lineclass] c1 in
  let c3 := match cfg_get k_no_classes c2 with
            | Some v => let c' := cfg_remove k_no_classes c2 in
                        if falsy v then c' else cfg_set k_lineclass r_None (cfg_set k_svgclass r_None c')
            | None => c2 end in
  let c4 := cfg_set k_encoding (match cfg_get k_svgencoding c3 with Some v => v | None => r_utf8 end) (cfg_remove k_svgencoding c3) in
  match filename with
  | None => c4
  | Some f =>
      let ext := ext_of f in
      let ext := if str_eqb ext svgz then svg else ext in
      let supported := match assoc_str ext EXT_TO_KW with Some l => l | None => [] end in
      let c5 := filter (fun '(k, _) => mem_str k supported) c4 in
      match cfg_get k_unit c5 with Some v => if str_eqb v r_None then cfg_remove k_unit c5 else c5 | None => c5 end
  end.

(* the configuration argparse yields when no option is given *)
Definition default_config : config := PARSER_DEFAULTS.
(* keys consumed before saving: make_code pops the symbol arguments, main pops 'output' *)
Definition creation_keys : list str :=
  map mkstr [[109;111;100;101]; [101;114;114;111;114]; [118;101;114;115;105;111;110]; [112;97;116;116;101;114;110]; k_encoding;
         [98;111;111;115;116;95;101;114;114;111;114]; [115;101;113]; [115;121;109;98;111;108;95;99;111;117;110;116]; [109;105;99;114;111];
         [99;111;110;116;101;110;116]; [111;117;116;112;117;116]].
