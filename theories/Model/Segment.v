(* Model of segno.encoder: data_to_bytes, find_mode, is_kanji, make_segment, Segments.add_segment,
   prepare_data.  Text -> bytes conversion is CPython's codec machinery and stays outside the model:
   a text part arrives with the results of the codecs the implementation would try. *)
From Coq Require Import String.
From Coq Require Import ZArith List Bool Lia.
From Segno Require Import Base.PyLite Ref.IsoData Model.Bits.
Import ListNotations.
Open Scope Z_scope.

(* an encoding name as given (or chosen) plus codecs.lookup(name).name (None: unknown codec) *)
Record enc := { e_name : String.string; e_canon : option String.string }.
Definition enc_eqb (a b : enc) : bool := String.eqb (e_name a) (e_name b).
Definition oenc_eqb (a b : option enc) : bool :=
  match a, b with None, None => true | Some x, Some y => enc_eqb x y | _, _ => false end.
Definition enc_is_default (e : option enc) : bool :=
  match e with Some x => String.eqb (e_name x) DEFAULT_BYTE_ENCODING | None => false end.

Inductive codec_result := CROk (bs : list Z) | CRUnicode | CRLookup.

(* content of one part *)
Inductive pcontent :=
| PBytes (bs : list Z)
| PText (given latin1 sjis utf8 : codec_result).
(* [given]: result of str(data).encode(encoding) for the effective requested encoding (only read
   when an encoding is in force); the other three: the default chain of data_to_bytes *)

Definition enc_latin1 : enc := {| e_name := DEFAULT_BYTE_ENCODING; e_canon := Some "iso8859-1"%string |}.
Definition enc_sjis : enc := {| e_name := KANJI_ENCODING; e_canon := Some "shift_jis"%string |}.
Definition enc_utf8 : enc := {| e_name := "utf-8"%string; e_canon := Some "utf-8"%string |}.
Definition enc_gb2312 : enc := {| e_name := HANZI_ENCODING; e_canon := Some "gb2312"%string |}.

Definition of_codec (r : codec_result) : res (list Z) :=
  match r with CROk bs => Ok bs | CRUnicode => Err UnicodeErr | CRLookup => Err LookupErr end.

Definition data_to_bytes (c : pcontent) (encoding : option enc) : res (list Z * enc) :=
  match c with
  | PBytes bs => Ok (bs, match encoding with Some e => e | None => enc_latin1 end)
  | PText given latin1 sjis utf8 =>
      match encoding with
      | Some e => do bs <- of_codec given; Ok (bs, e)
      | None =>
          match latin1 with
          | CROk bs => Ok (bs, enc_latin1)
          | _ => match sjis with
                 | CROk bs => Ok (bs, enc_sjis)
                 | _ => do bs <- of_codec utf8; Ok (bs, enc_utf8)
                 end
          end
      end
  end.

Definition is_digit (b : Z) : bool := (48 <=? b) && (b <=? 57).
Definition alnum_index (b : Z) : option Z :=
  (fix go (l : list Z) (k : Z) := match l with [] => None | c :: r => if c =? b then Some k else go r (k + 1) end)
    ALPHANUMERIC_CHARS 0.
Definition is_alnum_char (b : Z) : bool := match alnum_index b with Some _ => true | None => false end.

(* a valid Shift JIS double-byte character of the Kanji mode ranges *)
Definition kanji_pair (hi lo : Z) : bool :=
  let code := Z.lor (Z.shiftl hi 8) lo in
  (((33088 <=? code) && (code <=? 40956)) || ((57408 <=? code) && (code <=? 60351)))
  && (64 <=? Z.land code 255) && (Z.land code 255 <=? 252) && negb (Z.land code 255 =? 127).
Fixpoint all_pairs (p : Z -> Z -> bool) (l : list Z) : bool :=
  match l with
  | [] => true
  | hi :: lo :: r => p hi lo && all_pairs p r
  | [_] => false
  end.
Definition is_kanji (data : list Z) : bool :=
  match data with [] => false | _ => Z.even (lenZ data) && all_pairs kanji_pair data end.

Definition find_mode (data : list Z) : Z :=
  if negb (lenZ data =? 0) && forallb is_digit data then MODE_NUMERIC
  else if negb (lenZ data =? 0) && forallb is_alnum_char data then MODE_ALPHANUMERIC
  else if is_kanji data then MODE_KANJI
  else MODE_BYTE.

Record segment := { s_bits : bits; s_count : Z; s_mode : Z; s_enc : option enc }.

(* int(chunk) of up to three ASCII digits *)
Definition int_of_digits (l : list Z) : Z := fold_left (fun acc d => 10 * acc + (d - 48)) l 0.

Fixpoint pack_numeric (fuel : nat) (data : list Z) : bits :=
  match fuel with O => [] | S f =>
    match data with
    | [] => []
    | _ => let chunk := firstn 3 data in
           bits_of (int_of_digits chunk) (lenZ chunk * 3 + 1) ++ pack_numeric f (skipn 3 data)
    end end.

Definition alnum_val (b : Z) : Z := match alnum_index b with Some k => k | None => -1 end.  (* bytes.find *)
Fixpoint pack_alnum (data : list Z) : bits :=
  match data with
  | [] => []
  | [a] => bits_of (alnum_val a) 6
  | a :: b :: r => bits_of (alnum_val a * 45 + alnum_val b) 11 ++ pack_alnum r
  end.

Fixpoint pack_kanji (data : list Z) : res bits :=
  match data with
  | [] => Ok []
  | [_] => Err IndexErr
  | hi :: lo :: r =>
      let code := Z.lor (Z.shiftl hi 8) lo in
      if negb (kanji_pair hi lo) then Err ValueError else
      do diff <- (if (33088 <=? code) && (code <=? 40956) then Ok (code - 33088)
                  else if (57408 <=? code) && (code <=? 60351) then Ok (code - 49472)
                  else Err ValueError);
      do rest <- pack_kanji r;
      Ok (bits_of (Z.shiftr diff 8 * 192 + Z.land diff 255) 13 ++ rest)
  end.

Fixpoint pack_hanzi (data : list Z) : res bits :=
  match data with
  | [] => Ok []
  | [_] => Err IndexErr
  | hi :: lo :: r =>
      let code := Z.lor (Z.shiftl hi 8) lo in
      if negb ((161 <=? lo) && (lo <=? 254)) then Err ValueError else
      do diff <- (if (41377 <=? code) && (code <=? 43774) then Ok (code - 41377)
                  else if (45217 <=? code) && (code <=? 64254) then Ok (code - 42657)
                  else Err ValueError);
      do rest <- pack_hanzi r;
      Ok (bits_of (Z.shiftr diff 8 * 96 + Z.land diff 255) 13 ++ rest)
  end.

Definition make_segment (c : pcontent) (mode : option Z) (encoding : option enc) : res segment :=
  let encoding := if oz_eqb mode (Some MODE_HANZI) then Some enc_gb2312 else encoding in
  do (data, senc) <- data_to_bytes c encoding;
  let len := lenZ data in
  let guessed := if oz_eqb mode (Some MODE_BYTE) then MODE_BYTE else find_mode data in
  do smode <- (match mode with
               | Some m => if m <? guessed then Err ValueError else Ok m
               | None => Ok guessed end);
  let senc := if smode =? MODE_BYTE then Some senc else None in
  let two := (smode =? MODE_KANJI) || (smode =? MODE_HANZI) in
  let count := if two then len / 2 else len in
  if two && negb (count * 2 =? len) then Err ValueError else
  do bs <- (if smode =? MODE_NUMERIC then Ok (pack_numeric (S (length data)) data)
            else if smode =? MODE_ALPHANUMERIC then Ok (pack_alnum data)
            else if smode =? MODE_BYTE then Ok (flat_map (fun b => bits_of b 8) data)
            else if smode =? MODE_HANZI then pack_hanzi data
            else pack_kanji data);
  Ok {| s_bits := bs; s_count := count; s_mode := smode; s_enc := senc |}.

(* Segments.add_segment: merge with the previous segment when mode and encoding agree and the previous
   bits end at a group boundary *)
Definition merge_group (mode : Z) : Z :=
  if mode =? MODE_NUMERIC then 3 else if mode =? MODE_ALPHANUMERIC then 2 else 1.
(* segments are kept in reverse order while building *)
Definition add_segment (rev_segs : list segment) (s : segment) : list segment :=
  match rev_segs with
  | prev :: rest =>
      if (s_mode prev =? s_mode s) && oenc_eqb (s_enc prev) (s_enc s)
         && (s_count prev mod merge_group (s_mode s) =? 0)
      then {| s_bits := s_bits prev ++ s_bits s; s_count := s_count prev + s_count s;
              s_mode := s_mode s; s_enc := s_enc s |} :: rest
      else s :: rev_segs
  | [] => [s]
  end.

(* one part of a content sequence with its effective mode / encoding (item[1] or mode, item[2] or encoding) *)
Record part := { p_content : pcontent; p_mode : option Z; p_enc : option enc }.

Fixpoint prepare_aux (parts : list part) (acc : list segment) : res (list segment) :=
  match parts with
  | [] => Ok (rev acc)
  | p :: r => do s <- make_segment (p_content p) (p_mode p) (p_enc p); prepare_aux r (add_segment acc s)
  end.
Definition prepare_data (parts : list part) : res (list segment) := prepare_aux parts [].

Definition seg_modes (segs : list segment) : list Z := map s_mode segs.
Definition seg_bit_length (segs : list segment) : Z := fold_left (fun a s => a + lenZ (s_bits s)) segs 0.
