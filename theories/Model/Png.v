(* Model of segno.writers.write_png / as_png_data_uri (with the `colorful` decorator and _make_colormap).
   Definitions only; proofs are in Lemmas/PngLemmas.v, the independent reader in Ref/PngReader.v.

   Conventions (FORMAT_TASKS.md): a file is a [list Z] of bytes; the matrix is a square [list (list Z)] of 0/1
   cells of side [size]; `scale` is the already converted `int(scale)`; `border`, `dpi` are [option Z]
   (None = Python None); colours are [ocolor = option pycolor] (None = Python None = transparent).
   DEFLATE is not modelled: [deflate] is a section variable standing for `zlib.compress(_, compresslevel)`.

   Exception classes that the Python code can raise for these input types:
     ValueError   (scale < 1, border < 0, dpi < 0, unparsable colour; list.index cannot fail)  -> Err ValueError
     KeyError     (a matrix cell that is not 0/1 (or 18) / a module type without colour)       -> Err KeyErr
     struct.error (pack '>I' / '>L' out of range: dpi >= 109092170, image side or chunk length >= 2^32;
                   pack '>B' cannot fail any more: colour components are 0..255)               -> Err TypeErr
                   (PyLite has no constructor for struct.error; same convention as Model/Netpbm.v)
     IndexError   (`palette[0] = ...` on an empty palette: unreachable, the palette contains the placeholder)
                                                                                               -> Err IndexErr
     StopIteration (`next()` over the named colours; unreachable: 15 palette entries at most, more than 100
                   distinct named colours)                                                     -> Err AssertErr  *)
From Coq Require Import ZArith List Bool Lia.
From Segno Require Import Base.PyLite Ref.IsoData Model.Iter Model.Color.
Import ListNotations.
Open Scope Z_scope.

(* ---------- zlib.crc32: CRC-32 (ISO 3309), reflected polynomial 0xEDB88320, bytewise, no table ---------- *)
Definition crc_poly : Z := 3988292384.                    (* 0xEDB88320 *)
Definition crc_shift (c : Z) : Z :=
  if Z.odd c then Z.lxor (Z.shiftr c 1) crc_poly else Z.shiftr c 1.
(* one message byte ([b mod 256]: a byte is 0..255; this only makes the function total on [Z]) *)
Definition crc_byte (c b : Z) : Z :=
  crc_shift (crc_shift (crc_shift (crc_shift (crc_shift (crc_shift (crc_shift (crc_shift (Z.lxor c (b mod 256))))))))).
Definition crc32_update (c : Z) (l : list Z) : Z := fold_left crc_byte l c.
Definition crc32 (l : list Z) : Z := Z.lxor (crc32_update 4294967295 l) 4294967295.

(* ---------- struct.pack ---------- *)
Definition be32 (n : Z) : list Z := [(n / 16777216) mod 256; (n / 65536) mod 256; (n / 256) mod 256; n mod 256].
Definition pack_u32 (n : Z) : res (list Z) :=          (* '>I' / '>L' *)
  if (0 <=? n) && (n <? 4294967296) then Ok (be32 n) else Err TypeErr.
Definition pack_u16 (n : Z) : res (list Z) :=          (* '>H' *)
  if (0 <=? n) && (n <? 65536) then Ok [n / 256; n mod 256] else Err TypeErr.
Definition pack_u8 (n : Z) : res (list Z) :=           (* '>B' *)
  if (0 <=? n) && (n <=? 255) then Ok [n] else Err TypeErr.

Fixpoint map_res {A B} (f : A -> res B) (l : list A) : res (list B) :=
  match l with
  | [] => Ok []
  | x :: r => do y <- f x; do t <- map_res f r; Ok (y :: t)
  end.

(* chunk(name, data) *)
Definition chunk (name data : list Z) : res (list Z) :=
  do len <- pack_u32 (lenZ data);
  do crc <- pack_u32 (crc32 (name ++ data));           (* never fails: crc32 < 2^32 *)
  Ok (len ++ name ++ data ++ crc).

Definition png_signature : list Z := [137; 80; 78; 71; 13; 10; 26; 10].
Definition T_IHDR : list Z := [73; 72; 68; 82].
Definition T_pHYs : list Z := [112; 72; 89; 115].
Definition T_PLTE : list Z := [80; 76; 84; 69].
Definition T_tRNS : list Z := [116; 82; 78; 83].
Definition T_IDAT : list Z := [73; 68; 65; 84].
Definition T_IEND : list Z := [73; 69; 78; 68].

(* ---------- scanline(row, filter_type) ---------- *)
(* reduce(lambda x, y: (x << depth) + y, group)  (x << depth = x * 2^depth) *)
Definition pack_group (bd : Z) (g : list Z) : Z := fold_left (fun x y => x * 2 ^ bd + y) g 0.
(* zip_longest over k copies of iter(row), fillvalue=0: groups of k samples, the last one filled up with zeros *)
Fixpoint pack_samples (fuel : nat) (k : nat) (bd : Z) (row : list Z) : list Z :=
  match fuel with
  | O => []
  | S f =>
      match row with
      | [] => []
      | _ => let g := firstn k row in
             pack_group bd (g ++ repeat 0 (k - List.length g)) :: pack_samples f k bd (skipn k row)
      end
  end.
(* (the `bytearray(...)` conversion would raise ValueError for a value > 255; the samples are palette indices
   < number_of_colors <= 2^depth, so every packed value is < 256: PngLemmas.pack_samples_bytes) *)
Definition scanline (bd filter_type : Z) (row : list Z) : list Z :=
  filter_type :: pack_samples (List.length row) (Z.to_nat (8 / bd)) bd row.

(* the uncompressed IDAT stream.  [width] = pixel width of the image, [rows] = one list of palette indices per
   matrix row (no border, no scaling), [qz] = index of the quiet zone colour.
   border rows: `scanline(repeat(qz, width)) * border * scale` (filter 0 each);
   per matrix row: one filter-0 scanline, then (scale-1) "Up" scanlines (filter 2) whose bytes are all zero. *)
Definition png_idat (bd width scale border qz : Z) (rows : list (list Z)) : list Z :=
  let hb := concat (repeat (scanline bd 0 (repeat qz (Z.to_nat width))) (Z.to_nat (border * scale))) in
  let vb := repeat qz (Z.to_nat (border * scale)) in
  let same := concat (repeat (scanline bd 2 (repeat 0 (Z.to_nat width))) (Z.to_nat (scale - 1))) in
  hb ++ flat_map (fun r => scanline bd 0 (vb ++ repeat_each scale r ++ vb) ++ same) rows ++ hb.

(* ---------- colours ---------- *)
(* a colour is the Python tuple (R, G, B) or (R, G, B, A) as a list *)
Definition png_transparent : list Z := [-1; -1; -1; -1].
Definition png_black : list Z := [0; 0; 0].
Definition png_white : list Z := [255; 255; 255].
Definition clr_eqb : list Z -> list Z -> bool := str_eqb.
Definition clr_mem (c : list Z) (l : list (list Z)) : bool := existsb (clr_eqb c) l.

(* png_color: _color_to_rgb_or_rgba(clr, alpha_float=False), or the placeholder for None *)
Definition png_color (c : ocolor) : res (list Z) :=
  match c with None => Ok png_transparent | Some c => color_to_rgb_or_rgba c false end.

(* clr_map = {k: png_color(colormap[k]) for k in colormap} *)
Definition png_clr_map (colormap : list (Z * ocolor)) : res (list (Z * list Z)) :=
  map_res (fun '(mt, c) => do v <- png_color c; Ok (mt, v)) colormap.

(* set(...): duplicates removed.  The iteration order of a Python set of tuples is an implementation detail; the
   model keeps the order of first occurrence.  After the stable sorts below this matters only for two distinct
   colours with the same (R, G, B) and the same length, i.e. two RGBA colours that differ in alpha only. *)
Fixpoint dedup (l : list (list Z)) : list (list Z) :=
  match l with
  | [] => []
  | x :: r => x :: filter (fun y => negb (clr_eqb y x)) (dedup r)
  end.

(* sorted(..., key=itemgetter(0, 1, 2)): stable insertion sort on the (R, G, B) prefix *)
Definition key_ltb (a b : list Z) : bool :=
  let a0 := nth 0 a 0 in let a1 := nth 1 a 0 in let a2 := nth 2 a 0 in
  let b0 := nth 0 b 0 in let b1 := nth 1 b 0 in let b2 := nth 2 b 0 in
  (a0 <? b0) || ((a0 =? b0) && ((a1 <? b1) || ((a1 =? b1) && (a2 <? b2)))).
Fixpoint insert_stable (x : list Z) (l : list (list Z)) : list (list Z) :=
  match l with
  | [] => [x]
  | y :: r => if key_ltb x y then x :: l else y :: insert_stable x r
  end.
Definition sort_rgb (l : list (list Z)) : list (list Z) := fold_left (fun acc x => insert_stable x acc) l [].

(* palette.sort(key=len, reverse=True): stable; every colour has length 3 or 4 (Color.color_to_rgb_or_rgba, the
   placeholder), so this is "RGBA colours first, each group in its previous order" *)
Definition is_rgba (c : list Z) : bool := 3 <? lenZ c.
Definition sort_len_desc (l : list (list Z)) : list (list Z) :=
  filter is_rgba l ++ filter (fun c => negb (is_rgba c)) l.

(* list.index *)
Fixpoint index_of (c : list Z) (l : list (list Z)) : res Z :=
  match l with
  | [] => Err ValueError
  | x :: r => if clr_eqb c x then Ok 0 else do i <- index_of c r; Ok (i + 1)
  end.

(* _NAME2RGB.values() in dict order *)
Definition name_rgbs : list (list Z) := map (fun '(_, (r, g, b)) => [r; g; b]) NAME2RGB.

Record png_plan := {
  pl_grey : bool;                       (* colour type 0 (true) or 3 (false) *)
  pl_depth : Z;                         (* png_bit_depth *)
  pl_palette : list (list Z);           (* final palette *)
  pl_clr_map : list (Z * list Z);       (* clr_map after the placeholder has been replaced *)
  pl_transparent : bool;                (* is_transparent *)
  pl_trans_idx : option Z;              (* png_trans_idx *)
  pl_ncolors : Z                        (* number_of_colors *)
}.

Definition png_make_plan (clr_map : list (Z * list Z)) : res png_plan :=
  let palette := sort_rgb (dedup (map snd clr_map)) in
  let is_transparent := clr_mem png_transparent palette in
  let n := lenZ palette in
  let is_grey := (n =? 2) && forallb (fun c => clr_mem c [png_transparent; png_black; png_white]) palette in
  if is_grey then
    if is_transparent then
      let palette := if clr_mem png_black palette then [png_black; png_transparent] else palette in
      do ti <- index_of png_transparent palette;
      Ok {| pl_grey := true; pl_depth := 1; pl_palette := palette; pl_clr_map := clr_map;
            pl_transparent := true; pl_trans_idx := Some ti; pl_ncolors := n |}
    else
      Ok {| pl_grey := true; pl_depth := 1; pl_palette := palette; pl_clr_map := clr_map;
            pl_transparent := false; pl_trans_idx := None; pl_ncolors := n |}
  else
    let bd := if 2 <? n then (if n <? 5 then 2 else 4) else 1 in
    let palette := sort_len_desc palette in
    if is_transparent then
      match palette with
      | q0 :: rest =>
          (* len(palette) > 1 and len(palette[1]) == 3 *)
          let opaque_rest := match rest with p1 :: _ => lenZ p1 =? 3 | [] => false end in
          let cands := if opaque_rest then name_rgbs else map (fun c => c ++ [0]) name_rgbs in
          match find (fun c => negb (clr_mem c palette)) cands with
          | Some tc =>
              Ok {| pl_grey := false; pl_depth := bd; pl_palette := tc :: rest;
                    pl_clr_map := map (fun '(mt, c) => (mt, if clr_eqb c png_transparent then tc else c)) clr_map;
                    pl_transparent := true; pl_trans_idx := Some 0; pl_ncolors := n |}
          | None => Err AssertErr                      (* StopIteration; unreachable *)
          end
      | [] => Err IndexErr                             (* palette[0] = ...; unreachable *)
      end
    else
      Ok {| pl_grey := false; pl_depth := bd; pl_palette := palette; pl_clr_map := clr_map;
            pl_transparent := false; pl_trans_idx := None; pl_ncolors := n |}.

(* `mt >> 8` is truthy for the dark module types *)
Definition is_dark_type (mt : Z) : bool := negb (Z.shiftr mt 8 =? 0).
(* any(clr != clr_map[dark_idx if mt >> 8 else qz_idx] for mt, clr in clr_map.items()): left to right, stops at the
   first difference *)
Fixpoint any_differs (full l : list (Z * list Z)) : res bool :=
  match l with
  | [] => Ok false
  | (mt, c) :: r =>
      do ref <- getZ (if is_dark_type mt then TYPE_FINDER_PATTERN_DARK else TYPE_QUIET_ZONE) full;
      if negb (clr_eqb c ref) then Ok true else any_differs full r
  end.
(* the expensive iterator (one palette index per module type) is needed for more than two colours or if the colour
   of a module does not depend on its value only *)
Definition png_use_verbose (p : png_plan) : res bool :=
  if 2 <? pl_ncolors p then Ok true else any_differs (pl_clr_map p) (pl_clr_map p).

(* color_index: module type (or 0 / 1) -> palette index *)
Definition png_color_index (p : png_plan) (verbose : bool) : res (list (Z * Z)) :=
  if verbose then
    map_res (fun '(mt, c) => do i <- index_of c (pl_palette p); Ok (mt, i)) (pl_clr_map p)
  else
    do qc <- getZ TYPE_QUIET_ZONE (pl_clr_map p);
    do qi <- index_of qc (pl_palette p);
    do dc <- getZ TYPE_FINDER_PATTERN_DARK (pl_clr_map p);
    do di <- index_of dc (pl_palette p);
    Ok [(0, qi); (1, di); (TYPE_QUIET_ZONE, qi)].

(* the rows of palette indices: matrix_iter_verbose(matrix, size, 1, 0) or the matrix itself; every cell is looked
   up in color_index *)
Definition png_index_rows (verbose : bool) (ci : list (Z * Z)) (matrix alignment_matrix : list (list Z)) (size : Z)
  : res (list (list Z)) :=
  let src := if verbose then iter_verbose_rows matrix alignment_matrix size size 1 0 else matrix in
  map_res (fun row => map_res (fun b => getZ b ci) row) src.

(* PLTE: pack('>3B', *clr[:3]) per entry *)
Definition plte_entry (c : list Z) : res (list Z) :=
  match firstn 3 c with
  | [r; g; b] => do r' <- pack_u8 r; do g' <- pack_u8 g; do b' <- pack_u8 b; Ok (r' ++ g' ++ b')
  | _ => Err TypeErr
  end.
Definition plte_data (palette : list (list Z)) : res (list Z) :=
  do l <- map_res plte_entry palette; Ok (concat l).
(* tRNS for an indexed image: the alpha values of the RGBA entries *)
Definition trns_alpha_data (palette : list (list Z)) : res (list Z) :=
  do l <- map_res (fun c => match nth_error c 3 with Some a => pack_u8 a | None => Err IndexErr end)
                  (filter is_rgba palette);
  Ok (concat l).

(* dpi handling.  Python computes int(dpi // 0.0254) with floats; the model uses the exact rational
   dpi / (127/5000).  Both agree for every dpi whose result fits into 32 bits (checked exhaustively for
   0 <= dpi <= 110000000; the first dpi where the float computation differs is 4920061528439). *)
Definition dpi_to_ppm (dpi : Z) : Z := (dpi * 5000) / 127.
Definition png_dpi (dpi : option Z) : res (option Z) :=
  match dpi with
  | None => Ok None
  | Some d => if d =? 0 then Ok None else if d <? 0 then Err ValueError else Ok (Some (dpi_to_ppm d))
  end.

(* the colour-related chunks: tRNS for greyscale + transparency; PLTE and possibly tRNS for indexed colour *)
Definition png_colour_chunks (p : png_plan) : res (list (list Z * list Z)) :=
  if pl_grey p then
    match pl_trans_idx p with
    | Some ti => do t <- pack_u16 ti; Ok [(T_tRNS, t)]
    | None => Ok []
    end
  else
    do pd <- plte_data (pl_palette p);
    do tr <- (if is_rgba (hd [] (pl_palette p)) then
                do a <- trns_alpha_data (pl_palette p); Ok [(T_tRNS, a)]
              else match pl_trans_idx p with
                   | Some ti => if pl_transparent p then do t <- pack_u8 ti; Ok [(T_tRNS, t)] else Ok []
                   | None => Ok []
                   end);
    Ok ((T_PLTE, pd) :: tr).

(* the chunks between the signature and IDAT, as (type, data) *)
Definition png_pre_chunks (p : png_plan) (width : Z) (ppm : option Z) : res (list (list Z * list Z)) :=
  do w <- pack_u32 width;
  let ihdr := (T_IHDR, w ++ w ++ [pl_depth p; if pl_grey p then 0 else 3; 0; 0; 0]) in
  do phys <- match ppm with
             | Some d => do x <- pack_u32 d; Ok [(T_pHYs, x ++ x ++ [1])]
             | None => Ok [] end;
  do colour <- png_colour_chunks p;
  Ok (ihdr :: phys ++ colour).

Record png_layout := {
  pn_pre : list (list Z * list Z);      (* chunks before IDAT: IHDR, pHYs?, PLTE?, tRNS? as (type, data) *)
  pn_raw : list Z                       (* uncompressed IDAT stream *)
}.

(* everything except compression and byte serialisation of the chunks; same order of evaluation (and therefore
   of exceptions) as the Python function *)
Definition png_layout_of (matrix alignment_matrix : list (list Z)) (size scale : Z) (border dpi : option Z)
                         (colormap : list (Z * ocolor)) : res png_layout :=
  do _ <- check_valid_scale (PInt scale);
  do _ <- check_valid_border (match border with Some b => Some (PInt b) | None => None end);
  let b := get_border size size border in
  let width := (size + 2 * b) * scale in
  do ppm <- png_dpi dpi;
  do clr_map <- png_clr_map colormap;
  do p <- png_make_plan clr_map;
  do verbose <- png_use_verbose p;
  do ci <- png_color_index p verbose;
  do qz <- (if 0 <? b then getZ TYPE_QUIET_ZONE ci else Ok 0);
  do rows <- png_index_rows verbose ci matrix alignment_matrix size;
  do pre <- png_pre_chunks p width ppm;
  Ok {| pn_pre := pre; pn_raw := png_idat (pl_depth p) width scale b qz rows |}.

Definition chunk_bytes (c : list Z * list Z) : res (list Z) := chunk (fst c) (snd c).

(* png_parts: (chunks before IDAT as bytes, raw IDAT scanline data, trailer = IEND chunk).  The file is
   png_signature ++ concat pre ++ chunk IDAT (deflate raw) ++ trailer. *)
Definition png_parts_cm (matrix alignment_matrix : list (list Z)) (size scale : Z) (border dpi : option Z)
                        (colormap : list (Z * ocolor)) : res (list (list Z) * list Z * list Z) :=
  do l <- png_layout_of matrix alignment_matrix size scale border dpi colormap;
  do pre <- map_res chunk_bytes (pn_pre l);
  do iend <- chunk T_IEND [];
  Ok (pre, pn_raw l, iend).

Definition png_parts (matrix alignment_matrix : list (list Z)) (size scale : Z) (border dpi : option Z)
                     (opts : color_opts) : res (list (list Z) * list Z * list Z) :=
  png_parts_cm matrix alignment_matrix size scale border dpi (make_colormap size opts).

(* the defaults of @colorful(dark='#000', light='#fff') *)
Definition png_default_opts : color_opts :=
  {| o_dark := Some (CStr [35; 48; 48; 48]); o_light := Some (CStr [35; 102; 102; 102]);
     o_finder_dark := None; o_finder_light := None; o_data_dark := None; o_data_light := None;
     o_version_dark := None; o_version_light := None; o_format_dark := None; o_format_light := None;
     o_alignment_dark := None; o_alignment_light := None; o_timing_dark := None; o_timing_light := None;
     o_separator := None; o_dark_module := None; o_quiet_zone := None |}.
(* only dark / light given *)
Definition png_opts_dark_light (dark light : ocolor) : color_opts :=
  {| o_dark := dark; o_light := light;
     o_finder_dark := None; o_finder_light := None; o_data_dark := None; o_data_light := None;
     o_version_dark := None; o_version_light := None; o_format_dark := None; o_format_light := None;
     o_alignment_dark := None; o_alignment_light := None; o_timing_dark := None; o_timing_light := None;
     o_separator := None; o_dark_module := None; o_quiet_zone := None |}.

(* ---------- base64.b64encode (for as_png_data_uri) ---------- *)
Definition b64_char (v : Z) : Z :=
  if v <? 26 then 65 + v else if v <? 52 then 97 + (v - 26) else if v <? 62 then 48 + (v - 52)
  else if v =? 62 then 43 else 47.
Fixpoint b64encode (l : list Z) : list Z :=
  match l with
  | [] => []
  | [a] => [b64_char (a / 4); b64_char ((a mod 4) * 16); 61; 61]
  | [a; b] => [b64_char (a / 4); b64_char ((a mod 4) * 16 + b / 16); b64_char ((b mod 16) * 4); 61]
  | a :: b :: c :: r =>
      b64_char (a / 4) :: b64_char ((a mod 4) * 16 + b / 16) :: b64_char ((b mod 16) * 4 + c / 64)
      :: b64_char (c mod 64) :: b64encode r
  end.
(* 'data:image/png;base64,' *)
Definition data_uri_prefix : list Z :=
  [100; 97; 116; 97; 58; 105; 109; 97; 103; 101; 47; 112; 110; 103; 59; 98; 97; 115; 101; 54; 52; 44].

Section Png.
  (* zlib.compress(data, compresslevel) *)
  Variable deflate : list Z -> list Z.

  Definition write_png_cm (matrix alignment_matrix : list (list Z)) (size scale : Z) (border dpi : option Z)
                          (colormap : list (Z * ocolor)) : res (list Z) :=
    do l <- png_layout_of matrix alignment_matrix size scale border dpi colormap;
    do pre <- map_res chunk_bytes (pn_pre l);
    do idat <- chunk T_IDAT (deflate (pn_raw l));
    do iend <- chunk T_IEND [];
    Ok (png_signature ++ concat pre ++ idat ++ iend).

  (* write_png as decorated with @colorful: the colour options go through _make_colormap *)
  Definition write_png (matrix alignment_matrix : list (list Z)) (size scale : Z) (border dpi : option Z)
                       (opts : color_opts) : res (list Z) :=
    write_png_cm matrix alignment_matrix size scale border dpi (make_colormap size opts).

  (* as_png_data_uri: the characters of the returned str *)
  Definition as_png_data_uri (matrix alignment_matrix : list (list Z)) (size scale : Z) (border dpi : option Z)
                             (opts : color_opts) : res (list Z) :=
    do f <- write_png matrix alignment_matrix size scale border dpi opts;
    Ok (data_uri_prefix ++ b64encode f).
End Png.
