(* Model of segno.writers.write_eps / write_pdf / write_tex (vector serializers that draw the dark modules
   as horizontal strokes obtained from utils.matrix_to_lines).

   Conventions (FORMAT_TASKS.md): a file is a list of bytes (Z); text = its ASCII bytes.
   * scale : pynum.  `PInt z` is a Python int.  `PFloat q` is a Python float whose exact value is the
     DYADIC rational q; byte-exactness for floats is claimed only when every product `n * scale` that
     Python forms is exact in binary64 and its exact decimal expansion has at most 15 significant digits
     and lies in [1e-4, 1e16) (e.g. 0.5, 1.5, 2.25, 2.0 with the sizes of QR symbols): then `repr(float)`
     is the exact decimal expansion, which is what [float_repr] prints.  All theorems are for `PInt`.
   * border : option Z (documented type: int or None).
   * The three time stamps are opaque parameters:
       write_eps : date = time.strftime("%Y-%m-%d %H:%M:%S")           (no wrapping is modelled for this line:
                   `date` must be short enough for the line to have <= 254 characters and contain no
                   tab/newline/leading/trailing/double blanks -- true for every strftime result)
       write_pdf : date = f"{strftime('%Y%m%d%H%M%S')}{tz//3600:+03d}'{abs(tz)%60:02d}'"
       write_tex : date = time.strftime("%Y-%m-%dT%H:%M:%S")
   * zlib is not modelled: [deflate] is a Section variable.  [pdf_content] is the uncompressed text.
   * PDF colour operands are `str(1/255.0*c)`: printed exactly for c = 0 ("0.0") and c = 255 ("1.0"); every other
     component (including c = 1, '0.00392156862745098') is printed by the Section variable [color_text].
   * write_eps on the empty matrix raises StopIteration (next() on an exhausted generator).  PyLite.exn has
     no such constructor; the model returns [Err AssertErr] in that single case (see [write_eps]). *)
From Coq Require Import String Ascii.
From Coq Require Import ZArith List Bool Lia QArith.
From Segno Require Import Base.PyLite Model.Iter Model.Color.
Import ListNotations.
Open Scope Z_scope.

(* ---------- text helpers ---------- *)
Definition lit (s : String.string) : str :=
  map (fun a => Z.of_N (Ascii.N_of_ascii a)) (String.list_ascii_of_string s).
Arguments lit s%string.

Definition crlf : str := [13; 10].
Definition nl : str := [10].
Definition sp : str := [32].

Fixpoint join (sep : str) (l : list str) : str :=
  match l with
  | [] => []
  | [w] => w
  | w :: r => w ++ sep ++ join sep r
  end.

(* decimal digits of a non-negative integer *)
Fixpoint dec_fuel (fuel : nat) (n : Z) : str :=
  match fuel with
  | O => []
  | S f => (if n <? 10 then [] else dec_fuel f (n / 10)) ++ [48 + n mod 10]
  end.
Definition dec_nat (n : Z) : str := dec_fuel (S (Z.to_nat (Z.log2 n))) n.
(* str(int) *)
Definition dec (n : Z) : str := if n <? 0 then 45 :: dec_nat (- n) else dec_nat n.
(* left-pad with '0' to at least w characters *)
Definition pad0 (w : nat) (s : str) : str := repeat 48 (w - List.length s) ++ s.

(* repr(float) for a dyadic rational (see the header for the domain of validity) *)
Definition float_repr (q : Q) : str :=
  let r := Qred q in
  let n := Qnum r in
  let k := Z.log2 (Zpos (Qden r)) in
  let p := 10 ^ k in
  let m := Z.abs n * 5 ^ k in
  (if n <? 0 then [45] else []) ++ dec (m / p) ++ [46] ++
  (if k =? 0 then [48] else pad0 (Z.to_nat k) (dec (m mod p))).

(* '{:f}'.format(x) for an exact rational x: round-half-even to 6 decimals.  (For x = fl(fl(1/255)*c) the
   binary rounding error is < 1e-16 while c*10^6/255 is never within 1/102 of a tie, so rounding the exact
   rational c/255 gives the same digits; all 256 values are checked against CPython in VectorLemmas.v) *)
Definition round_half_even (a b : Z) : Z :=       (* a >= 0, b > 0 : nearest integer to a/b *)
  let fl := a / b in let r := a mod b in
  if 2 * r <? b then fl else if b <? 2 * r then fl + 1 else if Z.even fl then fl else fl + 1.
Definition fmt_f6 (q : Q) : str :=
  let n := Qnum q in let d := Zpos (Qden q) in
  let m := round_half_even (Z.abs n * 1000000) d in
  (if n <? 0 then [45] else []) ++ dec (m / 1000000) ++ [46] ++ pad0 6 (dec (m mod 1000000)).

Definition pn_text (n : pynum) : str := match n with PInt z => dec z | PFloat q => float_repr q end.
(* Python `a * b` *)
Definition pn_mul (a b : pynum) : pynum :=
  match a, b with
  | PInt x, PInt y => PInt (x * y)
  | _, _ => PFloat (q_of a * q_of b)
  end.
(* Python `scale != 1` *)
Definition pn_ne_one (n : pynum) : bool := negb (Qeq_bool (q_of n) 1).
(* an int-valued coordinate of matrix_to_lines (Iter.v keeps all coordinates in Q); also Python's int(x) *)
Definition qz (q : Q) : Z := py_int (PFloat q).

(* _valid_width_height_and_border *)
Definition valid_width_height_and_border (width height : Z) (scale : pynum) (border : option Z)
  : res (pynum * pynum * Z) :=
  do _ <- check_valid_scale scale;
  do _ <- check_valid_border (option_map PInt border);
  let b := get_border width height border in
  Ok (pn_mul (PInt (width + 2 * b)) scale, pn_mul (PInt (height + 2 * b)) scale, b).

Definition CREATOR : str := lit "Segno <https://pypi.org/project/segno/>".

(* ---------- EPS ---------- *)
(* textwrap.wrap(content, 254) for a text whose words are non-empty, contain no white space / hyphenated
   letter groups, are shorter than 254 characters and are separated by single blanks: greedy filling. *)
Fixpoint wrap_words (width : Z) (cur : str) (ws : list str) : list str :=
  match ws with
  | [] => [cur]
  | w :: r =>
      if lenZ cur + 1 + lenZ w <=? width then wrap_words width (cur ++ sp ++ w) r
      else cur :: wrap_words width w r
  end.
Definition wrap254 (ws : list str) : list str :=
  match ws with [] => [] | w :: r => wrap_words 254 w r end.
Definition write_lines (ls : list str) : str := flat_map (fun l => l ++ nl) ls.

(* rgb_to_floats / to_float followed by '{:f}' *)
Definition eps_component (c : Z) : str := fmt_f6 (c # 255)%Q.
Definition eps_color_words (rgb : list Z) : list str := map eps_component rgb.

Fixpoint eps_rest (ls : list line) (x y : Q) : list str :=
  match ls with
  | [] => []
  | l :: r =>
      [dec (qz (l_x1 l - x)); dec (qz (l_y l - y)); lit "m"; dec (qz (l_x2 l - l_x1 l)); lit "0"; lit "l"]
      ++ eps_rest r (l_x2 l) (l_y l)
  end.
(* words of the path line; y = the function-level variable `y` (top row), a float *)
Definition eps_path_words (ls : list line) (y : Q) : list str :=
  match ls with
  | [] => []
  | l0 :: r =>
      [dec (qz (l_x1 l0)); float_repr (l_y l0); lit "moveto"; dec (qz (l_x2 l0 - l_x1 l0)); lit "0"; lit "l"]
      ++ eps_rest r (l_x2 l0) y
  end.

Definition write_eps (matrix : list (list Z)) (width height : Z) (date : str)
    (scale : pynum) (border : option Z) (dark : pycolor) (light : option pycolor) : res (list Z) :=
  do whb <- valid_width_height_and_border width height scale border;
  let '(w, h, b) := whb in
  let black := color_is_black dark in
  do stroke <- (if black then Ok [] else color_to_rgb dark);
  (* from here on Python has already started writing: an error leaves a partial file behind *)
  do fill <- (match light with Some c => do rgb <- color_to_rgb c; Ok (Some rgb) | None => Ok None end);
  let y := (inject_Z (height + b) - (1 # 2))%Q in
  let ls := matrix_to_lines matrix (inject_Z b) y (-1 # 1)%Q in
  match ls with
  | [] => Err AssertErr      (* Python: StopIteration from next(line_iter); only for matrix = [] *)
  | _ =>
    Ok (write_lines
      ([lit "%!PS-Adobe-3.0 EPSF-3.0";
        lit "%%Creator: " ++ CREATOR;
        lit "%%CreationDate: " ++ date;
        lit "%%DocumentData: Clean7Bit";
        lit "%%BoundingBox: 0 0 " ++ pn_text w ++ sp ++ pn_text h;
        lit "/m { rmoveto } bind def";
        lit "/l { rlineto } bind def"]
       ++ (match fill with
           | Some rgb => [join sp (eps_color_words rgb ++ [lit "setrgbcolor"; lit "clippath"; lit "fill"])]
                         ++ (if black then [lit "0 0 0 setrgbcolor"] else [])
           | None => [] end)
       ++ (if black then [] else [join sp (eps_color_words stroke ++ [lit "setrgbcolor"])])
       ++ (if pn_ne_one scale then [join sp [pn_text scale; pn_text scale; lit "scale"]] else [])
       ++ [lit "newpath"]
       ++ wrap254 (eps_path_words ls y)
       ++ [lit "stroke"; lit "%%EOF"]))
  end.

(* ---------- TeX (PGF) ---------- *)
Definition tex_point (unit : str) (x y : pynum) : str :=
  lit "\pgfqpoint{" ++ pn_text x ++ unit ++ lit "}{" ++ pn_text y ++ unit ++ lit "}".
Definition tex_line (unit : str) (scale : pynum) (l : line) : str :=
  lit "  \pgfpathmoveto{" ++ tex_point unit (pn_mul (PInt (qz (l_x1 l))) scale) (pn_mul (PInt (qz (l_y l))) scale)
    ++ lit "}" ++ nl ++
  lit "  \pgfpathlineto{" ++ tex_point unit (pn_mul (PInt (qz (l_x2 l))) scale) (pn_mul (PInt (qz (l_y l))) scale)
    ++ lit "}" ++ nl.

(* dark : a LaTeX colour name (documented type str; None/'' = no \color line); url : None or a str *)
Definition write_tex (matrix : list (list Z)) (width height : Z) (date : str)
    (scale : pynum) (border : option Z) (dark : option str) (unit : str) (url : option str) : res (list Z) :=
  do _ <- check_valid_scale scale;
  do _ <- check_valid_border (option_map PInt border);
  let b := get_border width height border in
  let has_url := match url with Some (_ :: _) => true | _ => false end in
  Ok (lit "% Creator:  " ++ CREATOR ++ nl ++
      lit "% Date:     " ++ date ++ nl ++
      (match url with Some ((_ :: _) as u) => lit "\href{" ++ u ++ lit "}{" | _ => [] end) ++
      lit "\begin{pgfpicture}" ++ nl ++
      lit "  \pgfsetlinewidth{" ++ pn_text scale ++ unit ++ lit "}" ++ nl ++
      (match dark with
       | Some ((_ :: _) as d) => if str_eqb d (lit "black") then [] else lit "  \color{" ++ d ++ lit "}" ++ nl
       | _ => [] end) ++
      flat_map (tex_line unit scale) (matrix_to_lines matrix (inject_Z b) (inject_Z (- b)) (-1 # 1)%Q) ++
      lit "  \pgfusepath{stroke}" ++ nl ++
      lit "\end{pgfpicture}" ++ (if has_url then lit "}" else []) ++ nl).

(* ---------- PDF ---------- *)
Section PDF.
Variable deflate : list Z -> list Z.      (* zlib.compress(data, compresslevel), not modelled *)
Variable color_text : Z -> str.           (* str(1/255.0*c) for c outside {0, 255}, not modelled *)

(* to_pdf_color / to_float followed by '{}' *)
Definition pdf_component (c : Z) : str :=
  if c =? 0 then lit "0.0" else if c =? 255 then lit "1.0" else color_text c.

Definition pdf_line_words (l : line) : list str :=
  [dec (qz (l_x1 l)); dec (qz (l_y l)); lit "m"; dec (qz (l_x2 l)); dec (qz (l_y l)); lit "l"].

(* the words of ' '.join(cmds) (every cmd is itself a blank-separated sequence of words) *)
Definition pdf_words (matrix : list (list Z)) (width height : Z) (scale : pynum) (border : option Z)
    (dark : pycolor) (light : option pycolor) : res (list str) :=
  do whb <- valid_width_height_and_border width height scale border;
  let '(w, h, b) := whb in
  do bg <- (match light with
            | Some c => do rgb <- color_to_rgb c;
                        Ok (map pdf_component rgb ++ [lit "rg"; lit "0"; lit "0"; pn_text w; pn_text h; lit "re";
                                                      lit "f"; lit "q"])
            | None => Ok [] end);
  let sc := if pn_ne_one scale then [pn_text scale; lit "0"; lit "0"; pn_text scale; lit "0"; lit "0"; lit "cm"] else [] in
  do fg <- (if color_is_black dark then Ok [] else do rgb <- color_to_rgb dark; Ok (map pdf_component rgb ++ [lit "RG"]));
  let y := (inject_Z (height + b) - (1 # 2))%Q in
  Ok (bg ++ sc ++ fg ++ [lit "1"; lit "0"; lit "0"; lit "1"; dec b; float_repr y; lit "cm"]
      ++ flat_map pdf_line_words (matrix_to_lines matrix 0%Q 0%Q (-1 # 1)%Q) ++ [lit "S"]).

Definition pdf_content (matrix : list (list Z)) (width height : Z) (scale : pynum) (border : option Z)
    (dark : pycolor) (light : option pycolor) : res str :=
  do ws <- pdf_words matrix width height scale border dark light; Ok (join sp ws).

Definition pdf_header : list Z := lit "%PDF-1.4" ++ [13; 37; 226; 227; 207; 211; 13; 10].
Definition pdf_obj1 : str := lit "1 0 obj <</Type /Catalog /Pages 2 0 R>>" ++ crlf ++ lit "endobj" ++ crlf.
Definition pdf_obj2 : str := lit "2 0 obj <</Type /Pages /Kids [3 0 R] /Count 1>>" ++ crlf ++ lit "endobj" ++ crlf.
Definition pdf_obj3 (w h : str) : str :=
  lit "3 0 obj <</Type /Page /Parent 2 0 R /MediaBox [0 0 " ++ w ++ sp ++ h ++ lit "] /Contents 4 0 R>>"
  ++ crlf ++ lit "endobj" ++ crlf.
Definition pdf_obj4_head (glen : Z) : str :=
  lit "4 0 obj <</Length " ++ dec glen ++ lit " /Filter /FlateDecode>>" ++ crlf ++ lit "stream" ++ crlf.
Definition pdf_obj4_tail : str := crlf ++ lit "endstream" ++ crlf ++ lit "endobj" ++ crlf.
Definition pdf_obj5 (date : str) : str :=
  lit "5 0 obj <</CreationDate(D:" ++ date ++ lit ")/Producer(" ++ CREATOR ++ lit ")/Creator(" ++ CREATOR ++ lit ")"
  ++ crlf ++ lit ">>" ++ crlf ++ lit "endobj" ++ crlf.
Definition pdf_xref_entry (pos : Z) : str := pad0 10 (dec pos) ++ lit " 00000 n" ++ crlf.

(* the file around an arbitrary stream; positions are what f.tell() returns *)
Definition pdf_file (w h : str) (date : str) (graphic : list Z) : list Z :=
  let glen := lenZ graphic in
  let p1 := lenZ pdf_header in
  let p2 := p1 + lenZ pdf_obj1 in
  let p3 := p2 + lenZ pdf_obj2 in
  let p4 := p3 + lenZ (pdf_obj3 w h) in
  let p5 := p4 + lenZ (pdf_obj4_head glen) + glen + lenZ pdf_obj4_tail in
  let p6 := p5 + lenZ (pdf_obj5 date) in           (* appended once more: also the xref location *)
  let object_pos := [p1; p2; p3; p4; p5; p6] in
  pdf_header ++ pdf_obj1 ++ pdf_obj2 ++ pdf_obj3 w h ++ pdf_obj4_head glen ++ graphic ++ pdf_obj4_tail
  ++ pdf_obj5 date
  ++ lit "xref" ++ crlf ++ lit "0 " ++ dec (lenZ object_pos + 1) ++ crlf ++ lit "0000000000 65535 f" ++ crlf
  ++ flat_map pdf_xref_entry object_pos
  ++ lit "trailer <</Size " ++ dec (lenZ object_pos + 1) ++ lit "/Root 1 0 R/Info 5 0 R>>" ++ crlf
  ++ lit "startxref" ++ crlf ++ dec p6 ++ crlf ++ lit "%%EOF" ++ crlf.

Definition write_pdf (matrix : list (list Z)) (width height : Z) (date : str)
    (scale : pynum) (border : option Z) (dark : pycolor) (light : option pycolor) : res (list Z) :=
  do content <- pdf_content matrix width height scale border dark light;
  do whb <- valid_width_height_and_border width height scale border;
  let '(w, h, _) := whb in
  Ok (pdf_file (pn_text w) (pn_text h) date (deflate content)).
End PDF.
