(* Executable models of the text-like serializers of segno.writers:
     write_txt, write_xpm, write_xbm, write_terminal, write_terminal_compact.
   Output = the text written to `out` as a list of code points (the harness does the UTF-8 step).
   Only write_terminal_compact emits non-ASCII code points by itself (U+2580, U+2584, U+2588); write_txt /
   write_xpm / write_xbm copy the caller's `dark`, `light`, `name` strings verbatim.
   Options are already typed: scale : Z (the value after `int()`), border : option Z (None = default),
   colours : option pycolor (None = Python None), names / txt colours : str.
   Definitions only; proofs are in Lemmas/TextFmtLemmas.v. *)
From Coq Require Import ZArith List Bool Lia.
From Coq Require String Ascii.
Import Coq.Strings.String.StringSyntax.
Delimit Scope string_scope with string.
From Segno Require Import Base.PyLite Model.Iter Model.Color.
Import ListNotations.
Open Scope Z_scope.

(* ASCII literal -> code points *)
Fixpoint cps (s : String.string) : list Z :=
  match s with
  | String.EmptyString => []
  | String.String a r => Z.of_nat (Ascii.nat_of_ascii a) :: cps r
  end.
Arguments cps s%string.

Fixpoint map_res {A B} (f : A -> res B) (l : list A) : res (list B) :=
  match l with
  | [] => Ok []
  | x :: r => do y <- f x; do t <- map_res f r; Ok (y :: t)
  end.

(* str.join *)
Fixpoint join (sep : list Z) (l : list (list Z)) : list Z :=
  match l with
  | [] => []
  | [x] => x
  | x :: r => x ++ sep ++ join sep r
  end.

(* ---- integer formatting ---- *)
Definition digit_fuel (n : Z) : nat := S (Z.to_nat (Z.log2 n)).

(* most significant digit first; n >= 0 *)
Fixpoint dec_aux (fuel : nat) (n : Z) (acc : list Z) : list Z :=
  match fuel with
  | O => acc
  | S f => let acc' := (48 + n mod 10) :: acc in
           if n <? 10 then acc' else dec_aux f (n / 10) acc'
  end.
(* str(n) / f'{n}' for an int *)
Definition dec (n : Z) : list Z :=
  if n <? 0 then 45 :: dec_aux (digit_fuel (- n)) (- n) [] else dec_aux (digit_fuel n) n [].

Definition hexdigit (d : Z) : Z := if d <? 10 then 48 + d else 87 + d.
Fixpoint hex_aux (fuel : nat) (n : Z) (acc : list Z) : list Z :=
  match fuel with
  | O => acc
  | S f => let acc' := hexdigit (n mod 16) :: acc in
           if n <? 16 then acc' else hex_aux f (n / 16) acc'
  end.
Definition hex_digits (n : Z) : list Z := hex_aux (digit_fuel n) n [].
(* format(n, '02x'): sign-aware zero padding to a total width of 2 *)
Definition hex02 (n : Z) : list Z :=
  if n <? 0 then 45 :: hex_digits (- n)
  else let d := hex_digits n in if lenZ d <? 2 then 48 :: d else d.

(* ---- validation ---- *)
Definition oborder (border : option Z) : option pynum := option_map PInt border.

(* _valid_width_height_and_border(matrix_size, scale, border) -> (width, height, border) in pixels *)
Definition valid_width_height_and_border (width height scale : Z) (border : option Z) : res (Z * Z * Z) :=
  do _ <- check_valid_scale (PInt scale);
  do _ <- check_valid_border (oborder border);
  let b := get_border width height border in
  Ok ((width + 2 * b) * scale, (height + 2 * b) * scale, b).

(* ---- write_txt(matrix, matrix_size, out, border=None, dark='1', light='0') ---- *)
Definition txt_line (dark light : str) (row : list Z) : res (list Z) :=
  do cs <- map_res (fun i => py_index [light; dark] i) row;      (* colours[i]; tuple index out of range -> IndexError *)
  Ok (concat cs ++ [10]).

Definition write_txt (matrix : list (list Z)) (width height : Z) (border : option Z) (dark light : str) : res (list Z) :=
  do _ <- check_valid_border (oborder border);
  do _ <- check_valid_scale (PInt 1);
  let rows := iter_rows matrix width height 1 (get_border width height border) in
  do lines <- map_res (txt_line dark light) rows;
  Ok (concat lines).

(* ---- colours for XPM: color_to_rgb_hex ---- *)
Definition color_to_rgb_hex (c : pycolor) : res str :=
  do rgb <- color_to_rgb c;
  Ok (35 :: hex02 (nth 0 rgb 0) ++ hex02 (nth 1 rgb 0) ++ hex02 (nth 2 rgb 0)).
Definition xpm_color (c : option pycolor) : res str :=
  match c with None => Ok (cps "None") | Some c => color_to_rgb_hex c end.

(* ---- write_xpm(matrix, matrix_size, out, scale=1, border=None, dark='#000', light='#fff', name='img') ---- *)
Definition xpm_pixel (b : Z) : Z := if b =? 0 then 32 else 88.
(* rows numbered from i; `height` is the pixel height *)
Fixpoint xpm_rows (i height : Z) (rows : list (list Z)) : list Z :=
  match rows with
  | [] => []
  | row :: r => [34] ++ map xpm_pixel row ++ [34] ++ (if i <? height - 1 then [44] else []) ++ [10]
                ++ xpm_rows (i + 1) height r
  end.

Definition write_xpm (matrix : list (list Z)) (width height scale : Z) (border : option Z)
           (dark light : option pycolor) (name : str) : res (list Z) :=
  do whb <- valid_width_height_and_border width height scale border;
  let '(w, h, b) := whb in
  let rows := iter_rows matrix width height scale b in
  do stroke_color <- xpm_color dark;
  do bg_color <- xpm_color light;
  Ok (cps "/* XPM */" ++ [10]
      ++ cps "static char *" ++ name ++ cps "[] = {" ++ [10]
      ++ [34] ++ dec w ++ [32] ++ dec h ++ cps " 2 1" ++ [34; 44; 10]
      ++ [34] ++ cps "  c " ++ bg_color ++ [34; 44; 10]
      ++ [34] ++ cps "X c " ++ stroke_color ++ [34; 44; 10]
      ++ xpm_rows 0 h rows
      ++ cps "};" ++ [10]).

(* ---- write_xbm(matrix, matrix_size, out, scale=1, border=None, name='img') ---- *)
(* zip_longest over 8 copies of iter(row), fillvalue=0: groups of 8, the last one padded with 0 *)
Fixpoint chunk8 (l : list Z) : list (list Z) :=
  match l with
  | [] => []
  | a :: b :: c :: d :: e :: f :: g :: h :: r => [a; b; c; d; e; f; g; h] :: chunk8 r
  | l => [firstn 8 (l ++ repeat 0 7%nat)]
  end.
(* reduce(lambda x, y: (x << 1) + y, bits[::-1]) *)
Definition xbm_byte (bits : list Z) : Z := fold_left (fun x y => 2 * x + y) (rev bits) 0.
Definition xbm_item (bits : list Z) : list Z := cps "0x" ++ hex02 (xbm_byte bits).
Definition xbm_row_items (row : list Z) : list Z := join (cps ", ") (map xbm_item (chunk8 row)).
(* rows numbered from i (enumerate(..., start=1)); `height` is the pixel height *)
Fixpoint xbm_rows (i height : Z) (rows : list (list Z)) : list Z :=
  match rows with
  | [] => []
  | row :: r => cps "    " ++ xbm_row_items row ++ (if i <? height then [44; 10] else [10])
                ++ xbm_rows (i + 1) height r
  end.

Definition write_xbm (matrix : list (list Z)) (width height scale : Z) (border : option Z) (name : str) : res (list Z) :=
  do whb <- valid_width_height_and_border width height scale border;
  let '(w, h, b) := whb in
  let rows := iter_rows matrix width height scale b in
  Ok (cps "#define " ++ name ++ cps "_width " ++ dec w ++ [10]
      ++ cps "#define " ++ name ++ cps "_height " ++ dec h ++ [10]
      ++ cps "static unsigned char " ++ name ++ cps "_bits[] = {" ++ [10]
      ++ xbm_rows 1 h rows
      ++ cps "};" ++ [10]).

(* ---- write_terminal(matrix, matrix_size, out, border=None) ---- *)
Definition sgr (n : Z) : list Z := [27; 91] ++ dec n ++ [109].          (* '\033[{n}m' *)
Definition term_colours : list (list Z) := [sgr 7; sgr 49].
(* the three writes done when a run of `cnt` cells of value `prev` ends *)
Definition term_flush (prev cnt : Z) : res (list Z) :=
  if cnt =? 0 then Ok [] else
  do c <- py_index term_colours prev;                                    (* colours[prev_bit] *)
  Ok (c ++ repeat 32 (Z.to_nat (2 * cnt)) ++ sgr 0).
Fixpoint term_row (row : list Z) (prev cnt : Z) : res (list Z) :=
  match row with
  | [] => do t <- term_flush prev cnt; Ok (t ++ [10])
  | bit :: r =>
      if bit =? prev then term_row r prev (cnt + 1)
      else do t <- term_flush prev cnt; do rest <- term_row r bit 1; Ok (t ++ rest)
  end.

Definition write_terminal (matrix : list (list Z)) (width height : Z) (border : option Z) : res (list Z) :=
  do _ <- check_valid_border (oborder border);
  do _ <- check_valid_scale (PInt 1);
  let rows := iter_rows matrix width height 1 (get_border width height border) in
  do lines <- map_res (fun row => term_row row (-1) 0) rows;
  Ok (concat lines).

(* ---- write_terminal_compact(matrix, matrix_size, out, border=None) ---- *)
(* blocks[(top, bottom)]; anything else -> KeyError *)
Definition compact_block (top bottom : Z) : res Z :=
  if (top =? 1) && (bottom =? 1) then Ok 32
  else if (top =? 0) && (bottom =? 1) then Ok 9600      (* U+2580 upper half block *)
  else if (top =? 1) && (bottom =? 0) then Ok 9604      (* U+2584 lower half block *)
  else if (top =? 0) && (bottom =? 0) then Ok 9608      (* U+2588 full block *)
  else Err KeyErr.
Definition compact_line (top bottom : list Z) : res (list Z) :=
  do cs <- map_res (fun p => compact_block (fst p) (snd p)) (combine top bottom);   (* zip(top_row, bottom_row) *)
  Ok (cs ++ [10]).
(* zip_longest(it, it, fillvalue=repeat(1)) over one shared iterator: consecutive rows are paired *)
Fixpoint compact_lines (rows : list (list Z)) : res (list Z) :=
  match rows with
  | [] => Ok []
  | [top] => compact_line top (repeat 1 (length top))
  | top :: bottom :: r => do l <- compact_line top bottom; do t <- compact_lines r; Ok (l ++ t)
  end.

Definition write_terminal_compact (matrix : list (list Z)) (width height : Z) (border : option Z) : res (list Z) :=
  do _ <- check_valid_border (oborder border);
  do _ <- check_valid_scale (PInt 1);
  compact_lines (iter_rows matrix width height 1 (get_border width height border)).
