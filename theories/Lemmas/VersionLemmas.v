(* C04 / C05: the model of segno's version selection (find_version) and error-level boosting
   (boost_error_level) equals the first-fit / highest-fitting-level specification of Ref/Spec.v,
   for arbitrary segment lists. *)
From Coq Require Import String.
From Coq Require Import ZArith List Bool Lia ZifyBool.
From Segno Require Import Base.PyLite Ref.IsoData Ref.Spec Model.Bits Model.Segment Model.Version.
Import ListNotations.
Open Scope Z_scope.

Definition valid_mode (m : Z) : Prop := m = 1 \/ m = 2 \/ m = 4 \/ m = 8 \/ m = 13.
Definition abs_seg (eci : bool) (s : segment) : Z * Z * bool :=
  (s_mode s, s_count s, eci && (s_mode s =? MODE_BYTE) && negb (enc_is_default (s_enc s))).
Definition wf_seg (s : segment) : Prop :=
  valid_mode (s_mode s) /\ 0 <= s_count s /\ lenZ (s_bits s) = payload_bits (s_mode s) (s_count s).

(* ------------------------------------------------------------------ *)
(* 0. small general facts                                              *)
(* ------------------------------------------------------------------ *)
Lemma lenZ_nil {A} : lenZ (@nil A) = 0.
Proof. reflexivity. Qed.
Lemma lenZ_cons {A} (a : A) l : lenZ (a :: l) = 1 + lenZ l.
Proof. unfold lenZ. cbn [List.length]. lia. Qed.

Lemma valid_mode_In m : valid_mode m <-> In m [1; 2; 4; 8; 13].
Proof. unfold valid_mode. cbn [In]. intuition congruence. Qed.

Lemma wf_modes segs : Forall wf_seg segs -> Forall valid_mode (seg_modes segs).
Proof.
  intros Hwf. unfold seg_modes. induction Hwf as [|s r Hs Hr IH]; cbn [map]; constructor; auto.
  destruct Hs as [Hm _]. exact Hm.
Qed.

Definition all_available (v : Z) (segs : list segment) : bool :=
  forallb (fun m => mode_available m v) (seg_modes segs).

Lemma all_available_abs v eci segs :
  forallb (fun x : Z * Z * bool => let '(mode, _, _) := x in mode_available mode v) (map (abs_seg eci) segs)
  = all_available v segs.
Proof.
  unfold all_available, seg_modes. induction segs as [|s r IH]; [reflexivity|].
  cbn [map forallb]. rewrite IH. unfold abs_seg. reflexivity.
Qed.

(* ------------------------------------------------------------------ *)
(* 1. bit_length_with_overhead                                         *)
(* ------------------------------------------------------------------ *)
(* the character count indicator table against ISO Table 2 / Table 3, per (version, mode) *)
Lemma cci_table_all :
  forallb (fun v => forallb (fun m =>
     match (if 0 <? v then version_range v else Ok v) with
     | Ok r => match cci_length m r with
               | Ok w => mode_available m v && (w =? spec_cci m v)
               | Err KeyErr => negb (mode_available m v)
               | Err _ => false end
     | Err _ => false end) [1; 2; 4; 8; 13]) (zrange (-3) 41) = true.
Proof. vm_compute. reflexivity. Qed.

Lemma cci_table v : -3 <= v <= 40 ->
  exists r, (if 0 <? v then version_range v else Ok v) = Ok r /\
            forall m, valid_mode m ->
              cci_length m r = if mode_available m v then Ok (spec_cci m v) else Err KeyErr.
Proof.
  intros Hv. pose proof cci_table_all as Hall. rewrite forallb_forall in Hall.
  assert (Hin : In v (zrange (-3) 41)) by (apply zrange_In; lia).
  specialize (Hall v Hin). cbv beta in Hall. rewrite forallb_forall in Hall.
  destruct (if 0 <? v then version_range v else Ok v) as [r|e] eqn:Hr.
  - exists r. split; [reflexivity|]. intros m Hm. apply valid_mode_In in Hm.
    specialize (Hall m Hm). cbv beta in Hall.
    destruct (cci_length m r) as [w|e].
    + apply andb_prop in Hall. destruct Hall as [Ha Hw]. rewrite Ha. apply Z.eqb_eq in Hw. now subst w.
    + destruct e; try discriminate Hall. apply negb_true_iff in Hall. now rewrite Hall.
  - exfalso. specialize (Hall 1 (or_introl eq_refl)). discriminate Hall.
Qed.

Lemma sum_cci r v modes :
  (forall m, valid_mode m -> cci_length m r = if mode_available m v then Ok (spec_cci m v) else Err KeyErr) ->
  Forall valid_mode modes ->
  sum_res (map (fun m => cci_length m r) modes) =
  if forallb (fun m => mode_available m v) modes
  then Ok (fold_right (fun m a => spec_cci m v + a) 0 modes) else Err KeyErr.
Proof.
  intros Hc Hval. induction Hval as [|m l Hm Hl IH]; [reflexivity|].
  cbn [map sum_res forallb fold_right]. rewrite (Hc m Hm).
  destruct (mode_available m v); cbn [bind andb]; [|reflexivity].
  rewrite IH. destruct (forallb (fun m0 => mode_available m0 v) l); reflexivity.
Qed.

Lemma seg_bit_length_shift l : forall a,
  fold_left (fun a s => a + lenZ (s_bits s)) l a = a + fold_left (fun a s => a + lenZ (s_bits s)) l 0.
Proof.
  induction l as [|s r IH]; intros a; cbn [fold_left]; [lia|].
  rewrite IH. rewrite (IH (0 + _)). lia.
Qed.
Lemma seg_bit_length_cons s r : seg_bit_length (s :: r) = lenZ (s_bits s) + seg_bit_length r.
Proof. unfold seg_bit_length. cbn [fold_left]. rewrite seg_bit_length_shift. lia. Qed.

Definition seg_cost (v : Z) (x : Z * Z * bool) : Z :=
  let '(mode, count, eci) := x in
  (if 0 <? v then 4 else v + 3) + spec_cci mode v + payload_bits mode count
  + (if eci then 12 else 0) + (if (mode =? 13) && (0 <? v) then 4 else 0).

Lemma spec_bits_shift v (l : list (Z * Z * bool)) : forall a : Z,
  fold_left (fun (a : Z) (x : Z * Z * bool) => let '(mode, count, eci) := x in
     a + (if 0 <? v then 4 else v + 3) + spec_cci mode v + payload_bits mode count
       + (if eci then 12 else 0) + (if (mode =? 13) && (0 <? v) then 4 else 0)) l a
  = a + fold_right (fun x b => seg_cost v x + b) 0 l.
Proof.
  induction l as [|x r IH]; intros a; cbn [fold_left fold_right]; [lia|].
  rewrite IH. destruct x as [[m c] e]. unfold seg_cost. lia.
Qed.
Lemma spec_bits_sum v l sa :
  spec_bits v l sa = (if sa then 20 else 0) + fold_right (fun x b => seg_cost v x + b) 0 l.
Proof. unfold spec_bits. apply spec_bits_shift. Qed.

Lemma count_eci_cons s r :
  count_eci_headers (s :: r) =
  (if (s_mode s =? MODE_BYTE) && negb (enc_is_default (s_enc s)) then 1 else 0) + count_eci_headers r.
Proof.
  unfold count_eci_headers. cbn [filter].
  destruct ((s_mode s =? MODE_BYTE) && negb (enc_is_default (s_enc s))); [rewrite lenZ_cons|]; lia.
Qed.

(* the overhead sum of the model, as one linear equation *)
Lemma overhead_sum v (eci : bool) segs : -3 <= v -> Forall wf_seg segs ->
  (if eci then count_eci_headers segs * 4 + count_eci_headers segs * 8 else 0)
  + (if 0 <? v then lenZ (seg_modes segs) * 4 + lenZ (filter (Z.eqb MODE_HANZI) (seg_modes segs)) * 4
     else if VERSION_M1 <? v then lenZ (seg_modes segs) * (v + 3) else 0)
  + fold_right (fun m a => spec_cci m v + a) 0 (seg_modes segs)
  + seg_bit_length segs
  = fold_right (fun x b => seg_cost v x + b) 0 (map (abs_seg eci) segs).
Proof.
  intros Hv Hwf. induction Hwf as [|s r Hs Hr IH].
  - unfold seg_modes, count_eci_headers, seg_bit_length. cbn [map filter fold_right fold_left].
    unfold lenZ. cbn [List.length]. destruct eci, (0 <? v), (VERSION_M1 <? v); lia.
  - destruct Hs as (Hm & Hc & Hb).
    unfold seg_modes in *. cbn [map filter fold_right].
    rewrite count_eci_cons, seg_bit_length_cons, !lenZ_cons, Hb.
    rewrite <- IH. clear IH. unfold abs_seg, seg_cost.
    unfold MODE_HANZI, VERSION_M1 in *.
    rewrite (Z.eqb_sym 13 (s_mode s)).
    set (pb := payload_bits (s_mode s) (s_count s)). set (cc := spec_cci (s_mode s) v).
    set (n := lenZ (map s_mode r)). set (c := count_eci_headers r).
    set (h := lenZ (filter (Z.eqb 13) (map s_mode r))).
    destruct (s_mode s =? 13) eqn:Hhz; cbn [andb filter]; try rewrite lenZ_cons; fold h;
    destruct (0 <? v) eqn:Hpos; destruct (-3 <? v) eqn:Hm1; destruct eci; cbn [andb];
    destruct ((s_mode s =? MODE_BYTE) && negb (enc_is_default (s_enc s))); cbn [andb]; lia.
Qed.

Theorem bit_length_spec segs v eci is_sa : -3 <= v <= 40 -> Forall wf_seg segs ->
  bit_length_with_overhead segs v eci is_sa =
  if all_available v segs then Ok (spec_bits v (map (abs_seg eci) segs) is_sa) else Err KeyErr.
Proof.
  intros Hv Hwf. destruct (cci_table v Hv) as (r & Hr & Hc).
  unfold bit_length_with_overhead, all_available. rewrite Hr. cbn [bind].
  rewrite (sum_cci r v _ Hc (wf_modes _ Hwf)).
  destruct (forallb (fun m => mode_available m v) (seg_modes segs)); cbn [bind]; [|reflexivity].
  f_equal. rewrite spec_bits_sum. pose proof (overhead_sum v eci segs (proj1 Hv) Hwf) as Hs.
  destruct is_sa; lia.
Qed.
Print Assumptions bit_length_spec.

Corollary bit_length_spec_ok segs v eci is_sa : -3 <= v <= 40 -> Forall wf_seg segs ->
  (forall m, In m (seg_modes segs) -> mode_available m v = true) ->
  bit_length_with_overhead segs v eci is_sa = Ok (spec_bits v (map (abs_seg eci) segs) is_sa).
Proof.
  intros Hv Hwf Hav. rewrite (bit_length_spec _ _ _ _ Hv Hwf).
  unfold all_available. replace (forallb _ _) with true; [reflexivity|].
  symmetry. apply forallb_forall. exact Hav.
Qed.
Corollary bit_length_spec_err segs v eci is_sa : -3 <= v <= 40 -> Forall wf_seg segs ->
  (exists m, In m (seg_modes segs) /\ mode_available m v = false) ->
  bit_length_with_overhead segs v eci is_sa = Err KeyErr.
Proof.
  intros Hv Hwf (m & Hin & Hav). rewrite (bit_length_spec _ _ _ _ Hv Hwf).
  unfold all_available. destruct (forallb _ _) eqn:Hf; [|reflexivity].
  rewrite forallb_forall in Hf. rewrite (Hf m Hin) in Hav. discriminate Hav.
Qed.

(* ------------------------------------------------------------------ *)
(* 2. capacity                                                         *)
(* ------------------------------------------------------------------ *)
Theorem capacity_spec v l :
  capacity v l = match spec_capacity v l with Some c => Ok c | None => Err KeyErr end.
Proof.
  unfold capacity, spec_capacity, getZ. destruct (assocZ v SYMBOL_CAPACITY) as [row|]; cbn [bind]; [|reflexivity].
  unfold getOZ. destruct (assocOZ l row); reflexivity.
Qed.
Corollary capacity_ok_iff v l c : capacity v l = Ok c <-> spec_capacity v l = Some c.
Proof. rewrite capacity_spec. destruct (spec_capacity v l); split; intros H; inversion H; reflexivity. Qed.
Corollary capacity_err v l : spec_capacity v l = None -> capacity v l = Err KeyErr.
Proof. intros H. rewrite capacity_spec, H. reflexivity. Qed.
Print Assumptions capacity_spec.

(* ------------------------------------------------------------------ *)
(* 3. find_version                                                     *)
(* ------------------------------------------------------------------ *)
Definition eff_level (v : Z) (l : option Z) : option Z :=
  if v =? -3 then None else match l with None => Some 1 | x => x end.

Lemma spec_fits_unfold v l eci segs sa :
  spec_fits v l (map (abs_seg eci) segs) sa =
  all_available v segs &&
  match spec_capacity v (eff_level v l) with
  | Some cap => spec_bits v (map (abs_seg eci) segs) sa <=? cap
  | None => false end.
Proof. unfold spec_fits. rewrite all_available_abs. reflexivity. Qed.

(* one iteration of the loop, the level being the one the specification uses for this version *)
Lemma loop_step segs eci sa v r st l : Forall wf_seg segs -> -3 <= v <= 40 ->
  match st with None => if v =? VERSION_M1 then None else Some ERROR_LEVEL_L | e => e end = eff_level v l ->
  find_version_loop segs eci sa (v :: r) st =
  if spec_fits v l (map (abs_seg eci) segs) sa then Ok v
  else find_version_loop segs eci sa r (eff_level v l).
Proof.
  intros Hwf Hv Hst. cbn [find_version_loop]. cbv zeta. rewrite Hst.
  rewrite spec_fits_unfold, capacity_spec.
  destruct (spec_capacity v (eff_level v l)) as [cap|].
  - rewrite (bit_length_spec _ _ _ _ Hv Hwf). destruct (all_available v segs); cbn [andb]; [|reflexivity].
    destruct (spec_bits v (map (abs_seg eci) segs) sa <=? cap); reflexivity.
  - rewrite andb_false_r. reflexivity.
Qed.

Lemma loop_some segs eci sa e l : Forall wf_seg segs ->
  (l = Some e \/ (l = None /\ e = 1)) ->
  forall vs, (forall v, In v vs -> -2 <= v <= 40) ->
  find_version_loop segs eci sa vs (Some e) =
  match find (fun v => spec_fits v l (map (abs_seg eci) segs) sa) vs with
  | Some v => Ok v | None => Err DataOverflow end.
Proof.
  intros Hwf Hl vs. induction vs as [|v r IH]; intros Hr; [reflexivity|].
  assert (Hv : -2 <= v <= 40) by (apply Hr; now left).
  assert (Hr' : forall u, In u r -> -2 <= u <= 40) by (intros u Hu; apply Hr; now right).
  specialize (IH Hr').
  assert (He : eff_level v l = Some e).
  { unfold eff_level. destruct (v =? -3) eqn:E; [lia|]. destruct Hl as [->|[-> ->]]; reflexivity. }
  rewrite (loop_step segs eci sa v r (Some e) l Hwf) by (try lia; now rewrite He).
  cbn [find]. destruct (spec_fits v l (map (abs_seg eci) segs) sa); [reflexivity|].
  rewrite He. exact IH.
Qed.

Lemma loop_none_some1 segs eci sa vs : ~ In (-3) vs ->
  find_version_loop segs eci sa vs None = find_version_loop segs eci sa vs (Some 1).
Proof.
  destruct vs as [|v r]; [reflexivity|]. intros Hn. cbn [find_version_loop].
  assert (E : v =? VERSION_M1 = false).
  { unfold VERSION_M1. apply Z.eqb_neq. intro Hv. apply Hn. left. lia. }
  rewrite E. reflexivity.
Qed.

(* lists that do not contain M1 *)
Lemma loop_from_M2 segs eci sa error : Forall wf_seg segs ->
  forall vs, (forall v, In v vs -> -2 <= v <= 40) ->
  find_version_loop segs eci sa vs error =
  match find (fun v => spec_fits v error (map (abs_seg eci) segs) sa) vs with
  | Some v => Ok v | None => Err DataOverflow end.
Proof.
  intros Hwf vs Hvs. destruct error as [e|].
  - apply loop_some; auto.
  - rewrite loop_none_some1.
    + apply loop_some; auto.
    + intro Hin. apply Hvs in Hin. lia.
Qed.

(* M1 first, no level requested *)
Lemma loop_from_M1 segs eci sa : Forall wf_seg segs ->
  forall vs, (forall v, In v vs -> -2 <= v <= 40) ->
  find_version_loop segs eci sa (-3 :: vs) None =
  match find (fun v => spec_fits v None (map (abs_seg eci) segs) sa) (-3 :: vs) with
  | Some v => Ok v | None => Err DataOverflow end.
Proof.
  intros Hwf vs Hvs.
  rewrite (loop_step segs eci sa (-3) vs None None Hwf) by (try lia; reflexivity).
  cbn [find]. destruct (spec_fits (-3) None (map (abs_seg eci) segs) sa); [reflexivity|].
  change (eff_level (-3) None) with (@None Z). apply loop_from_M2; auto.
Qed.

(* the minimum version of a mode *)
Definition minver (m : Z) : Z :=
  if m =? 1 then -3 else if m =? 2 then -2 else if (m =? 4) || (m =? 8) then -1 else 1.

Lemma minver_spec m : valid_mode m -> find_minimum_version_for_mode m = Ok (minver m).
Proof. intros [->|[->|[->|[->| ->]]]]; vm_compute; reflexivity. Qed.

Lemma minver_values m : valid_mode m -> In (minver m) [-3; -2; -1; 1].
Proof. intros [->|[->|[->|[->| ->]]]]; vm_compute; auto. Qed.

Lemma minver_table_all :
  forallb (fun m => forallb (fun v => if v <? minver m then negb (mode_available m v) else true)
                            (zrange (-3) 41)) [1; 2; 4; 8; 13] = true.
Proof. vm_compute. reflexivity. Qed.

Lemma minver_unavailable m v : valid_mode m -> -3 <= v < minver m -> mode_available m v = false.
Proof.
  intros Hm Hv. pose proof minver_table_all as Hall. rewrite forallb_forall in Hall.
  apply valid_mode_In in Hm. specialize (Hall m Hm). cbv beta in Hall. rewrite forallb_forall in Hall.
  assert (Hm4 : In (minver m) [-3; -2; -1; 1]) by (apply minver_values, valid_mode_In, Hm).
  assert (Hin : In v (zrange (-3) 41)).
  { apply zrange_In. cbn [In] in Hm4. lia. }
  specialize (Hall v Hin). cbv beta in Hall.
  destruct (v <? minver m) eqn:E; [|lia]. now apply negb_true_iff in Hall.
Qed.

Lemma seq_minver modes : Forall valid_mode modes ->
  seq_res (map find_minimum_version_for_mode modes) = Ok (map minver modes).
Proof.
  intros H. induction H as [|m l Hm Hl IH]; [reflexivity|].
  cbn [map seq_res]. rewrite (minver_spec m Hm). cbn [bind]. rewrite IH. reflexivity.
Qed.

Lemma max_list_spec l : l <> [] ->
  exists m, max_list l = Ok m /\ In m l /\ forall x, In x l -> x <= m.
Proof.
  induction l as [|a r IH]; intros Hne; [congruence|].
  destruct r as [|b r'].
  - exists a. split; [reflexivity|]. split; [now left|]. intros x [<-|[]]. lia.
  - destruct IH as (m & Hm & Hin & Hmax); [discriminate|].
    exists (Z.max a m). split.
    + change (max_list (a :: b :: r')) with (do m <- max_list (b :: r'); Ok (Z.max a m)).
      rewrite Hm. reflexivity.
    + split.
      * destruct (Z.max_spec a m) as [[_ ->]|[_ ->]]; [now right|now left].
      * intros x [<-|Hx]; [lia|]. specialize (Hmax x Hx). lia.
Qed.

Lemma zrange_cons a b : a < b -> zrange a b = a :: zrange (a + 1) b.
Proof.
  intros H. unfold zrange. replace (Z.to_nat (b - a)) with (S (Z.to_nat (b - (a + 1)))) by lia.
  reflexivity.
Qed.

Lemma find_skip (f : Z -> bool) mv b : In mv [-3; -2; -1; 1] -> 1 <= b ->
  (forall v, -3 <= v < mv -> f v = false) ->
  find f (zrange (-3) b) = find f (zrange mv b).
Proof.
  intros Hmv Hb Hf. cbn [In] in Hmv.
  destruct Hmv as [<-|[<-|[<-|[<-|[]]]]]; [reflexivity| | |].
  - rewrite (zrange_cons (-3) b) by lia. cbn [find]. rewrite (Hf (-3)) by lia. reflexivity.
  - rewrite (zrange_cons (-3) b) by lia. cbn [find]. rewrite (Hf (-3)) by lia.
    change (-3 + 1) with (-2). rewrite (zrange_cons (-2) b) by lia. cbn [find]. rewrite (Hf (-2)) by lia.
    reflexivity.
  - rewrite (zrange_cons (-3) b) by lia. cbn [find]. rewrite (Hf (-3)) by lia.
    change (-3 + 1) with (-2). rewrite (zrange_cons (-2) b) by lia. cbn [find]. rewrite (Hf (-2)) by lia.
    change (-2 + 1) with (-1). rewrite (zrange_cons (-1) b) by lia. cbn [find]. rewrite (Hf (-1)) by lia.
    change (-1 + 1) with 0. rewrite (zrange_cons 0 b) by lia. cbn [find]. rewrite (Hf 0) by lia.
    reflexivity.
Qed.

(* a version below the minimum version of some mode of the content never fits *)
Lemma below_minver_no_fit segs eci sa l m v : Forall wf_seg segs ->
  In m (seg_modes segs) -> -3 <= v < minver m ->
  spec_fits v l (map (abs_seg eci) segs) sa = false.
Proof.
  intros Hwf Hin Hv. rewrite spec_fits_unfold.
  assert (Hav : all_available v segs = false).
  { unfold all_available. destruct (forallb _ _) eqn:Hf; [|reflexivity].
    rewrite forallb_forall in Hf. specialize (Hf m Hin).
    pose proof (wf_modes _ Hwf) as Hval. rewrite Forall_forall in Hval.
    rewrite (minver_unavailable m v (Hval m Hin) Hv) in Hf. discriminate Hf. }
  rewrite Hav. reflexivity.
Qed.

(* loop over range(min_version, b) without a requested level, min_version from the modes *)
Lemma loop_from_minver segs eci sa mv b : Forall wf_seg segs ->
  In mv [-3; -2; -1; 1] -> 1 <= b <= 41 ->
  find_version_loop segs eci sa (zrange mv b) None =
  match find (fun v => spec_fits v None (map (abs_seg eci) segs) sa) (zrange mv b) with
  | Some v => Ok v | None => Err DataOverflow end.
Proof.
  intros Hwf Hmv Hb.
  assert (Hr : forall a v, -2 <= a -> In v (zrange a b) -> -2 <= v <= 40).
  { intros a v Ha Hv. apply zrange_In_inv in Hv. lia. }
  cbn [In] in Hmv. destruct Hmv as [<-|Hmv].
  - rewrite (zrange_cons (-3) b) by lia. apply loop_from_M1; auto.
    intros v Hv. apply (Hr (-2)); [lia|exact Hv].
  - apply loop_from_M2; auto. intros v Hv. apply (Hr mv); [lia|exact Hv].
Qed.

Lemma adm_qr_only micro eci l : (micro = Some false \/ (eci = true /\ micro = None)) ->
  spec_admissible micro eci l = zrange 1 41.
Proof. intros [->|[-> ->]]; reflexivity. Qed.
Lemma adm_level micro e : micro <> Some false ->
  spec_admissible micro false (Some e) = zrange (-2) (if otruthy micro then 1 else 41).
Proof. destruct micro as [[|]|]; intros H; try congruence; reflexivity. Qed.
Lemma adm_nolevel micro : micro <> Some false ->
  spec_admissible micro false None = zrange (-3) (if otruthy micro then 1 else 41).
Proof. destruct micro as [[|]|]; intros H; try congruence; reflexivity. Qed.

Theorem find_version_spec segs error eci micro is_sa :
  Forall wf_seg segs -> segs <> [] -> eci && otruthy micro = false ->
  find_version segs error eci micro is_sa =
  match spec_version micro eci error (map (abs_seg eci) segs) is_sa with
  | Some v => Ok v | None => Err DataOverflow end.
Proof.
  intros Hwf Hne Hex. unfold find_version, spec_version. rewrite Hex.
  assert (Hqr : forall v, In v (zrange 1 41) -> -2 <= v <= 40).
  { intros v Hv. apply zrange_In_inv in Hv. lia. }
  destruct (Bool.bool_dec ((match micro with Some b => b | None => true end) && negb eci) false) as [Hma|Hma].
  - (* Micro QR not allowed: versions 1..40 *)
    rewrite Hma. cbn [bind].
    assert (Hcase : micro = Some false \/ (eci = true /\ micro = None)).
    { destruct micro as [[|]|], eci; cbn in Hma, Hex; try discriminate; auto. }
    rewrite (adm_qr_only micro eci error Hcase).
    assert (Hot : otruthy micro = false) by (destruct Hcase as [->|[_ ->]]; reflexivity).
    rewrite Hot. replace (match error with Some _ => 1 | None => 1 end) with 1 by (destruct error; reflexivity).
    change (40 + 1) with 41. apply loop_from_M2; auto.
  - apply not_false_is_true in Hma. rewrite Hma.
    assert (Heci : eci = false) by (destruct eci; [rewrite andb_false_r in Hma; discriminate|reflexivity]).
    assert (Hmic : micro <> Some false) by (intros ->; discriminate Hma).
    subst eci.
    pose proof (wf_modes _ Hwf) as Hval.
    rewrite (seq_minver _ Hval). cbn [bind].
    destruct (max_list_spec (map minver (seg_modes segs))) as (mv & Hmv & Hin & Hmax).
    { destruct segs; [congruence|discriminate]. }
    rewrite Hmv. cbn [bind].
    replace ((if otruthy micro then VERSION_M4 else 40) + 1) with (if otruthy micro then 1 else 41)
      by (destruct (otruthy micro); reflexivity).
    destruct error as [e|].
    + (* a level is requested: M2 .. *)
      rewrite (adm_level micro e Hmic). change VERSION_M2 with (-2). apply loop_from_M2; auto.
      intros v Hv. apply zrange_In_inv in Hv. destruct (otruthy micro); lia.
    + rewrite (adm_nolevel micro Hmic).
      apply in_map_iff in Hin. destruct Hin as (m & <- & Hm).
      rewrite Forall_forall in Hval.
      pose proof (minver_values m (Hval m Hm)) as Hmv4.
      rewrite (find_skip _ (minver m) (if otruthy micro then 1 else 41) Hmv4).
      * apply loop_from_minver; auto. destruct (otruthy micro); lia.
      * destruct (otruthy micro); lia.
      * intros v Hv. apply (below_minver_no_fit segs false is_sa None m v Hwf Hm Hv).
Qed.
Print Assumptions find_version_spec.

(* ------------------------------------------------------------------ *)
(* 4. consequences of find_version_spec                                *)
(* ------------------------------------------------------------------ *)
Lemma find_split {A} (f : A -> bool) (l : list A) x : find f l = Some x ->
  exists l1 l2, l = l1 ++ x :: l2 /\ f x = true /\ forall y, In y l1 -> f y = false.
Proof.
  induction l as [|a r IH]; intros H; [discriminate H|]. cbn [find] in H.
  destruct (f a) eqn:Fa.
  - inversion H; subst a. exists [], r. split; [reflexivity|]. split; [exact Fa|]. intros y [].
  - destruct (IH H) as (l1 & l2 & -> & Fx & Hl1). exists (a :: l1), l2.
    split; [reflexivity|]. split; [exact Fx|]. intros y [<-|Hy]; auto.
Qed.

Fixpoint sortedb (l : list Z) : bool :=
  match l with
  | a :: r => match r with b :: _ => (a <? b) && sortedb r | [] => true end
  | [] => true end.

Lemma sortedb_tail a r : sortedb (a :: r) = true -> sortedb r = true.
Proof. destruct r as [|b r']; [reflexivity|]. cbn [sortedb]. intros H. apply andb_prop in H. apply H. Qed.
Lemma sortedb_head r : forall a u, sortedb (a :: r) = true -> In u r -> a < u.
Proof.
  induction r as [|b r' IH]; intros a u Hs Hu; [destruct Hu|].
  assert (Hab : a < b).
  { cbn [sortedb] in Hs. apply andb_prop in Hs. destruct Hs as [Hs _]. lia. }
  destruct Hu as [<-|Hu]; [exact Hab|].
  apply sortedb_tail in Hs. specialize (IH b u Hs Hu). lia.
Qed.
Lemma find_sorted_min (f : Z -> bool) l v : sortedb l = true -> find f l = Some v ->
  forall u, In u l -> u < v -> f u = false.
Proof.
  induction l as [|a r IH]; intros Hs Hf u Hu Huv; [destruct Hu|].
  cbn [find] in Hf. destruct (f a) eqn:Fa.
  - inversion Hf; subst a. destruct Hu as [<-|Hu]; [lia|].
    pose proof (sortedb_head r v u Hs Hu). lia.
  - destruct Hu as [<-|Hu]; [exact Fa|]. apply IH; auto. apply (sortedb_tail a r Hs).
Qed.

Lemma adm_sorted micro eci l : sortedb (spec_admissible micro eci l) = true.
Proof. destruct micro as [[|]|], eci, l; vm_compute; reflexivity. Qed.

(* which versions are admissible at all *)
Lemma adm_In micro eci l v : In v (spec_admissible micro eci l) ->
  -3 <= v <= 40 /\ (v <= 0 -> micro <> Some false /\ eci = false) /\
  (1 <= v -> micro <> Some true) /\ (v = -3 -> l = None).
Proof.
  unfold spec_admissible. intros H. apply in_app_or in H. destruct H as [H|H].
  - destruct micro as [[|]|], eci, l; cbn [app In] in H;
      intuition (try congruence; try lia).
  - destruct micro as [[|]|]; [destruct H| |]; apply zrange_In_inv in H;
      intuition (try congruence; try lia).
Qed.

Lemma find_version_assert segs error is_sa :
  find_version segs error true (Some true) is_sa = Err AssertErr.
Proof. reflexivity. Qed.

Theorem find_version_sound segs error eci micro is_sa v :
  Forall wf_seg segs -> segs <> [] ->
  find_version segs error eci micro is_sa = Ok v ->
  spec_fits v error (map (abs_seg eci) segs) is_sa = true /\
  In v (spec_admissible micro eci error) /\
  (forall u, In u (spec_admissible micro eci error) -> u < v ->
             spec_fits u error (map (abs_seg eci) segs) is_sa = false).
Proof.
  intros Hwf Hne Hfv.
  destruct (eci && otruthy micro) eqn:Hex.
  { unfold find_version in Hfv. rewrite Hex in Hfv. discriminate Hfv. }
  rewrite (find_version_spec _ _ _ _ _ Hwf Hne Hex) in Hfv. unfold spec_version in Hfv.
  destruct (find _ _) as [w|] eqn:Hfind; [|discriminate Hfv]. inversion Hfv; subst w.
  split; [|split].
  - apply find_some in Hfind. apply Hfind.
  - apply find_some in Hfind. apply Hfind.
  - intros u Hu Huv.
    apply (find_sorted_min _ _ v (adm_sorted micro eci error) Hfind u Hu Huv).
Qed.
Print Assumptions find_version_sound.

(* positional form of minimality: everything before [v] in the list of admissible versions does not fit *)
Theorem find_version_first segs error eci micro is_sa v :
  Forall wf_seg segs -> segs <> [] ->
  find_version segs error eci micro is_sa = Ok v ->
  exists before after, spec_admissible micro eci error = before ++ v :: after /\
    forall u, In u before -> spec_fits u error (map (abs_seg eci) segs) is_sa = false.
Proof.
  intros Hwf Hne Hfv.
  destruct (eci && otruthy micro) eqn:Hex.
  { unfold find_version in Hfv. rewrite Hex in Hfv. discriminate Hfv. }
  rewrite (find_version_spec _ _ _ _ _ Hwf Hne Hex) in Hfv. unfold spec_version in Hfv.
  destruct (find _ _) as [w|] eqn:Hfind; [|discriminate Hfv]. inversion Hfv; subst w.
  destruct (find_split _ _ _ Hfind) as (l1 & l2 & Heq & _ & Hl1). exists l1, l2. split; assumption.
Qed.

Theorem find_version_overflow segs error eci micro is_sa :
  Forall wf_seg segs -> segs <> [] -> eci && otruthy micro = false ->
  (find_version segs error eci micro is_sa = Err DataOverflow <->
   forall v, In v (spec_admissible micro eci error) ->
             spec_fits v error (map (abs_seg eci) segs) is_sa = false).
Proof.
  intros Hwf Hne Hex. rewrite (find_version_spec _ _ _ _ _ Hwf Hne Hex). unfold spec_version.
  destruct (find _ _) as [w|] eqn:Hfind; split.
  - intros H; discriminate H.
  - intros H. apply find_some in Hfind. destruct Hfind as [Hin Hfit]. rewrite (H w Hin) in Hfit. discriminate Hfit.
  - intros _ v Hv. apply (find_none _ _ Hfind v Hv).
  - reflexivity.
Qed.
Print Assumptions find_version_overflow.

(* the only results are a version or DataOverflow *)
Theorem find_version_total segs error eci micro is_sa :
  Forall wf_seg segs -> segs <> [] -> eci && otruthy micro = false ->
  (exists v, find_version segs error eci micro is_sa = Ok v) \/
  find_version segs error eci micro is_sa = Err DataOverflow.
Proof.
  intros Hwf Hne Hex. rewrite (find_version_spec _ _ _ _ _ Hwf Hne Hex).
  destruct (spec_version _ _ _ _ _) as [v|]; [left; exists v; reflexivity|right; reflexivity].
Qed.

Theorem find_version_kind segs error eci micro is_sa v :
  Forall wf_seg segs -> segs <> [] ->
  find_version segs error eci micro is_sa = Ok v ->
  -3 <= v <= 40 /\
  (v <= 0 -> micro <> Some false /\ eci = false) /\   (* Micro QR only if allowed and no ECI *)
  (1 <= v -> micro <> Some true) /\                   (* QR only if Micro is not demanded *)
  (v = -3 -> error = None).                           (* M1 only without a level *)
Proof.
  intros Hwf Hne Hfv. destruct (find_version_sound _ _ _ _ _ _ Hwf Hne Hfv) as (_ & Hin & _).
  apply (adm_In _ _ _ _ Hin).
Qed.
Print Assumptions find_version_kind.

(* ------------------------------------------------------------------ *)
(* 5. boost_error_level                                                *)
(* ------------------------------------------------------------------ *)
Theorem boost_none version segs eci is_sa :
  boost_error_level version None segs eci is_sa = Ok None.
Proof. reflexivity. Qed.

Theorem boost_multi version error segs eci is_sa : lenZ segs <> 1 ->
  boost_error_level version error segs eci is_sa = Ok error.
Proof.
  intros Hlen. destruct error as [e|]; [|reflexivity]. unfold boost_error_level.
  assert (E : lenZ segs =? 1 = false) by (apply Z.eqb_neq; exact Hlen).
  rewrite E. cbn [negb]. rewrite orb_true_r. reflexivity.
Qed.

Theorem boost_H version segs eci is_sa :
  boost_error_level version (Some 2) segs eci is_sa = Ok (Some 2).
Proof. reflexivity. Qed.

Lemma boost_single version e s eci is_sa : e <> 2 ->
  boost_error_level version (Some e) [s] eci is_sa =
  (do len <- bit_length_with_overhead [s] version eci is_sa;
   do higher <- drop_through e (boost_levels version);
   do e' <- boost_loop version len higher e;
   Ok (Some e')).
Proof.
  intros He. unfold boost_error_level.
  assert (E : e =? ERROR_LEVEL_H = false) by (apply Z.eqb_neq; exact He).
  rewrite E. reflexivity.
Qed.

(* capacity strictly decreases along L > M > Q > H, for every version that has levels *)
Lemma cap_table_all :
  forallb (fun v =>
    match spec_capacity v (Some 1), spec_capacity v (Some 0) with
    | Some cl, Some cm => (cm <? cl) &&
        (if 0 <=? v then
           match spec_capacity v (Some 3) with
           | Some cq => (cq <? cm) &&
               (if 1 <=? v then match spec_capacity v (Some 2) with Some ch => ch <? cq | None => false end
                else true)
           | None => false end
         else true)
    | _, _ => false end) (zrange (-2) 41) = true.
Proof. vm_compute. reflexivity. Qed.

Lemma cap_table v : -2 <= v <= 40 ->
  exists cl cm, spec_capacity v (Some 1) = Some cl /\ spec_capacity v (Some 0) = Some cm /\ cm < cl /\
    (0 <= v -> exists cq, spec_capacity v (Some 3) = Some cq /\ cq < cm /\
       (1 <= v -> exists ch, spec_capacity v (Some 2) = Some ch /\ ch < cq)).
Proof.
  intros Hv. pose proof cap_table_all as Hall. rewrite forallb_forall in Hall.
  assert (Hin : In v (zrange (-2) 41)) by (apply zrange_In; lia).
  specialize (Hall v Hin). cbv beta in Hall.
  destruct (spec_capacity v (Some 1)) as [cl|]; [|discriminate Hall].
  destruct (spec_capacity v (Some 0)) as [cm|]; [|discriminate Hall].
  apply andb_prop in Hall. destruct Hall as [Hlm Hrest].
  exists cl, cm. split; [reflexivity|]. split; [reflexivity|]. split; [lia|].
  intros H0. destruct (0 <=? v) eqn:E0; [|lia].
  destruct (spec_capacity v (Some 3)) as [cq|]; [|discriminate Hrest].
  apply andb_prop in Hrest. destruct Hrest as [Hqm Hrest].
  exists cq. split; [reflexivity|]. split; [lia|].
  intros H1. destruct (1 <=? v) eqn:E1; [|lia].
  destruct (spec_capacity v (Some 2)) as [ch|]; [|discriminate Hrest].
  exists ch. split; [reflexivity|]. lia.
Qed.

Lemma fits_single version l s eci sa : version <> -3 -> mode_available (s_mode s) version = true ->
  spec_fits version (Some l) (map (abs_seg eci) [s]) sa =
  match spec_capacity version (Some l) with
  | Some cap => spec_bits version (map (abs_seg eci) [s]) sa <=? cap
  | None => false end.
Proof.
  intros Hv Hav. rewrite spec_fits_unfold. unfold all_available, seg_modes. cbn [map forallb].
  rewrite Hav. cbn [andb]. unfold eff_level.
  assert (E : version =? -3 = false) by (apply Z.eqb_neq; exact Hv). rewrite E. reflexivity.
Qed.

Lemma levels_cases version e : -3 <= version <= 40 -> In e (levels_of_version version) ->
  (-2 <= version < 0 /\ levels_of_version version = [1; 0] /\ boost_levels version = [1; 0] /\ (e = 1 \/ e = 0)) \/
  (version = 0 /\ levels_of_version version = [1; 0; 3] /\ boost_levels version = [1; 0; 3] /\ (e = 1 \/ e = 0 \/ e = 3)) \/
  (1 <= version /\ levels_of_version version = [1; 0; 3; 2] /\ boost_levels version = [1; 0; 3; 2] /\
   (e = 1 \/ e = 0 \/ e = 3 \/ e = 2)).
Proof.
  intros Hv Hin. unfold levels_of_version, boost_levels, VERSION_M4 in *.
  destruct (version =? -3) eqn:E3; [destruct Hin|].
  destruct (version <? 0) eqn:E0.
  - left. assert (E1 : version <? 1 = true) by lia. rewrite E1. cbn [In] in Hin.
    repeat split; try lia; try reflexivity.
  - destruct (version =? 0) eqn:Ez.
    + right; left. assert (E1 : version <? 1 = true) by lia. rewrite E1. cbn [In] in Hin.
      repeat split; try lia; try reflexivity.
    + right; right. assert (E1 : version <? 1 = false) by lia. rewrite E1. cbn [In] in Hin.
      repeat split; try lia; try reflexivity.
Qed.

Ltac boost_case B :=
  cbn [drop_through Z.eqb Pos.eqb bind boost_loop fold_left];
  repeat rewrite capacity_spec;
  repeat match goal with H : spec_capacity _ _ = Some _ |- _ => rewrite H end;
  cbn [bind];
  repeat match goal with |- context [B <=? ?c] => destruct (B <=? c) eqn:? end;
  try lia; try reflexivity.

Theorem boost_spec version e s eci is_sa :
  -3 <= version <= 40 -> wf_seg s -> mode_available (s_mode s) version = true ->
  In e (levels_of_version version) ->
  boost_error_level version (Some e) [s] eci is_sa =
  Ok (Some (spec_boost version e (map (abs_seg eci) [s]) is_sa)).
Proof.
  intros Hv Hwf Hav Hin.
  assert (Hwfl : Forall wf_seg [s]) by (constructor; [exact Hwf|constructor]).
  assert (Hbl : bit_length_with_overhead [s] version eci is_sa =
                Ok (spec_bits version (map (abs_seg eci) [s]) is_sa)).
  { apply bit_length_spec_ok; auto. unfold seg_modes. cbn [map In]. intros m [<-|[]]. exact Hav. }
  assert (Hne : version <> -3).
  { intros ->. exact Hin. }
  pose proof (fun l => fits_single version l s eci is_sa Hne Hav) as Hfit.
  unfold spec_boost.
  remember (spec_bits version (map (abs_seg eci) [s]) is_sa) as B eqn:HB. clear HB.
  destruct (levels_cases version e Hv Hin) as [(Hr & Hlov & Hlev & He)|[(Hr & Hlov & Hlev & He)|(Hr & Hlov & Hlev & He)]];
    rewrite Hlov; cbn [fold_left]; rewrite !Hfit;
    destruct (cap_table version ltac:(lia)) as (cl & cm & HcL & HcM & Hlm & HQ).
  - destruct He as [->| ->]; rewrite boost_single by lia; rewrite Hbl, Hlev; boost_case B.
  - destruct (HQ ltac:(lia)) as (cq & HcQ & Hqm & _).
    destruct He as [->|[->| ->]]; rewrite boost_single by lia; rewrite Hbl, Hlev; boost_case B.
  - destruct (HQ ltac:(lia)) as (cq & HcQ & Hqm & HH). destruct (HH Hr) as (ch & HcH & Hhq).
    destruct He as [->|[->|[->| ->]]]; [rewrite boost_single by lia; rewrite Hbl, Hlev; boost_case B ..|].
    rewrite boost_H. boost_case B.
Qed.
Print Assumptions boost_spec.

(* the requested statement (with the premise that the content fits at the requested level) is an instance *)
Corollary boost_spec_fitting version e s eci is_sa :
  -3 <= version <= 40 -> wf_seg s -> mode_available (s_mode s) version = true ->
  In e (levels_of_version version) ->
  spec_fits version (Some e) (map (abs_seg eci) [s]) is_sa = true ->
  boost_error_level version (Some e) [s] eci is_sa =
  Ok (Some (spec_boost version e (map (abs_seg eci) [s]) is_sa)).
Proof. intros Hv Hwf Hav Hin _. apply boost_spec; assumption. Qed.

(* the specification's result still holds the content whenever the requested level does *)
Lemma spec_boost_fits v e segs sa :
  spec_fits v (Some e) segs sa = true -> spec_fits v (Some (spec_boost v e segs sa)) segs sa = true.
Proof.
  unfold spec_boost. generalize (levels_of_version v) as ls. intros ls. revert e.
  induction ls as [|l r IH]; intros e He; cbn [fold_left]; [exact He|].
  apply IH. destruct (level_rank e <? level_rank l); cbn [andb]; [|exact He].
  destruct (spec_fits v (Some l) segs sa) eqn:Hl; [exact Hl|exact He].
Qed.

(* results of the loop: the level it was started with or one of the levels tried *)
Lemma boost_loop_result version len levels : forall e e',
  boost_loop version len levels e = Ok e' -> e' = e \/ In e' levels.
Proof.
  induction levels as [|l r IH]; intros e e' H; cbn [boost_loop] in H.
  - inversion H. now left.
  - destruct (capacity version (Some l)) as [cap|x]; cbn [bind] in H; [|discriminate H].
    destruct (len <=? cap).
    + destruct (IH l e' H) as [->|Hin]; right; [now left|now right].
    + inversion H. now left.
Qed.

Lemma boost_result_cases version e segs eci is_sa e' :
  boost_error_level version (Some e) segs eci is_sa = Ok (Some e') ->
  e' = e \/ exists r, drop_through e (boost_levels version) = Ok r /\ In e' r.
Proof.
  unfold boost_error_level. intros H.
  destruct ((e =? ERROR_LEVEL_H) || negb (lenZ segs =? 1)).
  - inversion H. now left.
  - destruct (bit_length_with_overhead segs version eci is_sa) as [len|x]; cbn [bind] in H; [|discriminate H].
    destruct (drop_through e (boost_levels version)) as [r|x]; cbn [bind] in H; [|discriminate H].
    destruct (boost_loop version len r e) as [e1|x] eqn:Hl; cbn [bind] in H; [|discriminate H].
    inversion H; subst e1. destruct (boost_loop_result _ _ _ _ _ Hl) as [->|Hin]; [now left|].
    right. exists r. split; [reflexivity|exact Hin].
Qed.

(* the levels after [e] in the list of a version: higher rank; no H in Micro QR, no Q below M4 *)
Lemma higher_levels version e r x : drop_through e (boost_levels version) = Ok r -> In x r ->
  level_rank e < level_rank x /\ (version <= 0 -> x <> 2) /\ (version < 0 -> x <> 3).
Proof.
  unfold boost_levels, VERSION_M4, ERROR_LEVEL_L, ERROR_LEVEL_M, ERROR_LEVEL_Q, ERROR_LEVEL_H.
  destruct (version <? 1) eqn:E1; [destruct (version <? 0) eqn:E0|]; cbn [drop_through];
    intros Hd Hx;
    repeat match type of Hd with
    | (if ?e0 =? ?k then _ else _) = _ =>
        let E := fresh "E" in destruct (e0 =? k) eqn:E;
        [apply Z.eqb_eq in E; subst e0; inversion Hd; subst r; cbn [In] in Hx;
         repeat (destruct Hx as [<-|Hx]; [vm_compute level_rank; repeat split; lia|]); destruct Hx
        |]
    end; discriminate Hd.
Qed.

Theorem boost_never_lower version e segs eci is_sa e' :
  boost_error_level version (Some e) segs eci is_sa = Ok (Some e') -> level_rank e <= level_rank e'.
Proof.
  intros H. destruct (boost_result_cases _ _ _ _ _ _ H) as [->|(r & Hd & Hin)]; [lia|].
  destruct (higher_levels _ _ _ _ Hd Hin) as (Hlt & _). lia.
Qed.

Theorem boost_some version e segs eci is_sa res :
  boost_error_level version (Some e) segs eci is_sa = Ok res -> exists e', res = Some e'.
Proof.
  unfold boost_error_level. intros H.
  destruct ((e =? ERROR_LEVEL_H) || negb (lenZ segs =? 1)).
  - inversion H. eauto.
  - destruct (bit_length_with_overhead segs version eci is_sa) as [len|x]; cbn [bind] in H; [|discriminate H].
    destruct (drop_through e (boost_levels version)) as [r|x]; cbn [bind] in H; [|discriminate H].
    destruct (boost_loop version len r e) as [e1|x]; cbn [bind] in H; [|discriminate H].
    inversion H. eauto.
Qed.

Theorem boost_micro_no_H version e segs eci is_sa e' : version <= 0 -> e <> 2 ->
  boost_error_level version (Some e) segs eci is_sa = Ok (Some e') -> e' <> 2.
Proof.
  intros Hv He H. destruct (boost_result_cases _ _ _ _ _ _ H) as [->|(r & Hd & Hin)]; [exact He|].
  destruct (higher_levels _ _ _ _ Hd Hin) as (_ & HH & _). apply HH. exact Hv.
Qed.

Theorem boost_micro_no_Q version e segs eci is_sa e' : version < 0 -> e <> 3 ->
  boost_error_level version (Some e) segs eci is_sa = Ok (Some e') -> e' <> 3.
Proof.
  intros Hv He H. destruct (boost_result_cases _ _ _ _ _ _ H) as [->|(r & Hd & Hin)]; [exact He|].
  destruct (higher_levels _ _ _ _ Hd Hin) as (_ & _ & HQ). apply HQ. exact Hv.
Qed.
Print Assumptions boost_never_lower.
Print Assumptions boost_micro_no_H.
Print Assumptions boost_micro_no_Q.

(* ------------------------------------------------------------------ *)
(* 6. the premises are satisfiable: concrete segments                  *)
(* ------------------------------------------------------------------ *)
Definition digits (n : Z) : segment :=
  {| s_bits := repeat false (Z.to_nat (payload_bits 1 n)); s_count := n; s_mode := 1; s_enc := None |}.
Definition bytes_seg (n : Z) (e : option enc) : segment :=
  {| s_bits := repeat false (Z.to_nat (8 * n)); s_count := n; s_mode := 4; s_enc := e |}.
Definition hanzi_seg (n : Z) : segment :=
  {| s_bits := repeat false (Z.to_nat (13 * n)); s_count := n; s_mode := 13; s_enc := None |}.

Example digits41_wf : wf_seg (digits 41).
Proof. split; [left; reflexivity|]. split; [cbn [digits s_count]; lia|]. vm_compute. reflexivity. Qed.
Example bytes10_wf : wf_seg (bytes_seg 10 (Some enc_utf8)).
Proof. split; [right; right; left; reflexivity|]. split; [cbn [bytes_seg s_count]; lia|]. vm_compute. reflexivity. Qed.
Example hanzi3_wf : wf_seg (hanzi_seg 3).
Proof. split; [do 4 right; reflexivity|]. split; [cbn [hanzi_seg s_count]; lia|]. vm_compute. reflexivity. Qed.

(* 41 digits: 137 payload bits; M4-L holds 128 bits (3 + 6 + 137 = 146 needed), 1-L holds 152 (4 + 10 + 137 = 151) *)
Example ex_digits41_bits :
  (payload_bits 1 41, spec_bits 0 (map (abs_seg false) [digits 41]) false,
   spec_bits 1 (map (abs_seg false) [digits 41]) false,
   bit_length_with_overhead [digits 41] 0 false false, bit_length_with_overhead [digits 41] 1 false false)
  = (137, 146, 151, Ok 146, Ok 151).
Proof. vm_compute. reflexivity. Qed.
Example ex_digits41_version :
  find_version [digits 41] None false None false = Ok 1 /\
  spec_version None false None (map (abs_seg false) [digits 41]) false = Some 1 /\
  find_version [digits 41] (Some 0) false None false = Ok 2 /\
  find_version [digits 41] None false (Some true) false = Err DataOverflow.
Proof. vm_compute. repeat split; reflexivity. Qed.
(* 1-L is full: no boost; 2-L requested for the same content: boosted to 2-M (224 bits) *)
Example ex_digits41_boost :
  boost_error_level 1 (Some 1) [digits 41] false false = Ok (Some 1) /\
  spec_boost 1 1 (map (abs_seg false) [digits 41]) false = 1 /\
  boost_error_level 2 (Some 1) [digits 41] false false = Ok (Some 3) /\
  spec_boost 2 1 (map (abs_seg false) [digits 41]) false = 3.
Proof. vm_compute. repeat split; reflexivity. Qed.
(* M1 only without a level; 8 digits fill M2-M exactly (1 + 4 + 27 = 32) *)
Example ex_small :
  find_version [digits 5] None false None false = Ok (-3) /\
  find_version [digits 5] (Some 1) false None false = Ok (-2) /\
  find_version [digits 5] None false (Some false) false = Ok 1 /\
  find_version [digits 8] None false None false = Ok (-2) /\
  boost_error_level (-2) (Some 1) [digits 8] false false = Ok (Some 0) /\
  spec_boost (-2) 1 (map (abs_seg false) [digits 8]) false = 0.
Proof. vm_compute. repeat split; reflexivity. Qed.
(* the largest numeric content, one digit more, and boosting up to H in version 40 *)
Example ex_large :
  find_version [digits 7089] None false None false = Ok 40 /\
  find_version [digits 7090] None false None false = Err DataOverflow /\
  boost_error_level 40 (Some 1) [digits 3000] false false = Ok (Some 2).
Proof. vm_compute. repeat split; reflexivity. Qed.
(* ECI: 12 bits per non-default byte segment, no Micro QR; Hanzi: 4 more bits, QR only *)
Example ex_eci_hanzi :
  bit_length_with_overhead [bytes_seg 10 (Some enc_utf8)] 1 true false = Ok 104 /\
  spec_bits 1 (map (abs_seg true) [bytes_seg 10 (Some enc_utf8)]) false = 104 /\
  find_version [bytes_seg 10 (Some enc_utf8)] None true None false = Ok 1 /\
  find_version [bytes_seg 10 (Some enc_utf8)] None false None false = Ok 0 /\
  find_version [bytes_seg 10 (Some enc_utf8)] None true (Some true) false = Err AssertErr /\
  bit_length_with_overhead [hanzi_seg 3] 1 false false = Ok 55 /\
  bit_length_with_overhead [hanzi_seg 3] 0 false false = Err KeyErr /\
  find_version [hanzi_seg 3] None false None false = Ok 1 /\
  find_version [hanzi_seg 3] None false (Some true) false = Err DataOverflow.
Proof. vm_compute. repeat split; reflexivity. Qed.
(* several segments with Structured Append: found by the same first-fit rule, never boosted *)
Example ex_multi :
  find_version [digits 41; bytes_seg 3 (Some enc_latin1)] (Some 3) false None true = Ok 3 /\
  spec_version None false (Some 3) (map (abs_seg false) [digits 41; bytes_seg 3 (Some enc_latin1)]) true = Some 3 /\
  boost_error_level 3 (Some 0) [digits 41; bytes_seg 3 (Some enc_latin1)] false true = Ok (Some 0).
Proof. vm_compute. repeat split; reflexivity. Qed.

(* the theorems instantiated on the example *)
Example ex_theorem_instance :
  find_version [digits 41] None false None false =
  match spec_version None false None (map (abs_seg false) [digits 41]) false with
  | Some v => Ok v | None => Err DataOverflow end.
Proof.
  apply find_version_spec; [constructor; [exact digits41_wf|constructor]|discriminate|reflexivity].
Qed.
Example ex_boost_instance :
  boost_error_level 2 (Some 1) [digits 41] false false =
  Ok (Some (spec_boost 2 1 (map (abs_seg false) [digits 41]) false)).
Proof.
  apply boost_spec; [lia|exact digits41_wf|reflexivity|].
  change (levels_of_version 2) with [1; 0; 3; 2]. now left.
Qed.
Print Assumptions find_version_first.
Print Assumptions boost_multi.
Print Assumptions spec_boost_fits.
