(* C15 (idempotence part) for the model of segno.encoder.encode:
   re-encoding the same content while explicitly requesting the version, error level and mask that the
   first run chose (boosting disabled) reproduces the identical result; plus the C05-style corollaries
   "the mask does not influence version / level / segments" and "boosting never changes the version". *)
From Coq Require Import String.
From Coq Require Import ZArith List Bool Lia ZifyBool.
From Segno Require Import Base.PyLite Ref.IsoData Ref.Spec.
From Segno Require Import Model.Bits Model.Segment Model.Version Model.Stream Model.Matrix Model.Encode.
From Segno Require Import Lemmas.PackLemmas Lemmas.VersionLemmas Lemmas.MaskLemmas Lemmas.GeomLemmas.
Import ListNotations.
Open Scope Z_scope.
Ltac Zify.zify_post_hook ::= Z.to_euclidean_division_equations.

(* ------------------------------------------------------------------ *)
(* 0. small facts                                                      *)
(* ------------------------------------------------------------------ *)
Lemma lenZ_app' {A} (l r : list A) : lenZ (l ++ r) = lenZ l + lenZ r.
Proof. unfold lenZ. rewrite app_length. lia. Qed.
Lemma lenZ_ge0 {A} (l : list A) : 0 <= lenZ l.
Proof. unfold lenZ. lia. Qed.
Lemma lenZ_cons2 {A} (a b : A) (l : list A) : lenZ (a :: b :: l) = lenZ l + 2.
Proof. unfold lenZ. cbn [List.length]. lia. Qed.

(* ------------------------------------------------------------------ *)
(* 1. the segments produced by prepare_data are well formed            *)
(* ------------------------------------------------------------------ *)
(* [make_segment] accepts any requested mode number that is not below the guessed one (e.g. 3), so the
   length equation is stated under the premise that the mode is one of the five real modes; that premise
   is discharged later from the success of bit_length_with_overhead (character count table lookup). *)
Definition wfl (s : segment) : Prop :=
  valid_mode (s_mode s) -> 0 <= s_count s /\ lenZ (s_bits s) = payload_bits (s_mode s) (s_count s).

Lemma pack_kanji_len : forall d bs, pack_kanji d = Ok bs -> lenZ bs = 13 * (lenZ d / 2).
Proof.
  induction d as [|a|hi lo r IH] using list_ind2; intros bs H.
  - cbn [pack_kanji] in H. apply Ok_inj in H. subst bs. reflexivity.
  - discriminate H.
  - cbn [pack_kanji] in H.
    destruct (negb (kanji_pair hi lo)); [discriminate H|].
    match type of H with context [bind ?X _] =>
      match X with (if _ then _ else _) => destruct X as [diff|e] end end; [|discriminate H].
    cbn [bind] in H. destruct (pack_kanji r) as [b1|e]; [|discriminate H].
    cbn [bind] in H. apply Ok_inj in H. subst bs.
    rewrite lenZ_app', lenZ_bits_of by lia. rewrite (IH b1 eq_refl), lenZ_cons2.
    pose proof (lenZ_ge0 r). lia.
Qed.
Lemma pack_hanzi_len : forall d bs, pack_hanzi d = Ok bs -> lenZ bs = 13 * (lenZ d / 2).
Proof.
  induction d as [|a|hi lo r IH] using list_ind2; intros bs H.
  - cbn [pack_hanzi] in H. apply Ok_inj in H. subst bs. reflexivity.
  - discriminate H.
  - cbn [pack_hanzi] in H.
    destruct (negb ((161 <=? lo) && (lo <=? 254))); [discriminate H|].
    match type of H with context [bind ?X _] =>
      match X with (if _ then _ else _) => destruct X as [diff|e] end end; [|discriminate H].
    cbn [bind] in H. destruct (pack_hanzi r) as [b1|e]; [|discriminate H].
    cbn [bind] in H. apply Ok_inj in H. subst bs.
    rewrite lenZ_app', lenZ_bits_of by lia. rewrite (IH b1 eq_refl), lenZ_cons2.
    pose proof (lenZ_ge0 r). lia.
Qed.

Lemma pack_mode_1 d : pack_mode 1 d = Ok (pack_numeric (S (List.length d)) d).
Proof. reflexivity. Qed.
Lemma pack_mode_2 d : pack_mode 2 d = Ok (pack_alnum d).
Proof. reflexivity. Qed.
Lemma pack_mode_4 d : pack_mode 4 d = Ok (flat_map (fun b => bits_of b 8) d).
Proof. reflexivity. Qed.
Lemma pack_mode_8 d : pack_mode 8 d = pack_kanji d.
Proof. reflexivity. Qed.
Lemma pack_mode_13 d : pack_mode 13 d = pack_hanzi d.
Proof. reflexivity. Qed.

Lemma make_segment_wfl c mode encoding s : make_segment c mode encoding = Ok s -> wfl s.
Proof.
  intros H Hv. destruct (make_segment_pack _ _ _ _ H) as (data & senc & _ & Hp & Hc).
  rewrite Hc. pose proof (lenZ_ge0 data) as Hd.
  destruct Hv as [E|[E|[E|[E|E]]]]; rewrite E in Hp |- *.
  - rewrite pack_mode_1 in Hp. apply Ok_inj in Hp. rewrite <- Hp.
    change (count_mode 1 data) with (lenZ data). split; [lia|apply numeric_length].
  - rewrite pack_mode_2 in Hp. apply Ok_inj in Hp. rewrite <- Hp.
    change (count_mode 2 data) with (lenZ data). split; [lia|apply alnum_length].
  - rewrite pack_mode_4 in Hp. apply Ok_inj in Hp. rewrite <- Hp.
    change (count_mode 4 data) with (lenZ data). split; [lia|apply byte_length].
  - rewrite pack_mode_8 in Hp. change (count_mode 8 data) with (lenZ data / 2).
    split; [lia|]. rewrite (pack_kanji_len _ _ Hp). reflexivity.
  - rewrite pack_mode_13 in Hp. change (count_mode 13 data) with (lenZ data / 2).
    split; [lia|]. rewrite (pack_hanzi_len _ _ Hp). reflexivity.
Qed.

(* payload lengths add up when the first count ends at a group boundary (the merge rule of add_segment) *)
Lemma payload_bits_add m c1 c2 : valid_mode m -> 0 <= c1 -> 0 <= c2 -> c1 mod merge_group m = 0 ->
  payload_bits m (c1 + c2) = payload_bits m c1 + payload_bits m c2.
Proof.
  intros [->|[->|[->|[->| ->]]]] H1 H2 Hm.
  - change (merge_group 1) with 3 in Hm. rewrite !payload_bits_numeric.
    replace ((c1 + c2) mod 3) with (c2 mod 3) by lia.
    replace ((c1 + c2) / 3) with (c1 / 3 + c2 / 3) by lia.
    rewrite Hm. change (0 =? 0) with true. cbv iota.
    destruct (c2 mod 3 =? 0); [lia|]. destruct (c2 mod 3 =? 1); lia.
  - change (merge_group 2) with 2 in Hm.
    change (payload_bits 2 (c1 + c2)) with (11 * ((c1 + c2) / 2) + 6 * ((c1 + c2) mod 2)).
    change (payload_bits 2 c1) with (11 * (c1 / 2) + 6 * (c1 mod 2)).
    change (payload_bits 2 c2) with (11 * (c2 / 2) + 6 * (c2 mod 2)). lia.
  - rewrite !payload_bits_byte. lia.
  - rewrite !payload_bits_13 by auto. lia.
  - rewrite !payload_bits_13 by auto. lia.
Qed.

Lemma add_segment_wfl acc s : Forall wfl acc -> wfl s -> Forall wfl (add_segment acc s).
Proof.
  intros Hacc Hs. destruct acc as [|prev rest]; cbn [add_segment]; [constructor; [exact Hs|constructor]|].
  destruct ((s_mode prev =? s_mode s) && oenc_eqb (s_enc prev) (s_enc s)
            && (s_count prev mod merge_group (s_mode s) =? 0)) eqn:Hc.
  - inversion Hacc as [|x l Hp Hr]; subst x l. constructor; [|exact Hr].
    apply andb_prop in Hc. destruct Hc as [Hc Hg]. apply andb_prop in Hc. destruct Hc as [Hmode _].
    assert (Em : s_mode prev = s_mode s) by lia.
    unfold wfl. cbn [s_mode s_count s_bits]. intros Hv.
    assert (Hv' : valid_mode (s_mode prev)) by (rewrite Em; exact Hv).
    destruct (Hp Hv') as [Hc1 Hb1]. destruct (Hs Hv) as [Hc2 Hb2].
    split; [lia|]. rewrite lenZ_app', Hb1, Hb2, Em. symmetry. apply payload_bits_add; auto. lia.
  - constructor; assumption.
Qed.

Lemma prepare_aux_wfl : forall parts acc segs,
  Forall wfl acc -> prepare_aux parts acc = Ok segs -> Forall wfl segs.
Proof.
  induction parts as [|p r IH]; intros acc segs Hacc H; cbn [prepare_aux] in H.
  - apply Ok_inj in H. subst segs. apply Forall_rev. exact Hacc.
  - apply bind_ok in H. destruct H as (s & Hs & H).
    apply (IH _ _ (add_segment_wfl _ _ Hacc (make_segment_wfl _ _ _ _ Hs)) H).
Qed.

Lemma prepare_data_wfl parts segs : prepare_data parts = Ok segs -> Forall wfl segs.
Proof. apply prepare_aux_wfl. constructor. Qed.

(* a successful character count lookup means a real mode *)
Lemma cci_valid m r w : cci_length m r = Ok w -> valid_mode m.
Proof.
  unfold cci_length, getZ. destruct (assocZ m CHAR_COUNT_INDICATOR_LENGTH) as [row|] eqn:E; [|discriminate].
  intros _. unfold CHAR_COUNT_INDICATOR_LENGTH in E. cbn [assocZ] in E. unfold valid_mode.
  repeat match type of E with
  | (if ?a =? ?k then _ else _) = _ => destruct (a =? k) eqn:?; [lia|]
  end. discriminate E.
Qed.

Lemma sum_res_valid r : forall modes x,
  sum_res (map (fun m => cci_length m r) modes) = Ok x -> Forall valid_mode modes.
Proof.
  induction modes as [|m l IH]; intros x H; [constructor|].
  cbn [map sum_res] in H. apply bind_ok in H. destruct H as (a & Ha & H).
  apply bind_ok in H. destruct H as (b & Hb & _).
  constructor; [apply (cci_valid _ _ _ Ha)|apply (IH _ Hb)].
Qed.

Lemma bit_length_valid segs v eci sa len :
  bit_length_with_overhead segs v eci sa = Ok len -> Forall valid_mode (seg_modes segs).
Proof.
  unfold bit_length_with_overhead. cbv zeta. intros H.
  apply bind_ok in H. destruct H as (vr & _ & H).
  apply bind_ok in H. destruct H as (oc & Hoc & _).
  apply (sum_res_valid _ _ _ Hoc).
Qed.

Lemma wfl_wf segs : Forall wfl segs -> Forall valid_mode (seg_modes segs) -> Forall wf_seg segs.
Proof.
  intros Hw Hv. rewrite Forall_forall in *. intros s Hs.
  assert (Hm : valid_mode (s_mode s)) by (apply Hv; unfold seg_modes; apply in_map; exact Hs).
  destruct (Hw s Hs Hm) as [Hc Hb]. split; [exact Hm|]. split; assumption.
Qed.

(* lemma announced in the task: whenever the overhead computation succeeds for some version (as it does
   in every successful run of encode) all segments of prepare_data are well formed *)
Lemma prepare_data_wf parts segs v eci sa len :
  prepare_data parts = Ok segs -> bit_length_with_overhead segs v eci sa = Ok len -> Forall wf_seg segs.
Proof.
  intros Hp Hb. apply wfl_wf; [apply (prepare_data_wfl _ _ Hp)|apply (bit_length_valid _ _ _ _ _ Hb)].
Qed.

(* ------------------------------------------------------------------ *)
(* 2. capacity table facts                                             *)
(* ------------------------------------------------------------------ *)
Lemma capacity_keys : map fst SYMBOL_CAPACITY = zrange (-3) 41.
Proof. vm_compute. reflexivity. Qed.

Lemma capacity_range v l c : capacity v l = Ok c -> -3 <= v <= 40.
Proof.
  intros H. apply capacity_ok_iff in H. unfold spec_capacity in H.
  destruct (assocZ v SYMBOL_CAPACITY) as [row|] eqn:E; [|discriminate H].
  apply assocZ_In in E. apply (in_map fst) in E. cbn [fst] in E. rewrite capacity_keys in E.
  apply zrange_In_inv in E. lia.
Qed.

Lemma cap_M1_some l : spec_capacity (-3) (Some l) = None.
Proof. reflexivity. Qed.

Lemma cap_levels_all :
  forallb (fun v =>
    match spec_capacity v None with Some _ => v =? -3 | None => true end &&
    match spec_capacity v (Some 2) with Some _ => 1 <=? v | None => true end) (zrange (-3) 41) = true.
Proof. vm_compute. reflexivity. Qed.

Lemma cap_levels v : -3 <= v <= 40 ->
  (forall c, spec_capacity v None = Some c -> v = -3) /\
  (forall c, spec_capacity v (Some 2) = Some c -> 1 <= v).
Proof.
  intros Hv. pose proof cap_levels_all as Hall. rewrite forallb_forall in Hall.
  assert (Hin : In v (zrange (-3) 41)) by (apply zrange_In; lia).
  specialize (Hall v Hin). cbv beta in Hall. apply andb_prop in Hall. destruct Hall as [Ha Hb].
  split; intros c Hc.
  - rewrite Hc in Ha. lia.
  - rewrite Hc in Hb. lia.
Qed.

Lemma capacity_none v c : capacity v None = Ok c -> v = -3.
Proof.
  intros H. pose proof (capacity_range _ _ _ H) as Hv. apply capacity_ok_iff in H.
  apply (proj1 (cap_levels v Hv) c H).
Qed.
Lemma capacity_H v c : capacity v (Some 2) = Ok c -> 1 <= v.
Proof.
  intros H. pose proof (capacity_range _ _ _ H) as Hv. apply capacity_ok_iff in H.
  apply (proj2 (cap_levels v Hv) c H).
Qed.
Lemma capacity_M1 l c : capacity (-3) l = Ok c -> l = None.
Proof.
  intros H. destruct l as [x|]; [|reflexivity]. rewrite capacity_spec, cap_M1_some in H. discriminate H.
Qed.

(* the level defaulting rule of encode / find_version *)
Definition default_level (error : option Z) (v : Z) : option Z :=
  match error with None => if v =? VERSION_M1 then None else Some ERROR_LEVEL_L | e => e end.

Lemma default_level_cap v e c : capacity v e = Ok c ->
  default_level e v = e /\ eff_level v e = e /\ (v = -3 -> e = None).
Proof.
  intros H. unfold default_level, eff_level, VERSION_M1. destruct (v =? -3) eqn:E.
  - assert (v = -3) by lia. subst v. rewrite (capacity_M1 _ _ H). repeat split; reflexivity.
  - destruct e as [x|].
    + repeat split; try reflexivity. intros; lia.
    + apply capacity_none in H. lia.
Qed.

(* ------------------------------------------------------------------ *)
(* 3. admissible versions                                              *)
(* ------------------------------------------------------------------ *)
Definition admissible (micro : option bool) (eci : bool) (l : option Z) (v : Z) : Prop :=
  -3 <= v <= 40 /\ (v <= 0 -> micro <> Some false /\ eci = false) /\
  (1 <= v -> micro <> Some true) /\ (v = -3 -> l = None).

Lemma adm_In_conv micro eci l v : admissible micro eci l v -> In v (spec_admissible micro eci l).
Proof.
  intros (Hr & Hm & Hq & H1). unfold spec_admissible. apply in_or_app.
  destruct (Z_le_gt_dec v 0) as [Hle|Hgt].
  - left. destruct (Hm Hle) as [Hmic ->].
    assert (Hl : match l with None => True | Some _ => v <> -3 end).
    { destruct l; [|exact I]. intro Hv. specialize (H1 Hv). discriminate H1. }
    destruct micro as [[|]|]; [|congruence|]; destruct l; cbn [app In]; lia.
  - right. assert (Hmic : micro <> Some true) by (apply Hq; lia).
    destruct micro as [[|]|]; [congruence| |]; apply zrange_In; lia.
Qed.

Lemma memZ_micro v : -3 <= v -> memZ v MICRO_VERSIONS = (v <=? 0).
Proof. intros Hv. unfold memZ, MICRO_VERSIONS. cbn [existsb]. lia. Qed.

(* ------------------------------------------------------------------ *)
(* 4. find_version against the specification, also for an empty segment list *)
(* ------------------------------------------------------------------ *)
(* [find_version_spec] asks for a non-empty segment list (max() of the minimum versions); an empty list is
   possible in the model (no parts) when Micro QR is excluded, and then the loop runs over 1..40.  One
   successful call (with any level [error0]) is enough to know that this preliminary step works. *)
Lemma find_version_spec' segs error0 error eci micro sa g0 :
  Forall wf_seg segs ->
  find_version segs error0 eci micro sa = Ok g0 ->
  find_version segs error eci micro sa =
  match spec_version micro eci error (map (abs_seg eci) segs) sa with
  | Some v => Ok v | None => Err DataOverflow end.
Proof.
  intros Hwf H0.
  assert (Hex : eci && otruthy micro = false).
  { unfold find_version in H0. destruct (eci && otruthy micro); [discriminate H0|reflexivity]. }
  destruct segs as [|s0 r0].
  - (* no segment: min() over the modes raises unless Micro QR is excluded *)
    unfold find_version in H0 |- *. unfold spec_version. rewrite Hex in H0 |- *.
    destruct ((match micro with Some b => b | None => true end) && negb eci) eqn:Hma.
    { cbn [seg_modes map seq_res bind max_list] in H0. discriminate H0. }
    cbn [bind].
    assert (Hcase : micro = Some false \/ (eci = true /\ micro = None)).
    { destruct micro as [[|]|], eci; cbn in Hma, Hex; try discriminate; auto. }
    rewrite (adm_qr_only micro eci error Hcase).
    assert (Hot : otruthy micro = false) by (destruct Hcase as [->|[_ ->]]; reflexivity).
    rewrite Hot. replace (match error with Some _ => 1 | None => 1 end) with 1 by (destruct error; reflexivity).
    change (40 + 1) with 41. apply loop_from_M2; auto.
    intros v Hv. apply zrange_In_inv in Hv. lia.
  - apply find_version_spec; [exact Hwf|discriminate|exact Hex].
Qed.

Lemma find_version_adm segs error eci micro sa g :
  Forall wf_seg segs -> find_version segs error eci micro sa = Ok g ->
  admissible micro eci error g.
Proof.
  intros Hwf H. pose proof H as H'. rewrite (find_version_spec' _ _ error _ _ _ _ Hwf H) in H'.
  unfold spec_version in H'. destruct (find _ _) as [w|] eqn:Hf; [|discriminate H'].
  apply Ok_inj in H'. subst w. apply find_some in Hf. destruct Hf as [Hin _].
  apply (adm_In _ _ _ _ Hin).
Qed.

(* a version that is admissible and holds the content bounds the result of find_version from above *)
Lemma find_version_le segs error0 error eci micro sa g0 v :
  Forall wf_seg segs -> find_version segs error0 eci micro sa = Ok g0 ->
  admissible micro eci error v ->
  spec_fits v error (map (abs_seg eci) segs) sa = true ->
  exists g, find_version segs error eci micro sa = Ok g /\ g <= v.
Proof.
  intros Hwf H0 Hadm Hfit. rewrite (find_version_spec' _ _ error _ _ _ _ Hwf H0).
  apply adm_In_conv in Hadm. unfold spec_version.
  destruct (find _ _) as [g|] eqn:Hf.
  - exists g. split; [reflexivity|]. destruct (Z_le_gt_dec g v) as [Hle|Hgt]; [exact Hle|exfalso].
    pose proof (find_sorted_min _ _ g (adm_sorted micro eci error) Hf v Hadm ltac:(lia)) as Hno.
    cbv beta in Hno. rewrite Hfit in Hno. discriminate Hno.
  - pose proof (find_none _ _ Hf v Hadm) as Hno. cbv beta in Hno. rewrite Hfit in Hno. discriminate Hno.
Qed.

(* ------------------------------------------------------------------ *)
(* 5. the content fits the symbol at the level finally used            *)
(* ------------------------------------------------------------------ *)
Definition fits_at (segs : list segment) (v : Z) (eci : bool) (e : option Z) : Prop :=
  exists cap len, capacity v e = Ok cap /\ bit_length_with_overhead segs v eci false = Ok len /\ len <= cap.

Lemma boost_loop_fits version len levels : forall e e',
  boost_loop version len levels e = Ok e' ->
  e' = e \/ exists cap, capacity version (Some e') = Ok cap /\ len <= cap.
Proof.
  induction levels as [|l r IH]; intros e e' H; cbn [boost_loop] in H.
  - apply Ok_inj in H. left. congruence.
  - apply bind_ok in H. destruct H as (cap & Hcap & H). destruct (len <=? cap) eqn:E.
    + right. destruct (IH l e' H) as [->|Hr]; [|exact Hr]. exists cap. split; [exact Hcap|lia].
    + apply Ok_inj in H. left. congruence.
Qed.

(* boosting only ever moves to a level whose capacity still holds the content (direct, for any segments) *)
Lemma boost_keeps_fit v e1 segs eci e' :
  boost_error_level v e1 segs eci false = Ok e' -> fits_at segs v eci e1 -> fits_at segs v eci e'.
Proof.
  intros H Hfit. destruct e1 as [e|]; [|cbn [boost_error_level] in H; apply Ok_inj in H; subst e'; exact Hfit].
  unfold boost_error_level in H.
  destruct ((e =? ERROR_LEVEL_H) || negb (lenZ segs =? 1)); [apply Ok_inj in H; subst e'; exact Hfit|].
  apply bind_ok in H. destruct H as (len & Hlen & H).
  apply bind_ok in H. destruct H as (higher & _ & H).
  apply bind_ok in H. destruct H as (e2 & Hloop & H). apply Ok_inj in H. subst e'.
  destruct (boost_loop_fits _ _ _ _ _ Hloop) as [->|(cap & Hcap & Hle)]; [exact Hfit|].
  exists cap, len. repeat split; assumption.
Qed.

Lemma fits_spec segs v eci e : Forall wf_seg segs -> fits_at segs v eci e ->
  spec_fits v e (map (abs_seg eci) segs) false = true.
Proof.
  intros Hwf (cap & len & Hc & Hb & Hle).
  pose proof (capacity_range _ _ _ Hc) as Hv.
  destruct (default_level_cap _ _ _ Hc) as (_ & Heff & _).
  rewrite spec_fits_unfold, Heff.
  rewrite (bit_length_spec _ _ _ _ Hv Hwf) in Hb.
  destruct (all_available v segs); [|discriminate Hb]. apply Ok_inj in Hb.
  apply capacity_ok_iff in Hc. rewrite Hc. cbn [andb]. lia.
Qed.

(* ------------------------------------------------------------------ *)
(* 6. encode, step by step                                             *)
(* ------------------------------------------------------------------ *)
Definition in_micro (v : option Z) : bool :=
  match v with Some x => memZ x MICRO_VERSIONS | None => false end.
Definition mode_check (mode version : option Z) : res unit :=
  match mode, version with
  | Some m, Some v => do b <- is_mode_supported m v; if b then Ok tt else Err ValueError
  | _, _ => Ok tt end.
Definition pick_version (version : option Z) (guessed : Z) : res Z :=
  match version with None => Ok guessed | Some v => if v <? guessed then Err DataOverflow else Ok v end.

Lemma encode_unfold parts error version mode mask eci micro boost :
  encode parts error version mode mask eci micro boost =
  if (match micro with Some false => true | _ => false end) && in_micro version then Err ValueError else
  if otruthy micro && (match version with Some x => negb (memZ x MICRO_VERSIONS) | None => false end)
  then Err ValueError else
  do _ <- mode_check mode version;
  if oz_eqb error (Some ERROR_LEVEL_H) && (otruthy micro || in_micro version) then Err ValueError else
  if eci && (otruthy micro || in_micro version) then Err ValueError else
  do segs <- prepare_data parts;
  do guessed <- find_version segs error eci micro false;
  do v <- pick_version version guessed;
  do cap <- capacity v (default_level error v);
  do len <- bit_length_with_overhead segs v eci false;
  if cap <? len then Err DataOverflow else
  do mk <- normalize_mask_int mask (v <? 1);
  encode_core segs (default_level error v) v mk eci boost None.
Proof. reflexivity. Qed.

(* everything a successful run of encode went through *)
Record run (parts : list part) (error version mode mask : option Z) (eci : bool) (micro : option bool)
           (boost : bool) (k : code) (segs : list segment) (g v : Z) (mk : option Z) : Prop := {
  r_c1 : (match micro with Some false => true | _ => false end) && in_micro version = false;
  r_c2 : otruthy micro && (match version with Some x => negb (memZ x MICRO_VERSIONS) | None => false end) = false;
  r_mode : mode_check mode version = Ok tt;
  r_c4 : oz_eqb error (Some ERROR_LEVEL_H) && (otruthy micro || in_micro version) = false;
  r_c5 : eci && (otruthy micro || in_micro version) = false;
  r_segs : prepare_data parts = Ok segs;
  r_guess : find_version segs error eci micro false = Ok g;
  r_pick : pick_version version g = Ok v;
  r_fits : fits_at segs v eci (default_level error v);
  r_mask : normalize_mask_int mask (v <? 1) = Ok mk;
  r_core : encode_core segs (default_level error v) v mk eci boost None = Ok k
}.

Lemma encode_inv parts error version mode mask eci micro boost k :
  encode parts error version mode mask eci micro boost = Ok k ->
  exists segs g v mk, run parts error version mode mask eci micro boost k segs g v mk.
Proof.
  rewrite encode_unfold. intros H.
  destruct ((match micro with Some false => true | _ => false end) && in_micro version) eqn:C1; [discriminate H|].
  destruct (otruthy micro && (match version with Some x => negb (memZ x MICRO_VERSIONS) | None => false end)) eqn:C2;
    [discriminate H|].
  apply bind_ok in H. destruct H as ([] & Hmode & H).
  destruct (oz_eqb error (Some ERROR_LEVEL_H) && (otruthy micro || in_micro version)) eqn:C4; [discriminate H|].
  destruct (eci && (otruthy micro || in_micro version)) eqn:C5; [discriminate H|].
  apply bind_ok in H. destruct H as (segs & Hsegs & H).
  apply bind_ok in H. destruct H as (g & Hg & H).
  apply bind_ok in H. destruct H as (v & Hv & H).
  apply bind_ok in H. destruct H as (cap & Hcap & H).
  apply bind_ok in H. destruct H as (len & Hlen & H).
  destruct (cap <? len) eqn:Hcl; [discriminate H|].
  apply bind_ok in H. destruct H as (mk & Hmk & H).
  exists segs, g, v, mk. constructor; try assumption.
  exists cap, len. repeat split; try assumption. lia.
Qed.

(* the parts of a successful encode_core *)
Lemma encode_core_inv segs e1 v mk eci boost k :
  encode_core segs e1 v mk eci boost None = Ok k ->
  exists e',
    (if boost then boost_error_level v e1 segs eci false else Ok e1) = Ok e' /\
    c_version k = v /\ c_error k = e' /\ c_segments k = segs /\
    match mk with Some m => c_mask k = m | None => 0 <= c_mask k < (if v <? 1 then 4 else 8) end /\
    encode_core segs e' v (Some (c_mask k)) eci false None = Ok k.
Proof.
  intros H. unfold encode_core in H. cbv zeta in H.
  apply bind_ok in H. destruct H as (e' & He & H).
  apply bind_ok in H. destruct H as (buff & Hds & H).
  apply bind_ok in H. destruct H as (final & Hfin & H).
  apply bind_ok in H. destruct H as (m1 & H1 & H).
  apply bind_ok in H. destruct H as (m2 & H2 & H).
  apply bind_ok in H. destruct H as (m3 & H3 & H).
  apply bind_ok in H. destruct H as ([mask' m4] & H4 & H).
  apply bind_ok in H. destruct H as (m5 & H5 & H).
  apply bind_ok in H. destruct H as (m6 & H6 & H).
  apply Ok_inj in H. subst k. cbn [c_matrix c_version c_error c_mask c_segments].
  exists e'. split; [exact He|]. repeat split.
  - destruct (find_best_mask_shape _ _ _ _ _ H4) as (fm & _ & _ & Hr). destruct mk as [m|].
    + unfold find_and_apply_best_mask in H4. apply bind_ok in H4. destruct H4 as (fm' & _ & H4).
      apply Ok_inj in H4. congruence.
    + specialize (Hr eq_refl).
      replace (calc_matrix_size v <? 21) with (v <? 1) in Hr; [exact Hr|].
      unfold calc_matrix_size. destruct (0 <? v) eqn:E; lia.
  - unfold encode_core. cbv zeta. cbn [bind]. rewrite Hds. cbn [bind]. rewrite Hfin. cbn [bind].
    rewrite H1. cbn [bind]. rewrite H2. cbn [bind]. rewrite H3. cbn [bind].
    destruct (find_best_mask_shape _ _ _ _ _ H4) as (fm & Hfm & Hm4 & _).
    unfold find_and_apply_best_mask. rewrite Hfm. cbn [bind]. rewrite <- Hm4.
    rewrite H5. cbn [bind]. rewrite H6. cbn [bind]. reflexivity.
Qed.

(* what is known about the chosen (version, level) after a successful run *)
Lemma run_facts parts error version mode mask eci micro boost k segs g v mk :
  run parts error version mode mask eci micro boost k segs g v mk ->
  Forall wf_seg segs /\ c_version k = v /\ c_segments k = segs /\
  (if boost then boost_error_level v (default_level error v) segs eci false else Ok (default_level error v))
    = Ok (c_error k) /\
  fits_at segs v eci (c_error k) /\
  admissible micro eci (c_error k) v /\
  match mk with Some m => c_mask k = m | None => 0 <= c_mask k < (if v <? 1 then 4 else 8) end /\
  encode_core segs (c_error k) v (Some (c_mask k)) eci false None = Ok k.
Proof.
  intros R. destruct R as [C1 C2 Hmode C4 C5 Hsegs Hg Hv Hfit Hmk Hcore].
  destruct (encode_core_inv _ _ _ _ _ _ _ Hcore) as (e' & He & Hkv & Hke & Hks & Hkm & Hfix).
  subst e'.
  assert (Hwf : Forall wf_seg segs).
  { destruct Hfit as (cap & len & _ & Hb & _). apply (prepare_data_wf _ _ _ _ _ _ Hsegs Hb). }
  assert (Hfit' : fits_at segs v eci (c_error k)).
  { destruct boost; [apply (boost_keeps_fit _ _ _ _ _ He Hfit)|apply Ok_inj in He; rewrite <- He; exact Hfit]. }
  split; [exact Hwf|]. split; [exact Hkv|]. split; [exact Hks|]. split; [exact He|].
  split; [exact Hfit'|]. split; [|split; assumption].
  destruct Hfit' as (cap & len & Hcap & _ & _).
  pose proof (capacity_range _ _ _ Hcap) as Hr.
  destruct (default_level_cap _ _ _ Hcap) as (_ & _ & HM1).
  unfold admissible. split; [exact Hr|].
  destruct version as [v0|]; cbn [pick_version] in Hv.
  - (* the version was requested: the argument checks of encode *)
    destruct (v0 <? g); [discriminate Hv|]. apply Ok_inj in Hv. subst v0.
    cbn [in_micro] in C1, C4, C5. rewrite (memZ_micro v ltac:(lia)) in C1, C2, C4, C5.
    split; [|split; [|exact HM1]].
    + intros Hle. assert (E : v <=? 0 = true) by lia. rewrite E in C1, C5.
      rewrite orb_true_r, andb_true_r in C5. split; [|exact C5].
      intros ->. discriminate C1.
    + intros Hge. assert (E : v <=? 0 = false) by lia. rewrite E in C2. cbn [negb] in C2.
      rewrite andb_true_r in C2. intros ->. discriminate C2.
  - (* the version was found by find_version *)
    apply Ok_inj in Hv. subst g.
    destruct (find_version_adm _ _ _ _ _ _ Hwf Hg) as (_ & Hm & Hq & _).
    split; [exact Hm|]. split; [exact Hq|exact HM1].
Qed.

(* ------------------------------------------------------------------ *)
(* 7. idempotence                                                      *)
(* ------------------------------------------------------------------ *)
(* Hypothesis [Hmode] (only needed when the first run did not request a version but did pass a global
   [mode]): encode() rejects a (mode, version) pair that is_mode_supported refuses, and this test is only
   performed when a version is requested.  The segments come from [parts], whose items may carry their own
   mode; a global mode that no item uses is ignored by the first run but checked by the second one - see
   [idem_counterexample] below.  With an explicit version in the first run, or no global mode, or a
   global mode that some part actually uses ([encode_idempotent_parts]), the hypothesis holds by itself. *)
Theorem encode_idempotent_eq : forall parts error version mode mask eci micro boost k,
  encode parts error version mode mask eci micro boost = Ok k ->
  (version = None -> forall m, mode = Some m -> is_mode_supported m (c_version k) = Ok true) ->
  encode parts (c_error k) (Some (c_version k)) mode (Some (c_mask k)) eci micro false = Ok k.
Proof.
  intros parts error version mode mask eci micro boost k H Hmode.
  destruct (encode_inv _ _ _ _ _ _ _ _ _ H) as (segs & g & v & mk & R).
  destruct (run_facts _ _ _ _ _ _ _ _ _ _ _ _ _ R) as (Hwf & Hkv & Hks & Hboost & Hfit & Hadm & Hkm & Hfix).
  destruct R as [C1 C2 Hmc C4 C5 Hsegs Hg Hv _ Hmk _].
  rewrite Hkv in *. clear Hkv.
  set (e' := c_error k) in *. set (mk' := c_mask k) in *.
  destruct Hadm as (Hr & Hm & Hq & HM1).
  pose proof Hfit as (cap & len & Hcap & Hlen & Hle).
  rewrite encode_unfold. cbn [in_micro]. rewrite (memZ_micro v ltac:(lia)).
  (* check 1: micro=False with a Micro version *)
  assert (E1 : (match micro with Some false => true | _ => false end) && (v <=? 0) = false).
  { destruct (v <=? 0) eqn:E; [|apply andb_false_r]. destruct (Hm ltac:(lia)) as [Hmic _].
    destruct micro as [[|]|]; try reflexivity. congruence. }
  rewrite E1.
  (* check 2: micro=True with a QR version *)
  assert (E2 : otruthy micro && negb (v <=? 0) = false).
  { destruct (v <=? 0) eqn:E; [apply andb_false_r|]. assert (Hmic : micro <> Some true) by (apply Hq; lia).
    destruct micro as [[|]|]; try reflexivity. congruence. }
  rewrite E2.
  (* check 3: mode supported by the version *)
  assert (E3 : mode_check mode (Some v) = Ok tt).
  { destruct version as [v0|].
    - cbn [pick_version] in Hv. destruct (v0 <? g); [discriminate Hv|]. apply Ok_inj in Hv. subst v0. exact Hmc.
    - destruct mode as [m|]; [|reflexivity]. cbn [mode_check]. rewrite (Hmode eq_refl m eq_refl). reflexivity. }
  rewrite E3. cbn [bind].
  (* check 4: H in a Micro symbol - the level used has a capacity entry, H has none for Micro *)
  assert (E4 : oz_eqb e' (Some ERROR_LEVEL_H) && (otruthy micro || (v <=? 0)) = false).
  { destruct (oz_eqb e' (Some ERROR_LEVEL_H)) eqn:E; [|reflexivity]. cbn [andb].
    apply oz_eqb_true in E. rewrite E in Hcap. apply capacity_H in Hcap.
    assert (Hmic : micro <> Some true) by (apply Hq; lia).
    assert (E0 : v <=? 0 = false) by lia. rewrite E0, orb_false_r.
    destruct micro as [[|]|]; try reflexivity. congruence. }
  rewrite E4.
  (* check 5: ECI in a Micro symbol *)
  assert (E5 : eci && (otruthy micro || (v <=? 0)) = false).
  { destruct eci; [|reflexivity]. cbn [andb].
    destruct (v <=? 0) eqn:E0; [destruct (Hm ltac:(lia)) as [_ He]; discriminate He|].
    assert (Hmic : micro <> Some true) by (apply Hq; lia). rewrite orb_false_r.
    destruct micro as [[|]|]; try reflexivity. congruence. }
  rewrite E5.
  rewrite Hsegs. cbn [bind].
  (* the version found for the level e' is not above v *)
  destruct (find_version_le segs error e' eci micro false g v Hwf Hg
              (conj Hr (conj Hm (conj Hq HM1))) (fits_spec _ _ _ _ Hwf Hfit)) as (g' & Hg' & Hle').
  rewrite Hg'. cbn [bind pick_version].
  assert (E6 : v <? g' = false) by lia. rewrite E6. cbn [bind].
  destruct (default_level_cap _ _ _ Hcap) as (Hdef & _ & _). rewrite Hdef.
  rewrite Hcap. cbn [bind]. rewrite Hlen. cbn [bind].
  assert (E7 : cap <? len = false) by lia. rewrite E7.
  (* the mask is in range *)
  assert (E8 : normalize_mask_int (Some mk') (v <? 1) = Ok (Some mk')).
  { unfold normalize_mask_int. destruct mk as [m|].
    - unfold normalize_mask_int in Hmk. destruct mask as [m0|]; [|discriminate Hmk].
      destruct ((0 <=? m0) && (m0 <? (if v <? 1 then 4 else 8))) eqn:Em; [|discriminate Hmk].
      apply Ok_inj in Hmk. injection Hmk as Hmm. subst m0. rewrite Hkm, Em. reflexivity.
    - assert (E : (0 <=? mk') && (mk' <? (if v <? 1 then 4 else 8)) = true) by (destruct (v <? 1); lia).
      rewrite E. reflexivity. }
  rewrite E8. cbn [bind]. exact Hfix.
Qed.
Print Assumptions encode_idempotent_eq.

Theorem encode_idempotent : forall parts error version mode mask eci micro boost k,
  encode parts error version mode mask eci micro boost = Ok k ->
  (version = None -> forall m, mode = Some m -> is_mode_supported m (c_version k) = Ok true) ->
  exists k', encode parts (c_error k) (Some (c_version k)) mode (Some (c_mask k)) eci micro false = Ok k'
             /\ c_matrix k' = c_matrix k /\ c_version k' = c_version k /\ c_error k' = c_error k
             /\ c_mask k' = c_mask k.
Proof.
  intros parts error version mode mask eci micro boost k H Hmode. exists k.
  split; [apply (encode_idempotent_eq _ _ _ _ _ _ _ _ _ H Hmode)|]. repeat split.
Qed.
Print Assumptions encode_idempotent.

(* the hypothesis is necessary: if the second run succeeds, the mode test passed *)
Theorem encode_idempotent_mode_needed : forall parts e v mode mask eci micro boost k' m,
  encode parts e (Some v) mode mask eci micro boost = Ok k' -> mode = Some m ->
  is_mode_supported m v = Ok true.
Proof.
  intros parts e v mode mask eci micro boost k' m H ->.
  destruct (encode_inv _ _ _ _ _ _ _ _ _ H) as (segs & g & v' & mk & R).
  destruct R as [_ _ Hmc _ _ _ _ _ _ _ _]. cbn [mode_check] in Hmc.
  destruct (is_mode_supported m v) as [[|]|x]; cbn [bind] in Hmc; [reflexivity|discriminate Hmc|discriminate Hmc].
Qed.

Print Assumptions encode_idempotent_mode_needed.

(* ---- the hypothesis from the shape of the arguments ---- *)
Lemma make_segment_mode c m encoding s : make_segment c (Some m) encoding = Ok s -> s_mode s = m.
Proof.
  unfold make_segment. intros H.
  destruct (data_to_bytes c _) as [[data senc]|e]; [|discriminate H].
  cbn [bind] in H.
  match type of H with context [bind ?X _] =>
    match X with (if _ then _ else _) => destruct X as [smode|e] eqn:EX end end; [|discriminate H].
  cbn [bind] in H.
  match type of EX with (if ?b then _ else _) = _ => destruct b end; [discriminate EX|].
  apply Ok_inj in EX. subst smode.
  match type of H with (if ?b then _ else _) = _ => destruct b end; [discriminate H|].
  apply bind_ok in H. destruct H as (bs & _ & H). apply Ok_inj in H. subst s. reflexivity.
Qed.

Lemma add_segment_modes acc s x :
  In x (seg_modes acc) \/ x = s_mode s -> In x (seg_modes (add_segment acc s)).
Proof.
  destruct acc as [|prev rest]; cbn [add_segment].
  - intros [[]| ->]. left. reflexivity.
  - destruct ((s_mode prev =? s_mode s) && oenc_eqb (s_enc prev) (s_enc s)
              && (s_count prev mod merge_group (s_mode s) =? 0)) eqn:Hc.
    + apply andb_prop in Hc. destruct Hc as [Hc _]. apply andb_prop in Hc. destruct Hc as [Hmode _].
      assert (Em : s_mode prev = s_mode s) by lia.
      unfold seg_modes. cbn [map s_mode In]. rewrite Em. intros [[<-|Hin]| ->]; auto.
    + unfold seg_modes. cbn [map In]. intros [Hin| ->]; auto.
Qed.

Lemma prepare_aux_modes : forall parts acc segs x,
  prepare_aux parts acc = Ok segs -> In x (seg_modes acc) -> In x (seg_modes segs).
Proof.
  induction parts as [|p r IH]; intros acc segs x H Hin; cbn [prepare_aux] in H.
  - apply Ok_inj in H. subst segs. unfold seg_modes in *. rewrite map_rev. apply in_rev.
    rewrite rev_involutive. exact Hin.
  - apply bind_ok in H. destruct H as (s & Hs & H). apply (IH _ _ _ H).
    apply add_segment_modes. left. exact Hin.
Qed.

Lemma prepare_aux_part_mode : forall parts acc segs p m,
  prepare_aux parts acc = Ok segs -> In p parts -> p_mode p = Some m -> In m (seg_modes segs).
Proof.
  induction parts as [|q r IH]; intros acc segs p m H Hin Hm; [destruct Hin|].
  cbn [prepare_aux] in H. apply bind_ok in H. destruct H as (s & Hs & H).
  destruct Hin as [->|Hin].
  - rewrite Hm in Hs. apply make_segment_mode in Hs.
    apply (prepare_aux_modes _ _ _ _ H). apply add_segment_modes. right. symmetry. exact Hs.
  - apply (IH _ _ _ _ H Hin Hm).
Qed.

Lemma supported_available_all :
  forallb (fun v => forallb (fun m =>
     match is_mode_supported m v with Ok b => Bool.eqb b (mode_available m v) | Err _ => false end)
     [1; 2; 4; 8; 13]) (zrange (-3) 41) = true.
Proof. vm_compute. reflexivity. Qed.

Lemma supported_available m v : valid_mode m -> -3 <= v <= 40 ->
  is_mode_supported m v = Ok (mode_available m v).
Proof.
  intros Hm Hv. pose proof supported_available_all as Hall. rewrite forallb_forall in Hall.
  assert (Hin : In v (zrange (-3) 41)) by (apply zrange_In; lia).
  specialize (Hall v Hin). cbv beta in Hall. rewrite forallb_forall in Hall.
  apply valid_mode_In in Hm. specialize (Hall m Hm). cbv beta in Hall.
  destruct (is_mode_supported m v) as [b|e]; [|discriminate Hall].
  apply eqb_prop in Hall. congruence.
Qed.

(* idempotence without a semantic hypothesis: a version was requested, or no global mode was given, or
   the global mode is the mode of at least one part *)
Theorem encode_idempotent_parts : forall parts error version mode mask eci micro boost k,
  encode parts error version mode mask eci micro boost = Ok k ->
  (version <> None \/ mode = None \/ exists p, In p parts /\ p_mode p = mode) ->
  encode parts (c_error k) (Some (c_version k)) mode (Some (c_mask k)) eci micro false = Ok k.
Proof.
  intros parts error version mode mask eci micro boost k H Hshape.
  apply (encode_idempotent_eq _ _ _ _ _ _ _ _ _ H). intros -> m ->.
  destruct Hshape as [Hc|[Hc|(p & Hin & Hpm)]]; [congruence|discriminate Hc|].
  destruct (encode_inv _ _ _ _ _ _ _ _ _ H) as (segs & g & v & mk & R).
  destruct (run_facts _ _ _ _ _ _ _ _ _ _ _ _ _ R) as (Hwf & Hkv & _ & _ & Hfit & _).
  destruct R as [_ _ _ _ _ Hsegs _ _ _ _ _]. rewrite Hkv.
  destruct Hfit as (cap & len & Hcap & Hlen & _).
  pose proof (capacity_range _ _ _ Hcap) as Hr.
  pose proof (prepare_aux_part_mode _ _ _ _ _ Hsegs Hin Hpm) as Hmin.
  pose proof (bit_length_valid _ _ _ _ _ Hlen) as Hval. rewrite Forall_forall in Hval.
  rewrite (supported_available m v (Hval m Hmin) Hr). f_equal.
  rewrite (bit_length_spec _ _ _ _ Hr Hwf) in Hlen.
  destruct (all_available v segs) eqn:Hav; [|discriminate Hlen].
  unfold all_available in Hav. rewrite forallb_forall in Hav. apply (Hav m Hmin).
Qed.
Print Assumptions encode_idempotent_parts.

(* ------------------------------------------------------------------ *)
(* 8. corollaries                                                      *)
(* ------------------------------------------------------------------ *)
(* encode is a function (determinism is trivial); the useful form: the requested mask influences neither
   the version nor the level nor the segments *)
Theorem encode_version_independent_of_mask : forall parts error version mode mask1 mask2 eci micro boost k1 k2,
  encode parts error version mode mask1 eci micro boost = Ok k1 ->
  encode parts error version mode mask2 eci micro boost = Ok k2 ->
  c_version k1 = c_version k2 /\ c_error k1 = c_error k2 /\ c_segments k1 = c_segments k2.
Proof.
  intros parts error version mode mask1 mask2 eci micro boost k1 k2 H1 H2.
  destruct (encode_inv _ _ _ _ _ _ _ _ _ H1) as (segs1 & g1 & v1 & mk1 & R1).
  destruct (encode_inv _ _ _ _ _ _ _ _ _ H2) as (segs2 & g2 & v2 & mk2 & R2).
  destruct (run_facts _ _ _ _ _ _ _ _ _ _ _ _ _ R1) as (_ & Hv1 & Hs1 & Hb1 & _).
  destruct (run_facts _ _ _ _ _ _ _ _ _ _ _ _ _ R2) as (_ & Hv2 & Hs2 & Hb2 & _).
  destruct R1 as [_ _ _ _ _ Hp1 Hg1 Hk1 _ _ _]. destruct R2 as [_ _ _ _ _ Hp2 Hg2 Hk2 _ _ _].
  assert (Es : segs2 = segs1) by congruence. rewrite Es in *. clear Es.
  assert (Eg : g2 = g1) by congruence. rewrite Eg in *. clear Eg.
  assert (Ev : v2 = v1) by congruence. rewrite Ev in *. clear Ev.
  split; [congruence|]. split; [|congruence].
  rewrite Hb1 in Hb2. apply Ok_inj in Hb2. exact Hb2.
Qed.
Print Assumptions encode_version_independent_of_mask.

(* C05: boosting never changes the version (nor the segments); without boosting the level is the
   requested one, or L by default (none for M1); with boosting it is never lower *)
Theorem encode_boost_keeps_version : forall parts error version mode mask eci micro k k0,
  encode parts error version mode mask eci micro true = Ok k ->
  encode parts error version mode mask eci micro false = Ok k0 ->
  c_version k = c_version k0 /\ c_segments k = c_segments k0 /\
  c_error k0 = default_level error (c_version k0) /\
  (forall e0 e, c_error k0 = Some e0 -> c_error k = Some e -> level_rank e0 <= level_rank e) /\
  (c_error k0 = None <-> c_error k = None).
Proof.
  intros parts error version mode mask eci micro k k0 H1 H2.
  destruct (encode_inv _ _ _ _ _ _ _ _ _ H1) as (segs1 & g1 & v1 & mk1 & R1).
  destruct (encode_inv _ _ _ _ _ _ _ _ _ H2) as (segs2 & g2 & v2 & mk2 & R2).
  destruct (run_facts _ _ _ _ _ _ _ _ _ _ _ _ _ R1) as (_ & Hv1 & Hs1 & Hb1 & _).
  destruct (run_facts _ _ _ _ _ _ _ _ _ _ _ _ _ R2) as (_ & Hv2 & Hs2 & Hb2 & _).
  destruct R1 as [_ _ _ _ _ Hp1 Hg1 Hk1 _ _ _]. destruct R2 as [_ _ _ _ _ Hp2 Hg2 Hk2 _ _ _].
  assert (Es : segs2 = segs1) by congruence. rewrite Es in *. clear Es.
  assert (Eg : g2 = g1) by congruence. rewrite Eg in *. clear Eg.
  assert (Ev : v2 = v1) by congruence. rewrite Ev in *. clear Ev.
  apply Ok_inj in Hb2.
  split; [congruence|]. split; [congruence|]. split; [rewrite Hv2; symmetry; exact Hb2|].
  rewrite <- Hb2. split.
  - intros e0 e He0 He. rewrite He0, He in Hb1. apply (boost_never_lower _ _ _ _ _ _ Hb1).
  - destruct (default_level error v1) as [e0|].
    + split; [discriminate|]. intros Hn. rewrite Hn in Hb1.
      destruct (boost_some _ _ _ _ _ _ Hb1) as (x & Hx). discriminate Hx.
    + cbn [boost_error_level] in Hb1. apply Ok_inj in Hb1. rewrite <- Hb1. split; reflexivity.
Qed.
Print Assumptions encode_boost_keeps_version.

(* ------------------------------------------------------------------ *)
(* 9. examples                                                         *)
(* ------------------------------------------------------------------ *)
Definition bytes_part (bs : list Z) : part := {| p_content := PBytes bs; p_mode := None; p_enc := None |}.
Definition p12345 : list part := [bytes_part [49; 50; 51; 52; 53]].

(* "12345", everything automatic: M1, no level *)
Example ex_12345_first :
  match encode p12345 None None None None false None true with
  | Ok k => (c_version k, c_error k, c_mask k) = (-3, None, 2) | Err _ => False end.
Proof. vm_compute. reflexivity. Qed.

(* the theorem instantiated: its premises hold for "12345" ... *)
Example ex_12345_idem : exists k,
  encode p12345 None None None None false None true = Ok k /\
  encode p12345 (c_error k) (Some (c_version k)) None (Some (c_mask k)) false None false = Ok k.
Proof.
  destruct (encode p12345 None None None None false None true) as [k|e] eqn:E; [|vm_compute in E; discriminate E].
  exists k. split; [reflexivity|].
  apply (encode_idempotent_eq _ _ _ _ _ _ _ _ _ E). intros _ m Hm. discriminate Hm.
Qed.
(* ... and the conclusion by plain evaluation *)
Example ex_12345_eval :
  match encode p12345 None None None None false None true with
  | Ok k => encode p12345 (c_error k) (Some (c_version k)) None (Some (c_mask k)) false None false = Ok k
  | Err _ => False end.
Proof. vm_compute. reflexivity. Qed.

(* "HELLO WORLD", QR only, level boosted from L to Q in version 1; re-encoded with (1, Q, mask) *)
Definition p_hello : list part := [bytes_part [72; 69; 76; 76; 79; 32; 87; 79; 82; 76; 68]].
Example ex_hello_eval :
  match encode p_hello None None None None false (Some false) true with
  | Ok k => (c_version k, c_error k) = (1, Some 3) /\
            encode p_hello (c_error k) (Some (c_version k)) None (Some (c_mask k)) false (Some false) false = Ok k
  | Err _ => False end.
Proof. vm_compute. split; reflexivity. Qed.

(* subtle case (b): no level requested, Micro version M2 chosen, level boosted L -> M; the second run passes
   Some M, which removes M1 from the admissible versions, and requests M2 *)
Definition p_8digits : list part := [bytes_part [49; 50; 51; 52; 53; 54; 55; 56]].
Example ex_8digits_eval :
  match encode p_8digits None None None None false None true with
  | Ok k => (c_version k, c_error k) = (-2, Some 0) /\
            encode p_8digits (c_error k) (Some (c_version k)) None (Some (c_mask k)) false None false = Ok k
  | Err _ => False end.
Proof. vm_compute. split; reflexivity. Qed.

(* several segments, requested version M4 and mask 3 *)
Definition p_mixed : list part := [bytes_part [49; 50; 51; 52]; bytes_part [97; 98]].
Example ex_mixed_eval :
  match encode p_mixed None (Some 0) None (Some 3) false None true with
  | Ok k => (c_version k, c_error k, c_mask k, List.length (c_segments k)) = (0, Some 1, 3, 2%nat) /\
            encode p_mixed (c_error k) (Some (c_version k)) None (Some (c_mask k)) false None false = Ok k
  | Err _ => False end.
Proof. vm_compute. split; reflexivity. Qed.

(* The unrestricted statement is false.  A global mode that no part uses ("123" carries its own mode
   numeric, the global mode is hanzi) is ignored by the first run, which chooses M1; the second run
   requests M1 and fails with ValueError ("Mode hanzi is not available in version M1"). *)
Definition p123_numeric : list part :=
  [{| p_content := PBytes [49; 50; 51]; p_mode := Some MODE_NUMERIC; p_enc := None |}].
Example idem_counterexample :
  exists k, encode p123_numeric None None (Some MODE_HANZI) None false None true = Ok k /\
            (c_version k, c_error k, c_mask k) = (-3, None, 1) /\
            encode p123_numeric (c_error k) (Some (c_version k)) (Some MODE_HANZI) (Some (c_mask k)) false None false
            = Err ValueError.
Proof.
  destruct (encode p123_numeric None None (Some MODE_HANZI) None false None true) as [k|e] eqn:E;
    [|vm_compute in E; discriminate E].
  exists k. split; [reflexivity|]. vm_compute in E. apply Ok_inj in E. subst k. vm_compute. split; reflexivity.
Qed.
