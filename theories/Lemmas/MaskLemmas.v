(* Mask evaluation and mask selection (ISO/IEC 18004 7.8.3, property C06): the model of segno's
   mask_scores / evaluate_micro_mask / find_and_apply_best_mask (Model/Matrix.v) equals the independent
   ISO formulation of Ref/Spec.v, for lines and matrices of unbounded size. *)
From Coq Require Import ZArith List Bool Lia ZifyBool.
From Segno Require Import Base.PyLite Ref.MaskCond Ref.Decoder Ref.Spec Model.Bits Model.Matrix.
Import ListNotations.
Open Scope Z_scope.

(* ------------------------------------------------------------------ *)
(* 0. generic facts: sums over integer ranges and lists, skipn / nth   *)
(* ------------------------------------------------------------------ *)
(* f a + f (a+1) + ... + f (a+k-1) *)
Fixpoint zsum (f : Z -> Z) (k : nat) (a : Z) : Z :=
  match k with O => 0 | S k' => f a + zsum f k' (a + 1) end.
(* sum over a <= p < b *)
Definition rsum (f : Z -> Z) (a b : Z) : Z := zsum f (Z.to_nat (b - a)) a.
(* sum over a list *)
Definition lsum {A} (f : A -> Z) (l : list A) : Z := fold_left (fun a x => a + f x) l 0.

Lemma fold_left_ext {A B} (f g : A -> B -> A) :
  (forall a b, f a b = g a b) -> forall l a, fold_left f l a = fold_left g l a.
Proof.
  intros Hfg l. induction l as [|x l IH]; intros a; cbn [fold_left]; [reflexivity|].
  rewrite Hfg. apply IH.
Qed.

Lemma fold_left_ext_in {A B} (f g : A -> B -> A) : forall l a,
  (forall a b, In b l -> f a b = g a b) -> fold_left f l a = fold_left g l a.
Proof.
  induction l as [|x l IH]; intros a Hfg; cbn [fold_left]; [reflexivity|].
  rewrite Hfg by (left; reflexivity). apply IH. intros a' b Hb. apply Hfg. right. exact Hb.
Qed.

Lemma fold_add_acc {A} (f : A -> Z) : forall l a, fold_left (fun a x => a + f x) l a = a + lsum f l.
Proof.
  unfold lsum. induction l as [|x l IH]; intros a; cbn [fold_left]; [lia|].
  rewrite IH. rewrite (IH (0 + f x)). lia.
Qed.

Lemma lsum_nil {A} (f : A -> Z) : lsum f [] = 0.
Proof. reflexivity. Qed.
Lemma lsum_cons {A} (f : A -> Z) x l : lsum f (x :: l) = f x + lsum f l.
Proof. unfold lsum at 1. cbn [fold_left]. rewrite fold_add_acc. lia. Qed.
Lemma lsum_app {A} (f : A -> Z) l1 l2 : lsum f (l1 ++ l2) = lsum f l1 + lsum f l2.
Proof. induction l1 as [|x l1 IH]; cbn [app]; rewrite ?lsum_nil, ?lsum_cons; lia. Qed.
Lemma lsum_ext_in {A} (f g : A -> Z) l : (forall x, In x l -> f x = g x) -> lsum f l = lsum g l.
Proof.
  induction l as [|x l IH]; intros Hfg; rewrite ?lsum_nil, ?lsum_cons; [reflexivity|].
  rewrite Hfg by (left; reflexivity). rewrite IH; [reflexivity|]. intros y Hy. apply Hfg. right. exact Hy.
Qed.
Lemma lsum_add {A} (f g : A -> Z) l : lsum (fun x => f x + g x) l = lsum f l + lsum g l.
Proof. induction l as [|x l IH]; rewrite ?lsum_nil, ?lsum_cons; lia. Qed.
Lemma lsum_le {A} (f : A -> Z) c l : (forall x, In x l -> f x <= c) -> lsum f l <= c * lenZ l.
Proof.
  unfold lenZ. induction l as [|x l IH]; intros Hc; rewrite ?lsum_nil, ?lsum_cons; cbn [length]; [lia|].
  assert (H1 : f x <= c) by (apply Hc; left; reflexivity).
  assert (H2 : lsum f l <= c * Z.of_nat (length l)) by (apply IH; intros y Hy; apply Hc; right; exact Hy).
  lia.
Qed.
Lemma lsum_nonneg {A} (f : A -> Z) l : (forall x, In x l -> 0 <= f x) -> 0 <= lsum f l.
Proof.
  induction l as [|x l IH]; intros Hc; rewrite ?lsum_nil, ?lsum_cons; [lia|].
  assert (H1 : 0 <= f x) by (apply Hc; left; reflexivity).
  assert (H2 : 0 <= lsum f l) by (apply IH; intros y Hy; apply Hc; right; exact Hy).
  lia.
Qed.

Lemma fold_zrange_aux_sum (f : Z -> Z) : forall k a acc,
  fold_left (fun x p => x + f p) (zrange_aux k a) acc = acc + zsum f k a.
Proof.
  induction k as [|k IH]; intros a acc; cbn [zrange_aux fold_left zsum]; [lia|].
  rewrite IH. lia.
Qed.

Lemma zsum_ext f g : forall k a,
  (forall p, a <= p < a + Z.of_nat k -> f p = g p) -> zsum f k a = zsum g k a.
Proof.
  induction k as [|k IH]; intros a Hfg; cbn [zsum]; [reflexivity|].
  rewrite (Hfg a) by lia. rewrite (IH (a + 1)); [reflexivity|]. intros p Hp. apply Hfg. lia.
Qed.
Lemma zsum_shift f : forall k a, zsum f k (a + 1) = zsum (fun p => f (p + 1)) k a.
Proof. induction k as [|k IH]; intros a; cbn [zsum]; [reflexivity|]. rewrite IH. reflexivity. Qed.
Lemma zsum_zero f : forall k a, (forall p, a <= p < a + Z.of_nat k -> f p = 0) -> zsum f k a = 0.
Proof.
  induction k as [|k IH]; intros a Hz; cbn [zsum]; [reflexivity|].
  rewrite (Hz a) by lia. rewrite IH; [reflexivity|]. intros p Hp. apply Hz. lia.
Qed.
Lemma zsum_app f : forall k1 k2 a, zsum f (k1 + k2) a = zsum f k1 a + zsum f k2 (a + Z.of_nat k1).
Proof.
  induction k1 as [|k1 IH]; intros k2 a; cbn [zsum Nat.add].
  - replace (a + Z.of_nat 0) with a by lia. lia.
  - rewrite IH. replace (a + 1 + Z.of_nat k1) with (a + Z.of_nat (S k1)) by lia. lia.
Qed.
Lemma zsum_le f c : forall k a, (forall p, a <= p < a + Z.of_nat k -> f p <= c) -> zsum f k a <= c * Z.of_nat k.
Proof.
  induction k as [|k IH]; intros a Hc; cbn [zsum]; [lia|].
  assert (H1 : f a <= c) by (apply Hc; lia).
  assert (H2 : zsum f k (a + 1) <= c * Z.of_nat k) by (apply IH; intros p Hp; apply Hc; lia).
  lia.
Qed.
Lemma zsum_nonneg f : forall k a, (forall p, a <= p < a + Z.of_nat k -> 0 <= f p) -> 0 <= zsum f k a.
Proof.
  induction k as [|k IH]; intros a Hc; cbn [zsum]; [lia|].
  assert (H1 : 0 <= f a) by (apply Hc; lia).
  assert (H2 : 0 <= zsum f k (a + 1)) by (apply IH; intros p Hp; apply Hc; lia).
  lia.
Qed.

Lemma rsum_empty f a b : b <= a -> rsum f a b = 0.
Proof. intros H. unfold rsum. replace (Z.to_nat (b - a)) with O by lia. reflexivity. Qed.
Lemma rsum_zero f a b : (forall p, a <= p < b -> f p = 0) -> rsum f a b = 0.
Proof. intros H. unfold rsum. apply zsum_zero. intros p Hp. apply H. lia. Qed.
Lemma rsum_split f a m b : a <= m <= b -> rsum f a b = rsum f a m + rsum f m b.
Proof.
  intros H. unfold rsum.
  replace (Z.to_nat (b - a)) with (Z.to_nat (m - a) + Z.to_nat (b - m))%nat by lia.
  rewrite zsum_app. replace (a + Z.of_nat (Z.to_nat (m - a))) with m by lia. reflexivity.
Qed.
Lemma rsum_first f a b : a < b -> rsum f a b = f a + rsum f (a + 1) b.
Proof.
  intros H. unfold rsum. replace (Z.to_nat (b - a)) with (S (Z.to_nat (b - (a + 1)))) by lia.
  reflexivity.
Qed.
(* leading zero terms may be dropped, even beyond the end of the range *)
Lemma rsum_skip f a a' b :
  a <= a' -> (forall p, a <= p < a' -> p < b -> f p = 0) -> rsum f a b = rsum f a' b.
Proof.
  intros Ha Hz. destruct (Z_le_gt_dec a' b) as [Hle|Hgt].
  - rewrite (rsum_split f a a' b) by lia. rewrite (rsum_zero f a a'); [lia|].
    intros p Hp. apply Hz; lia.
  - rewrite (rsum_empty f a' b) by lia. apply rsum_zero. intros p Hp. apply Hz; lia.
Qed.

(* list facts *)
Lemma skipn_skipn_add {A} : forall a b (l : list A), skipn a (skipn b l) = skipn (b + a) l.
Proof.
  intros a b. induction b as [|b IH]; intros l; [reflexivity|].
  destruct l as [|x l]; [rewrite !skipn_nil; reflexivity|]. cbn [skipn Nat.add]. apply IH.
Qed.
Lemma nth_skipn_add {A} (d : A) : forall a k (l : list A), nth k (skipn a l) d = nth (a + k) l d.
Proof.
  induction a as [|a IH]; intros k l; [reflexivity|].
  destruct l as [|x l]; [destruct k; reflexivity|]. cbn [skipn Nat.add nth]. apply IH.
Qed.
Lemma skipn_cons_nth {A} (d : A) : forall a (l : list A),
  (a < length l)%nat -> skipn a l = nth a l d :: skipn (S a) l.
Proof.
  induction a as [|a IH]; intros l Hl; destruct l as [|x l]; cbn [length] in Hl; try lia.
  - reflexivity.
  - cbn [skipn nth]. rewrite (IH l) by lia. reflexivity.
Qed.
Lemma skipn_eq_cons {A} (d : A) : forall a (l : list A) x r,
  skipn a l = x :: r -> nth a l d = x /\ skipn (S a) l = r.
Proof.
  intros a l x r H.
  assert (Hlen : (a < length l)%nat).
  { destruct (Nat.lt_ge_cases a (length l)) as [Hlt|Hge]; [exact Hlt|].
    rewrite skipn_all2 in H by exact Hge. discriminate H. }
  rewrite (skipn_cons_nth d a l Hlen) in H. injection H as H1 H2. split; assumption.
Qed.
Lemma zrange_empty a b : b <= a -> zrange a b = [].
Proof. intros H. unfold zrange. replace (Z.to_nat (b - a)) with O by lia. reflexivity. Qed.
Lemma lenZ_nonneg {A} (l : list A) : 0 <= lenZ l.
Proof. unfold lenZ. lia. Qed.

(* ------------------------------------------------------------------ *)
(* 1. N1: adjacent modules in a line                                   *)
(* ------------------------------------------------------------------ *)
Definition n1_pts (n : Z) : Z := if 5 <=? n then 3 + (n - 5) else 0.
Definition hd_add (d : Z) (l : list Z) : list Z :=
  match l with [] => [] | n :: t => (n + d) :: t end.

Lemma runs_cons_nonempty b l : runs (b :: l) <> [].
Proof.
  cbn [runs]. destruct (runs l) as [|n t]; [discriminate|].
  destruct l as [|b' l']; [discriminate|]. destruct (Bool.eqb b b'); discriminate.
Qed.

(* the running counter [run] of the model is the head of [runs] of the remaining line, shifted *)
Lemma n1_line_aux_runs : forall l prev run,
  n1_line_aux prev run l = lsum n1_pts (hd_add (run - 1) (runs (prev :: l))).
Proof.
  assert (Hp : forall x, (if 5 <=? x then x - 2 else 0) = n1_pts x).
  { intros x. unfold n1_pts. destruct (5 <=? x); lia. }
  induction l as [|b r IH]; intros prev run.
  - cbn [n1_line_aux runs hd_add]. rewrite lsum_cons, lsum_nil, Hp.
    replace (1 + (run - 1)) with run by lia. lia.
  - cbn [n1_line_aux]. change (runs (prev :: b :: r)) with
      (match runs (b :: r), b :: r with
       | n :: t, b' :: _ => if Bool.eqb prev b' then (n + 1) :: t else 1 :: n :: t
       | _, _ => [1] end).
    destruct (runs (b :: r)) as [|n t] eqn:Hruns; [exfalso; exact (runs_cons_nonempty b r Hruns)|].
    destruct (Bool.eqb b prev) eqn:Heq.
    + apply eqb_prop in Heq. subst b. rewrite Bool.eqb_reflx.
      rewrite IH, Hruns. cbn [hd_add]. rewrite !lsum_cons.
      replace (n + (run + 1 - 1)) with (n + 1 + (run - 1)) by lia. reflexivity.
    + replace (Bool.eqb prev b) with false by (destruct prev, b; try reflexivity; discriminate Heq).
      rewrite IH, Hruns, Hp. cbn [hd_add]. rewrite !lsum_cons.
      replace (1 + (run - 1)) with run by lia. replace (n + (1 - 1)) with n by lia.
      lia.
Qed.

Theorem n1_line_is_iso : forall l, n1_line l = iso_n1_line l.
Proof.
  intros l. unfold iso_n1_line. change (fold_left _ (runs l) 0) with (lsum n1_pts (runs l)).
  destruct l as [|b r]; [reflexivity|]. cbn [n1_line]. rewrite n1_line_aux_runs.
  destruct (runs (b :: r)) as [|n t]; [reflexivity|]. cbn [hd_add].
  replace (n + (1 - 1)) with n by lia. reflexivity.
Qed.
Print Assumptions n1_line_is_iso.

(* ------------------------------------------------------------------ *)
(* 2. N3: 1:1:3:1:1 pattern with four light modules on one side        *)
(* ------------------------------------------------------------------ *)
(* the pattern starts at position p of the line *)
Definition pat_at (l : list bool) (p : Z) : bool := starts_with n3_pattern (skipn (Z.to_nat p) l).

Lemma starts_with_app : forall p s, starts_with p s = true -> s = p ++ skipn (length p) s.
Proof.
  induction p as [|a p IH]; intros s H; [reflexivity|].
  destruct s as [|b s]; cbn [starts_with] in H; [discriminate H|].
  apply andb_prop in H. destruct H as [Hab Hrest]. apply eqb_prop in Hab. subst b.
  cbn [length skipn app]. f_equal. apply IH. exact Hrest.
Qed.

(* (a) two occurrences of 1011101 cannot start at distance 1, 2 or 3 *)
Lemma n3_no_overlap s k : (1 <= k <= 3)%nat ->
  starts_with n3_pattern s = true -> starts_with n3_pattern (skipn k s) = false.
Proof.
  intros Hk H. apply starts_with_app in H. rewrite H.
  destruct k as [|[|[|[|k]]]]; try lia; reflexivity.
Qed.

Lemma starts_with_n3_nth s :
  starts_with n3_pattern s =
  nth 0 s false && negb (nth 1 s false) && nth 2 s false && nth 3 s false && nth 4 s false
  && negb (nth 5 s false) && nth 6 s false.
Proof.
  unfold n3_pattern.
  destruct s as [|b0 [|b1 [|b2 [|b3 [|b4 [|b5 [|b6 r]]]]]]];
    repeat match goal with b : bool |- _ => destruct b end; reflexivity.
Qed.

Lemma at_skipn l p k : 0 <= p -> at_ l (p + Z.of_nat k) = nth k (skipn (Z.to_nat p) l) false.
Proof.
  intros Hp. unfold at_. rewrite nth_skipn_add. f_equal. lia.
Qed.

Lemma pat_at_iso l p : 0 <= p ->
  pat_at l p = at_ l p && negb (at_ l (p + 1)) && at_ l (p + 2) && at_ l (p + 3) && at_ l (p + 4)
               && negb (at_ l (p + 5)) && at_ l (p + 6).
Proof.
  intros Hp. unfold pat_at. rewrite starts_with_n3_nth.
  rewrite <- (at_skipn l p 0), <- (at_skipn l p 1), <- (at_skipn l p 2), <- (at_skipn l p 3),
          <- (at_skipn l p 4), <- (at_skipn l p 5), <- (at_skipn l p 6) by exact Hp.
  replace (p + Z.of_nat 0) with p by lia. reflexivity.
Qed.

Lemma pat_at_fits l p : 0 <= p -> pat_at l p = true -> p + 7 <= lenZ l.
Proof.
  intros Hp H. unfold pat_at in H. apply starts_with_app in H.
  apply (f_equal (@length bool)) in H. rewrite skipn_length, app_length in H.
  unfold lenZ. cbn [n3_pattern length] in H. lia.
Qed.

Lemma pat_at_no_overlap l p k : 0 <= p -> 1 <= k <= 3 -> pat_at l p = true -> pat_at l (p + k) = false.
Proof.
  intros Hp Hk H. unfold pat_at in *.
  replace (Z.to_nat (p + k)) with (Z.to_nat p + Z.to_nat k)%nat by lia.
  rewrite <- skipn_skipn_add. apply n3_no_overlap; [lia|exact H].
Qed.

(* seq.find *)
Lemma find_from_spec : forall s pos,
  match find_from s pos with
  | None => forall k, starts_with n3_pattern (skipn k s) = false
  | Some idx => exists k, idx = pos + Z.of_nat k /\ starts_with n3_pattern (skipn k s) = true
                          /\ forall k', (k' < k)%nat -> starts_with n3_pattern (skipn k' s) = false
  end.
Proof.
  induction s as [|a r IH]; intros pos.
  - cbn [find_from]. intros k. rewrite skipn_nil. reflexivity.
  - cbn [find_from]. destruct (starts_with n3_pattern (a :: r)) eqn:Hsw.
    + exists O. split; [lia|]. split; [exact Hsw|]. intros k' Hk'. lia.
    + specialize (IH (pos + 1)). destruct (find_from r (pos + 1)) as [idx|].
      * destruct IH as [k [Hidx [Hm Hlt]]]. exists (S k). split; [lia|]. split; [exact Hm|].
        intros k' Hk'. destruct k' as [|k']; [exact Hsw|]. cbn [skipn]. apply Hlt. lia.
      * intros k. destruct k as [|k]; [exact Hsw|]. cbn [skipn]. apply IH.
Qed.

Lemma find_from_Z l start : 0 <= start ->
  match find_from (skipn (Z.to_nat start) l) start with
  | None => forall p, start <= p -> pat_at l p = false
  | Some idx => start <= idx /\ pat_at l idx = true /\ forall p, start <= p < idx -> pat_at l p = false
  end.
Proof.
  intros Hs. pose proof (find_from_spec (skipn (Z.to_nat start) l) start) as H.
  destruct (find_from (skipn (Z.to_nat start) l) start) as [idx|].
  - destruct H as [k [Hidx [Hm Hlt]]]. rewrite skipn_skipn_add in Hm.
    split; [lia|]. split.
    + unfold pat_at. replace (Z.to_nat idx) with (Z.to_nat start + k)%nat by lia. exact Hm.
    + intros p Hp. unfold pat_at.
      specialize (Hlt (Z.to_nat (p - start))). rewrite skipn_skipn_add in Hlt.
      replace (Z.to_nat p) with (Z.to_nat start + Z.to_nat (p - start))%nat by lia. apply Hlt. lia.
  - intros p Hp. unfold pat_at. specialize (H (Z.to_nat (p - start))). rewrite skipn_skipn_add in H.
    replace (Z.to_nat p) with (Z.to_nat start + Z.to_nat (p - start))%nat by lia. exact H.
Qed.

(* (b) l[a:b] has no dark module  <->  all positions a <= k < b are light *)
Lemma slice_light_aux l : forall k a, (a + k <= length l)%nat ->
  negb (any_dark (firstn k (skipn a l))) =
  forallb (fun z => negb (at_ l z)) (zrange_aux k (Z.of_nat a)).
Proof.
  unfold any_dark. induction k as [|k IH]; intros a Hlen; [reflexivity|].
  rewrite (skipn_cons_nth false a l) by lia. cbn [firstn existsb zrange_aux forallb].
  rewrite negb_orb. rewrite (IH (S a)) by lia. unfold at_ at 2. rewrite Nat2Z.id.
  replace (Z.of_nat a + 1) with (Z.of_nat (S a)) by lia. reflexivity.
Qed.
Lemma slice_light l a b : 0 <= a <= b -> b <= lenZ l ->
  negb (any_dark (slice l a b)) = forallb (fun z => negb (at_ l z)) (zrange a b).
Proof.
  intros Hab Hb. unfold slice, zrange, lenZ in *.
  rewrite (slice_light_aux l (Z.to_nat (b - a)) (Z.to_nat a)) by lia.
  rewrite Z2Nat.id by lia. reflexivity.
Qed.

(* the condition under which the ISO formulation scores position p *)
Definition n3_cond (l : list bool) (p : Z) : bool :=
  at_ l p && negb (at_ l (p + 1)) && at_ l (p + 2) && at_ l (p + 3) && at_ l (p + 4)
  && negb (at_ l (p + 5)) && at_ l (p + 6)
  && (all_light l (p - 4) p || all_light l (p + 7) (p + 11)).
Definition n3_w (l : list bool) (p : Z) : Z := if n3_cond l p then 40 else 0.

Lemma n3_w_no_pat l p : 0 <= p -> pat_at l p = false -> n3_w l p = 0.
Proof.
  intros Hp H. unfold n3_w, n3_cond. rewrite <- pat_at_iso by exact Hp. rewrite H. reflexivity.
Qed.

Lemma n3_hit_is_cond l idx : 0 <= idx -> pat_at l idx = true ->
  (idx =? 0) || (idx =? lenZ l - 7)
  || negb (any_dark (slice l (Z.max (idx - 4) 0) (Z.min idx (lenZ l))))
  || negb (any_dark (slice l (Z.max (idx + 7) 0) (Z.min (idx + 7 + 4) (lenZ l))))
  = n3_cond l idx.
Proof.
  intros Hidx Hpat. pose proof (pat_at_fits l idx Hidx Hpat) as Hfit.
  unfold n3_cond. rewrite <- pat_at_iso by exact Hidx. rewrite Hpat. cbn [andb].
  unfold all_light. rewrite !slice_light by lia.
  replace (idx + 7 + 4) with (idx + 11) by lia.
  destruct (idx =? 0) eqn:H0.
  { rewrite (zrange_empty (Z.max (idx - 4) 0)) by lia. reflexivity. }
  destruct (idx =? lenZ l - 7) eqn:H7.
  { rewrite (zrange_empty (Z.max (idx + 7) 0)) by lia.
    cbn [orb forallb]. rewrite orb_true_r. reflexivity. }
  reflexivity.
Qed.

(* (c) the search loop computes the sum over all positions *)
Lemma n3_loop_sum l : forall fuel start,
  0 <= start -> lenZ l - start < Z.of_nat fuel ->
  n3_loop fuel l (lenZ l) start = rsum (n3_w l) start (lenZ l - 6).
Proof.
  induction fuel as [|f IH]; intros start Hs Hfuel.
  - cbn [n3_loop]. rewrite rsum_empty by lia. reflexivity.
  - cbn [n3_loop]. pose proof (find_from_Z l start Hs) as Hfind.
    destruct (find_from (skipn (Z.to_nat start) l) start) as [idx|].
    + destruct Hfind as [Hle [Hpat Hnone]].
      assert (Hidx : 0 <= idx) by lia.
      pose proof (pat_at_fits l idx Hidx Hpat) as Hfit.
      cbv zeta. rewrite (n3_hit_is_cond l idx Hidx Hpat).
      rewrite IH by lia.
      rewrite (rsum_skip (n3_w l) start idx (lenZ l - 6)); [|lia|].
      2:{ intros p Hp _. apply n3_w_no_pat; [lia|]. apply Hnone. lia. }
      rewrite (rsum_first (n3_w l) idx) by lia.
      rewrite (rsum_skip (n3_w l) (idx + 1) (idx + 4) (lenZ l - 6)); [|lia|].
      2:{ intros p Hp _. apply n3_w_no_pat; [lia|].
          replace p with (idx + (p - idx)) by lia. apply pat_at_no_overlap; [lia|lia|exact Hpat]. }
      reflexivity.
    + rewrite rsum_zero; [reflexivity|]. intros p Hp. apply n3_w_no_pat; [lia|]. apply Hfind. lia.
Qed.

Lemma fold_if40 (c : Z -> bool) : forall l acc,
  fold_left (fun a p => if c p then a + 40 else a) l acc = acc + lsum (fun p => if c p then 40 else 0) l.
Proof.
  intros l acc. rewrite <- fold_add_acc. apply fold_left_ext. intros a p. destruct (c p); lia.
Qed.

Lemma iso_n3_line_rsum l : iso_n3_line l = rsum (n3_w l) 0 (lenZ l - 6).
Proof.
  unfold iso_n3_line. cbv zeta.
  change (fold_left _ (zrange 0 (lenZ l - 6)) 0)
    with (fold_left (fun a p => if n3_cond l p then a + 40 else a) (zrange 0 (lenZ l - 6)) 0).
  rewrite fold_if40. unfold lsum, zrange, rsum. rewrite fold_zrange_aux_sum. reflexivity.
Qed.

Theorem n3_line_is_iso : forall l, n3_line (lenZ l) l = iso_n3_line l.
Proof.
  intros l. rewrite iso_n3_line_rsum. unfold n3_line. apply n3_loop_sum; [lia | unfold lenZ; lia].
Qed.
Print Assumptions n3_line_is_iso.

(* the line 0000 1011101 1101 0000: two occurrences at distance 4, both counted *)
Definition overlap_line : list bool :=
  [false; false; false; false; true; false; true; true; true; false; true;
   true; true; false; true; false; false; false; false].
Example overlap_line_model : n3_line (lenZ overlap_line) overlap_line = 80.
Proof. vm_compute. reflexivity. Qed.
Example overlap_line_iso : iso_n3_line overlap_line = 80.
Proof. vm_compute. reflexivity. Qed.

(* ------------------------------------------------------------------ *)
(* 3. N2: 2x2 blocks of one colour                                     *)
(* ------------------------------------------------------------------ *)
Lemma fold_ifw (c : Z -> bool) (w : Z) : forall l acc,
  fold_left (fun a p => if c p then a + w else a) l acc = acc + lsum (fun p => if c p then w else 0) l.
Proof.
  intros l acc. rewrite <- fold_add_acc. apply fold_left_ext. intros a p. destruct (c p); lia.
Qed.

(* the 2x2 block with upper left corner in column j of the row pair (r1, r2) has one colour *)
Definition blk (r1 r2 : list bool) (j : Z) : bool :=
  Bool.eqb (nth (Z.to_nat j) r1 false) (nth (Z.to_nat (j + 1)) r1 false)
  && Bool.eqb (nth (Z.to_nat j) r1 false) (nth (Z.to_nat j) r2 false)
  && Bool.eqb (nth (Z.to_nat j) r1 false) (nth (Z.to_nat (j + 1)) r2 false).

Lemma blk_shift p1 pr c1 cr j : 0 <= j -> blk (p1 :: pr) (c1 :: cr) (j + 1) = blk pr cr j.
Proof.
  intros Hj. unfold blk.
  replace (Z.to_nat (j + 1 + 1)) with (S (Z.to_nat (j + 1))) by lia.
  replace (Z.to_nat (j + 1)) with (S (Z.to_nat j)) by lia. reflexivity.
Qed.

Lemma n2_rows_zsum : forall prev cur, length prev = length cur ->
  n2_rows prev cur = zsum (fun j => if blk prev cur j then 3 else 0) (length prev - 1) 0.
Proof.
  induction prev as [|p1 pr IH]; intros cur Hlen; [reflexivity|].
  destruct cur as [|c1 cr]; [discriminate Hlen|].
  destruct pr as [|p2 pr]; [reflexivity|].
  destruct cr as [|c2 cr]; [discriminate Hlen|].
  change (n2_rows (p1 :: p2 :: pr) (c1 :: c2 :: cr))
    with ((if Bool.eqb c2 c1 && Bool.eqb c2 p2 && Bool.eqb c2 p1 then 3 else 0)
          + n2_rows (p2 :: pr) (c2 :: cr)).
  rewrite (IH (c2 :: cr)) by (cbn [length] in *; lia).
  replace (length (p1 :: p2 :: pr) - 1)%nat with (S (length (p2 :: pr) - 1)) by (cbn [length]; lia).
  cbn [zsum]. rewrite zsum_shift. f_equal.
  - assert (Hb : blk (p1 :: p2 :: pr) (c1 :: c2 :: cr) 0
                 = Bool.eqb c2 c1 && Bool.eqb c2 p2 && Bool.eqb c2 p1)
      by (destruct p1, p2, c1, c2; reflexivity).
    rewrite Hb. reflexivity.
  - apply zsum_ext. intros j Hj. rewrite blk_shift by lia. reflexivity.
Qed.

Lemma n2_all_zsum : forall rows,
  n2_all rows = zsum (fun i => n2_rows (nth (Z.to_nat i) rows []) (nth (Z.to_nat (i + 1)) rows []))
                     (length rows - 1) 0.
Proof.
  induction rows as [|r1 rest IH]; [reflexivity|].
  destruct rest as [|r2 rest]; [reflexivity|].
  change (n2_all (r1 :: r2 :: rest)) with (n2_rows r1 r2 + n2_all (r2 :: rest)).
  rewrite IH.
  replace (length (r1 :: r2 :: rest) - 1)%nat with (S (length (r2 :: rest) - 1)) by (cbn [length]; lia).
  cbn [zsum]. rewrite zsum_shift. f_equal.
  apply zsum_ext. intros i Hi.
  replace (Z.to_nat (i + 1 + 1)) with (S (Z.to_nat (i + 1))) by lia.
  replace (Z.to_nat (i + 1)) with (S (Z.to_nat i)) by lia. reflexivity.
Qed.

Lemma iso_n2_zsum rows :
  iso_n2 rows = zsum (fun i => zsum (fun j => if blk (nth (Z.to_nat i) rows []) (nth (Z.to_nat (i + 1)) rows []) j
                                              then 3 else 0) (Z.to_nat (lenZ rows - 1)) 0)
                     (Z.to_nat (lenZ rows - 1)) 0.
Proof.
  unfold iso_n2. cbv zeta.
  rewrite (fold_left_ext _
    (fun a i => a + zsum (fun j => if blk (nth (Z.to_nat i) rows []) (nth (Z.to_nat (i + 1)) rows []) j
                                   then 3 else 0) (Z.to_nat (lenZ rows - 1)) 0)).
  - unfold zrange. rewrite fold_zrange_aux_sum.
    replace (lenZ rows - 1 - 0) with (lenZ rows - 1) by lia. lia.
  - intros a i.
    change (fold_left _ (zrange 0 (lenZ rows - 1)) a)
      with (fold_left (fun a j => if blk (nth (Z.to_nat i) rows []) (nth (Z.to_nat (i + 1)) rows []) j
                                  then a + 3 else a) (zrange 0 (lenZ rows - 1)) a).
    rewrite fold_ifw. unfold lsum, zrange. rewrite fold_zrange_aux_sum.
    replace (lenZ rows - 1 - 0) with (lenZ rows - 1) by lia. lia.
Qed.

Lemma Forall_nth_len {A} (rows : list (list A)) n i :
  Forall (fun r => length r = n) rows -> (i < length rows)%nat -> length (nth i rows []) = n.
Proof. intros Hall Hi. rewrite Forall_forall in Hall. apply Hall. apply nth_In. exact Hi. Qed.

Theorem n2_is_iso : forall rows n,
  length rows = n -> Forall (fun r => length r = n) rows -> n2_all rows = iso_n2 rows.
Proof.
  intros rows n Hlen Hall. rewrite n2_all_zsum, iso_n2_zsum.
  replace (Z.to_nat (lenZ rows - 1)) with (length rows - 1)%nat by (unfold lenZ; lia).
  apply zsum_ext. intros i Hi.
  assert (H1 : length (nth (Z.to_nat i) rows []) = n) by (apply Forall_nth_len; [exact Hall|lia]).
  assert (H2 : length (nth (Z.to_nat (i + 1)) rows []) = n) by (apply Forall_nth_len; [exact Hall|lia]).
  rewrite n2_rows_zsum by lia. rewrite H1, Hlen. reflexivity.
Qed.
Print Assumptions n2_is_iso.

(* ------------------------------------------------------------------ *)
(* 4. N4: proportion of dark modules                                   *)
(* ------------------------------------------------------------------ *)
Lemma dark_count_iso rows :
  dark_count rows = fold_left (fun a r => fold_left (fun a (b : bool) => if b then a + 1 else a) r a) rows 0.
Proof.
  unfold dark_count. apply fold_left_ext. intros a r. apply fold_left_ext. intros a' b.
  unfold bit_z. destruct b; lia.
Qed.

Theorem n4_is_iso : forall rows n,
  0 < n -> lenZ rows = n -> Forall (fun r => lenZ r = n) rows ->
  n4_score n (dark_count rows) = iso_n4 rows.
Proof.
  intros rows n Hn Hlen _. unfold n4_score, iso_n4. cbv zeta. rewrite <- dark_count_iso, Hlen.
  set (d := dark_count rows). f_equal.
  replace (100 * d - 50 * (n * n)) with (5 * (20 * d - 10 * n * n)) by ring.
  rewrite Z.abs_mul. change (Z.abs 5) with 5.
  apply Z.div_mul_cancel_l; nia.
Qed.
Print Assumptions n4_is_iso.

(* ------------------------------------------------------------------ *)
(* 5. columns                                                          *)
(* ------------------------------------------------------------------ *)
Lemma hd_skipn {A} (d : A) : forall k (l : list A), hd d (skipn k l) = nth k l d.
Proof. induction k as [|k IH]; intros l; destruct l as [|x l]; try reflexivity. cbn [skipn nth]. apply IH. Qed.
Lemma tl_skipn {A} : forall k (l : list A), tl (skipn k l) = skipn (S k) l.
Proof.
  induction k as [|k IH]; intros l; destruct l as [|x l]; try reflexivity.
  cbn [skipn] in *. rewrite IH. destruct l; reflexivity.
Qed.

Lemma transpose_fuel_S f r rest : r <> [] ->
  transpose_fuel (S f) (r :: rest)
  = map (fun r => hd false r) (r :: rest) :: transpose_fuel f (map (fun r => tl r) (r :: rest)).
Proof. intros Hr. destruct r as [|x r]; [congruence|reflexivity]. Qed.

Lemma transpose_fuel_columns rows : rows <> [] -> forall f off,
  Forall (fun r => length r = (off + f)%nat) rows ->
  transpose_fuel f (map (skipn off) rows) = map (column rows) (zrange_aux f (Z.of_nat off)).
Proof.
  intros Hne. induction f as [|f IH]; intros off Hall; [reflexivity|].
  destruct rows as [|r0 rest]; [congruence|].
  assert (Hr0 : length r0 = (off + S f)%nat) by (inversion Hall; assumption).
  cbn [map]. rewrite transpose_fuel_S.
  2:{ intros Hnil. apply (f_equal (@length bool)) in Hnil. rewrite skipn_length in Hnil.
      cbn [length] in Hnil. lia. }
  change (skipn off r0 :: map (skipn off) rest) with (map (skipn off) (r0 :: rest)).
  cbn [zrange_aux].
  change (map (column (r0 :: rest)) (Z.of_nat off :: zrange_aux f (Z.of_nat off + 1)))
    with (column (r0 :: rest) (Z.of_nat off) :: map (column (r0 :: rest)) (zrange_aux f (Z.of_nat off + 1))).
  f_equal.
  - unfold column. rewrite map_map. apply map_ext. intros r. rewrite hd_skipn, Nat2Z.id. reflexivity.
  - rewrite map_map. rewrite (map_ext (fun x => tl (skipn off x)) (skipn (S off))) by (intros r; apply tl_skipn).
    rewrite IH.
    + replace (Z.of_nat (S off)) with (Z.of_nat off + 1) by lia. reflexivity.
    + eapply Forall_impl; [|exact Hall]. cbv beta. intros r Hr. lia.
Qed.

Theorem transpose_is_columns : forall rows n,
  length rows = n -> Forall (fun r => length r = n) rows -> transpose rows = columns rows.
Proof.
  intros rows n Hlen Hall. destruct rows as [|r0 rest].
  - reflexivity.
  - unfold transpose, columns. cbn [hd].
    assert (Hr0 : length r0 = n) by (inversion Hall; assumption).
    pose proof (transpose_fuel_columns (r0 :: rest) ltac:(discriminate) (length r0) O) as H.
    rewrite (map_ext (skipn 0) (fun r => r)) in H by reflexivity. rewrite map_id in H.
    rewrite H.
    + unfold zrange, lenZ. rewrite Hlen, Hr0. replace (Z.to_nat (Z.of_nat n - 0)) with n by lia. reflexivity.
    + rewrite Hr0. exact Hall.
Qed.
Print Assumptions transpose_is_columns.

Lemma column_length rows j : length (column rows j) = length rows.
Proof. unfold column. apply map_length. Qed.

(* ------------------------------------------------------------------ *)
(* 6. total scores                                                     *)
(* ------------------------------------------------------------------ *)
Lemma square_nat (rows : list (list bool)) n :
  0 <= n -> lenZ rows = n -> Forall (fun r => lenZ r = n) rows ->
  length rows = Z.to_nat n /\ Forall (fun r => length r = Z.to_nat n) rows.
Proof.
  intros Hn Hlen Hall. split; [unfold lenZ in Hlen; lia|].
  eapply Forall_impl; [|exact Hall]. cbv beta. intros r Hr. unfold lenZ in Hr. lia.
Qed.

Theorem evaluate_mask_is_iso : forall rows n,
  0 < n -> lenZ rows = n -> Forall (fun r => lenZ r = n) rows ->
  evaluate_mask n rows = iso_penalty rows.
Proof.
  intros rows n Hn Hlen Hall.
  destruct (square_nat rows n ltac:(lia) Hlen Hall) as [Hlen' Hall'].
  unfold evaluate_mask, mask_scores, iso_penalty. cbv beta iota zeta.
  rewrite (transpose_is_columns rows (Z.to_nat n) Hlen' Hall').
  rewrite (n2_is_iso rows (Z.to_nat n) Hlen' Hall'), (n4_is_iso rows n Hn Hlen Hall).
  rewrite (fold_left_ext (fun a l => a + iso_n1_line l + iso_n3_line l)
                         (fun a l => a + (iso_n1_line l + iso_n3_line l))) by (intros a l; lia).
  change (fold_left (fun a r => a + n1_line r) rows 0) with (lsum n1_line rows).
  change (fold_left (fun a r => a + n1_line r) (columns rows) 0) with (lsum n1_line (columns rows)).
  change (fold_left (fun a r => a + n3_line n r) rows 0) with (lsum (n3_line n) rows).
  change (fold_left (fun a r => a + n3_line n r) (columns rows) 0) with (lsum (n3_line n) (columns rows)).
  change (fold_left (fun a l => a + (iso_n1_line l + iso_n3_line l)) (rows ++ columns rows) 0)
    with (lsum (fun l => iso_n1_line l + iso_n3_line l) (rows ++ columns rows)).
  rewrite lsum_add, !lsum_app.
  rewrite (lsum_ext_in n1_line iso_n1_line rows) by (intros r _; apply n1_line_is_iso).
  rewrite (lsum_ext_in n1_line iso_n1_line (columns rows)) by (intros r _; apply n1_line_is_iso).
  rewrite (lsum_ext_in (n3_line n) iso_n3_line rows).
  2:{ intros r Hr. rewrite Forall_forall in Hall. rewrite <- (Hall r Hr). apply n3_line_is_iso. }
  rewrite (lsum_ext_in (n3_line n) iso_n3_line (columns rows)).
  2:{ intros c Hc. unfold columns in Hc. apply in_map_iff in Hc. destruct Hc as [j [Hj _]]. subst c.
      replace n with (lenZ (column rows j)) at 1 by (unfold lenZ; rewrite column_length; exact Hlen).
      apply n3_line_is_iso. }
  lia.
Qed.
Print Assumptions evaluate_mask_is_iso.

(* Micro QR *)
Lemma last_nth {A} (d : A) : forall l, last l d = nth (length l - 1) l d.
Proof.
  induction l as [|x l IH]; [reflexivity|].
  destruct l as [|y l]; [reflexivity|].
  change (last (x :: y :: l) d) with (last (y :: l) d). rewrite IH.
  cbn [length]. replace (S (S (length l)) - 1)%nat with (S (S (length l) - 1)) by lia. reflexivity.
Qed.

Lemma lsum_skipn_zsum {A} (f : A -> Z) (d : A) (full : list A) : forall l off,
  l = skipn off full ->
  lsum f l = zsum (fun i => f (nth (Z.to_nat i) full d)) (length l) (Z.of_nat off).
Proof.
  induction l as [|x l IH]; intros off Hl; [reflexivity|].
  symmetry in Hl. destruct (skipn_eq_cons d off full x l Hl) as [Hx Hr].
  rewrite lsum_cons. cbn [length zsum]. rewrite Nat2Z.id, Hx.
  rewrite (IH (S off)) by (symmetry; exact Hr).
  replace (Z.of_nat (S off)) with (Z.of_nat off + 1) by lia. reflexivity.
Qed.

Lemma tl_skipn1 {A} (l : list A) : tl l = skipn 1 l.
Proof. destruct l; reflexivity. Qed.

Theorem evaluate_micro_is_iso : forall rows n,
  0 < n -> lenZ rows = n -> Forall (fun r => lenZ r = n) rows ->
  evaluate_micro_mask n rows = iso_micro_score rows.
Proof.
  intros rows n Hn Hlen Hall.
  destruct (square_nat rows n ltac:(lia) Hlen Hall) as [Hlen' Hall'].
  unfold evaluate_micro_mask, iso_micro_score. cbv zeta. rewrite Hlen.
  change (fold_left (fun a r => a + bit_z (last r false)) (tl rows) 0)
    with (lsum (fun r => bit_z (last r false)) (tl rows)).
  change (fold_left (fun a b => a + bit_z b) (tl (last rows [])) 0) with (lsum bit_z (tl (last rows []))).
  assert (Hlast : last rows [] = nth (Z.to_nat (n - 1)) rows []).
  { rewrite last_nth. f_equal. lia. }
  assert (Hlastlen : length (last rows []) = Z.to_nat n).
  { rewrite Hlast. apply Forall_nth_len; [exact Hall'|lia]. }
  assert (H1 : lsum (fun r => bit_z (last r false)) (tl rows)
               = fold_left (fun a i => a + (if cell rows i (n - 1) then 1 else 0)) (zrange 1 n) 0).
  { rewrite (lsum_skipn_zsum _ [] rows (tl rows) 1 (tl_skipn1 rows)).
    unfold zrange. rewrite fold_zrange_aux_sum.
    replace (length (tl rows)) with (Z.to_nat (n - 1)) by (rewrite tl_skipn1, skipn_length; lia).
    change (Z.of_nat 1) with 1. rewrite Z.add_0_l. apply zsum_ext. intros i Hi.
    rewrite last_nth. unfold cell, bit_z.
    rewrite (Forall_nth_len rows (Z.to_nat n) (Z.to_nat i) Hall') by lia.
    replace (Z.to_nat n - 1)%nat with (Z.to_nat (n - 1)) by lia. reflexivity. }
  assert (H2 : lsum bit_z (tl (last rows []))
               = fold_left (fun a j => a + (if cell rows (n - 1) j then 1 else 0)) (zrange 1 n) 0).
  { rewrite (lsum_skipn_zsum _ false (last rows []) (tl (last rows [])) 1 (tl_skipn1 _)).
    unfold zrange. rewrite fold_zrange_aux_sum.
    replace (length (tl (last rows []))) with (Z.to_nat (n - 1)) by (rewrite tl_skipn1, skipn_length; lia).
    change (Z.of_nat 1) with 1. rewrite Z.add_0_l. apply zsum_ext. intros j Hj.
    unfold cell, bit_z. rewrite Hlast. reflexivity. }
  rewrite H1, H2. reflexivity.
Qed.
Print Assumptions evaluate_micro_is_iso.

(* ------------------------------------------------------------------ *)
(* 7. data mask predicates (ISO Table 10), unbounded coordinates       *)
(* ------------------------------------------------------------------ *)
Lemma land1 x : Z.land x 1 = x mod 2.
Proof. exact (Z.land_ones x 1 ltac:(lia)). Qed.

Theorem mask_fn_is_iso : forall (micro : bool) k i j,
  0 <= k < (if micro then 4 else 8) -> 0 <= i -> 0 <= j ->
  mask_fn micro k i j = iso_mask_for micro k i j.
Proof.
  intros micro k i j Hk _ _. destruct micro.
  - assert (Hc : k = 0 \/ k = 1 \/ k = 2 \/ k = 3) by lia.
    destruct Hc as [-> | [-> | [-> | ->]]];
      unfold mask_fn, iso_mask_for, micro_mask_index, iso_mask; cbv beta iota zeta;
      rewrite ?land1; reflexivity.
  - assert (Hc : k = 0 \/ k = 1 \/ k = 2 \/ k = 3 \/ k = 4 \/ k = 5 \/ k = 6 \/ k = 7) by lia.
    destruct Hc as [->|[->|[->|[->|[-> | [-> | [-> | ->]]]]]]];
      unfold mask_fn, iso_mask_for, micro_mask_index, iso_mask; cbv beta iota zeta;
      rewrite ?land1; reflexivity.
Qed.
Print Assumptions mask_fn_is_iso.

(* ------------------------------------------------------------------ *)
(* 8. mask selection                                                   *)
(* ------------------------------------------------------------------ *)
(* the step function of Spec.best_index *)
Definition bi_step (micro : bool) (st : option Z * Z) (ks : Z * Z) : option Z * Z :=
  let (best, bi) := st in let (k, s) := ks in
  match best with
  | None => (Some s, k)
  | Some b => if (if micro then b <? s else s <? b) then (Some s, k) else (best, bi) end.

Lemma best_index_unfold micro scs :
  best_index micro scs = snd (fold_left (bi_step micro) (combine (zrange_aux (length scs) 0) scs) (None, 0)).
Proof.
  unfold best_index, zrange. replace (Z.to_nat (lenZ scs - 0)) with (length scs) by (unfold lenZ; lia).
  reflexivity.
Qed.
Lemma bi_step_none micro bi k s : bi_step micro (None, bi) (k, s) = (Some s, k).
Proof. reflexivity. Qed.
Lemma bi_step_some micro b bi k s :
  bi_step micro (Some b, bi) (k, s) = if (if micro then b <? s else s <? b) then (Some s, k) else (Some b, bi).
Proof. reflexivity. Qed.
Lemma bi_fold_cons micro s r off st :
  fold_left (bi_step micro) (combine (zrange_aux (length (s :: r)) off) (s :: r)) st
  = fold_left (bi_step micro) (combine (zrange_aux (length r) (off + 1)) r) (bi_step micro st (off, s)).
Proof. reflexivity. Qed.

Lemma bi_fold_range micro : forall l off st,
  0 <= snd st < off ->
  0 <= snd (fold_left (bi_step micro) (combine (zrange_aux (length l) off) l) st) < off + lenZ l.
Proof.
  induction l as [|s r IH]; intros off st Hst.
  - cbn [length zrange_aux combine fold_left]. unfold lenZ. cbn [length]. lia.
  - rewrite bi_fold_cons.
    assert (Hstep : 0 <= snd (bi_step micro st (off, s)) < off + 1).
    { destruct st as [[b|] bi]; cbn [snd] in Hst.
      - rewrite bi_step_some. destruct (if micro then b <? s else s <? b); cbn [snd]; lia.
      - rewrite bi_step_none. cbn [snd]. lia. }
    specialize (IH (off + 1) _ Hstep). unfold lenZ in *. cbn [length]. lia.
Qed.

Lemma best_index_range micro scs : scs <> [] -> 0 <= best_index micro scs < lenZ scs.
Proof.
  intros Hne. destruct scs as [|s r]; [congruence|].
  rewrite best_index_unfold, bi_fold_cons, bi_step_none.
  pose proof (bi_fold_range micro r (0 + 1) (Some s, 0) ltac:(cbn [snd]; lia)) as H.
  unfold lenZ in *. cbn [length]. lia.
Qed.

Lemma nth_zrange_aux : forall n a i, (i < n)%nat -> nth i (zrange_aux n a) 0 = a + Z.of_nat i.
Proof.
  induction n as [|n IH]; intros a i Hi; [lia|].
  destruct i as [|i]; cbn [zrange_aux nth]; [lia|]. rewrite IH by lia. lia.
Qed.

Section Selection.
  Variables (size : Z) (micro : bool) (m : mat) (reg : list (Z * Z)).

  (* candidate k and its score, as computed inside find_and_apply_best_mask *)
  Definition cand (k : Z) : mat := apply_mask size m reg (mask_fn micro k).
  Definition score_of (mk : mat) : Z :=
    if micro then evaluate_micro_mask size (rows_of size mk) else evaluate_mask size (rows_of size mk).
  Definition scores (ks : list Z) : list Z := map (fun k => score_of (cand k)) ks.

  Lemma best_mask_loop_cons k r bs best :
    best_mask_loop size micro m reg (k :: r) bs best
    = if (if micro then bs <? score_of (cand k) else score_of (cand k) <? bs)
      then best_mask_loop size micro m reg r (score_of (cand k)) (Some (k, cand k))
      else best_mask_loop size micro m reg r bs best.
  Proof. reflexivity. Qed.

  (* invariant: the loop state (best score, best candidate) mirrors the state of best_index *)
  Lemma best_mask_loop_gen (full : list Z) : forall ks off bs bi,
    ks = skipn off full ->
    best_mask_loop size micro m reg ks bs (Some (nth (Z.to_nat bi) full 0, cand (nth (Z.to_nat bi) full 0)))
    = Some (nth (Z.to_nat (snd (fold_left (bi_step micro)
                                 (combine (zrange_aux (length (scores ks)) (Z.of_nat off)) (scores ks)) (Some bs, bi)))) full 0,
            cand (nth (Z.to_nat (snd (fold_left (bi_step micro)
                                 (combine (zrange_aux (length (scores ks)) (Z.of_nat off)) (scores ks)) (Some bs, bi)))) full 0)).
  Proof.
    induction ks as [|k r IH]; intros off bs bi Hks; [reflexivity|].
    symmetry in Hks. destruct (skipn_eq_cons 0 off full k r Hks) as [Hk Hr].
    rewrite best_mask_loop_cons.
    change (scores (k :: r)) with (score_of (cand k) :: scores r).
    rewrite bi_fold_cons, bi_step_some.
    replace (Z.of_nat off + 1) with (Z.of_nat (S off)) by lia.
    destruct (if micro then bs <? score_of (cand k) else score_of (cand k) <? bs).
    - pose proof (IH (S off) (score_of (cand k)) (Z.of_nat off) (eq_sym Hr)) as IH'.
      rewrite Nat2Z.id, Hk in IH'. exact IH'.
    - apply IH. symmetry. exact Hr.
  Qed.

  (* The automatic choice is the FIRST index with minimal (QR) / maximal (Micro QR) score. *)
  Theorem best_mask_loop_is_best_index (ks : list Z) :
    ks <> [] ->
    (forall s, In s (scores ks) -> if micro then 0 <= s else s < max_penalty) ->
    best_mask_loop size micro m reg ks (if micro then -1 else max_penalty) None
    = Some (nth (Z.to_nat (best_index micro (scores ks))) ks 0,
            cand (nth (Z.to_nat (best_index micro (scores ks))) ks 0)).
  Proof.
    intros Hne Hb. destruct ks as [|k0 r]; [congruence|].
    rewrite best_mask_loop_cons.
    assert (Hfirst : (if micro then (if micro then -1 else max_penalty) <? score_of (cand k0)
                      else score_of (cand k0) <? (if micro then -1 else max_penalty)) = true).
    { specialize (Hb (score_of (cand k0)) (or_introl eq_refl)). destruct micro; lia. }
    rewrite Hfirst. rewrite best_index_unfold.
    change (scores (k0 :: r)) with (score_of (cand k0) :: scores r).
    rewrite bi_fold_cons, bi_step_none.
    pose proof (best_mask_loop_gen (k0 :: r) r 1 (score_of (cand k0)) 0 eq_refl) as H.
    change (nth (Z.to_nat 0) (k0 :: r) 0) with k0 in H. exact H.
  Qed.
End Selection.
Print Assumptions best_mask_loop_is_best_index.

Lemma scores_length size micro m reg ks : length (scores size micro m reg ks) = length ks.
Proof. unfold scores. apply map_length. Qed.

(* specialisation to the candidate lists range(8) / range(4) *)
Lemma best_mask_zrange size micro m reg n :
  0 < n ->
  (forall s, In s (scores size micro m reg (zrange 0 n)) -> if micro then 0 <= s else s < max_penalty) ->
  best_mask_loop size micro m reg (zrange 0 n) (if micro then -1 else max_penalty) None
  = Some (best_index micro (scores size micro m reg (zrange 0 n)),
          cand size micro m reg (best_index micro (scores size micro m reg (zrange 0 n)))).
Proof.
  intros Hn Hb.
  assert (Hlen : length (zrange 0 n) = Z.to_nat n) by (unfold zrange; rewrite zrange_aux_length; lia).
  assert (Hne : zrange 0 n <> []).
  { intros Hnil. rewrite Hnil in Hlen. cbn [length] in Hlen. lia. }
  rewrite (best_mask_loop_is_best_index size micro m reg (zrange 0 n) Hne Hb).
  assert (Hr : 0 <= best_index micro (scores size micro m reg (zrange 0 n)) < n).
  { pose proof (best_index_range micro (scores size micro m reg (zrange 0 n))) as H.
    unfold lenZ in H. rewrite scores_length, Hlen in H.
    assert (Hne' : scores size micro m reg (zrange 0 n) <> []).
    { intros Hnil. apply (f_equal (@length Z)) in Hnil. rewrite scores_length, Hlen in Hnil.
      cbn [length] in Hnil. lia. }
    specialize (H Hne'). lia. }
  set (bi := best_index micro (scores size micro m reg (zrange 0 n))) in *.
  assert (Hnth : nth (Z.to_nat bi) (zrange 0 n) 0 = bi).
  { unfold zrange. rewrite nth_zrange_aux by lia. lia. }
  rewrite Hnth. reflexivity.
Qed.

Theorem best_mask_qr size m reg :
  (forall s, In s (scores size false m reg (zrange 0 8)) -> s < max_penalty) ->
  best_mask_loop size false m reg (zrange 0 8) max_penalty None
  = Some (best_index false (scores size false m reg (zrange 0 8)),
          cand size false m reg (best_index false (scores size false m reg (zrange 0 8)))).
Proof. intros Hb. apply (best_mask_zrange size false m reg 8); [lia|exact Hb]. Qed.

Theorem best_mask_micro size m reg :
  (forall s, In s (scores size true m reg (zrange 0 4)) -> 0 <= s) ->
  best_mask_loop size true m reg (zrange 0 4) (-1) None
  = Some (best_index true (scores size true m reg (zrange 0 4)),
          cand size true m reg (best_index true (scores size true m reg (zrange 0 4)))).
Proof. intros Hb. apply (best_mask_zrange size true m reg 4); [lia|exact Hb]. Qed.

(* ---- side conditions: the scores stay inside (-1, sys.maxsize) ---- *)
Lemma bit_z_bounds b : 0 <= bit_z b <= 1.
Proof. unfold bit_z. destruct b; lia. Qed.

Theorem evaluate_micro_nonneg : forall n rows, 0 <= evaluate_micro_mask n rows.
Proof.
  intros n rows. unfold evaluate_micro_mask. cbv zeta.
  change (fold_left (fun a r => a + bit_z (last r false)) (tl rows) 0)
    with (lsum (fun r => bit_z (last r false)) (tl rows)).
  change (fold_left (fun a b => a + bit_z b) (tl (last rows [])) 0) with (lsum bit_z (tl (last rows []))).
  assert (H1 : 0 <= lsum (fun r => bit_z (last r false)) (tl rows))
    by (apply lsum_nonneg; intros r _; apply bit_z_bounds).
  assert (H2 : 0 <= lsum bit_z (tl (last rows []))) by (apply lsum_nonneg; intros b _; apply bit_z_bounds).
  destruct (lsum (fun r => bit_z (last r false)) (tl rows) <=? lsum bit_z (tl (last rows []))); lia.
Qed.

Lemma n1_line_aux_le : forall l prev run, 0 <= run -> n1_line_aux prev run l <= run + lenZ l.
Proof.
  unfold lenZ. induction l as [|b r IH]; intros prev run Hrun; cbn [n1_line_aux length].
  - destruct (5 <=? run); lia.
  - destruct (Bool.eqb b prev).
    + specialize (IH prev (run + 1) ltac:(lia)). lia.
    + specialize (IH b 1 ltac:(lia)). destruct (5 <=? run); lia.
Qed.
Lemma n1_line_le l : n1_line l <= lenZ l.
Proof.
  destruct l as [|b r]; [unfold lenZ; cbn [n1_line length]; lia|].
  cbn [n1_line]. pose proof (n1_line_aux_le r b 1 ltac:(lia)) as H. unfold lenZ in *. cbn [length]. lia.
Qed.
Lemma iso_n3_line_le l : iso_n3_line l <= 40 * lenZ l.
Proof.
  rewrite iso_n3_line_rsum. unfold rsum.
  pose proof (zsum_le (n3_w l) 40 (Z.to_nat (lenZ l - 6 - 0)) 0) as H.
  assert (Hw : forall p, 0 <= p < 0 + Z.of_nat (Z.to_nat (lenZ l - 6 - 0)) -> n3_w l p <= 40).
  { intros p _. unfold n3_w. destruct (n3_cond l p); lia. }
  specialize (H Hw). pose proof (lenZ_nonneg l). lia.
Qed.
Lemma iso_n2_le rows : iso_n2 rows <= 3 * lenZ rows * lenZ rows.
Proof.
  rewrite iso_n2_zsum. set (k := Z.to_nat (lenZ rows - 1)).
  assert (Hk : Z.of_nat k <= lenZ rows) by (pose proof (lenZ_nonneg rows); lia).
  pose proof (lenZ_nonneg rows) as Hn.
  match goal with |- zsum ?f k 0 <= _ => pose proof (zsum_le f (3 * Z.of_nat k) k 0) as H end.
  cbv beta in H.
  assert (Hin : forall p, 0 <= p < 0 + Z.of_nat k ->
            zsum (fun j => if blk (nth (Z.to_nat p) rows []) (nth (Z.to_nat (p + 1)) rows []) j then 3 else 0) k 0
            <= 3 * Z.of_nat k).
  { intros p _. apply zsum_le. intros j _. destruct (blk _ _ j); lia. }
  specialize (H Hin). nia.
Qed.
Lemma dark_count_lsum rows : dark_count rows = lsum (fun r => lsum bit_z r) rows.
Proof.
  unfold dark_count, lsum at 1. apply fold_left_ext. intros a r. apply fold_add_acc.
Qed.
Lemma dark_count_bounds rows n :
  0 <= n -> lenZ rows = n -> Forall (fun r => lenZ r = n) rows -> 0 <= dark_count rows <= n * n.
Proof.
  intros Hn Hlen Hall. rewrite dark_count_lsum. rewrite Forall_forall in Hall. split.
  - apply lsum_nonneg. intros r _. apply lsum_nonneg. intros b _. apply bit_z_bounds.
  - rewrite <- Hlen at 2. apply lsum_le. intros r Hr. rewrite <- (Hall r Hr).
    pose proof (lsum_le bit_z 1 r) as H. rewrite Z.mul_1_l in H. apply H. intros b _. apply bit_z_bounds.
Qed.
Lemma n4_score_le n d : 0 < n -> 0 <= d <= n * n -> n4_score n d <= 100.
Proof.
  intros Hn Hd. unfold n4_score.
  assert (Hq : Z.abs (100 * d - 50 * (n * n)) / (5 * (n * n)) <= 10).
  { apply Z.div_le_upper_bound; [nia|]. apply Z.abs_le. nia. }
  lia.
Qed.

Theorem evaluate_mask_bound : forall rows n,
  0 < n -> lenZ rows = n -> Forall (fun r => lenZ r = n) rows ->
  evaluate_mask n rows <= 85 * n * n + 100.
Proof.
  intros rows n Hn Hlen Hall. rewrite (evaluate_mask_is_iso rows n Hn Hlen Hall).
  unfold iso_penalty.
  rewrite (fold_left_ext (fun a l => a + iso_n1_line l + iso_n3_line l)
                         (fun a l => a + (iso_n1_line l + iso_n3_line l))) by (intros a l; lia).
  change (fold_left (fun a l => a + (iso_n1_line l + iso_n3_line l)) (rows ++ columns rows) 0)
    with (lsum (fun l => iso_n1_line l + iso_n3_line l) (rows ++ columns rows)).
  assert (Hlines : lsum (fun l => iso_n1_line l + iso_n3_line l) (rows ++ columns rows)
                   <= (41 * n) * lenZ (rows ++ columns rows)).
  { apply lsum_le. intros l Hl.
    assert (Hll : lenZ l = n).
    { apply in_app_or in Hl. destruct Hl as [Hl|Hl].
      - rewrite Forall_forall in Hall. apply Hall. exact Hl.
      - unfold columns in Hl. apply in_map_iff in Hl. destruct Hl as [j [Hj _]]. subst l.
        unfold lenZ. rewrite column_length. exact Hlen. }
    pose proof (n1_line_le l) as H1. rewrite n1_line_is_iso in H1.
    pose proof (iso_n3_line_le l) as H3. lia. }
  assert (Hcnt : lenZ (rows ++ columns rows) = 2 * n).
  { unfold columns, zrange, lenZ in *. rewrite app_length, map_length, zrange_aux_length.
    lia. }
  pose proof (iso_n2_le rows) as H2. rewrite Hlen in H2.
  pose proof (n4_score_le n (dark_count rows) Hn (dark_count_bounds rows n ltac:(lia) Hlen Hall)) as H4.
  rewrite (n4_is_iso rows n Hn Hlen Hall) in H4.
  rewrite Hcnt in Hlines. nia.
Qed.

Theorem evaluate_mask_lt_max : forall rows n,
  0 < n <= 177 -> lenZ rows = n -> Forall (fun r => lenZ r = n) rows ->
  evaluate_mask n rows < max_penalty.
Proof.
  intros rows n Hn Hlen Hall.
  pose proof (evaluate_mask_bound rows n ltac:(lia) Hlen Hall) as H. unfold max_penalty. nia.
Qed.
Print Assumptions evaluate_mask_lt_max.

(* ---- the complete automatic selection ---- *)
Lemma rows_of_square size mk :
  0 <= size -> lenZ (rows_of size mk) = size /\ Forall (fun r => lenZ r = size) (rows_of size mk).
Proof.
  intros Hs.
  assert (Hz : length (zrange 0 size) = Z.to_nat size) by (unfold zrange; rewrite zrange_aux_length; lia).
  unfold rows_of, lenZ. split.
  - rewrite map_length, Hz. lia.
  - apply Forall_forall. intros r Hr. apply in_map_iff in Hr. destruct Hr as [i [Hi _]]. subst r.
    rewrite map_length, Hz. lia.
Qed.

(* the scores of the candidates, in the ISO formulation *)
Definition iso_scores (size : Z) (micro : bool) (m : mat) (reg : list (Z * Z)) (ks : list Z) : list Z :=
  map (fun k => let rows := rows_of size (apply_mask size m reg (iso_mask_for micro k)) in
                if micro then iso_micro_score rows else iso_penalty rows) ks.

Lemma score_of_is_iso size micro mk : 0 < size ->
  score_of size micro mk = if micro then iso_micro_score (rows_of size mk) else iso_penalty (rows_of size mk).
Proof.
  intros Hs. destruct (rows_of_square size mk ltac:(lia)) as [Hlen Hall]. unfold score_of. destruct micro.
  - apply evaluate_micro_is_iso; assumption.
  - apply evaluate_mask_is_iso; assumption.
Qed.

Lemma scores_bounded size micro m reg ks : 0 < size <= 177 ->
  forall s, In s (scores size micro m reg ks) -> if micro then 0 <= s else s < max_penalty.
Proof.
  intros Hs s Hin. unfold scores in Hin. apply in_map_iff in Hin. destruct Hin as [k [Hk _]]. subst s.
  destruct (rows_of_square size (cand size micro m reg k) ltac:(lia)) as [Hlen Hall].
  unfold score_of. destruct micro.
  - apply evaluate_micro_nonneg.
  - apply evaluate_mask_lt_max; assumption.
Qed.

Theorem find_and_apply_best_mask_auto : forall size m fm,
  0 < size <= 177 -> function_matrix size = Ok fm ->
  let micro := size <? 21 in
  let reg := region size fm in
  let best := best_index micro (scores size micro m reg (zrange 0 (if micro then 4 else 8))) in
  find_and_apply_best_mask size m None = Ok (best, apply_mask size m reg (mask_fn micro best)).
Proof.
  intros size m fm Hs Hfm. cbv zeta. unfold find_and_apply_best_mask. rewrite Hfm. cbn [bind].
  destruct (size <? 21).
  - rewrite best_mask_micro; [reflexivity|]. apply (scores_bounded size true); exact Hs.
  - rewrite best_mask_qr; [reflexivity|]. apply (scores_bounded size false); exact Hs.
Qed.
Print Assumptions find_and_apply_best_mask_auto.

(* the same statement purely in ISO terms: ISO mask conditions, ISO scores *)
Lemma apply_mask_ext size m reg (f g : Z -> Z -> bool) :
  (forall i j, In (i, j) reg -> f i j = g i j) -> apply_mask size m reg f = apply_mask size m reg g.
Proof.
  intros Hfg. unfold apply_mask. apply fold_left_ext_in. intros a [i j] Hin.
  rewrite (Hfg i j Hin). reflexivity.
Qed.

Lemma region_nonneg size fm i j : In (i, j) (region size fm) -> 0 <= i /\ 0 <= j.
Proof.
  intros Hin. unfold region in Hin. apply filter_In in Hin. destruct Hin as [Hin _].
  unfold all_cells in Hin. apply in_flat_map in Hin. destruct Hin as [i' [Hi' Hin]].
  apply in_map_iff in Hin. destruct Hin as [j' [Heq Hj']]. injection Heq as -> ->.
  apply zrange_In_inv in Hi'. apply zrange_In_inv in Hj'. lia.
Qed.

Lemma cand_is_iso size (micro : bool) m fm k : 0 <= k < (if micro then 4 else 8) ->
  cand size micro m (region size fm) k = apply_mask size m (region size fm) (iso_mask_for micro k).
Proof.
  intros Hk. unfold cand. apply apply_mask_ext. intros i j Hin.
  destruct (region_nonneg size fm i j Hin) as [Hi Hj]. apply mask_fn_is_iso; assumption.
Qed.

Lemma scores_is_iso size (micro : bool) m fm : 0 < size ->
  scores size micro m (region size fm) (zrange 0 (if micro then 4 else 8))
  = iso_scores size micro m (region size fm) (zrange 0 (if micro then 4 else 8)).
Proof.
  intros Hs. unfold scores, iso_scores. apply map_ext_in. intros k Hk. apply zrange_In_inv in Hk.
  rewrite score_of_is_iso by exact Hs. rewrite cand_is_iso by exact Hk. reflexivity.
Qed.

Theorem find_and_apply_best_mask_is_iso : forall size m fm,
  0 < size <= 177 -> function_matrix size = Ok fm ->
  let micro := size <? 21 in
  let reg := region size fm in
  let best := best_index micro (iso_scores size micro m reg (zrange 0 (if micro then 4 else 8))) in
  find_and_apply_best_mask size m None = Ok (best, apply_mask size m reg (iso_mask_for micro best)).
Proof.
  intros size m fm Hs Hfm. cbv zeta. rewrite (find_and_apply_best_mask_auto size m fm Hs Hfm). cbv zeta.
  rewrite scores_is_iso by lia.
  set (micro := size <? 21).
  set (scs := iso_scores size micro m (region size fm) (zrange 0 (if micro then 4 else 8))).
  assert (Hlen : lenZ scs = if micro then 4 else 8).
  { unfold scs, iso_scores, lenZ. rewrite map_length. unfold zrange. rewrite zrange_aux_length.
    destruct micro; reflexivity. }
  assert (Hne : scs <> []).
  { intros Hnil. rewrite Hnil in Hlen. unfold lenZ in Hlen. cbn [length] in Hlen. destruct micro; lia. }
  pose proof (best_index_range micro scs Hne) as Hr. rewrite Hlen in Hr.
  pose proof (cand_is_iso size micro m fm (best_index micro scs) Hr) as Hc. unfold cand in Hc.
  rewrite Hc. reflexivity.
Qed.
Print Assumptions find_and_apply_best_mask_is_iso.

(* ------------------------------------------------------------------ *)
(* examples                                                            *)
(* ------------------------------------------------------------------ *)
Definition checker21 : list (list bool) :=
  map (fun i => map (fun j => Z.even (i + j)) (zrange 0 21)) (zrange 0 21).
Example checker21_model : evaluate_mask 21 checker21 = 0.
Proof. vm_compute. reflexivity. Qed.
Example checker21_iso : iso_penalty checker21 = 0.
Proof. vm_compute. reflexivity. Qed.

(* a 21x21 matrix on which all four features are present: N1 = 173, N2 = 498, N3 = 1720, N4 = 10 *)
Definition stripes21 : list (list bool) :=
  map (fun i => map (fun j =>
    nth (Z.to_nat ((i + j) mod 11)) [true; false; true; true; true; false; true; false; false; false; false] false
    || (i <? 5)) (zrange 0 21)) (zrange 0 21).
Example stripes21_model : mask_scores 21 stripes21 = (173, 498, 1720, 10) /\ evaluate_mask 21 stripes21 = 2401.
Proof. vm_compute. split; reflexivity. Qed.
Example stripes21_iso : iso_penalty stripes21 = 2401.
Proof. vm_compute. reflexivity. Qed.
Example stripes21_micro : evaluate_micro_mask 21 stripes21 = 172 /\ iso_micro_score stripes21 = 172.
Proof. vm_compute. split; reflexivity. Qed.
