(* The reference decoder's bit reading (Ref/Decoder.read_stream) inverts the model's codeword placement
   and masking (Model/Matrix.add_codewords, apply_mask), for arbitrary message bits. *)
From Coq Require Import ZArith List Bool Lia ZifyBool FMapPositive PArith.
From Segno Require Import Base.PyLite Ref.IsoData Ref.Geometry Ref.MaskCond Ref.Decoder.
From Segno Require Import Model.Bits Model.Segment Model.Version Model.Stream Model.Matrix Model.Encode.
Import ListNotations.
Open Scope Z_scope.

(* ------------------------------------------------------------------------------------------ *)
(* 0. cells, indices, small list facts                                                        *)
(* ------------------------------------------------------------------------------------------ *)
Definition pidx (size : Z) (c : Z * Z) : positive := idx size (fst c) (snd c).
Definition cget (size : Z) (m : mat) (c : Z * Z) : option bool := mget size m (fst c) (snd c).
Definition freeb (size : Z) (m : mat) (c : Z * Z) : bool :=
  match mget size m (fst c) (snd c) with None => true | Some _ => false end.
Definition in_rangeb (size : Z) (c : Z * Z) : bool :=
  (0 <=? fst c) && (fst c <? size) && (0 <=? snd c) && (snd c <? size).
Definition base_matrix (size : Z) : res mat :=
  do m1 <- add_finder_patterns size (make_matrix size true true); add_alignment_patterns size m1.

Lemma idx_inj size i j i' j' :
  0 <= i < size -> 0 <= j < size -> 0 <= i' < size -> 0 <= j' < size ->
  idx size i j = idx size i' j' -> i = i' /\ j = j'.
Proof.
  unfold idx. intros Hi Hj Hi' Hj' H.
  apply (f_equal Z.pos) in H.
  assert (H0 : 0 <= i * size) by (apply Z.mul_nonneg_nonneg; lia).
  assert (H0' : 0 <= i' * size) by (apply Z.mul_nonneg_nonneg; lia).
  rewrite !Z2Pos.id in H by lia.
  assert (Hii : i = i').
  { destruct (Z.lt_trichotomy i i') as [Hlt|[Heq|Hgt]]; [exfalso|exact Heq|exfalso].
    - assert ((i + 1) * size <= i' * size) by (apply Z.mul_le_mono_nonneg_r; lia). lia.
    - assert ((i' + 1) * size <= i * size) by (apply Z.mul_le_mono_nonneg_r; lia). lia. }
  subst i'. split; [reflexivity|lia].
Qed.

Lemma in_rangeb_spec size c : in_rangeb size c = true <-> (0 <= fst c < size /\ 0 <= snd c < size).
Proof. unfold in_rangeb. lia. Qed.

Lemma pidx_inj size c c' : in_rangeb size c = true -> in_rangeb size c' = true ->
  pidx size c = pidx size c' -> c = c'.
Proof.
  rewrite !in_rangeb_spec. destruct c as [i j], c' as [i' j']. unfold pidx. cbn [fst snd].
  intros [Hi Hj] [Hi' Hj'] H. apply idx_inj in H; try assumption. destruct H; subst; reflexivity.
Qed.

Lemma skipn_In {A} (x : A) n : forall l, In x (skipn n l) -> In x l.
Proof.
  induction n as [|n IH]; intros [|a l] H; cbn [skipn] in H; auto. right. apply IH. exact H.
Qed.

Lemma zrange_length a b : List.length (zrange a b) = Z.to_nat (b - a).
Proof. unfold zrange. apply zrange_aux_length. Qed.

Lemma nth_zrange_aux n : forall a k, (k < n)%nat -> nth k (zrange_aux n a) 0 = a + Z.of_nat k.
Proof.
  induction n as [|n IH]; intros a k Hk; [lia|].
  destruct k as [|k]; cbn [zrange_aux nth]; [lia|]. rewrite IH by lia. lia.
Qed.

Lemma nth_map_zrange {A} (f : Z -> A) n i d : 0 <= i < n ->
  nth (Z.to_nat i) (map f (zrange 0 n)) d = f i.
Proof.
  intros Hi. rewrite (nth_indep _ d (f 0)) by (rewrite map_length, zrange_length; lia).
  rewrite map_nth. unfold zrange. rewrite nth_zrange_aux by lia. f_equal. lia.
Qed.

Lemma all_cells_In size c : In c (all_cells size) <-> in_rangeb size c = true.
Proof.
  unfold all_cells. rewrite in_rangeb_spec, in_flat_map. split.
  - intros [i [Hi Hc]]. apply in_map_iff in Hc. destruct Hc as [j [<- Hj]].
    apply zrange_In_inv in Hi, Hj. cbn [fst snd]. lia.
  - intros [Hi Hj]. exists (fst c). split; [apply zrange_In; lia|].
    apply in_map_iff. exists (snd c). split; [destruct c; reflexivity|apply zrange_In; lia].
Qed.

(* ------------------------------------------------------------------------------------------ *)
(* 1. boolean checkers with PositiveMap sets, and their soundness                             *)
(* ------------------------------------------------------------------------------------------ *)
Fixpoint cells_eqb (a b : list (Z * Z)) : bool :=
  match a, b with
  | [], [] => true
  | x :: a', y :: b' => (fst x =? fst y) && (snd x =? snd y) && cells_eqb a' b'
  | _, _ => false
  end.
Lemma cells_eqb_eq a : forall b, cells_eqb a b = true -> a = b.
Proof.
  induction a as [|[i j] a IH]; intros [|[i' j'] b] H; cbn [cells_eqb fst snd] in H; try discriminate; auto.
  apply andb_prop in H. destruct H as [H1 H2]. apply IH in H2.
  assert (i = i' /\ j = j') as [-> ->] by lia. subst. reflexivity.
Qed.

Fixpoint nodupb_aux (l : list positive) (s : PM.t unit) : bool :=
  match l with
  | [] => true
  | p :: r => if PM.mem p s then false else nodupb_aux r (PM.add p tt s)
  end.
Definition nodupb (l : list positive) : bool := nodupb_aux l (PM.empty unit).

Lemma pm_mem_add (p q : positive) (s : PM.t unit) :
  PM.mem q (PM.add p tt s) = if Pos.eq_dec p q then true else PM.mem q s.
Proof.
  rewrite !PM.mem_find. destruct (Pos.eq_dec p q) as [->|Hne].
  - rewrite PM.gss. reflexivity.
  - rewrite PM.gso by (intro; subst; contradiction). reflexivity.
Qed.

Lemma nodupb_aux_sound l : forall s, nodupb_aux l s = true ->
  NoDup l /\ forall p, In p l -> PM.mem p s = false.
Proof.
  induction l as [|p r IH]; intros s H; cbn [nodupb_aux] in H.
  - split; [constructor|intros p []].
  - destruct (PM.mem p s) eqn:Hp; [discriminate|]. apply IH in H. destruct H as [Hnd Hs].
    assert (Hnotin : ~ In p r).
    { intro Hin. apply Hs in Hin. rewrite pm_mem_add in Hin. destruct (Pos.eq_dec p p); congruence. }
    split; [constructor; assumption|].
    intros q [<-|Hq]; [exact Hp|]. specialize (Hs q Hq). rewrite pm_mem_add in Hs.
    destruct (Pos.eq_dec p q); [discriminate|exact Hs].
Qed.
Lemma nodupb_sound l : nodupb l = true -> NoDup l.
Proof. intros H. apply nodupb_aux_sound in H. tauto. Qed.

Definition set_of (l : list positive) : PM.t unit :=
  fold_left (fun s p => PM.add p tt s) l (PM.empty unit).
Lemma set_of_sound_aux l : forall s q,
  PM.mem q (fold_left (fun s p => PM.add p tt s) l s) = true -> In q l \/ PM.mem q s = true.
Proof.
  induction l as [|p r IH]; intros s q H; cbn [fold_left] in H; [now right|].
  apply IH in H. destruct H as [H|H]; [left; now right|].
  rewrite pm_mem_add in H. destruct (Pos.eq_dec p q) as [->|]; [left; now left|now right].
Qed.
Lemma set_of_sound l q : PM.mem q (set_of l) = true -> In q l.
Proof.
  intros H. apply set_of_sound_aux in H. destruct H as [H|H]; [exact H|].
  rewrite PM.mem_find, PM.gempty in H. discriminate.
Qed.

Lemma NoDup_map_inj_on {A B} (f : A -> B) (l : list A) a b :
  NoDup (map f l) -> In a l -> In b l -> f a = f b -> a = b.
Proof.
  induction l as [|x l IH]; intros Hnd Ha Hb Hf; [destruct Ha|].
  cbn [map] in Hnd. inversion Hnd as [|y ys Hx Hnd']; subst.
  destruct Ha as [->|Ha], Hb as [->|Hb]; auto.
  - exfalso. apply Hx. rewrite Hf. now apply in_map.
  - exfalso. apply Hx. rewrite <- Hf. now apply in_map.
Qed.

(* ------------------------------------------------------------------------------------------ *)
(* 2. finite facts, one kernel computation per version                                        *)
(* ------------------------------------------------------------------------------------------ *)
(* a data module is not a format / version information / dark module position *)
Definition off_infob (size v : Z) (c : Z * Z) : bool :=
  let i := fst c in let j := snd c in
  let micro := v <? 1 in
  negb (((j =? 8) && ((i <=? 8) || (negb micro && (size - 8 <=? i))))
        || ((i =? 8) && ((j <=? 8) || (negb micro && (size - 8 <=? j))))
        || ((7 <=? v) && (((i <? 6) && (size - 11 <=? j) && (j <=? size - 9))
                          || ((j <? 6) && (size - 11 <=? i) && (i <=? size - 9))))).

Definition version_ok (v : Z) : bool :=
  let size := calc_matrix_size v in
  match base_matrix size with
  | Ok m2 =>
      let vo := visit_order size v in
      let dp := data_positions size in
      let voset := set_of (map (pidx size) vo) in
      cells_eqb (filter (freeb size m2) vo) dp
      && nodupb (map (pidx size) vo)
      && forallb (in_rangeb size) vo
      && forallb (off_infob size v) dp
      && forallb (fun c => negb (freeb size m2 c) || PM.mem (pidx size c) voset) (all_cells size)
  | Err _ => false
  end.

Lemma all_versions_ok : forallb (fun v => version_ok v) all_versions = true.
Proof. vm_compute. reflexivity. Qed.

Lemma calc_matrix_size_eq v : calc_matrix_size v = size_of_version v.
Proof. unfold calc_matrix_size, size_of_version. destruct (0 <? v); lia. Qed.

Lemma version_ok_at v : -3 <= v <= 40 -> version_ok v = true.
Proof.
  intros Hv. pose proof all_versions_ok as H. rewrite forallb_forall in H.
  apply H. unfold all_versions. apply zrange_In. lia.
Qed.

Section PerVersion.
  Variables (v size : Z) (m2 : mat).
  Hypothesis Hv : -3 <= v <= 40.
  Hypothesis Hsize : size = calc_matrix_size v.
  Hypothesis Hbase : base_matrix size = Ok m2.

  Lemma version_facts :
    filter (freeb size m2) (visit_order size v) = data_positions size
    /\ NoDup (map (pidx size) (visit_order size v))
    /\ (forall c, In c (visit_order size v) -> in_rangeb size c = true)
    /\ (forall c, In c (data_positions size) -> off_infob size v c = true)
    /\ (forall c, in_rangeb size c = true -> freeb size m2 c = true -> In c (visit_order size v)).
  Proof.
    pose proof (version_ok_at v Hv) as H. unfold version_ok in H. rewrite <- Hsize, Hbase in H.
    cbv zeta in H.
    apply andb_prop in H. destruct H as [H H5]. apply andb_prop in H. destruct H as [H H4].
    apply andb_prop in H. destruct H as [H H3]. apply andb_prop in H. destruct H as [H1 H2].
    apply cells_eqb_eq in H1. apply nodupb_sound in H2.
    rewrite forallb_forall in H3, H4, H5.
    repeat split; auto.
    intros c Hr Hf. apply all_cells_In in Hr. pose proof Hr as Hr'. apply H5 in Hr. rewrite Hf in Hr. cbn [negb orb] in Hr.
    apply set_of_sound in Hr. apply in_map_iff in Hr. destruct Hr as [c' [Hc' Hin]].
    apply pidx_inj in Hc'; [subst; assumption|apply H3; assumption|apply all_cells_In; assumption].
  Qed.
End PerVersion.

(* ------------------------------------------------------------------------------------------ *)
(* 3. generic placement lemmas                                                                *)
(* ------------------------------------------------------------------------------------------ *)
(* write the bits along a path, one per cell, stopping when either runs out *)
Fixpoint place (size : Z) (m : mat) (path : list (Z * Z)) (bs : list bool) : mat :=
  match path, bs with
  | c :: ps, b :: bs' => place size (mset size m (fst c) (snd c) b) ps bs'
  | _, _ => m
  end.

Lemma find_mset_same size m c b : PM.find (pidx size c) (mset size m (fst c) (snd c) b) = Some b.
Proof. unfold mset, pidx. apply PM.gss. Qed.
Lemma find_mset_other size m c b q : pidx size c <> q ->
  PM.find q (mset size m (fst c) (snd c) b) = PM.find q m.
Proof. unfold mset, pidx. intros H. apply PM.gso. intro; subst; contradiction. Qed.

(* cells off the path keep their value (in particular all function modules) *)
Lemma place_notin size path : forall m bs q, ~ In q (map (pidx size) path) ->
  PM.find q (place size m path bs) = PM.find q m.
Proof.
  induction path as [|c ps IH]; intros m bs q Hq; cbn [place]; [reflexivity|].
  destruct bs as [|b bs]; [reflexivity|].
  rewrite IH by (intro; apply Hq; now right).
  apply find_mset_other. intro; subst; apply Hq; now left.
Qed.

Lemma place_notin_cell size path m bs i j : ~ In (idx size i j) (map (pidx size) path) ->
  mget size (place size m path bs) i j = mget size m i j.
Proof. unfold mget. apply place_notin. Qed.

(* general read-back, through an arbitrary observation [h] of the cell content *)
Lemma read_place_gen {B} (h : option bool -> Z * Z -> B) size path :
  NoDup (map (pidx size) path) -> forall m bs, (List.length bs <= List.length path)%nat ->
  map (fun c => h (cget size (place size m path bs) c) c) path =
  map (fun bc => h (Some (fst bc)) (snd bc)) (combine bs path)
  ++ map (fun c => h (cget size m c) c) (skipn (List.length bs) path).
Proof.
  induction path as [|c ps IH]; intros Hnd m bs Hl.
  - destruct bs; [reflexivity|cbn in Hl; lia].
  - cbn [map] in Hnd. inversion Hnd as [|x xs Hc Hnd']; subst.
    destruct bs as [|b bs]; [reflexivity|].
    cbn [place combine map List.length skipn app fst snd]. f_equal.
    + unfold cget, mget. change (idx size (fst c) (snd c)) with (pidx size c).
      rewrite place_notin by assumption. rewrite find_mset_same. reflexivity.
    + rewrite IH by (cbn in Hl; auto; lia). f_equal.
      apply map_ext_in. intros c' Hc'. apply skipn_In in Hc'.
      unfold cget, mget. change (idx size (fst c') (snd c')) with (pidx size c').
      rewrite find_mset_other; [reflexivity|]. intro E. apply Hc. rewrite E. now apply in_map.
Qed.

Theorem read_place size path : NoDup (map (pidx size) path) -> forall m bs,
  List.length bs = List.length path ->
  map (cget size (place size m path bs)) path = map Some bs.
Proof.
  intros Hnd m bs Hl.
  assert (Hle : (List.length bs <= List.length path)%nat) by lia.
  pose proof (read_place_gen (fun o _ => o) size path Hnd m bs Hle) as H. cbv beta in H.
  refine (eq_trans H _). rewrite Hl, skipn_all, app_nil_r.
  clear H Hnd Hle. revert bs Hl. induction path as [|c ps IH]; intros [|b bs] Hl; try discriminate; [reflexivity|].
  cbn [combine map fst]. f_equal. apply IH. now injection Hl.
Qed.

(* add_codewords tests "cell unset" on the matrix it mutates; for a duplicate-free visiting order this is
   placing along the cells that are free in the INITIAL matrix *)
Lemma place_visit_path size visit : NoDup (map (pidx size) visit) -> forall m bs,
  place_visit size m visit bs =
  (place size m (filter (freeb size m) visit) bs,
   skipn (List.length (filter (freeb size m) visit)) bs).
Proof.
  induction visit as [|c ps IH]; intros Hnd m bs; [reflexivity|].
  cbn [map] in Hnd. inversion Hnd as [|x xs Hc Hnd']; subst.
  destruct c as [i j]. cbn [place_visit filter].
  assert (Hfr : freeb size m (i, j) = match mget size m i j with None => true | Some _ => false end)
    by reflexivity.
  rewrite Hfr. clear Hfr.
  destruct (mget size m i j) eqn:E.
  - apply IH. assumption.
  - destruct bs as [|b bs].
    + rewrite IH by assumption. cbn [place]. rewrite !skipn_nil.
      destruct (filter (freeb size m) ps); reflexivity.
    + rewrite IH by assumption.
      assert (Hf : filter (freeb size (mset size m i j b)) ps = filter (freeb size m) ps).
      { apply filter_ext_in. intros c' Hc'. unfold freeb, mget.
        change (idx size (fst c') (snd c')) with (pidx size c').
        change (mset size m i j b) with (mset size m (fst (i, j)) (snd (i, j)) b).
        rewrite find_mset_other; [reflexivity|]. intro E'. apply Hc. rewrite E'. now apply in_map. }
      rewrite Hf. reflexivity.
Qed.

Lemma add_codewords_place size version m bs m' :
  NoDup (map (pidx size) (visit_order size version)) ->
  add_codewords size version m bs = Ok m' ->
  m' = place size m (filter (freeb size m) (visit_order size version)) bs
  /\ (List.length bs <= List.length (filter (freeb size m) (visit_order size version)))%nat.
Proof.
  intros Hnd H. unfold add_codewords in H. rewrite place_visit_path in H by assumption.
  destruct (skipn _ bs) eqn:E; [|discriminate]. injection H as <-. split; [reflexivity|].
  apply (f_equal (@List.length bool)) in E. rewrite skipn_length in E. cbn in E. lia.
Qed.

(* ------------------------------------------------------------------------------------------ *)
(* 4. masking                                                                                 *)
(* ------------------------------------------------------------------------------------------ *)
Definition mask_step (size : Z) (f : Z -> Z -> bool) (m : mat) (c : Z * Z) : mat :=
  let '(i, j) := c in
  match mget size m i j with Some b => mset size m i j (xorb b (f i j)) | None => m end.

Lemma apply_mask_fold size m reg f : apply_mask size m reg f = fold_left (mask_step size f) reg m.
Proof. reflexivity. Qed.

Lemma find_none_notin size reg q : ~ In q (map (pidx size) reg) ->
  find (fun c => Pos.eqb (pidx size c) q) reg = None.
Proof.
  induction reg as [|c ps IH]; intros H; [reflexivity|]. cbn [find].
  destruct (Pos.eqb_spec (pidx size c) q) as [E|E].
  - exfalso. apply H. left. exact E.
  - apply IH. intro; apply H; now right.
Qed.

Lemma mask_step_find size f m c q :
  PM.find q (mask_step size f m c) =
  if Pos.eqb (pidx size c) q then option_map (fun b => xorb b (f (fst c) (snd c))) (PM.find q m)
  else PM.find q m.
Proof.
  destruct c as [i j]. unfold mask_step. cbn [fst snd].
  destruct (Pos.eqb_spec (pidx size (i, j)) q) as [E|E].
  - subst q. unfold mget. change (pidx size (i, j)) with (idx size i j).
    destruct (PM.find (idx size i j) m) eqn:F; cbn [option_map].
    + unfold mset. apply PM.gss.
    + exact F.
  - destruct (mget size m i j); [|reflexivity].
    unfold mset. apply PM.gso. intro; subst; apply E; reflexivity.
Qed.

(* total description of apply_mask on a duplicate-free region: exactly the present cells of the region
   are xor-ed with the mask predicate, every other key is unchanged *)
Theorem apply_mask_find size reg f : NoDup (map (pidx size) reg) -> forall m q,
  PM.find q (apply_mask size m reg f) =
  match find (fun c => Pos.eqb (pidx size c) q) reg with
  | Some c => option_map (fun b => xorb b (f (fst c) (snd c))) (PM.find q m)
  | None => PM.find q m
  end.
Proof.
  intros Hnd m q. rewrite apply_mask_fold. revert Hnd m q.
  induction reg as [|c ps IH]; intros Hnd m q; [reflexivity|].
  cbn [map] in Hnd. inversion Hnd as [|x xs Hc Hnd']; subst.
  cbn [fold_left find]. rewrite IH by assumption. rewrite mask_step_find.
  destruct (Pos.eqb_spec (pidx size c) q) as [E|E].
  - subst q. rewrite find_none_notin by assumption. reflexivity.
  - reflexivity.
Qed.

Lemma find_some_in size reg c : NoDup (map (pidx size) reg) -> In c reg ->
  find (fun c' => Pos.eqb (pidx size c') (pidx size c)) reg = Some c.
Proof.
  induction reg as [|x ps IH]; intros Hnd Hin; [destruct Hin|].
  cbn [map] in Hnd. inversion Hnd as [|y ys Hx Hnd']; subst. cbn [find].
  destruct (Pos.eqb_spec (pidx size x) (pidx size c)) as [E|E].
  - destruct Hin as [->|Hin]; [reflexivity|]. exfalso. apply Hx. rewrite E. now apply in_map.
  - destruct Hin as [->|Hin]; [contradiction|]. apply IH; assumption.
Qed.

Corollary apply_mask_in size reg f m i j : NoDup (map (pidx size) reg) -> In (i, j) reg ->
  mget size (apply_mask size m reg f) i j = option_map (fun b => xorb b (f i j)) (mget size m i j).
Proof.
  intros Hnd Hin. unfold mget. change (idx size i j) with (pidx size (i, j)).
  rewrite apply_mask_find by assumption. rewrite find_some_in by assumption. reflexivity.
Qed.

Corollary apply_mask_notin size reg f m i j : NoDup (map (pidx size) reg) ->
  ~ In (idx size i j) (map (pidx size) reg) ->
  mget size (apply_mask size m reg f) i j = mget size m i j.
Proof.
  intros Hnd Hin. unfold mget. rewrite apply_mask_find by assumption.
  rewrite find_none_notin by assumption. reflexivity.
Qed.

Theorem apply_mask_twice size reg f m i j : NoDup (map (pidx size) reg) ->
  mget size (apply_mask size (apply_mask size m reg f) reg f) i j = mget size m i j.
Proof.
  intros Hnd. unfold mget. rewrite !apply_mask_find by assumption.
  destruct (find _ reg) as [c|]; [|reflexivity].
  destruct (PM.find (idx size i j) m) as [b|]; cbn [option_map]; [|reflexivity].
  rewrite xorb_assoc, xorb_nilpotent, xorb_false_r. reflexivity.
Qed.

(* the region of the model is duplicate-free *)
Lemma NoDup_map_pidx_filter size (p : Z * Z -> bool) l :
  NoDup (map (pidx size) l) -> NoDup (map (pidx size) (filter p l)).
Proof.
  induction l as [|c l IH]; intros H; [constructor|].
  cbn [map] in H. inversion H as [|x xs Hc Hnd]; subst. cbn [filter].
  destruct (p c); [|auto]. cbn [map]. constructor; [|auto].
  intro Hin. apply Hc. apply in_map_iff in Hin. destruct Hin as [c' [E Hc']].
  apply filter_In in Hc'. rewrite <- E. apply in_map. tauto.
Qed.

Lemma NoDup_app_intro {A} (l1 l2 : list A) : NoDup l1 -> NoDup l2 ->
  (forall x, In x l1 -> In x l2 -> False) -> NoDup (l1 ++ l2).
Proof.
  intros H1 H2 Hd. induction H1 as [|a l Ha Hl IH]; [exact H2|].
  cbn [app]. constructor.
  - intro Hin. apply in_app_or in Hin. destruct Hin as [Hin|Hin]; [contradiction|].
    apply (Hd a); [now left|assumption].
  - apply IH. intros x Hx1 Hx2. apply (Hd x); [now right|assumption].
Qed.
Lemma NoDup_map_inj {A B} (f : A -> B) (l : list A) :
  (forall x y, f x = f y -> x = y) -> NoDup l -> NoDup (map f l).
Proof.
  intros Hf H. induction H as [|a l Ha Hl IH]; cbn [map]; constructor; [|exact IH].
  intro Hin. apply in_map_iff in Hin. destruct Hin as [y [E Hy]]. apply Hf in E. subst. contradiction.
Qed.
Lemma NoDup_product {A B} (l1 : list A) (l2 : list B) : NoDup l1 -> NoDup l2 ->
  NoDup (flat_map (fun i => map (fun j => (i, j)) l2) l1).
Proof.
  intros H1 H2. induction H1 as [|a l Ha Hl IH]; cbn [flat_map]; [constructor|].
  apply NoDup_app_intro.
  - apply NoDup_map_inj; [intros x y E; congruence|assumption].
  - exact IH.
  - intros c Hc1 Hc2. apply in_map_iff in Hc1. destruct Hc1 as [j [<- _]].
    apply in_flat_map in Hc2. destruct Hc2 as [i [Hi Hc]]. apply in_map_iff in Hc.
    destruct Hc as [j' [E _]]. injection E as E1 E2. subst. contradiction.
Qed.
Lemma NoDup_all_cells size : NoDup (all_cells size).
Proof. unfold all_cells. apply NoDup_product; apply zrange_aux_NoDup. Qed.

Lemma NoDup_map_inj_in {A B} (f : A -> B) (l : list A) :
  (forall x y, In x l -> In y l -> f x = f y -> x = y) -> NoDup l -> NoDup (map f l).
Proof.
  intros Hf H. induction H as [|a l Ha Hl IH]; cbn [map]; constructor.
  - intro Hin. apply in_map_iff in Hin. destruct Hin as [y [E Hy]].
    apply Hf in E; [subst; contradiction|now right|now left].
  - apply IH. intros x y Hx Hy. apply Hf; now right.
Qed.

Lemma NoDup_pidx_all_cells size : NoDup (map (pidx size) (all_cells size)).
Proof.
  apply NoDup_map_inj_in; [|apply NoDup_all_cells].
  intros x y Hx Hy. apply all_cells_In in Hx, Hy. apply pidx_inj; assumption.
Qed.

Lemma region_freeb size fm : region size fm = filter (freeb size fm) (all_cells size).
Proof. unfold region. apply filter_ext. intros [i j]. reflexivity. Qed.

Lemma NoDup_pidx_region size fm : NoDup (map (pidx size) (region size fm)).
Proof. rewrite region_freeb. apply NoDup_map_pidx_filter. apply NoDup_pidx_all_cells. Qed.

Lemma region_In size fm c : In c (region size fm) <-> in_rangeb size c = true /\ freeb size fm c = true.
Proof. rewrite region_freeb, filter_In, all_cells_In. reflexivity. Qed.

(* ------------------------------------------------------------------------------------------ *)
(* 5. format and version information do not touch data modules                                *)
(* ------------------------------------------------------------------------------------------ *)
Lemma set_all_other size cells : forall m i j,
  (forall i' j' b, In (i', j', b) cells -> idx size i' j' <> idx size i j) ->
  mget size (set_all size m cells) i j = mget size m i j.
Proof.
  unfold set_all. induction cells as [|[[i' j'] b] r IH]; intros m i j H; [reflexivity|].
  cbn [fold_left]. rewrite IH by (intros; eapply H; right; eassumption).
  unfold mget, mset. apply PM.gso. intro E. apply (H i' j' b); [now left|]. symmetry. exact E.
Qed.

Lemma idx_neq size i j i' j' :
  0 <= i < size -> 0 <= j < size -> 0 <= i' < size -> 0 <= j' < size ->
  (i' <> i \/ j' <> j) -> idx size i' j' <> idx size i j.
Proof. intros Hi Hj Hi' Hj' Hne E. apply idx_inj in E; try assumption. lia. Qed.

Lemma add_format_info_other size version error k m m' i j :
  9 <= size -> 0 <= i < size -> 0 <= j < size -> off_infob size version (i, j) = true ->
  add_format_info size version error k m = Ok m' -> mget size m' i j = mget size m i j.
Proof.
  intros Hs Hi Hj Hoff H. unfold add_format_info in H.
  destruct (calc_format_info version error k) as [fi|e]; cbn [bind] in H; [|discriminate].
  unfold off_infob in Hoff. cbn [fst snd] in Hoff.
  match type of H with context [set_all size m ?c] => set (cells := c) in H end.
  assert (Hset : mget size (set_all size m cells) i j = mget size m i j).
  { subst cells. apply set_all_other. intros i' j' b Hin.
    apply in_flat_map in Hin. destruct Hin as [x [Hx Hin]]. apply zrange_In_inv in Hx.
    cbv zeta in Hin. apply in_app_or in Hin.
    destruct (version <? 1) eqn:Hm.
    - destruct Hin as [Hin|[]]. destruct Hin as [E|[E|[]]]; injection E as <- <- _;
        apply idx_neq; lia.
    - destruct (6 <=? x) eqn:H6;
        (destruct Hin as [Hin|Hin]; [destruct Hin as [E|[E|[]]]|destruct Hin as [E|[E|[]]]];
         injection E as <- <- _; apply idx_neq; lia). }
  clearbody cells. injection H as <-.
  destruct (version <? 1) eqn:Hm.
  - exact Hset.
  - unfold mget at 1. unfold mset. rewrite PM.gso.
    + exact Hset.
    + apply idx_neq; lia.
Qed.

Lemma add_version_info_other size version m m' i j :
  11 <= size -> 0 <= i < size -> 0 <= j < size -> off_infob size version (i, j) = true ->
  add_version_info size version m = Ok m' -> mget size m' i j = mget size m i j.
Proof.
  intros Hs Hi Hj Hoff H. unfold add_version_info in H.
  destruct (version <? 7) eqn:H7; [injection H as <-; reflexivity|].
  destruct (nthZ VERSION_INFO (version - 7)) as [vi|e]; cbn [bind] in H; [|discriminate].
  unfold off_infob in Hoff. cbn [fst snd] in Hoff.
  match type of H with context [set_all size m ?c] => set (cells := c) in H end.
  assert (Hset : mget size (set_all size m cells) i j = mget size m i j);
    [|clearbody cells; injection H as <-; exact Hset].
  subst cells. clear H.
  apply set_all_other. intros i' j' b Hin.
  apply in_flat_map in Hin. destruct Hin as [x [Hx Hin]]. apply zrange_In_inv in Hx.
  cbv zeta in Hin.
  destruct Hin as [E|[E|[E|[E|[E|[E|[]]]]]]]; injection E as <- <- _; apply idx_neq; lia.
Qed.

(* ------------------------------------------------------------------------------------------ *)
(* 6. the implementation's mask predicates are the ISO ones                                   *)
(* ------------------------------------------------------------------------------------------ *)
Lemma land_1 x : Z.land x 1 = x mod 2.
Proof. change 1 with (Z.ones 1) at 1. rewrite Z.land_ones by lia. reflexivity. Qed.

Theorem mask_fn_iso micro k i j : mask_fn micro k i j = iso_mask_for micro k i j.
Proof.
  unfold mask_fn, iso_mask_for, micro_mask_index, iso_mask. rewrite !land_1.
  destruct micro; reflexivity.
Qed.

(* ------------------------------------------------------------------------------------------ *)
(* 7. rows_of / cell                                                                          *)
(* ------------------------------------------------------------------------------------------ *)
Lemma lenZ_rows_of size m : 0 <= size -> lenZ (rows_of size m) = size.
Proof. intros H. unfold lenZ, rows_of. rewrite map_length, zrange_length. lia. Qed.

Lemma cell_rows_of size m i j : 0 <= i < size -> 0 <= j < size ->
  cell (rows_of size m) i j = match mget size m i j with Some b => b | None => false end.
Proof.
  intros Hi Hj. unfold cell, rows_of.
  rewrite (nth_map_zrange (fun i0 => map (fun j0 => match mget size m i0 j0 with Some b => b | None => false end)
                                         (zrange 0 size)) size i []) by assumption.
  rewrite (nth_map_zrange (fun j0 => match mget size m i j0 with Some b => b | None => false end) size j false)
    by assumption.
  reflexivity.
Qed.

(* ------------------------------------------------------------------------------------------ *)
(* 8. per-version consequences: data positions, region                                        *)
(* ------------------------------------------------------------------------------------------ *)
Lemma function_matrix_base size :
  function_matrix size =
  (do m2 <- base_matrix size; Ok (if size <? 21 then m2 else mset size m2 (size - 8) 8 true)).
Proof.
  unfold function_matrix, base_matrix.
  destruct (add_finder_patterns size (make_matrix size true true)); reflexivity.
Qed.

Lemma size_bounds v : -3 <= v <= 40 ->
  11 <= calc_matrix_size v <= 177 /\ (calc_matrix_size v <? 21) = (v <? 1).
Proof. intros Hv. unfold calc_matrix_size. destruct (0 <? v) eqn:E; lia. Qed.

Lemma map_fst_combine {A B} (bs : list A) : forall (l : list B),
  (List.length bs <= List.length l)%nat -> map fst (combine bs l) = bs.
Proof.
  induction bs as [|b bs IH]; intros [|c l] H; cbn in H; try lia; [reflexivity| reflexivity|].
  cbn [combine map fst]. f_equal. apply IH. lia.
Qed.

Section PerVersion2.
  Variables (v size : Z) (m2 fm : mat).
  Hypothesis Hv : -3 <= v <= 40.
  Hypothesis Hsize : size = calc_matrix_size v.
  Hypothesis Hbase : base_matrix size = Ok m2.
  Hypothesis Hfm : function_matrix size = Ok fm.

  (* the decoder's ISO placement order restricted to ISO data modules is the model's visiting order
     restricted to the cells left unset by the function patterns *)
  Theorem visit_filter_ok :
    filter (fun '(i, j) => match mget size m2 i j with None => true | Some _ => false end)
           (visit_order size v) = data_positions size
    /\ NoDup (visit_order size v)
    /\ (forall i j, In (i, j) (visit_order size v) -> 0 <= i < size /\ 0 <= j < size).
  Proof.
    destruct (version_facts v size m2 Hv Hsize Hbase) as (Hdp & Hnd & Hr & _ & _).
    split; [|split].
    - rewrite <- Hdp. apply filter_ext. intros [i j]. reflexivity.
    - apply NoDup_map_inv in Hnd. exact Hnd.
    - intros i j Hin. apply Hr in Hin. apply in_rangeb_spec in Hin. exact Hin.
  Qed.

  Lemma data_positions_In c :
    In c (data_positions size) <-> in_rangeb size c = true /\ freeb size m2 c = true.
  Proof.
    destruct (version_facts v size m2 Hv Hsize Hbase) as (Hdp & _ & Hr & _ & Hcov).
    rewrite <- Hdp, filter_In. split.
    - intros [H1 H2]. split; [apply Hr; exact H1|exact H2].
    - intros [H1 H2]. split; [apply Hcov; assumption|exact H2].
  Qed.

  Lemma NoDup_pidx_data_positions : NoDup (map (pidx size) (data_positions size)).
  Proof.
    destruct (version_facts v size m2 Hv Hsize Hbase) as (Hdp & Hnd & _).
    rewrite <- Hdp. apply NoDup_map_pidx_filter. exact Hnd.
  Qed.

  Lemma data_positions_off c : In c (data_positions size) -> off_infob size v c = true.
  Proof. destruct (version_facts v size m2 Hv Hsize Hbase) as (_ & _ & _ & Hoff & _). apply Hoff. Qed.

  Lemma freeb_fm c : in_rangeb size c = true ->
    freeb size fm c = true <-> freeb size m2 c = true /\ (size <? 21 = true \/ c <> (size - 8, 8)).
  Proof.
    intros Hr. rewrite function_matrix_base, Hbase in Hfm. cbn [bind] in Hfm. injection Hfm as <-.
    destruct (size_bounds v Hv) as [Hb Hm]. rewrite <- Hsize in Hb, Hm.
    destruct (size <? 21) eqn:E; [tauto|].
    unfold freeb, mget, mset.
    destruct c as [i j]. cbn [fst snd]. apply in_rangeb_spec in Hr. cbn [fst snd] in Hr.
    destruct (Pos.eq_dec (idx size (size - 8) 8) (idx size i j)) as [Eq|Ne].
    - rewrite Eq, PM.gss. apply idx_inj in Eq; try lia. destruct Eq as [<- <-].
      split; [discriminate|]. intros [_ [H|H]]; [discriminate|congruence].
    - rewrite PM.gso by (intro; apply Ne; congruence). split; [|tauto].
      intros H. split; [exact H|]. right. intro Ec. injection Ec as -> ->. apply Ne. reflexivity.
  Qed.

  (* the encoding region of the model (cells unset in the function matrix) is, as a set, the set of
     unset cells of the base matrix, i.e. the set of ISO data positions *)
  Theorem region_is_data_positions c : In c (region size fm) <-> In c (data_positions size).
  Proof.
    rewrite region_In, data_positions_In. split.
    - intros [Hr Hf]. apply freeb_fm in Hf; tauto.
    - intros [Hr Hf]. split; [exact Hr|]. apply freeb_fm; [exact Hr|]. split; [exact Hf|].
      assert (Hin : In c (data_positions size)) by (apply data_positions_In; tauto).
      apply data_positions_off in Hin. unfold off_infob in Hin.
      destruct (size_bounds v Hv) as [Hb Hm]. rewrite <- Hsize in Hb, Hm.
      destruct (size <? 21) eqn:E; [now left|right].
      intro Ec. subst c. cbn [fst snd] in Hin. lia.
  Qed.
End PerVersion2.

(* ------------------------------------------------------------------------------------------ *)
(* 9. main theorem                                                                            *)
(* ------------------------------------------------------------------------------------------ *)
Definition mask_bits (size k : Z) (cells : list (Z * Z)) : list bool :=
  map (fun c => iso_mask_for (size <? 21) k (fst c) (snd c)) cells.

Theorem read_stream_of_model : forall version size m2 final m3 k fm m4 m5 m6 error,
  -3 <= version <= 40 -> size = calc_matrix_size version ->
  (do m1 <- add_finder_patterns size (make_matrix size true true); add_alignment_patterns size m1) = Ok m2 ->
  add_codewords size version m2 final = Ok m3 ->
  function_matrix size = Ok fm ->
  m4 = apply_mask size m3 (region size fm) (mask_fn (size <? 21) k) ->
  add_format_info size version error k m4 = Ok m5 ->
  add_version_info size version m5 = Ok m6 ->
  (List.length final <= List.length (data_positions size))%nat /\
  read_stream (rows_of size m6) k =
    final ++ mask_bits size k (skipn (List.length final) (data_positions size)).
Proof.
  intros version size m2 final m3 k fm m4 m5 m6 error Hv Hsize Hbase Hcw Hfm Hm4 Hfi Hvi.
  change (base_matrix size = Ok m2) in Hbase.
  destruct (size_bounds version Hv) as [Hb Hm]. rewrite <- Hsize in Hb, Hm.
  destruct (version_facts version size m2 Hv Hsize Hbase) as (Hdp & Hnd & Hr & Hoff & Hcov).
  pose proof (NoDup_pidx_data_positions version size m2 Hv Hsize Hbase) as Hnd_dp.
  apply add_codewords_place in Hcw; [|exact Hnd]. rewrite Hdp in Hcw. destruct Hcw as [Hm3 Hlen].
  split; [exact Hlen|].
  unfold read_stream. rewrite lenZ_rows_of by lia. unfold is_micro_size.
  set (dp := data_positions size) in *.
  set (f := fun c : Z * Z => iso_mask_for (size <? 21) k (fst c) (snd c)).
  set (h := fun (o : option bool) (c : Z * Z) =>
              xorb (match option_map (fun b => xorb b (f c)) o with Some b => b | None => false end) (f c)).
  transitivity (map (fun c => h (cget size m3 c) c) dp).
  - apply map_ext_in. intros [i j] Hin.
    assert (Hrange : in_rangeb size (i, j) = true).
    { apply (data_positions_In version size m2 Hv Hsize Hbase). exact Hin. }
    pose proof Hrange as Hrange'. apply in_rangeb_spec in Hrange'. cbn [fst snd] in Hrange'.
    destruct Hrange' as [Hi Hj].
    rewrite cell_rows_of by assumption.
    pose proof (Hoff _ Hin) as Hoff'.
    rewrite (add_version_info_other size version m5 m6 i j) by (assumption || lia).
    rewrite (add_format_info_other size version error k m4 m5 i j) by (assumption || lia).
    rewrite Hm4. rewrite apply_mask_in.
    + unfold h, f, cget. cbn [fst snd]. rewrite mask_fn_iso. reflexivity.
    + apply NoDup_pidx_region.
    + apply (region_is_data_positions version size m2 fm Hv Hsize Hbase Hfm). exact Hin.
  - rewrite Hm3. rewrite read_place_gen by assumption. f_equal.
    + transitivity (map fst (combine final dp)); [|apply map_fst_combine; exact Hlen].
      apply map_ext. intros [b c]. unfold h. cbn [fst snd option_map].
      rewrite xorb_assoc, xorb_nilpotent, xorb_false_r. reflexivity.
    + unfold mask_bits. apply map_ext_in. intros c Hin. apply skipn_In in Hin.
      apply (data_positions_In version size m2 Hv Hsize Hbase) in Hin. destruct Hin as [_ Hfree].
      unfold freeb in Hfree. unfold h, cget. destruct (mget size m2 (fst c) (snd c)); [discriminate|].
      cbn [option_map]. apply xorb_false_l.
Qed.
Print Assumptions read_stream_of_model.

(* when the message fills the encoding region exactly, the decoder reads back exactly the message *)
Corollary read_stream_of_model_exact : forall version size m2 final m3 k fm m4 m5 m6 error,
  -3 <= version <= 40 -> size = calc_matrix_size version ->
  (do m1 <- add_finder_patterns size (make_matrix size true true); add_alignment_patterns size m1) = Ok m2 ->
  add_codewords size version m2 final = Ok m3 ->
  function_matrix size = Ok fm ->
  m4 = apply_mask size m3 (region size fm) (mask_fn (size <? 21) k) ->
  add_format_info size version error k m4 = Ok m5 ->
  add_version_info size version m5 = Ok m6 ->
  List.length final = List.length (data_positions size) ->
  read_stream (rows_of size m6) k = final.
Proof.
  intros version size m2 final m3 k fm m4 m5 m6 error Hv Hsize Hbase Hcw Hfm Hm4 Hfi Hvi Hlen.
  destruct (read_stream_of_model version size m2 final m3 k fm m4 m5 m6 error Hv Hsize Hbase Hcw Hfm Hm4 Hfi Hvi)
    as [_ H].
  rewrite H, Hlen, skipn_all. unfold mask_bits. cbn [map]. apply app_nil_r.
Qed.
Print Assumptions read_stream_of_model_exact.

(* ------------------------------------------------------------------------------------------ *)
(* 10. the same through encode_core                                                           *)
(* ------------------------------------------------------------------------------------------ *)
Lemma best_mask_loop_shape size micro m reg ks : forall score best k mk,
  best_mask_loop size micro m reg ks score best = Some (k, mk) ->
  best = Some (k, mk) \/ mk = apply_mask size m reg (mask_fn micro k).
Proof.
  induction ks as [|k0 r IH]; intros score best k mk H; cbn [best_mask_loop] in H; [now left|].
  cbv zeta in H.
  match type of H with (if ?c then _ else _) = _ => destruct c end.
  - apply IH in H. destruct H as [H|H]; [|now right]. injection H as <- <-. now right.
  - apply IH in H. exact H.
Qed.

Lemma find_and_apply_best_mask_shape size m proposed k m4 :
  find_and_apply_best_mask size m proposed = Ok (k, m4) ->
  exists fm, function_matrix size = Ok fm /\
             m4 = apply_mask size m (region size fm) (mask_fn (size <? 21) k).
Proof.
  unfold find_and_apply_best_mask. intros H.
  destruct (function_matrix size) as [fm|e]; cbn [bind] in H; [|discriminate].
  exists fm. split; [reflexivity|]. cbv zeta in H.
  destruct proposed as [k0|].
  - injection H as <- <-. reflexivity.
  - match type of H with match ?b with _ => _ end = _ => destruct b as [[k1 mk]|] eqn:E end; [|discriminate].
    injection H as -> ->. apply best_mask_loop_shape in E. destruct E as [E|E]; [discriminate|exact E].
Qed.

Ltac bind_step H x E :=
  match type of H with
  | bind ?r _ = Ok _ => destruct r as [x|?] eqn:E; cbn [bind] in H; [|discriminate H]
  end.

Theorem read_stream_of_encode_core : forall segs error version mask eci boost sa code,
  -3 <= version <= 40 ->
  encode_core segs error version mask eci boost sa = Ok code ->
  exists buff final,
    data_stream segs (c_error code) version eci sa = Ok buff /\
    make_final_message version (c_error code) buff = Ok final /\
    (List.length final <= List.length (data_positions (calc_matrix_size version)))%nat /\
    read_stream (c_matrix code) (c_mask code) =
      final ++ mask_bits (calc_matrix_size version) (c_mask code)
                 (skipn (List.length final) (data_positions (calc_matrix_size version))).
Proof.
  intros segs error version mask eci boost sa code Hv H.
  unfold encode_core in H.
  bind_step H error' Eerr. bind_step H buff Ebuff. bind_step H final Efinal. cbv zeta in H.
  bind_step H m1 E1. bind_step H m2 E2. bind_step H m3 E3.
  bind_step H km4 E4. destruct km4 as [k m4].
  bind_step H m5 E5. bind_step H m6 E6. injection H as <-. cbn [c_error c_matrix c_mask].
  exists buff, final. split; [exact Ebuff|]. split; [exact Efinal|].
  apply find_and_apply_best_mask_shape in E4. destruct E4 as [fm [Hfm Hm4]].
  apply (read_stream_of_model version (calc_matrix_size version) m2 final m3 k fm m4 m5 m6 error').
  - exact Hv.
  - reflexivity.
  - rewrite E1. cbn [bind]. exact E2.
  - exact E3.
  - exact Hfm.
  - exact Hm4.
  - exact E5.
  - exact E6.
Qed.
Print Assumptions read_stream_of_encode_core.

Corollary read_stream_of_encode_core_exact : forall segs error version mask eci boost sa code,
  -3 <= version <= 40 ->
  encode_core segs error version mask eci boost sa = Ok code ->
  exists buff final,
    data_stream segs (c_error code) version eci sa = Ok buff /\
    make_final_message version (c_error code) buff = Ok final /\
    (List.length final = List.length (data_positions (calc_matrix_size version)) ->
     read_stream (c_matrix code) (c_mask code) = final).
Proof.
  intros segs error version mask eci boost sa code Hv H.
  destruct (read_stream_of_encode_core _ _ _ _ _ _ _ _ Hv H) as [buff [final [H1 [H2 [_ H4]]]]].
  exists buff, final. split; [exact H1|]. split; [exact H2|]. intros Hlen.
  rewrite H4, Hlen, skipn_all. unfold mask_bits. cbn [map]. apply app_nil_r.
Qed.
Print Assumptions read_stream_of_encode_core_exact.


(* ------------------------------------------------------------------------------------------ *)
(* 11. the variant "read_stream _ = final ++ repeat false _" is FALSE: cells that add_codewords  *)
(*     leaves unset are not masked by apply_mask, rows_of renders them light, and the decoder    *)
(*     then releases the mask on them, i.e. they read back as the mask bit, not as 0.            *)
(*     Counterexample: version 1, final = [], mask 0: all hypotheses of read_stream_of_model     *)
(*     hold, and the stream read back is the mask pattern 0 on the 208 data modules.             *)
(* ------------------------------------------------------------------------------------------ *)
Lemma repeat_false_padding_is_false :
  match (do m2 <- base_matrix 21;
         do m3 <- add_codewords 21 1 m2 [];
         do fm <- function_matrix 21;
         do m5 <- add_format_info 21 1 None 0 (apply_mask 21 m3 (region 21 fm) (mask_fn (21 <? 21) 0));
         do m6 <- add_version_info 21 1 m5;
         Ok (read_stream (rows_of 21 m6) 0)) with
  | Ok stream => (List.length stream =? List.length (data_positions 21))%nat
                 && existsb (fun b => b) stream        (* not all false *)
                 && Bool.eqb (hd false stream) true
  | Err _ => false
  end = true.
Proof. vm_compute. reflexivity. Qed.

Print Assumptions visit_filter_ok.
Print Assumptions region_is_data_positions.
Print Assumptions place_visit_path.
Print Assumptions read_place.
Print Assumptions apply_mask_find.
Print Assumptions apply_mask_twice.
Print Assumptions add_format_info_other.
Print Assumptions add_version_info_other.
Print Assumptions mask_fn_iso.
Print Assumptions repeat_false_padding_is_false.
