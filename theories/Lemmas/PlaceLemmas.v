(* The reference decoder's bit reading (Ref/Decoder.read_stream) inverts the model's codeword placement
   and masking (Model/Matrix.add_codewords, apply_mask), for arbitrary message bits. *)
From Coq Require Import ZArith List Bool Lia ZifyBool FMapPositive PArith.
From Segno Require Import Base.PyLite Ref.IsoData Ref.Geometry Ref.MaskCond Ref.Decoder.
From Segno Require Import Model.Bits Model.Segment Model.Version Model.Stream Model.Matrix Model.Encode.
Import ListNotations.
Open Scope Z_scope.

(* ------------------------------------------------------------------------------------------ *)
(* 0. cells, indices, small list facts                                                        *)
(* ------------------------------------------------------------------------------------------ *)
Definition pidx (size : Z) (c : Z * Z) : positive := idx size (fst c) (snd c).
Definition cget (size : Z) (m : mat) (c : Z * Z) : option bool := mget size m (fst c) (snd c).
Definition freeb (size : Z) (m : mat) (c : Z * Z) : bool :=
  match mget size m (fst c) (snd c) with None => true | Some _ => false end.
Definition in_rangeb (size : Z) (c : Z * Z) : bool :=
  (0 <=? fst c) && (fst c <? size) && (0 <=? snd c) && (snd c <? size).
Definition base_matrix (size : Z) : res mat :=
  do m1 <- add_finder_patterns size (make_matrix size true true); add_alignment_patterns size m1.

Lemma idx_inj size i j i' j' :
  0 <= i < size -> 0 <= j < size -> 0 <= i' < size -> 0 <= j' < size ->
  idx size i j = idx size i' j' -> i = i' /\ j = j'.
Proof.
  unfold idx. intros Hi Hj Hi' Hj' H.
  apply (f_equal Z.pos) in H.
  assert (H0 : 0 <= i * size) by (apply Z.mul_nonneg_nonneg; lia).
  assert (H0' : 0 <= i' * size) by (apply Z.mul_nonneg_nonneg; lia).
  rewrite !Z2Pos.id in H by lia.
  assert (Hii : i = i').
  { destruct (Z.lt_trichotomy i i') as [Hlt|[Heq|Hgt]]; [exfalso|exact Heq|exfalso].
    - assert ((i + 1) * size <= i' * size) by (apply Z.mul_le_mono_nonneg_r; lia). lia.
    - assert ((i' + 1) * size <= i * size) by (apply Z.mul_le_mono_nonneg_r; lia). lia. }
  subst i'. split; [reflexivity|lia].
Qed.

Lemma in_rangeb_spec size c : in_rangeb size c = true <-> (0 <= fst c < size /\ 0 <= snd c < size).
Proof. unfold in_rangeb. lia. Qed.

Lemma pidx_inj size c c' : in_rangeb size c = true -> in_rangeb size c' = true ->
  pidx size c = pidx size c' -> c = c'.
Proof.
  rewrite !in_rangeb_spec. destruct c as [i j], c' as [i' j']. unfold pidx. cbn [fst snd].
  intros [Hi Hj] [Hi' Hj'] H. apply idx_inj in H; try assumption. destruct H; subst; reflexivity.
Qed.

Lemma skipn_In {A} (x : A) n : forall l, In x (skipn n l) -> In x l.
Proof.
  induction n as [|n IH]; intros [|a l] H; cbn [skipn] in H; auto. right. apply IH. exact H.
Qed.

Lemma zrange_length a b : List.length (zrange a b) = Z.to_nat (b - a).
Proof. unfold zrange. apply zrange_aux_length. Qed.

Lemma nth_zrange_aux n : forall a k, (k < n)%nat -> nth k (zrange_aux n a) 0 = a + Z.of_nat k.
Proof.
  induction n as [|n IH]; intros a k Hk; [lia|].
  destruct k as [|k]; cbn [zrange_aux nth]; [lia|]. rewrite IH by lia. lia.
Qed.

Lemma nth_map_zrange {A} (f : Z -> A) n i d : 0 <= i < n ->
  nth (Z.to_nat i) (map f (zrange 0 n)) d = f i.
Proof.
  intros Hi. rewrite (nth_indep _ d (f 0)) by (rewrite map_length, zrange_length; lia).
  rewrite map_nth. unfold zrange. rewrite nth_zrange_aux by lia. f_equal. lia.
Qed.

Lemma all_cells_In size c : In c (all_cells size) <-> in_rangeb size c = true.
Proof.
  unfold all_cells. rewrite in_rangeb_spec, in_flat_map. split.
  - intros [i [Hi Hc]]. apply in_map_iff in Hc. destruct Hc as [j [<- Hj]].
    apply zrange_In_inv in Hi, Hj. cbn [fst snd]. lia.
  - intros [Hi Hj]. exists (fst c). split; [apply zrange_In; lia|].
    apply in_map_iff. exists (snd c). split; [destruct c; reflexivity|apply zrange_In; lia].
Qed.

(* ------------------------------------------------------------------------------------------ *)
(* 1. boolean checkers with PositiveMap sets, and their soundness                             *)
(* ------------------------------------------------------------------------------------------ *)
Fixpoint cells_eqb (a b : list (Z * Z)) : bool :=
  match a, b with
  | [], [] => true
  | x :: a', y :: b' => (fst x =? fst y) && (snd x =? snd y) && cells_eqb a' b'
  | _, _ => false
  end.
Lemma cells_eqb_eq a : forall b, cells_eqb a b = true -> a = b.
Proof.
  induction a as [|[i j] a IH]; intros [|[i' j'] b] H; cbn [cells_eqb fst snd] in H; try discriminate; auto.
  apply andb_prop in H. destruct H as [H1 H2]. apply IH in H2.
  assert (i = i' /\ j = j') as [-> ->] by lia. subst. reflexivity.
Qed.

Fixpoint nodupb_aux (l : list positive) (s : PM.t unit) : bool :=
  match l with
  | [] => true
  | p :: r => if PM.mem p s then false else nodupb_aux r (PM.add p tt s)
  end.
Definition nodupb (l : list positive) : bool := nodupb_aux l (PM.empty unit).

Lemma pm_mem_add (p q : positive) (s : PM.t unit) :
  PM.mem q (PM.add p tt s) = if Pos.eq_dec p q then true else PM.mem q s.
Proof.
  unfold PM.mem. destruct (Pos.eq_dec p q) as [->|Hne].
  - rewrite PM.gss. reflexivity.
  - rewrite PM.gso by (intro; subst; contradiction). reflexivity.
Qed.

Lemma nodupb_aux_sound l : forall s, nodupb_aux l s = true ->
  NoDup l /\ forall p, In p l -> PM.mem p s = false.
Proof.
  induction l as [|p r IH]; intros s H; cbn [nodupb_aux] in H.
  - split; [constructor|intros p []].
  - destruct (PM.mem p s) eqn:Hp; [discriminate|]. apply IH in H. destruct H as [Hnd Hs].
    assert (Hnotin : ~ In p r).
    { intro Hin. apply Hs in Hin. rewrite pm_mem_add in Hin. destruct (Pos.eq_dec p p); congruence. }
    split; [constructor; assumption|].
    intros q [<-|Hq]; [exact Hp|]. specialize (Hs q Hq). rewrite pm_mem_add in Hs.
    destruct (Pos.eq_dec p q); [discriminate|exact Hs].
Qed.
Lemma nodupb_sound l : nodupb l = true -> NoDup l.
Proof. intros H. apply nodupb_aux_sound in H. tauto. Qed.

Definition set_of (l : list positive) : PM.t unit :=
  fold_left (fun s p => PM.add p tt s) l (PM.empty unit).
Lemma set_of_sound_aux l : forall s q,
  PM.mem q (fold_left (fun s p => PM.add p tt s) l s) = true -> In q l \/ PM.mem q s = true.
Proof.
  induction l as [|p r IH]; intros s q H; cbn [fold_left] in H; [now right|].
  apply IH in H. destruct H as [H|H]; [left; now right|].
  rewrite pm_mem_add in H. destruct (Pos.eq_dec p q) as [->|]; [left; now left|now right].
Qed.
Lemma set_of_sound l q : PM.mem q (set_of l) = true -> In q l.
Proof.
  intros H. apply set_of_sound_aux in H. destruct H as [H|H]; [exact H|].
  unfold PM.mem in H. rewrite PM.gempty in H. discriminate.
Qed.

Lemma NoDup_map_inj_on {A B} (f : A -> B) (l : list A) a b :
  NoDup (map f l) -> In a l -> In b l -> f a = f b -> a = b.
Proof.
  induction l as [|x l IH]; intros Hnd Ha Hb Hf; [destruct Ha|].
  cbn [map] in Hnd. inversion Hnd as [|y ys Hx Hnd']; subst.
  destruct Ha as [->|Ha], Hb as [->|Hb]; auto.
  - exfalso. apply Hx. rewrite Hf. now apply in_map.
  - exfalso. apply Hx. rewrite <- Hf. now apply in_map.
Qed.

(* ------------------------------------------------------------------------------------------ *)
(* 2. finite facts, one kernel computation per version                                        *)
(* ------------------------------------------------------------------------------------------ *)
(* a data module is not a format / version information / dark module position *)
Definition off_infob (size v : Z) (c : Z * Z) : bool :=
  let i := fst c in let j := snd c in
  let micro := v <? 1 in
  negb (((j =? 8) && ((i <=? 8) || (negb micro && (size - 8 <=? i))))
        || ((i =? 8) && ((j <=? 8) || (negb micro && (size - 8 <=? j))))
        || ((7 <=? v) && (((i <? 6) && (size - 11 <=? j) && (j <=? size - 9))
                          || ((j <? 6) && (size - 11 <=? i) && (i <=? size - 9))))).

Definition version_ok (v : Z) : bool :=
  let size := calc_matrix_size v in
  match base_matrix size with
  | Ok m2 =>
      let vo := visit_order size v in
      let dp := data_positions size in
      let voset := set_of (map (pidx size) vo) in
      cells_eqb (filter (freeb size m2) vo) dp
      && nodupb (map (pidx size) vo)
      && forallb (in_rangeb size) vo
      && forallb (off_infob size v) dp
      && forallb (fun c => negb (freeb size m2 c) || PM.mem (pidx size c) voset) (all_cells size)
  | Err _ => false
  end.

Lemma all_versions_ok : forallb (fun v => version_ok v) all_versions = true.
Proof. vm_compute. reflexivity. Qed.

Lemma calc_matrix_size_eq v : calc_matrix_size v = size_of_version v.
Proof. unfold calc_matrix_size, size_of_version. destruct (0 <? v); lia. Qed.

Lemma version_ok_at v : -3 <= v <= 40 -> version_ok v = true.
Proof.
  intros Hv. pose proof all_versions_ok as H. rewrite forallb_forall in H.
  apply H. unfold all_versions. apply zrange_In. lia.
Qed.

Section PerVersion.
  Variables (v size : Z) (m2 : mat).
  Hypothesis Hv : -3 <= v <= 40.
  Hypothesis Hsize : size = calc_matrix_size v.
  Hypothesis Hbase : base_matrix size = Ok m2.

  Lemma version_facts :
    filter (freeb size m2) (visit_order size v) = data_positions size
    /\ NoDup (map (pidx size) (visit_order size v))
    /\ (forall c, In c (visit_order size v) -> in_rangeb size c = true)
    /\ (forall c, In c (data_positions size) -> off_infob size v c = true)
    /\ (forall c, in_rangeb size c = true -> freeb size m2 c = true -> In c (visit_order size v)).
  Proof.
    pose proof (version_ok_at v Hv) as H. unfold version_ok in H. rewrite <- Hsize, Hbase in H.
    cbv zeta in H.
    apply andb_prop in H. destruct H as [H H5]. apply andb_prop in H. destruct H as [H H4].
    apply andb_prop in H. destruct H as [H H3]. apply andb_prop in H. destruct H as [H1 H2].
    apply cells_eqb_eq in H1. apply nodupb_sound in H2.
    rewrite forallb_forall in H3, H4, H5.
    repeat split; auto.
    intros c Hr Hf. apply all_cells_In in Hr. pose proof Hr as Hr'. apply H5 in Hr. rewrite Hf in Hr. cbn [negb orb] in Hr.
    apply set_of_sound in Hr. apply in_map_iff in Hr. destruct Hr as [c' [Hc' Hin]].
    apply pidx_inj in Hc'; [subst; assumption|apply H3; assumption|apply all_cells_In; assumption].
  Qed.
End PerVersion.
