(* C13 at the level of the whole symbol: the data bit stream of EVERY symbol the model's [encode_core] returns (any segments, any requested
   level, boosting on or off, with or without a Structured Append header) is the ISO 7.4.9 / 7.4.10 padded stream of the segment bits FOR THE
   CAPACITY OF THE LEVEL THE SYMBOL REPORTS (the boosted one), and this is the stream the reference reader takes from the matrix.
   [iso_pad_kf] = ISO padding with the one recorded deviation D1 (kf_pad_aligned); [PadLemmas.iso_pad_kf_is_iso] removes it outside D1.
   The bridge Tie/TieEncode*.v (translated _encode = encode_core) carries the statement to the current source. *)
From Coq Require Import ZArith List Bool Lia.
From Segno Require Import Base.PyLite Ref.IsoData Ref.Spec Ref.Geometry Ref.Decoder.
From Segno Require Import Model.Bits Model.Segment Model.Version Model.Stream Model.Matrix Model.Encode.
From Segno Require Import Lemmas.PadLemmas Lemmas.ParseLemmas Lemmas.RoundTrip Lemmas.PlaceLemmas.
Import ListNotations.
Open Scope Z_scope.

Theorem encode_core_data_is_iso_pad :
  forall segs error version mask eci boost sa code,
  -3 <= version <= 40 ->
  encode_core segs error version mask eci boost sa = Ok code ->
  exists body cap buff final,
    write_segments segs (over version) (cci_col version) eci = Ok body /\
    capacity version (c_error code) = Ok cap /\
    data_stream segs (c_error code) version eci sa = Ok buff /\
    (lenZ (sa_hdr sa ++ body) <= cap ->
       firstn (Z.to_nat cap) buff = iso_pad_kf version cap (sa_hdr sa ++ body)) /\
    (lenZ (sa_hdr sa ++ body) <= cap -> kf_pad_aligned version cap (lenZ (sa_hdr sa ++ body)) = false ->
       firstn (Z.to_nat cap) buff = iso_pad version cap (sa_hdr sa ++ body)) /\
    make_final_message version (c_error code) buff = Ok final /\
    (List.length final = List.length (data_positions (calc_matrix_size version)) ->
       read_stream (c_matrix code) (c_mask code) = final).
Proof.
  intros segs error version mask eci boost sa code Hv Henc.
  destruct (read_stream_of_encode_core_exact _ _ _ _ _ _ _ _ Hv Henc) as (buff & final & Hds & Hfm & Hrs).
  destruct (data_stream_inv _ _ _ _ _ _ Hv Hds) as (body & cap & b1 & Hbody & Hcap & Hcap0 & Hmod & Hterm & Hbuff & _ & _).
  exists body, cap, buff, final.
  assert (Hkf : lenZ (sa_hdr sa ++ body) <= cap ->
                firstn (Z.to_nat cap) buff = iso_pad_kf version cap (sa_hdr sa ++ body)).
  { intros Hle. subst buff. unfold over in Hterm.
    exact (pad_model_is_iso_kf version cap (sa_hdr sa ++ body) b1 Hv Hcap0 Hmod Hle Hterm). }
  repeat split; try assumption.
  intros Hle Hnkf. rewrite (Hkf Hle). apply iso_pad_kf_is_iso. exact Hnkf.
Qed.
Print Assumptions encode_core_data_is_iso_pad.
