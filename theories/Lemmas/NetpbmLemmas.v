(* Round-trip and error-behaviour theorems for the Netpbm serializers (Model/Netpbm.v) against the independent
   readers (Ref/NetpbmReader.v). *)
From Coq Require Import ZArith List Bool Lia ZifyBool QArith.
From Coq Require String Ascii.
From Segno Require Import Base.PyLite Base.PyCase Ref.IsoData Model.Iter Model.Color Ref.Pixel Model.Netpbm Ref.NetpbmReader.
Import String.StringSyntax.
Import ListNotations.
Open Scope Z_scope.
Delimit Scope string_scope with string.
Ltac Zify.zify_post_hook ::= Z.to_euclidean_division_equations.

Definition bit (c : Z) : Prop := c = 0 \/ c = 1.
Definition bits_matrix (m : list (list Z)) : Prop := Forall (Forall bit) m.

(* ------------------------------------------------------------------------------------------------ *)
(** * Generic list facts *)

Lemma zrange_aux_app n : forall m a, zrange_aux (n + m) a = zrange_aux n a ++ zrange_aux m (a + Z.of_nat n).
Proof.
  induction n as [|n IH]; intros m a.
  - cbn. f_equal. lia.
  - cbn [Nat.add zrange_aux app]. f_equal. rewrite IH. f_equal. f_equal. lia.
Qed.

Lemma zrange_aux_shift n : forall a k, zrange_aux n (a + k) = map (fun x => x + k) (zrange_aux n a).
Proof.
  induction n as [|n IH]; intros a k; cbn [zrange_aux map]; [reflexivity|].
  f_equal. replace (a + k + 1) with (a + 1 + k) by lia. apply IH.
Qed.

Lemma map_const_repeat {A B} (g : A -> B) c l : (forall x, In x l -> g x = c) -> map g l = repeat c (length l).
Proof.
  induction l as [|x l IH]; intros H; cbn; [reflexivity|].
  f_equal; [apply H; now left|apply IH; intros y Hy; apply H; now right].
Qed.

Lemma repeat_each_cons {A} n (x : A) l : repeat_each n (x :: l) = repeat x (Z.to_nat n) ++ repeat_each n l.
Proof. reflexivity. Qed.

Lemma repeat_each_zrange {B} (f : Z -> B) (s : nat) : (1 <= s)%nat ->
  forall m a, repeat_each (Z.of_nat s) (map f (zrange_aux m a))
              = map (fun y => f (y / Z.of_nat s + a)) (zrange_aux (m * s) 0).
Proof.
  intros Hs. induction m as [|m IH]; intros a; [reflexivity|].
  cbn [zrange_aux map]. rewrite repeat_each_cons, IH.
  change (S m * s)%nat with (s + m * s)%nat. rewrite zrange_aux_app, map_app. f_equal.
  - rewrite Nat2Z.id.
    rewrite (map_const_repeat _ (f a)); [now rewrite zrange_aux_length|].
    intros x Hx. apply zrange_aux_In_inv in Hx. f_equal.
    assert (x / Z.of_nat s = 0) by (apply Z.div_small; lia). lia.
  - replace (0 + Z.of_nat s) with (0 + Z.of_nat s) by reflexivity.
    rewrite zrange_aux_shift, map_map. apply map_ext. intros y. f_equal.
    replace (y + Z.of_nat s) with (y + 1 * Z.of_nat s) by lia.
    rewrite Z.div_add by lia. lia.
Qed.

Lemma repeat_each_length {A} n (l : list A) : length (repeat_each n l) = (Z.to_nat n * length l)%nat.
Proof.
  unfold repeat_each. induction l as [|x l IH]; cbn [flat_map length]; [lia|].
  rewrite app_length, repeat_length, IH. lia.
Qed.

Lemma repeat_each_Forall {A} (P : A -> Prop) n l : Forall P l -> Forall P (repeat_each n l).
Proof.
  intros H. unfold repeat_each. apply Forall_forall. intros x Hx. apply in_flat_map in Hx.
  destruct Hx as [y [Hy Hx]]. apply repeat_spec in Hx. subst x. rewrite Forall_forall in H. now apply H.
Qed.

Lemma firstn_length_app {A} (l m : list A) k : length l = k -> firstn k (l ++ m) = l.
Proof. intros <-. rewrite firstn_app, Nat.sub_diag, firstn_all. cbn. apply app_nil_r. Qed.
Lemma skipn_length_app {A} (l m : list A) k : length l = k -> skipn k (l ++ m) = m.
Proof. intros <-. rewrite skipn_app, Nat.sub_diag, skipn_all. reflexivity. Qed.

Lemma chunks_concat {A} (w : nat) (rows : list (list A)) :
  Forall (fun r => length r = w) rows -> chunks (length rows) w (concat rows) = rows.
Proof.
  induction rows as [|r rows IH]; intros H; [reflexivity|].
  inversion H as [|r' rows' Hr Hrows]; subst.
  cbn [length chunks concat]. rewrite firstn_length_app, skipn_length_app by reflexivity.
  f_equal. now apply IH.
Qed.

Lemma concat_length_uniform {A} (w : nat) (rows : list (list A)) :
  Forall (fun r => length r = w) rows -> length (concat rows) = (length rows * w)%nat.
Proof.
  induction rows as [|r rows IH]; intros H; [reflexivity|].
  inversion H as [|r' rows' Hr Hrows]; subst. cbn [concat length]. rewrite app_length, IH by assumption. lia.
Qed.

Lemma Forall_map_iff {A B} (f : A -> B) (P : B -> Prop) l : Forall P (map f l) <-> Forall (fun x => P (f x)) l.
Proof. rewrite !Forall_forall. split; intros H x Hx.
  - apply H. now apply in_map.
  - apply in_map_iff in Hx. destruct Hx as [y [<- Hy]]. now apply H.
Qed.

Lemma Forall_concat {A} (P : A -> Prop) rows : Forall (Forall P) rows -> Forall P (concat rows).
Proof.
  induction rows as [|r rows IH]; intros H; cbn [concat]; [constructor|].
  inversion H; subst. apply Forall_app. split; [assumption|now apply IH].
Qed.

Lemma forallb_Forall {A} (p : A -> bool) l : forallb p l = true <-> Forall (fun x => p x = true) l.
Proof. rewrite forallb_forall, Forall_forall. reflexivity. Qed.

(* ------------------------------------------------------------------------------------------------ *)
(** * The rows that the writers iterate over are the specified picture *)

Lemma zrange_as_aux a b : zrange a b = zrange_aux (Z.to_nat (b - a)) a.
Proof. reflexivity. Qed.

Theorem iter_rows_is_pixel_grid matrix size scale border :
  0 <= size -> 1 <= scale -> 0 <= border ->
  iter_rows matrix size size scale border = pixel_grid matrix size scale border.
Proof.
  intros Hsz Hsc Hb. unfold iter_rows, pixel_grid, image_side.
  destruct (Z_of_nat_complete scale) as [s Hs]; [lia|]. subst scale.
  rewrite !zrange_as_aux.
  replace (size + border - - border) with (size + 2 * border) by lia.
  replace ((size + 2 * border) * Z.of_nat s - 0) with ((size + 2 * border) * Z.of_nat s) by lia.
  set (m := Z.to_nat (size + 2 * border)).
  replace (Z.to_nat ((size + 2 * border) * Z.of_nat s)) with (m * s)%nat
    by (unfold m; rewrite Z2Nat.inj_mul, Nat2Z.id by lia; reflexivity).
  rewrite repeat_each_zrange by lia.
  apply map_ext. intros y.
  rewrite repeat_each_zrange by lia.
  apply map_ext. intros x. reflexivity.
Qed.

Lemma pixel_grid_length matrix size scale border :
  length (pixel_grid matrix size scale border) = Z.to_nat (image_side size scale border).
Proof. unfold pixel_grid. rewrite map_length, zrange_as_aux, zrange_aux_length. f_equal. lia. Qed.

Lemma pixel_grid_row_length matrix size scale border :
  Forall (fun r => length r = Z.to_nat (image_side size scale border)) (pixel_grid matrix size scale border).
Proof.
  unfold pixel_grid. apply Forall_map_iff, Forall_forall. intros y _.
  rewrite map_length, zrange_as_aux, zrange_aux_length. f_equal. lia.
Qed.

Lemma nth_bit (l : list Z) k : Forall bit l -> bit (nth k l 0).
Proof.
  intros H. destruct (nth_in_or_default k l 0) as [Hin | ->]; [|now left].
  rewrite Forall_forall in H. now apply H.
Qed.

Lemma module_at_bit matrix size i j : bits_matrix matrix -> bit (module_at matrix size i j).
Proof.
  intros H. unfold module_at. destruct (_ && _); [|now left].
  apply nth_bit. destruct (nth_in_or_default (Z.to_nat i) matrix []) as [Hin | ->]; [|constructor].
  unfold bits_matrix in H. rewrite Forall_forall in H. now apply H.
Qed.

Lemma pixel_grid_bits matrix size scale border :
  bits_matrix matrix -> Forall (Forall bit) (pixel_grid matrix size scale border).
Proof.
  intros H. unfold pixel_grid. apply Forall_map_iff, Forall_forall. intros y _.
  apply Forall_map_iff, Forall_forall. intros x _. now apply module_at_bit.
Qed.

Lemma iter_verbose_rows_length matrix am width height scale border :
  0 <= scale -> 0 <= height + 2 * border ->
  length (iter_verbose_rows matrix am width height scale border) = Z.to_nat ((height + 2 * border) * scale).
Proof.
  intros Hs Hh. unfold iter_verbose_rows. rewrite repeat_each_length, map_length, zrange_as_aux, zrange_aux_length.
  rewrite Z2Nat.inj_mul by lia. replace (height + border - - border) with (height + 2 * border) by lia. lia.
Qed.

Lemma iter_verbose_rows_row_length matrix am width height scale border :
  0 <= scale -> 0 <= width + 2 * border ->
  Forall (fun r => length r = Z.to_nat ((width + 2 * border) * scale))
         (iter_verbose_rows matrix am width height scale border).
Proof.
  intros Hs Hw. unfold iter_verbose_rows. apply repeat_each_Forall, Forall_map_iff, Forall_forall. intros i _.
  rewrite repeat_each_length, map_length, zrange_as_aux, zrange_aux_length.
  rewrite Z2Nat.inj_mul by lia. replace (width + border - - border) with (width + 2 * border) by lia. lia.
Qed.

(* ------------------------------------------------------------------------------------------------ *)
(** * Decimal printing and the header lexer *)

Definition digit (c : Z) : Prop := is_digit c = true.

Lemma dec_nat_digits fuel : forall n, 0 <= n < 2 ^ Z.of_nat fuel -> Forall digit (dec_nat fuel n).
Proof.
  induction fuel as [|f IH]; intros n Hn.
  - cbn [dec_nat]. constructor; [|constructor]. unfold digit, is_digit. change (2 ^ Z.of_nat 0) with 1 in Hn. lia.
  - cbn [dec_nat]. destruct (n <? 10) eqn:Hlt.
    + constructor; [|constructor]. unfold digit, is_digit. lia.
    + apply Forall_app. split.
      * apply IH. rewrite Nat2Z.inj_succ, Z.pow_succ_r in Hn by lia. lia.
      * constructor; [|constructor]. unfold digit, is_digit. lia.
Qed.

Lemma parse_dec_snoc l d : parse_dec (l ++ [d]) = 10 * parse_dec l + (d - 48).
Proof. unfold parse_dec. rewrite fold_left_app. reflexivity. Qed.

Lemma dec_nat_parse fuel : forall n, 0 <= n < 2 ^ Z.of_nat fuel -> parse_dec (dec_nat fuel n) = n.
Proof.
  induction fuel as [|f IH]; intros n Hn.
  - cbn [dec_nat]. unfold parse_dec. cbn [fold_left]. lia.
  - cbn [dec_nat]. destruct (n <? 10) eqn:Hlt.
    + unfold parse_dec. cbn [fold_left]. lia.
    + rewrite parse_dec_snoc, IH.
      * lia.
      * rewrite Nat2Z.inj_succ, Z.pow_succ_r in Hn by lia. lia.
Qed.

Lemma dec_nat_nonempty fuel n : dec_nat fuel n <> [].
Proof.
  destruct fuel as [|f]; cbn [dec_nat]; [discriminate|].
  destruct (n <? 10); [discriminate|]. intros H. apply app_eq_nil in H. destruct H as [_ H]. discriminate.
Qed.

Lemma dec_pos_fuel n : 0 <= n -> 0 <= n < 2 ^ Z.of_nat (S (Z.to_nat (Z.log2 n))).
Proof.
  intros Hn. split; [assumption|].
  rewrite Nat2Z.inj_succ, Z2Nat.id by apply Z.log2_nonneg.
  destruct (Z.eq_dec n 0) as [->|Hne]; [reflexivity|].
  apply Z.log2_spec. lia.
Qed.

Lemma dec_nonneg n : 0 <= n -> dec n = dec_pos n.
Proof. intros H. unfold dec. destruct (n <? 0) eqn:E; [lia|reflexivity]. Qed.

Lemma dec_digits n : 0 <= n -> Forall digit (dec n).
Proof. intros H. rewrite dec_nonneg by assumption. apply dec_nat_digits, dec_pos_fuel, H. Qed.
Lemma dec_parse n : 0 <= n -> parse_dec (dec n) = n.
Proof. intros H. rewrite dec_nonneg by assumption. apply dec_nat_parse, dec_pos_fuel, H. Qed.
Lemma dec_nonempty n : 0 <= n -> dec n <> [].
Proof. intros H. rewrite dec_nonneg by assumption. apply dec_nat_nonempty. Qed.

Lemma dec_bit b : bit b -> dec b = [48 + b].
Proof. intros [->| ->]; reflexivity. Qed.

Lemma take_digits_app ds : forall c rest, Forall digit ds -> is_digit c = false ->
  take_digits (ds ++ c :: rest) = (ds, c :: rest).
Proof.
  induction ds as [|d ds IH]; intros c rest Hds Hc.
  - cbn [app take_digits]. now rewrite Hc.
  - inversion Hds as [|d' ds' Hd Hds']; subst. cbn [app take_digits]. unfold digit in Hd. rewrite Hd.
    now rewrite IH.
Qed.

Lemma skip_ws_comment l : forall r, Forall (fun c => is_eol c = false) l ->
  skip_ws true (l ++ 10 :: r) = skip_ws false r.
Proof.
  induction l as [|c l IH]; intros r H.
  - reflexivity.
  - inversion H as [|c' l' Hc Hl]; subst. cbn [app skip_ws]. rewrite Hc. now apply IH.
Qed.

Lemma skip_ws_digits ds t : Forall digit ds -> ds <> [] -> skip_ws false (ds ++ t) = ds ++ t.
Proof.
  intros Hds Hne. destruct ds as [|d ds]; [congruence|]. inversion Hds as [|d' ds' Hd _]; subst.
  cbn [app skip_ws]. unfold digit, is_digit in Hd.
  assert (Hw : is_ws d = false) by (unfold is_ws; lia). rewrite Hw.
  assert (Hh : (d =? 35) = false) by lia. now rewrite Hh.
Qed.

(* a field that follows one white-space character *)
Lemma read_field_ws c n d t : is_ws c = true -> 0 <= n -> is_digit d = false ->
  read_field (c :: dec n ++ d :: t) = Some (n, d :: t).
Proof.
  intros Hc Hn Hd. unfold read_field. rewrite Hc. cbn [orb].
  cbn [skip_ws]. rewrite Hc.
  rewrite skip_ws_digits by (auto using dec_digits, dec_nonempty).
  rewrite take_digits_app by (auto using dec_digits).
  destruct (dec n) as [|x xs] eqn:E; [now apply dec_nonempty in E|].
  rewrite <- E, dec_parse by assumption. reflexivity.
Qed.

(* a field that follows a white-space character and a comment line *)
Lemma read_field_comment c cl n d t : is_ws c = true -> Forall (fun c => is_eol c = false) cl -> 0 <= n ->
  is_digit d = false ->
  read_field (c :: 35 :: cl ++ 10 :: dec n ++ d :: t) = Some (n, d :: t).
Proof.
  intros Hc Hcl Hn Hd. unfold read_field. rewrite Hc. cbn [orb].
  cbn [skip_ws]. rewrite Hc. change (35 =? 35) with true. change (is_ws 35) with false. cbv iota.
  rewrite skip_ws_comment by assumption.
  rewrite skip_ws_digits by (auto using dec_digits, dec_nonempty).
  rewrite take_digits_app by (auto using dec_digits).
  destruct (dec n) as [|x xs] eqn:E; [now apply dec_nonempty in E|].
  rewrite <- E, dec_parse by assumption. reflexivity.
Qed.

(* the comment that segno writes *)
Definition CL : list Z := Eval vm_compute in (bytes_of " Created by "%string ++ NETPBM_CREATOR).
Lemma CL_no_eol : Forall (fun c => is_eol c = false) CL.
Proof.
  assert (H : forallb (fun c => negb (is_eol c)) CL = true) by (vm_compute; reflexivity).
  apply forallb_Forall in H. eapply Forall_impl; [|exact H]. cbv beta. intros c Hc. now destruct (is_eol c).
Qed.

(* ------------------------------------------------------------------------------------------------ *)
(** * Validation of scale and border *)

Definition border_bad (ob : option Z) : bool := match ob with Some b => b <? 0 | None => false end.

Lemma valid_whb_spec w h s ob :
  valid_width_height_and_border w h s ob =
  if (s <? 1) || border_bad ob then Err ValueError
  else Ok ((w + 2 * get_border w h ob) * s, (h + 2 * get_border w h ob) * s, get_border w h ob).
Proof.
  unfold valid_width_height_and_border, check_valid_scale, check_valid_border, q_lebz, q_ltz, q_of, py_int,
    Qle_bool, Qeq_bool, inject_Z, border_bad. cbn [Qnum Qden bind].
  destruct (s * 1 <=? 0 * 1) eqn:E1.
  - cbn [bind]. destruct (s <? 1) eqn:E2; [reflexivity|lia].
  - cbn [bind]. destruct (s <? 1) eqn:E2; [lia|]. cbn [orb].
    destruct ob as [b|]; [|reflexivity].
    assert (Hz : Zeq_bool (b * 1) (b * 1) = true) by (apply Zeq_is_eq_bool; reflexivity).
    cbn [Qnum Qden]. rewrite Hz. cbn [negb orb].
    destruct (0 * 1 <=? b * 1) eqn:E3; cbn [negb bind]; destruct (b <? 0) eqn:E4; try reflexivity; lia.
Qed.

Lemma get_border_nonneg w h ob : border_bad ob = false -> 0 <= get_border w h ob.
Proof.
  unfold border_bad, get_border, get_default_border_size. destruct ob as [b|]; intros H; [lia|].
  destruct (_ && _); lia.
Qed.

(* ------------------------------------------------------------------------------------------------ *)
(** * PBM: bit packing (P4) *)

Lemma byte_bits_byte8 a b c d e f g h :
  bit a -> bit b -> bit c -> bit d -> bit e -> bit f -> bit g -> bit h ->
  byte_bits (byte8 a b c d e f g h) = [a; b; c; d; e; f; g; h].
Proof.
  intros [->| ->] [->| ->] [->| ->] [->| ->] [->| ->] [->| ->] [->| ->] [->| ->]; reflexivity.
Qed.

Lemma bit0 : bit 0. Proof. now left. Qed.

(* Parametric in the row width: for EVERY row of bits (any length, i.e. every residue of the width mod 8) the
   packed row has ceil(width / 8) bytes, and reading the bytes MSB-first and cutting at the width gives the row
   back (the padding bits are never looked at; they are zero, see [pack_row_padding]). *)
Lemma pack_row_spec_aux n : forall row, (length row <= n)%nat -> Forall bit row ->
  Z.of_nat (length (pack_row row)) = (Z.of_nat (length row) + 7) / 8 /\
  firstn (length row) (flat_map byte_bits (pack_row row)) = row.
Proof.
  induction n as [|n IH]; intros row Hlen Hbits.
  - destruct row; [split; reflexivity|cbn in Hlen; lia].
  - destruct row as [|a [|b [|c [|d [|e [|f [|g [|h r]]]]]]]].
    1: split; reflexivity.
    all: repeat match goal with H : Forall bit (_ :: _) |- _ => inversion H; clear H; subst end.
    1-7: split; [reflexivity|];
      cbn [pack_row flat_map]; rewrite byte_bits_byte8 by auto using bit0; reflexivity.
    destruct (IH r) as [IH1 IH2]; [cbn [length] in Hlen; lia|assumption|].
    cbn [pack_row flat_map]. rewrite byte_bits_byte8 by assumption. split.
    + cbn [length]. rewrite !Nat2Z.inj_succ, IH1. lia.
    + cbn [length app firstn]. now rewrite IH2.
Qed.

Lemma pack_row_length row : Forall bit row ->
  length (pack_row row) = Z.to_nat ((Z.of_nat (length row) + 7) / 8).
Proof. intros H. destruct (pack_row_spec_aux (length row) row) as [H1 _]; [lia|assumption|]. lia. Qed.

Lemma pack_row_unpack row : Forall bit row ->
  firstn (length row) (flat_map byte_bits (pack_row row)) = row.
Proof. intros H. now destruct (pack_row_spec_aux (length row) row) as [_ H2]; [lia|assumption|]. Qed.

(* all bits of the packed row beyond the width are zero *)
Lemma pack_row_padding_aux n : forall row, (length row <= n)%nat -> Forall bit row ->
  Forall (fun b => b = 0) (skipn (length row) (flat_map byte_bits (pack_row row))).
Proof.
  induction n as [|n IH]; intros row Hlen Hbits.
  - destruct row; [constructor|cbn in Hlen; lia].
  - destruct row as [|a [|b [|c [|d [|e [|f [|g [|h r]]]]]]]].
    1: constructor.
    all: repeat match goal with H : Forall bit (_ :: _) |- _ => inversion H; clear H; subst end.
    1-7: cbn [pack_row flat_map]; rewrite byte_bits_byte8 by auto using bit0; cbn [length app skipn];
         repeat constructor.
    cbn [pack_row flat_map]. rewrite byte_bits_byte8 by assumption. cbn [length app skipn].
    apply IH; [cbn [length] in Hlen; lia|assumption].
Qed.
Lemma pack_row_padding row : Forall bit row ->
  Forall (fun b => b = 0) (skipn (length row) (flat_map byte_bits (pack_row row))).
Proof. intros H. now apply (pack_row_padding_aux (length row)). Qed.

Lemma flat_map_concat {A B} (f : A -> list B) l : flat_map f l = concat (map f l).
Proof. apply flat_map_concat_map. Qed.

(* ------------------------------------------------------------------------------------------------ *)
(** * PBM round trip *)

Lemma pbm_header_app plain w h body :
  pbm_header plain w h ++ body =
  80 :: (if plain then 49 else 52) :: 10 :: 35 :: CL ++ 10 :: dec w ++ 32 :: dec h ++ 10 :: body.
Proof.
  unfold pbm_header. destruct plain; rewrite <- !app_assoc; reflexivity.
Qed.

Lemma p4_raster_ok (W H : nat) rows :
  length rows = H -> Forall (fun r => length r = W) rows -> Forall (Forall bit) rows ->
  read_p4_raster (Z.of_nat W) (Z.of_nat H) (flat_map pack_row rows) = Some (map (map (fun b => [b])) rows).
Proof.
  intros HH HW Hb. unfold read_p4_raster.
  set (bpr := Z.to_nat ((Z.of_nat W + 7) / 8)).
  assert (Hpl : Forall (fun r => length r = bpr) (map pack_row rows)).
  { apply Forall_map_iff, Forall_forall. intros r Hr. rewrite Forall_forall in HW, Hb.
    rewrite pack_row_length by auto. rewrite HW by assumption. reflexivity. }
  rewrite flat_map_concat.
  rewrite (concat_length_uniform bpr) by assumption. rewrite map_length, HH.
  assert (E : (Z.of_nat (H * bpr) =? (Z.of_nat W + 7) / 8 * Z.of_nat H) = true) by (unfold bpr; rewrite Nat2Z.inj_mul, Z2Nat.id by (apply Z.div_pos; lia); lia).
  rewrite E. f_equal. rewrite !Nat2Z.id. fold bpr.
  rewrite <- HH at 1. rewrite <- (map_length pack_row rows). rewrite chunks_concat by assumption.
  rewrite map_map. apply map_ext_in. intros r Hr. rewrite Forall_forall in HW, Hb.
  rewrite <- (HW r Hr). rewrite pack_row_unpack by auto. reflexivity.
Qed.

Lemma filter_concat {A} (p : A -> bool) rows : filter p (concat rows) = concat (map (filter p) rows).
Proof. induction rows as [|r rows IH]; [reflexivity|]. cbn [concat map]. now rewrite filter_app, IH. Qed.

Lemma plain_row_bits row : Forall bit row -> pbm_plain_row row = map (fun b => 48 + b) row ++ [10].
Proof.
  intros H. unfold pbm_plain_row. f_equal. induction H as [|b row Hb _ IH]; [reflexivity|].
  cbn [flat_map map]. rewrite dec_bit by assumption. now rewrite IH.
Qed.

Lemma filter_plain_row row : Forall bit row ->
  filter (fun c => negb (is_ws c)) (pbm_plain_row row) = map (fun b => 48 + b) row.
Proof.
  intros H. rewrite plain_row_bits by assumption. rewrite filter_app. cbn [filter]. change (negb (is_ws 10)) with false.
  cbv iota. rewrite app_nil_r. induction H as [|b row Hb _ IH]; [reflexivity|].
  cbn [map filter]. rewrite IH. now destruct Hb as [->| ->].
Qed.

Lemma p1_raster_ok (W H : nat) rows :
  length rows = H -> Forall (fun r => length r = W) rows -> Forall (Forall bit) rows ->
  read_p1_raster (Z.of_nat W) (Z.of_nat H) (10 :: flat_map pbm_plain_row rows) = Some (map (map (fun b => [b])) rows).
Proof.
  intros HH HW Hb. unfold read_p1_raster. cbn [filter]. change (negb (is_ws 10)) with false. cbv iota.
  rewrite flat_map_concat, filter_concat, map_map.
  rewrite (map_ext_in _ (map (fun b => 48 + b))).
  2:{ intros r Hr. apply filter_plain_row. rewrite Forall_forall in Hb. auto. }
  assert (HWm : Forall (fun r => length r = W) (map (map (fun b => 48 + b)) rows)).
  { apply Forall_map_iff. eapply Forall_impl; [|exact HW]. cbv beta. intros r Hr. now rewrite map_length. }
  assert (E1 : forallb (fun c => (c =? 48) || (c =? 49)) (concat (map (map (fun b => 48 + b)) rows)) = true).
  { apply forallb_Forall, Forall_concat, Forall_map_iff. eapply Forall_impl; [|exact Hb]. cbv beta.
    intros r Hr. apply Forall_map_iff. eapply Forall_impl; [|exact Hr]. cbv beta. intros b [->| ->]; reflexivity. }
  rewrite E1. rewrite (concat_length_uniform W) by assumption. rewrite map_length, HH.
  assert (E2 : (Z.of_nat (H * W) =? Z.of_nat W * Z.of_nat H) = true) by lia.
  rewrite E2. cbn [andb]. f_equal. rewrite !Nat2Z.id.
  rewrite <- HH at 1. rewrite <- (map_length (map (fun b => 48 + b)) rows). rewrite chunks_concat by assumption.
  rewrite map_map. apply map_ext. intros r. rewrite map_map. apply map_ext. intros b. f_equal. lia.
Qed.

Lemma read_pbm_generic plain (W H : nat) rows :
  length rows = H -> Forall (fun r => length r = W) rows -> Forall (Forall bit) rows ->
  read_pbm (pbm_header plain (Z.of_nat W) (Z.of_nat H) ++
            (if plain then flat_map pbm_plain_row rows else flat_map pack_row rows))
  = Some (Z.of_nat W, Z.of_nat H, map (map (fun b => [b])) rows).
Proof.
  intros HH HW Hb. rewrite pbm_header_app. unfold read_pbm.
  assert (Em : ((if plain then 49 else 52) =? 49) || ((if plain then 49 else 52) =? 52) = true) by now destruct plain.
  rewrite Em.
  rewrite read_field_comment by (try apply CL_no_eol; try reflexivity; lia).
  rewrite read_field_ws by (try reflexivity; lia).
  destruct plain.
  - change (49 =? 52) with false. cbv iota. now rewrite p1_raster_ok.
  - change (52 =? 52) with true. cbv iota. cbn [raster_start]. change (is_ws 10) with true. cbv iota.
    now rewrite p4_raster_ok.
Qed.

(** Main theorem for PBM.  [ob] is the `border` argument (None = default quiet zone). *)
Theorem pbm_roundtrip matrix size scale ob plain :
  0 < size -> 1 <= scale -> border_bad ob = false -> bits_matrix matrix ->
  let border := get_border size size ob in
  let n := image_side size scale border in
  exists bytes,
    write_pbm matrix size size scale ob plain = Ok bytes /\
    read_pbm bytes = Some (n, n, map (map (fun b => [b])) (pixel_grid matrix size scale border)).
Proof.
  intros Hsize Hscale Hb Hm border n.
  assert (Hbn : 0 <= border) by (apply get_border_nonneg; assumption).
  unfold write_pbm. rewrite valid_whb_spec.
  assert (E : (scale <? 1) || border_bad ob = false) by (rewrite Hb; lia). rewrite E. cbn [bind].
  fold border. eexists. split; [reflexivity|].
  rewrite iter_rows_is_pixel_grid by lia.
  assert (Hn : 0 <= n) by (unfold n, image_side; nia).
  change ((size + 2 * border) * scale) with n.
  rewrite <- (Z2Nat.id n) at 1 2 3 4 by assumption.
  apply read_pbm_generic.
  - apply pixel_grid_length.
  - apply pixel_grid_row_length.
  - now apply pixel_grid_bits.
Qed.
Print Assumptions pbm_roundtrip.

(* explicit border: the form in which the task states it *)
Corollary pbm_roundtrip_border matrix size scale border plain :
  0 < size -> 1 <= scale -> 0 <= border -> bits_matrix matrix ->
  let n := image_side size scale border in
  exists bytes,
    write_pbm matrix size size scale (Some border) plain = Ok bytes /\
    read_pbm bytes = Some (n, n, map (map (fun b => [b])) (pixel_grid matrix size scale border)).
Proof.
  intros Hs Hsc Hb Hm. apply (pbm_roundtrip matrix size scale (Some border) plain); try assumption.
  unfold border_bad. lia.
Qed.

(* ------------------------------------------------------------------------------------------------ *)
(** * Rasters of tuples (PPM / PAM, one byte per sample) *)

Lemma concat_rows_pixels (px : Z -> list Z) rows :
  concat (map (fun row => concat (map px row)) rows) = concat (map px (concat rows)).
Proof.
  induction rows as [|r rows IH]; [reflexivity|].
  cbn [map concat]. now rewrite map_app, concat_app, IH.
Qed.

Lemma read_tuples_ok (W H D : nat) maxval (rows : list (list Z)) (px : Z -> list Z) :
  maxval < 256 ->
  length rows = H -> Forall (fun r => length r = W) rows ->
  Forall (Forall (fun b => length (px b) = D /\ Forall (fun v => 0 <= v <= maxval) (px b))) rows ->
  read_tuples (Z.of_nat W) (Z.of_nat H) (Z.of_nat D) maxval (concat (map (fun row => concat (map px row)) rows))
  = Some (map (map px) rows).
Proof.
  intros Hmv HH HW Hpx. unfold read_tuples, read_samples.
  assert (E0 : (maxval <? 256) = true) by lia. rewrite E0.
  rewrite concat_rows_pixels.
  assert (Hall : Forall (fun b => length (px b) = D /\ Forall (fun v => 0 <= v <= maxval) (px b)) (concat rows))
    by now apply Forall_concat.
  assert (HD : Forall (fun p => length p = D) (map px (concat rows))).
  { apply Forall_map_iff. eapply Forall_impl; [|exact Hall]. cbv beta. tauto. }
  assert (Hlen : length (map px (concat rows)) = (H * W)%nat).
  { rewrite map_length, (concat_length_uniform W) by assumption. now rewrite HH. }
  rewrite (concat_length_uniform D) by assumption. rewrite Hlen.
  assert (E1 : (Z.of_nat (H * W * D) =? Z.of_nat W * Z.of_nat H * Z.of_nat D) = true).
  { rewrite !Nat2Z.inj_mul. lia. }
  rewrite E1.
  assert (E2 : forallb (fun v => (0 <=? v) && (v <=? maxval)) (concat (map px (concat rows))) = true).
  { apply forallb_Forall, Forall_concat, Forall_map_iff. eapply Forall_impl; [|exact Hall]. cbv beta.
    intros b [_ Hb]. eapply Forall_impl; [|exact Hb]. cbv beta. lia. }
  rewrite E2. cbn [andb]. f_equal.
  replace (Z.to_nat (Z.of_nat W * Z.of_nat H)) with (length (map px (concat rows)))
    by (rewrite Hlen, <- Nat2Z.inj_mul, Nat2Z.id; lia).
  rewrite !Nat2Z.id. rewrite chunks_concat by assumption.
  rewrite concat_map. rewrite <- HH, <- (map_length (map px) rows). apply chunks_concat.
  apply Forall_map_iff. eapply Forall_impl; [|exact HW]. cbv beta. intros r Hr. now rewrite map_length.
Qed.

Lemma map_res_map {A B} (f : A -> res B) (g : A -> B) l : forall ys,
  map_res f l = Ok ys -> (forall x y, In x l -> f x = Ok y -> g x = y) -> ys = map g l.
Proof.
  induction l as [|x l IH]; intros ys H Hg; cbn [map_res] in H.
  - now inversion H.
  - destruct (f x) as [y|e] eqn:Ex; cbn [bind] in H; [|discriminate].
    destruct (map_res f l) as [t|e] eqn:Et; cbn [bind] in H; [|discriminate].
    inversion H; subst. cbn [map]. f_equal.
    + symmetry. apply Hg; [now left|assumption].
    + apply IH; [reflexivity|]. intros x' y' Hin. apply Hg. now right.
Qed.

Lemma map_res_all_ok {A B} (f : A -> res B) l ys :
  map_res f l = Ok ys -> Forall (fun x => exists y, f x = Ok y) l.
Proof.
  revert ys. induction l as [|x l IH]; intros ys H; [constructor|]. cbn [map_res] in H.
  destruct (f x) as [y|e] eqn:Ex; cbn [bind] in H; [|discriminate].
  destruct (map_res f l) as [t|e] eqn:Et; cbn [bind] in H; [|discriminate].
  constructor; [now exists y|]. now apply (IH t).
Qed.

Lemma map_res_err {A B} (f : A -> res B) l e :
  map_res f l = Err e -> exists x, In x l /\ f x = Err e.
Proof.
  induction l as [|x l IH]; intros H; cbn [map_res] in H; [discriminate|].
  destruct (f x) as [y|e'] eqn:Ex; cbn [bind] in H.
  - destruct (map_res f l) as [t|e'] eqn:Et; cbn [bind] in H; [discriminate|].
    inversion H; subst. destruct IH as [x' [Hin Hx']]; [reflexivity|]. exists x'. split; [now right|assumption].
  - inversion H; subst. exists x. split; [now left|assumption].
Qed.

Lemma pack_B_ok n vals p : pack_B n vals = Ok p ->
  p = vals /\ lenZ vals = n /\ Forall (fun v => 0 <= v <= 255) vals.
Proof.
  unfold pack_B. destruct (lenZ vals =? n) eqn:El; cbn [negb]; [|discriminate].
  destruct (forallb _ vals) eqn:Ef; [|discriminate]. intros H. inversion H; subst.
  split; [reflexivity|]. split; [lia|].
  apply forallb_Forall in Ef. eapply Forall_impl; [|exact Ef]. cbv beta. lia.
Qed.

Lemma pack_B_err n vals e : pack_B n vals = Err e -> e = TypeErr.
Proof.
  unfold pack_B. destruct (negb _); [intros H; now inversion H|].
  destruct (forallb _ _); [discriminate|intros H; now inversion H].
Qed.

(* ------------------------------------------------------------------------------------------------ *)
(** * PPM round trip *)

Lemma dec255 : bytes_of "255"%string = dec 255.
Proof. vm_compute. reflexivity. Qed.

Lemma ppm_header_app w h body :
  ppm_header w h ++ body =
  80 :: 54 :: 32 :: 35 :: CL ++ 10 :: dec w ++ 32 :: dec h ++ 32 :: dec 255 ++ 10 :: body.
Proof. unfold ppm_header. rewrite dec255, <- !app_assoc. reflexivity. Qed.

(* the RGB triple that the (user supplied) colormap assigns to a module type *)
Definition colormap_rgb (colormap : list (Z * ocolor)) (mt : Z) : pixel :=
  match assocZ mt colormap with
  | Some (Some c) => match color_to_rgb c with Ok rgb => rgb | Err _ => [] end
  | _ => []
  end.

Definition ppm_px (cm : list (Z * list Z)) (mt : Z) : pixel :=
  match ppm_pixel cm mt with Ok p => p | Err _ => [] end.

Lemma convert_colormap_lookup colormap : forall cm mt rgb,
  ppm_convert_colormap colormap = Ok cm -> assocZ mt cm = Some rgb -> colormap_rgb colormap mt = rgb.
Proof.
  unfold ppm_convert_colormap, colormap_rgb.
  induction colormap as [|[k c] colormap IH]; intros cm mt rgb H Hl; cbn [map_res] in H.
  - inversion H; subst. discriminate.
  - destruct c as [c|]; cbn [bind] in H; [|discriminate].
    destruct (color_to_rgb c) as [rgb0|e] eqn:Ec; cbn [bind] in H; [|discriminate].
    match type of H with context [map_res ?f colormap] =>
      destruct (map_res f colormap) as [t|e] eqn:Et; cbn [bind] in H; [|discriminate] end.
    inversion H; subst. cbn [assocZ] in Hl |- *.
    destruct (mt =? k).
    + rewrite Ec. now inversion Hl.
    + now apply (IH t).
Qed.

Lemma ppm_pixel_ok cm mt p : ppm_pixel cm mt = Ok p ->
  assocZ mt cm = Some p /\ length p = 3%nat /\ Forall (fun v => 0 <= v <= 255) p.
Proof.
  unfold ppm_pixel, getZ. destruct (assocZ mt cm) as [rgb|]; cbn [bind]; [|discriminate].
  intros H. apply pack_B_ok in H. destruct H as [-> [Hl Hr]]. unfold lenZ in Hl.
  split; [reflexivity|]. split; [lia|assumption].
Qed.

Lemma read_ppm_generic (W H : nat) rows (px : Z -> list Z) :
  length rows = H -> Forall (fun r => length r = W) rows ->
  Forall (Forall (fun b => length (px b) = 3%nat /\ Forall (fun v => 0 <= v <= 255) (px b))) rows ->
  read_ppm_full (ppm_header (Z.of_nat W) (Z.of_nat H) ++ concat (map (fun row => concat (map px row)) rows))
  = Some (Z.of_nat W, Z.of_nat H, 255, map (map px) rows).
Proof.
  intros HH HW Hpx. rewrite ppm_header_app. unfold read_ppm_full.
  rewrite read_field_comment by (try apply CL_no_eol; try reflexivity; lia).
  rewrite read_field_ws by (try reflexivity; lia).
  rewrite read_field_ws by (try reflexivity; lia).
  change ((0 <? 255) && (255 <? 65536)) with true. cbv iota.
  cbn [raster_start]. change (is_ws 10) with true. cbv iota.
  change 3 with (Z.of_nat 3). now rewrite read_tuples_ok by (try assumption; lia).
Qed.

Ltac sbind H := cbv beta iota delta [bind] in H.
Lemma Ok_inj {A} (a b : A) : Ok a = Ok b -> a = b.
Proof. congruence. Qed.
(** Main theorem for PPM: whenever the writer succeeds, the file declares the dimensions of its data, maxval 255,
    and pixel (x, y) is the RGB value of colormap[mt] where mt is the module type that [iter_verbose_rows]
    yields at (y, x). *)
Theorem ppm_roundtrip matrix am width height scale ob colormap bytes :
  0 < width -> 0 < height ->
  write_ppm matrix am width height scale ob colormap = Ok bytes ->
  let border := get_border width height ob in
  let rows := iter_verbose_rows matrix am width height scale border in
  read_ppm_full bytes = Some ((width + 2 * border) * scale, (height + 2 * border) * scale, 255,
                              map (map (colormap_rgb colormap)) rows)
  /\ Forall (Forall (fun mt => exists c r g b, assocZ mt colormap = Some (Some c) /\ color_to_rgb c = Ok [r; g; b]
                                             /\ 0 <= r <= 255 /\ 0 <= g <= 255 /\ 0 <= b <= 255)) rows.
Proof.
  intros Hw Hh Hwr border rows. unfold write_ppm in Hwr. rewrite valid_whb_spec in Hwr.
  destruct ((scale <? 1) || border_bad ob) eqn:Ev; sbind Hwr; [discriminate|].
  apply orb_false_elim in Ev. destruct Ev as [Hsc Hbb].
  assert (Hbn : 0 <= border) by (apply get_border_nonneg; assumption).
  fold border in Hwr. fold rows in Hwr.
  destruct (colormap_has_none colormap); [discriminate|].
  destruct (ppm_convert_colormap colormap) as [cm|e] eqn:Ecm; sbind Hwr; [|discriminate].
  match type of Hwr with context [map_res ?f rows] =>
    destruct (map_res f rows) as [body|e] eqn:Eb; sbind Hwr; [|discriminate] end.
  apply Ok_inj in Hwr. subst bytes.
  (* every module type in the rows has an entry with three values in range *)
  assert (Hok : Forall (Forall (fun mt => exists p, ppm_pixel cm mt = Ok p)) rows).
  { pose proof (map_res_all_ok _ _ _ Eb) as Hall. eapply Forall_impl; [|exact Hall]. cbv beta.
    intros row [y Hy]. destruct (map_res (ppm_pixel cm) row) as [pxs|e] eqn:Er; cbn [bind] in Hy; [|discriminate].
    apply (map_res_all_ok _ _ _ Er). }
  assert (Hbody : body = map (fun row => concat (map (ppm_px cm) row)) rows).
  { apply (map_res_map _ _ _ _ Eb). intros row y Hin Hy.
    destruct (map_res (ppm_pixel cm) row) as [pxs|e] eqn:Er; cbn [bind] in Hy; [|discriminate].
    inversion Hy; subst y. f_equal. symmetry. apply (map_res_map _ _ _ _ Er).
    intros mt p _ Hp. unfold ppm_px. now rewrite Hp. }
  assert (Hpx : forall row mt, In row rows -> In mt row ->
                 exists p, ppm_pixel cm mt = Ok p /\ ppm_px cm mt = p /\ colormap_rgb colormap mt = p).
  { intros row mt Hrow Hmt. rewrite Forall_forall in Hok. specialize (Hok row Hrow). rewrite Forall_forall in Hok.
    destruct (Hok mt Hmt) as [p Hp]. exists p. split; [assumption|]. split; [unfold ppm_px; now rewrite Hp|].
    apply ppm_pixel_ok in Hp. destruct Hp as [Hl _]. now apply (convert_colormap_lookup colormap cm). }
  split.
  - subst body.
    assert (Hrows_len : length rows = Z.to_nat ((height + 2 * border) * scale))
      by (apply iter_verbose_rows_length; lia).
    assert (Hrow_len : Forall (fun r => length r = Z.to_nat ((width + 2 * border) * scale)) rows)
      by (apply iter_verbose_rows_row_length; lia).
    rewrite <- (Z2Nat.id ((width + 2 * border) * scale)) at 1 2 by nia.
    rewrite <- (Z2Nat.id ((height + 2 * border) * scale)) at 1 2 by nia.
    rewrite read_ppm_generic; try assumption.
    + f_equal. f_equal. apply map_ext_in. intros row Hrow. apply map_ext_in. intros mt Hmt.
      destruct (Hpx row mt Hrow Hmt) as [p [_ [H1 H2]]]. congruence.
    + apply Forall_forall. intros row Hrow. apply Forall_forall. intros mt Hmt.
      destruct (Hpx row mt Hrow Hmt) as [p [Hp [H1 _]]]. rewrite H1. apply ppm_pixel_ok in Hp. tauto.
  - apply Forall_forall. intros row Hrow. apply Forall_forall. intros mt Hmt.
    destruct (Hpx row mt Hrow Hmt) as [p [Hp [_ H2]]]. apply ppm_pixel_ok in Hp. destruct Hp as [_ [Hl Hr]].
    destruct p as [|r [|g [|b [|x p]]]]; try discriminate Hl.
    unfold colormap_rgb in H2. destruct (assocZ mt colormap) as [[c|]|]; try discriminate H2.
    destruct (color_to_rgb c) as [rgb|e] eqn:Ec; try discriminate H2. subst rgb.
    exists c, r, g, b. inversion Hr as [|? ? Hr1 Hr']; subst. inversion Hr' as [|? ? Hr2 Hr'']; subst.
    inversion Hr'' as [|? ? Hr3 _]; subst. tauto.
Qed.
Print Assumptions ppm_roundtrip.

Corollary ppm_roundtrip_image matrix am width height scale ob colormap bytes :
  0 < width -> 0 < height ->
  write_ppm matrix am width height scale ob colormap = Ok bytes ->
  let border := get_border width height ob in
  read_ppm bytes = Some ((width + 2 * border) * scale, (height + 2 * border) * scale,
                         map (map (colormap_rgb colormap)) (iter_verbose_rows matrix am width height scale border)).
Proof.
  intros Hw Hh Hwr border. unfold read_ppm.
  destruct (ppm_roundtrip _ _ _ _ _ _ _ _ Hw Hh Hwr) as [H _]. fold border in H. now rewrite H.
Qed.

(* ------------------------------------------------------------------------------------------------ *)
(** * PAM: header lines *)

Definition nonl (c : Z) : Prop := (c =? 10) = false.
Definition nonblank (c : Z) : Prop := is_blank c = false.

Lemma split_line_app line rest : Forall nonl line -> split_line (line ++ 10 :: rest) = Some (line, rest).
Proof.
  induction line as [|c line IH]; intros H; [reflexivity|].
  inversion H as [|c' l' Hc Hl]; subst. cbn [app split_line]. unfold nonl in Hc. rewrite Hc. now rewrite IH.
Qed.

Lemma drop_blanks_nonblank v : Forall nonblank v -> drop_blanks v = v.
Proof. intros H. destruct v as [|c v]; [reflexivity|]. inversion H as [|c' v' Hc _]; subst. cbn. unfold nonblank in Hc. now rewrite Hc. Qed.

Lemma trim_sp v : Forall nonblank v -> trim (32 :: v) = v.
Proof.
  intros H. unfold trim. change (drop_blanks (32 :: v)) with (drop_blanks v).
  rewrite (drop_blanks_nonblank v) by assumption.
  rewrite drop_blanks_nonblank by (now apply Forall_rev). apply rev_involutive.
Qed.
Arguments trim : simpl never.

Lemma digit_nonblank c : digit c -> nonblank c.
Proof. unfold digit, nonblank, is_digit, is_blank. lia. Qed.
Lemma digit_nonl c : digit c -> nonl c.
Proof. unfold digit, nonl, is_digit. lia. Qed.

Lemma number_value_digits ds : Forall digit ds -> ds <> [] -> number_value ds = Some (parse_dec ds).
Proof.
  intros H Hne. unfold number_value. destruct ds as [|d ds]; [congruence|].
  assert (E : forallb is_digit (d :: ds) = true) by now apply forallb_Forall. now rewrite E.
Qed.

Section PamLines.
  Variables (ds : list Z) (n : Z).
  Hypothesis Hds : Forall digit ds.
  Hypothesis Hne : ds <> [].
  Hypothesis Hn : parse_dec ds = n.

  Let Hnb : Forall nonblank ds.
  Proof. eapply Forall_impl; [|exact Hds]. apply digit_nonblank. Qed.

  Lemma pam_line_width h : ph_width h = None ->
    pam_line (T_WIDTH ++ 32 :: ds) h =
    LCont {| ph_width := Some n; ph_height := ph_height h; ph_depth := ph_depth h; ph_maxval := ph_maxval h;
             ph_tupltype := ph_tupltype h |}.
  Proof.
    intros Hh. unfold pam_line. cbn -[trim]. rewrite trim_sp by exact Hnb.
    unfold set_once. rewrite Hh, number_value_digits, Hn by assumption. reflexivity.
  Qed.
  Lemma pam_line_height h : ph_height h = None ->
    pam_line (T_HEIGHT ++ 32 :: ds) h =
    LCont {| ph_width := ph_width h; ph_height := Some n; ph_depth := ph_depth h; ph_maxval := ph_maxval h;
             ph_tupltype := ph_tupltype h |}.
  Proof.
    intros Hh. unfold pam_line. cbn -[trim]. rewrite trim_sp by exact Hnb.
    unfold set_once. rewrite Hh, number_value_digits, Hn by assumption. reflexivity.
  Qed.
  Lemma pam_line_depth h : ph_depth h = None ->
    pam_line (T_DEPTH ++ 32 :: ds) h =
    LCont {| ph_width := ph_width h; ph_height := ph_height h; ph_depth := Some n; ph_maxval := ph_maxval h;
             ph_tupltype := ph_tupltype h |}.
  Proof.
    intros Hh. unfold pam_line. cbn -[trim]. rewrite trim_sp by exact Hnb.
    unfold set_once. rewrite Hh, number_value_digits, Hn by assumption. reflexivity.
  Qed.
  Lemma pam_line_maxval h : ph_maxval h = None ->
    pam_line (T_MAXVAL ++ 32 :: ds) h =
    LCont {| ph_width := ph_width h; ph_height := ph_height h; ph_depth := ph_depth h; ph_maxval := Some n;
             ph_tupltype := ph_tupltype h |}.
  Proof.
    intros Hh. unfold pam_line. cbn -[trim]. rewrite trim_sp by exact Hnb.
    unfold set_once. rewrite Hh, number_value_digits, Hn by assumption. reflexivity.
  Qed.
End PamLines.

(* characters of the tuple types that occur: upper-case letters and '_' *)
Definition tt_char (c : Z) : Prop := 65 <= c <= 95.

Lemma pam_line_tupltype tt h : Forall tt_char tt -> ph_tupltype h = [] ->
  pam_line (T_TUPLTYPE ++ 32 :: tt) h =
  LCont {| ph_width := ph_width h; ph_height := ph_height h; ph_depth := ph_depth h; ph_maxval := ph_maxval h;
           ph_tupltype := tt |}.
Proof.
  intros Htt Hh. unfold pam_line. cbn -[trim]. rewrite trim_sp.
  - now rewrite Hh.
  - eapply Forall_impl; [|exact Htt]. unfold tt_char, nonblank, is_blank. intros c Hc. lia.
Qed.

Lemma pam_line_comment l h : pam_line (35 :: l) h = LCont h.
Proof. reflexivity. Qed.
Lemma pam_line_endhdr h : pam_line T_ENDHDR h = LDone.
Proof. reflexivity. Qed.

Lemma nonl_tok_digits T ds : Forall nonl T -> Forall digit ds -> Forall nonl (T ++ 32 :: ds).
Proof.
  intros HT Hds. apply Forall_app. split; [assumption|]. constructor; [reflexivity|].
  eapply Forall_impl; [|exact Hds]. apply digit_nonl.
Qed.

Ltac nonl_concrete := repeat (constructor; [reflexivity|]); constructor.

Lemma pam_header_lines_ok w h d mv tt body fuel :
  0 <= w -> 0 <= h -> 0 <= d -> 0 <= mv -> Forall tt_char tt -> (7 <= fuel)%nat ->
  pam_header_lines fuel
    ((35 :: CL) ++ 10 :: (T_WIDTH ++ 32 :: dec w) ++ 10 :: (T_HEIGHT ++ 32 :: dec h) ++ 10 ::
     (T_DEPTH ++ 32 :: dec d) ++ 10 :: (T_MAXVAL ++ 32 :: dec mv) ++ 10 :: (T_TUPLTYPE ++ 32 :: tt) ++ 10 ::
     T_ENDHDR ++ 10 :: body) empty_hdr
  = Some ({| ph_width := Some w; ph_height := Some h; ph_depth := Some d; ph_maxval := Some mv; ph_tupltype := tt |},
          body).
Proof.
  intros Hw Hh Hd Hmv Htt Hfuel.
  do 7 (destruct fuel as [|fuel]; [lia|]). clear Hfuel.
  cbn [pam_header_lines].
  rewrite split_line_app.
  2:{ constructor; [reflexivity|]. eapply Forall_impl; [|exact CL_no_eol]. unfold nonl, is_eol. intros c Hc. lia. }
  rewrite pam_line_comment.
  rewrite split_line_app by (apply nonl_tok_digits; [nonl_concrete|now apply dec_digits]).
  rewrite (pam_line_width (dec w) w) by (auto using dec_digits, dec_nonempty, dec_parse).
  rewrite split_line_app by (apply nonl_tok_digits; [nonl_concrete|now apply dec_digits]).
  rewrite (pam_line_height (dec h) h) by (auto using dec_digits, dec_nonempty, dec_parse).
  rewrite split_line_app by (apply nonl_tok_digits; [nonl_concrete|now apply dec_digits]).
  rewrite (pam_line_depth (dec d) d) by (auto using dec_digits, dec_nonempty, dec_parse).
  rewrite split_line_app by (apply nonl_tok_digits; [nonl_concrete|now apply dec_digits]).
  rewrite (pam_line_maxval (dec mv) mv) by (auto using dec_digits, dec_nonempty, dec_parse).
  rewrite split_line_app.
  2:{ apply Forall_app. split; [nonl_concrete|]. constructor; [reflexivity|].
      eapply Forall_impl; [|exact Htt]. unfold tt_char, nonl. intros c Hc. lia. }
  rewrite pam_line_tupltype by (assumption || reflexivity).
  rewrite split_line_app by nonl_concrete.
  rewrite pam_line_endhdr. reflexivity.
Qed.

(* ------------------------------------------------------------------------------------------------ *)
(** * Colour conversion (Model/Color.v): error class and shape of the result *)

Ltac break_hyp H :=
  match type of H with
  | context [match ?x with _ => _ end] => destruct x eqn:?
  end.

(** ** colour conversion only ever raises ValueError (for CStr / CTuple inputs) *)
Lemma int16_2_err a b e : int16_2 a b = Err e -> e = ValueError.
Proof. unfold int16_2. intros H. repeat (break_hyp H; try discriminate); now inversion H. Qed.

Lemma pairs_hex_err_aux n : forall s e, (length s <= n)%nat -> pairs_hex s = Err e -> e = ValueError.
Proof.
  induction n as [|n IH]; intros s e Hl H.
  - destruct s; [discriminate|cbn in Hl; lia].
  - destruct s as [|a [|b r]]; cbn [pairs_hex] in H; [discriminate|now inversion H|].
    destruct (int16_2 a b) as [v|e'] eqn:E1; cbn [bind] in H.
    + destruct (pairs_hex r) as [t|e'] eqn:E2; cbn [bind] in H; [discriminate|].
      inversion H; subst. apply (IH r); [cbn [length] in Hl; lia|assumption].
    + inversion H; subst. now apply int16_2_err in E1.
Qed.
Lemma pairs_hex_err s e : pairs_hex s = Err e -> e = ValueError.
Proof. now apply (pairs_hex_err_aux (length s)). Qed.

Lemma alpha_value_err c af e : alpha_value c af = Err e -> e = ValueError.
Proof. unfold alpha_value. intros H. repeat (break_hyp H; try discriminate); now inversion H. Qed.

Lemma hex_err s af e : hex_to_rgb_or_rgba s af = Err e -> e = ValueError.
Proof.
  unfold hex_to_rgb_or_rgba. intros H. destruct s as [|c0 rest]; [now inversion H|].
  cbv zeta in H.
  match type of H with context [pairs_hex ?x] => set (col := x) in H end.
  destruct (negb _) in H; [now inversion H|].
  destruct (pairs_hex col) as [vals|e'] eqn:Ep; cbn [bind] in H.
  - destruct (af && _) in H; [|discriminate].
    destruct vals as [|r [|g [|b [|a [|x vals]]]]]; try (now inversion H).
    destruct (alpha_value a af) as [a'|e'] eqn:Ea; cbn [bind] in H; [discriminate|].
    inversion H; subst. now apply alpha_value_err in Ea.
  - inversion H; subst. now apply pairs_hex_err in Ep.
Qed.

Theorem color_to_rgba_err c af e : color_to_rgba c af = Err e -> e = ValueError.
Proof.
  unfold color_to_rgba. intros H. destruct c as [s|parts].
  - destruct (assoc_str (py_lower s) NAME2RGB) as [[[r g] b]|]; [discriminate|].
    destruct (hex_to_rgb_or_rgba s af) as [l|e'] eqn:Eh.
    + destruct l as [|r [|g [|b [|a l]]]]; discriminate.
    + apply hex_err in Eh. subst e'. now inversion H.
  - destruct parts as [|r [|g [|b [|a [|x parts]]]]]; try (now inversion H).
    + destruct (_ && _) in H; [discriminate|now inversion H].
    + destruct (_ && _) in H; [|now inversion H].
      destruct (alpha_value a af) as [a'|e'] eqn:Ea; cbn [bind] in H; [discriminate|].
      inversion H; subst. now apply alpha_value_err in Ea.
Qed.

Lemma color_to_rgb_err c e : color_to_rgb c = Err e -> e = ValueError.
Proof.
  unfold color_to_rgb, color_to_rgb_or_rgba.
  destruct (color_to_rgba c true) as [l|e'] eqn:E; cbn [bind].
  - intros H. repeat (break_hyp H; cbn [bind] in H; try discriminate); now inversion H.
  - intros H. inversion H; subst. now apply color_to_rgba_err in E.
Qed.

Lemma color_to_rgb_len3 c rgb : color_to_rgb c = Ok rgb -> lenZ rgb = 3.
Proof.
  unfold color_to_rgb. destruct (color_to_rgb_or_rgba c true) as [l|e]; cbn [bind]; [|discriminate].
  destruct (lenZ l =? 3) eqn:E; [|discriminate]. intros H. inversion H; subst. lia.
Qed.

(** ** every successfully converted colour consists of bytes *)
Definition byte_val (v : Z) : Prop := 0 <= v <= 255.

Lemma hexval_range c v : hexval c = Some v -> 0 <= v <= 15.
Proof. unfold hexval. intros H. repeat (break_hyp H; try discriminate); inversion H; lia. Qed.

Lemma int16_2_ok a b v : int16_2 a b = Ok v -> byte_val v.
Proof.
  unfold int16_2. destruct (hexval a) as [x|] eqn:Ea; [|discriminate]. destruct (hexval b) as [y|] eqn:Eb; [|discriminate].
  intros H. apply Ok_inj in H. apply hexval_range in Ea, Eb. unfold byte_val. lia.
Qed.

Lemma pairs_hex_ok_aux n : forall s vals, (length s <= n)%nat -> pairs_hex s = Ok vals ->
  Forall byte_val vals /\ (2 * length vals = length s)%nat.
Proof.
  induction n as [|n IH]; intros s vals Hl H.
  - destruct s; [|cbn in Hl; lia]. inversion H. split; [constructor|reflexivity].
  - destruct s as [|a [|b r]]; cbn [pairs_hex] in H.
    + inversion H. split; [constructor|reflexivity].
    + discriminate.
    + destruct (int16_2 a b) as [v|e'] eqn:E1; cbn [bind] in H; [|discriminate].
      destruct (pairs_hex r) as [t|e'] eqn:E2; cbn [bind] in H; [|discriminate].
      inversion H; subst. destruct (IH r t) as [H1 H2]; [cbn [length] in Hl; lia|assumption|].
      split; [constructor; [now apply int16_2_ok in E1|assumption]|cbn [length]; lia].
Qed.
Lemma pairs_hex_ok s vals : pairs_hex s = Ok vals -> Forall byte_val vals /\ (2 * length vals = length s)%nat.
Proof. now apply (pairs_hex_ok_aux (length s)). Qed.

Lemma alpha_value_false_ok c v : alpha_value c false = Ok v -> byte_val v.
Proof.
  unfold alpha_value. destruct ((0 <=? c) && (c <=? 255)) eqn:E; [|discriminate].
  intros H. inversion H; subst. unfold byte_val. lia.
Qed.

Lemma hex_ok s af l : hex_to_rgb_or_rgba s af = Ok l ->
  exists r g b, byte_val r /\ byte_val g /\ byte_val b /\
    (l = [r; g; b] \/ exists a, l = [r; g; b; a] /\ (af = false -> byte_val a)).
Proof.
  unfold hex_to_rgb_or_rgba. intros H. destruct s as [|c0 rest]; [discriminate|].
  cbv zeta in H.
  match type of H with context [pairs_hex ?x] => set (col := x) in H end.
  destruct ((lenZ col =? 6) || (lenZ col =? 8)) eqn:El; cbn [negb] in H; [|discriminate].
  destruct (pairs_hex col) as [vals|e'] eqn:Ep; cbn [bind] in H; [|discriminate].
  apply pairs_hex_ok in Ep. destruct Ep as [Hb Hlen].
  assert (Hl34 : length vals = 3%nat \/ length vals = 4%nat) by (unfold lenZ in El; lia).
  destruct vals as [|r [|g [|b [|a [|x vals]]]]]; cbn [length] in Hl34; try lia.
  - inversion Hb as [|? ? Hr Hb1]; subst. inversion Hb1 as [|? ? Hg Hb2]; subst. inversion Hb2 as [|? ? Hbb _]; subst.
    exists r, g, b. split; [assumption|]. split; [assumption|]. split; [assumption|]. left.
    destruct (af && _) in H; [discriminate|now inversion H].
  - inversion Hb as [|? ? Hr Hb1]; subst. inversion Hb1 as [|? ? Hg Hb2]; subst. inversion Hb2 as [|? ? Hbb Hb3]; subst.
    inversion Hb3 as [|? ? Ha _]; subst.
    exists r, g, b. split; [assumption|]. split; [assumption|]. split; [assumption|]. right.
    destruct (af && _) eqn:Eaf in H.
    + destruct (alpha_value a af) as [a'|e'] eqn:Ea; cbn [bind] in H; [|discriminate].
      inversion H; subst. exists a'. split; [reflexivity|]. intros ->. discriminate.
    + inversion H; subst. exists a. split; [reflexivity|]. now intros _.
Qed.

Lemma NAME2RGB_bytes :
  forallb (fun e : list Z * (Z * Z * Z) => let '(_, (r, g, b)) := e in
             (0 <=? r) && (r <=? 255) && (0 <=? g) && (g <=? 255) && (0 <=? b) && (b <=? 255)) NAME2RGB = true.
Proof. vm_compute. reflexivity. Qed.

Lemma assoc_str_in {A} k (l : list (str * A)) v : assoc_str k l = Some v -> exists k', In (k', v) l.
Proof.
  induction l as [|[k0 v0] l IH]; cbn [assoc_str]; [discriminate|].
  destruct (str_eqb k k0).
  - intros H. inversion H; subst. exists k0. now left.
  - intros H. destruct (IH H) as [k' Hin]. exists k'. now right.
Qed.

(** the requested colour as (R, G, B, A); with alpha_float = False all four components are bytes *)
Lemma opaque_byte af : af = false -> byte_val (opaque af).
Proof. intros ->. cbn. unfold byte_val. lia. Qed.

Theorem color_to_rgba_ok c af l : color_to_rgba c af = Ok l ->
  exists r g b a, l = [r; g; b; a] /\ byte_val r /\ byte_val g /\ byte_val b /\ (af = false -> byte_val a).
Proof.
  unfold color_to_rgba. intros H. destruct c as [s|parts].
  - destruct (assoc_str (py_lower s) NAME2RGB) as [[[r g] b]|] eqn:En.
    + apply Ok_inj in H. subst l. exists r, g, b, (opaque af).
      apply assoc_str_in in En. destruct En as [k' Hin].
      pose proof NAME2RGB_bytes as Hall. rewrite forallb_forall in Hall. specialize (Hall _ Hin). cbv beta iota in Hall.
      split; [reflexivity|]. split; [unfold byte_val; lia|]. split; [unfold byte_val; lia|].
      split; [unfold byte_val; lia|]. apply opaque_byte.
    + destruct (hex_to_rgb_or_rgba s af) as [l0|e'] eqn:Eh.
      * apply hex_ok in Eh. destruct Eh as [r [g [b [Hr [Hg [Hb [-> |[a [-> Ha]]]]]]]]].
        -- apply Ok_inj in H. subst l. exists r, g, b, (opaque af).
           split; [reflexivity|]. split; [assumption|]. split; [assumption|]. split; [assumption|]. apply opaque_byte.
        -- apply Ok_inj in H. subst l. exists r, g, b, a.
           split; [reflexivity|]. split; [assumption|]. split; [assumption|]. split; assumption.
      * destruct e'; discriminate.
  - cbv zeta in H. destruct parts as [|r [|g [|b [|a [|x parts]]]]]; try discriminate.
    + destruct (_ && _) eqn:E in H; [|discriminate]. apply Ok_inj in H. subst l.
      exists r, g, b, (opaque af).
      split; [reflexivity|]. split; [unfold byte_val; lia|]. split; [unfold byte_val; lia|].
      split; [unfold byte_val; lia|]. apply opaque_byte.
    + destruct (_ && _) eqn:E in H; [|discriminate].
      destruct (alpha_value a af) as [a'|e'] eqn:Ea; cbn [bind] in H; [|discriminate].
      apply Ok_inj in H. subst l. exists r, g, b, a'.
      split; [reflexivity|]. split; [unfold byte_val; lia|]. split; [unfold byte_val; lia|].
      split; [unfold byte_val; lia|]. intros ->. now apply alpha_value_false_ok in Ea.
Qed.

Lemma color_to_rgb_ok c rgb : color_to_rgb c = Ok rgb -> lenZ rgb = 3 /\ Forall byte_val rgb.
Proof.
  intros H. split; [now apply color_to_rgb_len3 in H|].
  unfold color_to_rgb, color_to_rgb_or_rgba in H.
  destruct (color_to_rgba c true) as [l|e] eqn:E; cbn [bind] in H; [|discriminate].
  apply color_to_rgba_ok in E. destruct E as [r [g [b [a [-> [Hr [Hg [Hb _]]]]]]]].
  destruct (a =? opaque true); cbn [bind] in H.
  - change (lenZ [r; g; b] =? 3) with true in H. apply Ok_inj in H. subst rgb.
    constructor; [assumption|]. constructor; [assumption|]. constructor; [assumption|]. constructor.
  - change (lenZ [r; g; b; a] =? 3) with false in H. discriminate.
Qed.

(* ------------------------------------------------------------------------------------------------ *)
(** * PAM: what write_pam chooses for the requested colours *)

(** The requested light colour as (R, G, B, A): the given colour, or -- for light = None -- the inverse of the dark
    colour with alpha 0, i.e. fully transparent. *)
Definition light_rgba (light : ocolor) (D : list Z) : res (list Z) :=
  match light with
  | Some l => color_to_rgba l false
  | None => Ok (invert_color (firstn 3 D) ++ [0])
  end.

Lemma light_rgba_none_transparent D L : light_rgba None D = Ok L -> exists rgb, L = rgb ++ [0].
Proof. intros H. inversion H. eexists. reflexivity. Qed.

(** depth / maxval / tuple type / the two tuples, as a function of the requested colours D (dark) = (r,g,b,a)
    and L (light) = (r',g',b',a') *)
Definition pam_params_of (r g b a r' g' b' a' : Z) : pam_params :=
  let T := negb (a =? 255) || negb (a' =? 255) in                         (* an alpha channel is needed *)
  let G := is_black_or_white3 [r; g; b] && is_black_or_white3 [r'; g'; b'] in
  if G && negb T then
    {| pp_depth := 1; pp_maxval := 1; pp_tupltype := bytes_of "BLACKANDWHITE"%string;
       pp_colours := ([r' / 255], [r / 255]) |}
  else if G then
    {| pp_depth := 2; pp_maxval := 255; pp_tupltype := bytes_of "GRAYSCALE_ALPHA"%string;
       pp_colours := ([r'; a'], [r; a]) |}
  else if T then
    {| pp_depth := 4; pp_maxval := 255; pp_tupltype := bytes_of "RGB_ALPHA"%string;
       pp_colours := ([r'; g'; b'; a'], [r; g; b; a]) |}
  else
    {| pp_depth := 3; pp_maxval := 255; pp_tupltype := bytes_of "RGB"%string;
       pp_colours := ([r'; g'; b'], [r; g; b]) |}.

Lemma pack_B_bytes n vals : lenZ vals = n -> Forall byte_val vals -> pack_B n vals = Ok vals.
Proof.
  intros Hl Hb. unfold pack_B. assert (E : (lenZ vals =? n) = true) by lia. rewrite E. cbn [negb].
  assert (E2 : forallb (fun v => (0 <=? v) && (v <=? 255)) vals = true).
  { apply forallb_Forall. eapply Forall_impl; [|exact Hb]. unfold byte_val. intros v Hv. lia. }
  now rewrite E2.
Qed.

Lemma bw3_4 r g b a : is_black_or_white3 [r; g; b; a] = is_black_or_white3 [r; g; b].
Proof. reflexivity. Qed.

Lemma bw3_true r g b : is_black_or_white3 [r; g; b] = true ->
  (r = 0 /\ g = 0 /\ b = 0) \/ (r = 255 /\ g = 255 /\ b = 255).
Proof. unfold is_black_or_white3. cbn [firstn str_eqb]. lia. Qed.

Section PamSetupNorm.
  Local Arguments Z.div : simpl never.
  Local Arguments Z.sub : simpl never.
  Local Arguments is_black_or_white3 : simpl never.
  Local Arguments pack_B : simpl never.

  Local Arguments nthZ : simpl never.
  Lemma nthZ_0 {A} (x : A) l : nthZ (x :: l) 0 = Ok x.
  Proof. reflexivity. Qed.
  Lemma nthZ_3 {A} (x y z w : A) l : nthZ (x :: y :: z :: w :: l) 3 = Ok w.
  Proof. reflexivity. Qed.

  Ltac bytes_list := repeat (apply Forall_cons; [unfold byte_val in *; lia|]); apply Forall_nil.
  Ltac finish_setup :=
    repeat (first [rewrite nthZ_0 | rewrite nthZ_3 | rewrite pack_B_bytes by (try reflexivity; bytes_list)];
            cbn [bind]);
    reflexivity.

  Lemma pam_setup_norm d light r g b a r' g' b' a' :
    color_to_rgba d false = Ok [r; g; b; a] -> light_rgba light [r; g; b; a] = Ok [r'; g'; b'; a'] ->
    byte_val r -> byte_val g -> byte_val b -> byte_val a ->
    byte_val r' -> byte_val g' -> byte_val b' -> byte_val a' ->
    pam_setup d light = Ok (pam_params_of r g b a r' g' b' a').
  Proof.
    intros Hd HL Hr Hg Hb Ha Hr' Hg' Hb' Ha'.
    unfold pam_setup, color_to_rgb_or_rgba. rewrite Hd. cbn [bind]. change (opaque false) with 255.
    unfold pam_params_of.
    destruct light as [l|]; cbn [light_rgba] in HL.
    - rewrite HL. cbn [bind].
      destruct (a =? 255) eqn:Ea; destruct (a' =? 255) eqn:Ea'; cbn; rewrite ?bw3_4;
        destruct (is_black_or_white3 [r; g; b]); destruct (is_black_or_white3 [r'; g'; b']); cbn;
        try (assert (a = 255) by lia; subst a); try (assert (a' = 255) by lia; subst a');
        finish_setup.
    - apply Ok_inj in HL. cbn in HL. injection HL as <- <- <- <-.
      destruct (a =? 255) eqn:Ea; cbn; rewrite ?bw3_4;
        destruct (is_black_or_white3 [r; g; b]); destruct (is_black_or_white3 [255 - r; 255 - g; 255 - b]); cbn;
        try (assert (a = 255) by lia; subst a);
        finish_setup.
  Qed.
End PamSetupNorm.

(** inversion: a successful pam_setup is [pam_params_of] of the two requested colours *)
Lemma invert_bytes r g b : byte_val r -> byte_val g -> byte_val b ->
  byte_val (255 - r) /\ byte_val (255 - g) /\ byte_val (255 - b).
Proof. unfold byte_val. lia. Qed.

Lemma light_rgba_ok light r g b a L : byte_val r -> byte_val g -> byte_val b ->
  light_rgba light [r; g; b; a] = Ok L ->
  exists r' g' b' a', L = [r'; g'; b'; a'] /\ byte_val r' /\ byte_val g' /\ byte_val b' /\ byte_val a'.
Proof.
  intros Hr Hg Hb H. destruct light as [l|]; cbn [light_rgba] in H.
  - apply color_to_rgba_ok in H. destruct H as [r' [g' [b' [a' [-> [H1 [H2 [H3 H4]]]]]]]].
    exists r', g', b', a'. split; [reflexivity|]. split; [assumption|]. split; [assumption|]. split; [assumption|].
    now apply H4.
  - apply Ok_inj in H. subst L. exists (255 - r), (255 - g), (255 - b), 0.
    destruct (invert_bytes r g b Hr Hg Hb) as [H1 [H2 H3]].
    split; [reflexivity|]. split; [assumption|]. split; [assumption|]. split; [assumption|]. unfold byte_val; lia.
Qed.

Theorem pam_setup_inv d light p : pam_setup d light = Ok p ->
  exists r g b a r' g' b' a',
    color_to_rgba d false = Ok [r; g; b; a] /\ light_rgba light [r; g; b; a] = Ok [r'; g'; b'; a'] /\
    byte_val r /\ byte_val g /\ byte_val b /\ byte_val a /\
    byte_val r' /\ byte_val g' /\ byte_val b' /\ byte_val a' /\
    p = pam_params_of r g b a r' g' b' a'.
Proof.
  intros H.
  destruct (color_to_rgba d false) as [D|e] eqn:Ed.
  2:{ unfold pam_setup, color_to_rgb_or_rgba in H. rewrite Ed in H. discriminate. }
  destruct (color_to_rgba_ok _ _ _ Ed) as [r [g [b [a [-> [Hr [Hg [Hb Ha]]]]]]]]. specialize (Ha eq_refl).
  destruct (light_rgba light [r; g; b; a]) as [L|e] eqn:EL.
  2:{ destruct light as [l|]; cbn [light_rgba] in EL; [|discriminate].
      unfold pam_setup, color_to_rgb_or_rgba in H. rewrite Ed, EL in H. cbn [bind] in H.
      destruct (a =? opaque false) in H; discriminate. }
  destruct (light_rgba_ok _ _ _ _ _ _ Hr Hg Hb EL) as [r' [g' [b' [a' [-> [Hr' [Hg' [Hb' Ha']]]]]]]].
  exists r, g, b, a, r', g', b', a'.
  do 10 (split; [first [reflexivity | assumption]|]).
  rewrite (pam_setup_norm d light r g b a r' g' b' a') in H by assumption. now apply Ok_inj in H.
Qed.

(** facts about the chosen parameters that make the file well-formed *)
Lemma tupltype_ok_BW : tupltype_ok (bytes_of "BLACKANDWHITE"%string) 1 1 = true. Proof. reflexivity. Qed.
Lemma tupltype_ok_GA : tupltype_ok (bytes_of "GRAYSCALE_ALPHA"%string) 2 255 = true. Proof. reflexivity. Qed.
Lemma tupltype_ok_RGB : tupltype_ok (bytes_of "RGB"%string) 3 255 = true. Proof. reflexivity. Qed.
Lemma tupltype_ok_RGBA : tupltype_ok (bytes_of "RGB_ALPHA"%string) 4 255 = true. Proof. reflexivity. Qed.

Lemma pam_params_of_wf r g b a r' g' b' a' :
  byte_val r -> byte_val g -> byte_val b -> byte_val a ->
  byte_val r' -> byte_val g' -> byte_val b' -> byte_val a' ->
  let p := pam_params_of r g b a r' g' b' a' in
  Forall tt_char (pp_tupltype p) /\
  tupltype_ok (pp_tupltype p) (pp_depth p) (pp_maxval p) = true /\
  0 < pp_depth p /\ 1 <= pp_maxval p <= 255 /\
  forall m, bit m -> length (pam_pixel (pp_colours p) m) = Z.to_nat (pp_depth p) /\
                    Forall (fun v => 0 <= v <= pp_maxval p) (pam_pixel (pp_colours p) m).
Proof.
  intros Hr Hg Hb Ha Hr' Hg' Hb' Ha' p.
  assert (Htt : forall s, forallb (fun c => (65 <=? c) && (c <=? 95)) s = true -> Forall tt_char s).
  { intros s Hs. apply forallb_Forall in Hs. eapply Forall_impl; [|exact Hs]. unfold tt_char. intros c Hc. lia. }
  unfold byte_val in *. unfold p, pam_params_of.
  destruct (is_black_or_white3 [r; g; b] && is_black_or_white3 [r'; g'; b']);
  destruct (negb (a =? 255) || negb (a' =? 255)); cbn [andb negb pp_tupltype pp_depth pp_maxval pp_colours].
  - split; [apply Htt; reflexivity|]. split; [reflexivity|]. split; [lia|]. split; [lia|].
    intros m [->| ->]; (split; [reflexivity|]); cbn; repeat constructor; lia.
  - split; [apply Htt; reflexivity|]. split; [reflexivity|]. split; [lia|]. split; [lia|].
    intros m [->| ->]; (split; [reflexivity|]); cbn [pam_pixel Z.eqb fst snd]; repeat constructor; lia.
  - split; [apply Htt; reflexivity|]. split; [reflexivity|]. split; [lia|]. split; [lia|].
    intros m [->| ->]; (split; [reflexivity|]); cbn; repeat constructor; lia.
  - split; [apply Htt; reflexivity|]. split; [reflexivity|]. split; [lia|]. split; [lia|].
    intros m [->| ->]; (split; [reflexivity|]); cbn; repeat constructor; lia.
Qed.

(** ... and that make its tuples DENOTE the requested colours (pam(5) reading of the tuple types) *)
Lemma scale255_255 v : scale255 255 v = Some v.
Proof. unfold scale255. rewrite Z.mod_mul, Z.div_mul by lia. reflexivity. Qed.
Lemma scale255_1 v : scale255 1 v = Some (v * 255).
Proof. unfold scale255. rewrite Z.mod_1_r, Z.div_1_r. reflexivity. Qed.

Lemma kind_BW : tupltype_kind (bytes_of "BLACKANDWHITE"%string) = KBW. Proof. reflexivity. Qed.
Lemma kind_GA : tupltype_kind (bytes_of "GRAYSCALE_ALPHA"%string) = KGrayA. Proof. reflexivity. Qed.
Lemma kind_RGB : tupltype_kind (bytes_of "RGB"%string) = KRGB. Proof. reflexivity. Qed.
Lemma kind_RGBA : tupltype_kind (bytes_of "RGB_ALPHA"%string) = KRGBA. Proof. reflexivity. Qed.

Theorem pam_params_of_denote r g b a r' g' b' a' :
  let p := pam_params_of r g b a r' g' b' a' in
  pam_pixel_rgba (pp_tupltype p) (pp_maxval p) (pam_pixel (pp_colours p) 1) = Some [r; g; b; a] /\
  pam_pixel_rgba (pp_tupltype p) (pp_maxval p) (pam_pixel (pp_colours p) 0) = Some [r'; g'; b'; a'].
Proof.
  intros p. unfold p, pam_params_of.
  destruct (is_black_or_white3 [r; g; b]) eqn:G1; destruct (is_black_or_white3 [r'; g'; b']) eqn:G2;
  destruct (a =? 255) eqn:Ea; destruct (a' =? 255) eqn:Ea';
  cbn [andb orb negb pp_tupltype pp_depth pp_maxval pp_colours pam_pixel Z.eqb fst snd];
  unfold pam_pixel_rgba; rewrite ?kind_BW, ?kind_GA, ?kind_RGB, ?kind_RGBA; rewrite ?scale255_255, ?scale255_1;
  try (apply bw3_true in G1); try (apply bw3_true in G2);
  try (assert (a = 255) by lia; subst a); try (assert (a' = 255) by lia; subst a');
  split; try reflexivity;
  repeat match goal with H : _ \/ _ |- _ => destruct H as [[-> [-> ->]]|[-> [-> ->]]] end; reflexivity.
Qed.

(* ------------------------------------------------------------------------------------------------ *)
(** * PAM round trip *)

Lemma pam_header_app w h p body :
  pam_header w h p ++ body =
  80 :: 55 :: 10 ::
    (35 :: CL) ++ 10 :: (T_WIDTH ++ 32 :: dec w) ++ 10 :: (T_HEIGHT ++ 32 :: dec h) ++ 10 ::
    (T_DEPTH ++ 32 :: dec (pp_depth p)) ++ 10 :: (T_MAXVAL ++ 32 :: dec (pp_maxval p)) ++ 10 ::
    (T_TUPLTYPE ++ 32 :: pp_tupltype p) ++ 10 :: T_ENDHDR ++ 10 :: body.
Proof. unfold pam_header. rewrite <- !app_assoc. reflexivity. Qed.

Lemma read_pam_generic (W H : nat) rows p :
  (0 < W)%nat -> (0 < H)%nat ->
  Forall tt_char (pp_tupltype p) ->
  tupltype_ok (pp_tupltype p) (pp_depth p) (pp_maxval p) = true ->
  0 < pp_depth p -> 1 <= pp_maxval p <= 255 ->
  (forall m, bit m -> length (pam_pixel (pp_colours p) m) = Z.to_nat (pp_depth p) /\
                      Forall (fun v => 0 <= v <= pp_maxval p) (pam_pixel (pp_colours p) m)) ->
  length rows = H -> Forall (fun r => length r = W) rows -> Forall (Forall bit) rows ->
  read_pam_full (pam_header (Z.of_nat W) (Z.of_nat H) p ++
                 flat_map (fun row => flat_map (pam_pixel (pp_colours p)) row) rows)
  = Some {| pi_width := Z.of_nat W; pi_height := Z.of_nat H; pi_depth := pp_depth p; pi_maxval := pp_maxval p;
            pi_tupltype := pp_tupltype p;
            pi_pixels := map (map (pam_pixel (pp_colours p))) rows |}.
Proof.
  intros HWpos HHpos Htt Hok Hd Hmv Hpx HH HW Hbits.
  rewrite pam_header_app. unfold read_pam_full.
  rewrite pam_header_lines_ok; try assumption; try lia.
  2:{ repeat (rewrite !app_length; cbn [length]). lia. }
  cbn [ph_width ph_height ph_depth ph_maxval ph_tupltype].
  rewrite Hok.
  assert (E : (0 <? Z.of_nat W) && (0 <? Z.of_nat H) && (0 <? pp_depth p) && (0 <? pp_maxval p)
              && (pp_maxval p <? 65536) && true = true) by lia.
  rewrite E.
  rewrite flat_map_concat.
  rewrite (map_ext _ (fun row => concat (map (pam_pixel (pp_colours p)) row)))
    by (intros row; apply flat_map_concat).
  rewrite <- (Z2Nat.id (pp_depth p)) at 1 by lia.
  rewrite read_tuples_ok; try assumption; try lia. 1: reflexivity.
  eapply Forall_impl; [|exact Hbits]. cbv beta. intros row Hrow.
  eapply Forall_impl; [|exact Hrow]. cbv beta. intros b Hb. now apply Hpx.
Qed.

(** Raw form: the file that is read back, in terms of [pam_params_of] of the requested colours. *)
Theorem pam_roundtrip_raw matrix size scale ob dark light bytes :
  0 < size -> bits_matrix matrix ->
  write_pam matrix size size scale ob dark light = Ok bytes ->
  let border := get_border size size ob in
  let n := image_side size scale border in
  exists d r g b a r' g' b' a',
    dark = Some d /\ color_to_rgba d false = Ok [r; g; b; a] /\ light_rgba light [r; g; b; a] = Ok [r'; g'; b'; a'] /\
    let p := pam_params_of r g b a r' g' b' a' in
    read_pam_full bytes =
    Some {| pi_width := n; pi_height := n; pi_depth := pp_depth p; pi_maxval := pp_maxval p;
            pi_tupltype := pp_tupltype p;
            pi_pixels := map (map (pam_pixel (pp_colours p))) (pixel_grid matrix size scale border) |}.
Proof.
  intros Hsize Hm Hwr border n. unfold write_pam in Hwr.
  destruct (color_falsy dark); [discriminate|].
  destruct dark as [d|]; [|discriminate].
  rewrite valid_whb_spec in Hwr.
  destruct ((scale <? 1) || border_bad ob) eqn:Ev; sbind Hwr; [discriminate|].
  apply orb_false_elim in Ev. destruct Ev as [Hsc Hbb].
  assert (Hbn : 0 <= border) by (apply get_border_nonneg; assumption).
  destruct (pam_setup d light) as [p|e] eqn:Ep; sbind Hwr; [|discriminate].
  apply Ok_inj in Hwr. subst bytes.
  destruct (pam_setup_inv _ _ _ Ep) as [r [g [b [a [r' [g' [b' [a' [Hd [HL [Hr [Hg [Hb [Ha [Hr' [Hg' [Hb' [Ha' ->]]]]]]]]]]]]]]]]]].
  exists d, r, g, b, a, r', g', b', a'. split; [reflexivity|]. split; [assumption|]. split; [assumption|].
  cbv zeta.
  destruct (pam_params_of_wf r g b a r' g' b' a' Hr Hg Hb Ha Hr' Hg' Hb' Ha') as [Htt [Hok [Hdp [Hmv Hpx]]]].
  fold border. rewrite iter_rows_is_pixel_grid by lia.
  assert (Hn : 0 < n) by (unfold n, image_side; nia).
  change ((size + 2 * border) * scale) with n.
  rewrite <- (Z2Nat.id n) at 1 2 3 4 by lia.
  apply read_pam_generic; try assumption; try lia.
  - apply pixel_grid_length.
  - apply pixel_grid_row_length.
  - now apply pixel_grid_bits.
Qed.

(** Main theorem for PAM (property C09).  Whenever the writer succeeds -- i.e. for every colour input it accepts --
    the file parses, declares WIDTH = HEIGHT = n with DEPTH / MAXVAL / TUPLTYPE as pam(5) prescribes and consistent
    with the raster (that is part of [read_pam_full] succeeding, and repeated as [tupltype_ok]), and the tuple at
    (x, y) DENOTES, in the pam(5) reading of the declared tuple type and maxval,
      - the requested dark colour D = _color_to_rgba(dark) where module (y/scale - border, x/scale - border) is dark,
      - the requested light colour L elsewhere (quiet zone included); for light = None, L has alpha 0, i.e. the
        pixel is fully transparent ([light_rgba_none_transparent]). *)
Theorem pam_roundtrip matrix size scale ob dark light bytes :
  0 < size -> bits_matrix matrix ->
  write_pam matrix size size scale ob dark light = Ok bytes ->
  let border := get_border size size ob in
  let n := image_side size scale border in
  exists d D L img,
    dark = Some d /\ color_to_rgba d false = Ok D /\ light_rgba light D = Ok L /\
    read_pam_full bytes = Some img /\
    pi_width img = n /\ pi_height img = n /\
    tupltype_ok (pi_tupltype img) (pi_depth img) (pi_maxval img) = true /\
    map (map (pam_pixel_rgba (pi_tupltype img) (pi_maxval img))) (pi_pixels img)
    = map (map (fun m => Some (if m =? 1 then D else L))) (pixel_grid matrix size scale border).
Proof.
  intros Hsize Hm Hwr border n.
  destruct (pam_roundtrip_raw _ _ _ _ _ _ _ Hsize Hm Hwr)
    as [d [r [g [b [a [r' [g' [b' [a' [Hdark [Hd [HL Hread]]]]]]]]]]]].
  fold border n in Hread. cbv zeta in Hread.
  destruct (color_to_rgba_ok _ _ _ Hd) as [r0 [g0 [b0 [a0 [E0 [Hr [Hg [Hb Ha]]]]]]]]. specialize (Ha eq_refl).
  inversion E0; subst r0 g0 b0 a0; clear E0.
  destruct (light_rgba_ok _ _ _ _ _ _ Hr Hg Hb HL) as [r1 [g1 [b1 [a1 [E1 [Hr' [Hg' [Hb' Ha']]]]]]]].
  inversion E1; subst r1 g1 b1 a1; clear E1.
  eexists d, [r; g; b; a], [r'; g'; b'; a'], _.
  split; [assumption|]. split; [assumption|]. split; [assumption|]. split; [exact Hread|].
  cbn [pi_width pi_height pi_depth pi_maxval pi_tupltype pi_pixels].
  destruct (pam_params_of_wf r g b a r' g' b' a' Hr Hg Hb Ha Hr' Hg' Hb' Ha') as [_ [Hok _]].
  split; [reflexivity|]. split; [reflexivity|]. split; [exact Hok|].
  rewrite map_map. apply map_ext_in. intros row Hrow. rewrite map_map. apply map_ext_in. intros m Hmod.
  assert (Hbit : bit m).
  { pose proof (pixel_grid_bits matrix size scale border Hm) as Hall. rewrite Forall_forall in Hall.
    specialize (Hall row Hrow). rewrite Forall_forall in Hall. now apply Hall. }
  destruct (pam_params_of_denote r g b a r' g' b' a') as [H1 H0].
  destruct Hbit as [->| ->]; [exact H0|exact H1].
Qed.
Print Assumptions pam_roundtrip.

Corollary pam_roundtrip_image matrix size scale ob dark light bytes :
  0 < size -> bits_matrix matrix ->
  write_pam matrix size size scale ob dark light = Ok bytes ->
  let border := get_border size size ob in
  let n := image_side size scale border in
  exists px, read_pam bytes = Some (n, n, px) /\
             length px = Z.to_nat n /\ Forall (fun row => length row = Z.to_nat n) px.
Proof.
  intros Hs Hm Hwr border n.
  destruct (pam_roundtrip_raw _ _ _ _ _ _ _ Hs Hm Hwr)
    as [d [r [g [b [a [r' [g' [b' [a' [_ [_ [_ Hread]]]]]]]]]]]].
  fold border n in Hread. cbv zeta in Hread. unfold read_pam. rewrite Hread.
  cbn [pi_width pi_height pi_pixels]. eexists. split; [reflexivity|]. split.
  - rewrite map_length. apply pixel_grid_length.
  - apply Forall_map_iff. eapply Forall_impl; [|apply pixel_grid_row_length]. cbv beta.
    intros row Hrow. now rewrite map_length.
Qed.

(* ------------------------------------------------------------------------------------------------ *)
(** * Error behaviour *)

(** ** scale / border (all three writers validate them first, or directly after `not dark` in write_pam) *)
Theorem valid_whb_error w h s ob e :
  valid_width_height_and_border w h s ob = Err e <->
  e = ValueError /\ (s < 1 \/ exists b, ob = Some b /\ b < 0).
Proof.
  rewrite valid_whb_spec. unfold border_bad. split.
  - destruct (s <? 1) eqn:E1; cbn [orb].
    + intros H. inversion H. split; [reflexivity|left; lia].
    + destruct ob as [b|]; [destruct (b <? 0) eqn:E2|]; intros H; inversion H.
      split; [reflexivity|]. right. exists b. split; [reflexivity|lia].
  - intros [-> [Hs|[b [-> Hb]]]].
    + assert (E : (s <? 1) = true) by lia. now rewrite E.
    + assert (E : (b <? 0) = true) by lia. rewrite E. now rewrite orb_true_r.
Qed.

(** ** write_pbm: ValueError for scale < 1 or a negative border, success otherwise; nothing else *)
Theorem write_pbm_error matrix w h scale ob plain e :
  write_pbm matrix w h scale ob plain = Err e <->
  e = ValueError /\ (scale < 1 \/ exists b, ob = Some b /\ b < 0).
Proof.
  rewrite <- (valid_whb_error w h). unfold write_pbm.
  destruct (valid_width_height_and_border w h scale ob) as [[[w' h'] b]|e'] eqn:E; cbv beta iota delta [bind].
  - split; intros H; discriminate.
  - split; intros H; inversion H; reflexivity.
Qed.

Theorem write_pbm_ok matrix w h scale ob plain :
  (exists bytes, write_pbm matrix w h scale ob plain = Ok bytes) <-> 1 <= scale /\ border_bad ob = false.
Proof.
  unfold write_pbm. rewrite valid_whb_spec. destruct (scale <? 1) eqn:E1; cbn [orb bind].
  - split; [intros [x H]; discriminate|lia].
  - destruct (border_bad ob); cbn [bind].
    + split; [intros [x H]; discriminate|intros [_ H]; discriminate].
    + split; [intros _; split; [lia|reflexivity]|intros _; eexists; reflexivity].
Qed.

Lemma pack_B_err_iff n vals : (exists e, pack_B n vals = Err e) <-> ~ (lenZ vals = n /\ Forall byte_val vals).
Proof.
  unfold pack_B. destruct (lenZ vals =? n) eqn:El; cbn [negb].
  - destruct (forallb _ vals) eqn:Ef.
    + split; [intros [e H]; discriminate|]. intros H. exfalso. apply H. split; [lia|].
      apply forallb_Forall in Ef. eapply Forall_impl; [|exact Ef]. unfold byte_val. intros v Hv. lia.
    + split; [|intros _; eexists; reflexivity]. intros _ [_ H].
      assert (forallb (fun v => (0 <=? v) && (v <=? 255)) vals = true); [|congruence].
      apply forallb_Forall. eapply Forall_impl; [|exact H]. unfold byte_val. intros v Hv. lia.
  - split; [|intros _; eexists; reflexivity]. intros _ [H _]. lia.
Qed.

(** ** write_pam: only ValueError.  struct.error / IndexError are modelled in [pam_setup] (pack_B, nthZ) but
    unreachable: all converted colours are byte tuples of the right length. *)
Theorem pam_setup_error d light e : pam_setup d light = Err e ->
  e = ValueError /\
  (color_to_rgba d false = Err ValueError \/ exists l, light = Some l /\ color_to_rgba l false = Err ValueError).
Proof.
  intros H.
  destruct (color_to_rgba d false) as [D|e'] eqn:Ed.
  2:{ pose proof (color_to_rgba_err _ _ _ Ed) as ->.
      unfold pam_setup, color_to_rgb_or_rgba in H. rewrite Ed in H. cbn [bind] in H. inversion H. auto. }
  destruct (color_to_rgba_ok _ _ _ Ed) as [r [g [b [a [-> [Hr [Hg [Hb Ha]]]]]]]]. specialize (Ha eq_refl).
  destruct (light_rgba light [r; g; b; a]) as [L|e'] eqn:EL.
  - destruct (light_rgba_ok _ _ _ _ _ _ Hr Hg Hb EL) as [r' [g' [b' [a' [-> [Hr' [Hg' [Hb' Ha']]]]]]]].
    rewrite (pam_setup_norm d light r g b a r' g' b' a') in H by assumption. discriminate.
  - destruct light as [l|]; cbn [light_rgba] in EL; [|discriminate].
    pose proof (color_to_rgba_err _ _ _ EL) as ->.
    unfold pam_setup, color_to_rgb_or_rgba in H. rewrite Ed, EL in H. cbn [bind] in H.
    destruct (a =? opaque false) in H; cbn [bind] in H; inversion H; split; [reflexivity| |reflexivity|];
      right; exists l; auto.
Qed.

Theorem write_pam_error_iff matrix w h scale ob dark light e :
  write_pam matrix w h scale ob dark light = Err e <->
  e = ValueError /\
  (color_falsy dark = true \/
   exists d, dark = Some d /\
     (scale < 1 \/ (exists b, ob = Some b /\ b < 0) \/
      color_to_rgba d false = Err ValueError \/
      exists l, light = Some l /\ color_to_rgba l false = Err ValueError)).
Proof.
  unfold write_pam. destruct (color_falsy dark) eqn:Ef.
  { split; [intros H; inversion H; auto|intros [-> _]; reflexivity]. }
  destruct dark as [d|]; [|discriminate].
  destruct (valid_width_height_and_border w h scale ob) as [[[w' h'] b]|e'] eqn:Ev; cbv beta iota delta [bind].
  - assert (Hnv : ~ (scale < 1 \/ exists b, ob = Some b /\ b < 0)).
    { intros Hc. assert (Hx : valid_width_height_and_border w h scale ob = Err ValueError)
        by (apply valid_whb_error; tauto). congruence. }
    destruct (pam_setup d light) as [p|e'] eqn:Ep.
    + split; [discriminate|]. intros [-> [H|[d' [Hd H]]]]; [discriminate|]. inversion Hd; subst d'. exfalso.
      destruct H as [H|[H|[H|[l [-> Hl]]]]]; try tauto.
      * unfold pam_setup, color_to_rgb_or_rgba in Ep. rewrite H in Ep. discriminate.
      * unfold pam_setup, color_to_rgb_or_rgba in Ep. rewrite Hl in Ep.
        destruct (color_to_rgba d false) as [D|e'] in Ep; cbn [bind] in Ep; [|discriminate].
        destruct (match D with [r; g; b; a] => _ | _ => _ end) in Ep; cbn [bind] in Ep; discriminate.
    + apply pam_setup_error in Ep. destruct Ep as [-> Hc]. split.
      * intros H. inversion H; subst. split; [reflexivity|]. right. exists d. split; [reflexivity|]. tauto.
      * intros [-> _]. reflexivity.
  - apply valid_whb_error in Ev. destruct Ev as [-> Hc]. split.
    + intros H. inversion H; subst. split; [reflexivity|]. right. exists d. split; [reflexivity|]. tauto.
    + intros [-> _]. reflexivity.
Qed.

Corollary write_pam_only_ValueError matrix w h scale ob dark light e :
  write_pam matrix w h scale ob dark light = Err e -> e = ValueError.
Proof. intros H. apply write_pam_error_iff in H. tauto. Qed.

Lemma convert_colormap_lookup_strong colormap : forall cm mt rgb,
  ppm_convert_colormap colormap = Ok cm -> assocZ mt cm = Some rgb ->
  exists c, assocZ mt colormap = Some (Some c) /\ color_to_rgb c = Ok rgb.
Proof.
  unfold ppm_convert_colormap.
  induction colormap as [|[k c] colormap IH]; intros cm mt rgb H Hl; cbn [map_res] in H.
  - inversion H; subst. discriminate.
  - destruct c as [c|]; cbn [bind] in H; [|discriminate].
    destruct (color_to_rgb c) as [rgb0|e] eqn:Ec; cbn [bind] in H; [|discriminate].
    match type of H with context [map_res ?f colormap] =>
      destruct (map_res f colormap) as [t|e] eqn:Et; cbn [bind] in H; [|discriminate] end.
    inversion H; subst. cbn [assocZ] in Hl |- *.
    destruct (mt =? k).
    + exists c. inversion Hl; subst. now split.
    + now apply (IH t).
Qed.

(** ** write_ppm: ValueError, or KeyError when a module type that occurs has no entry in the colormap
    (struct.error is modelled but unreachable: converted colours are byte triples) *)
Theorem write_ppm_error matrix am w h scale ob colormap e :
  write_ppm matrix am w h scale ob colormap = Err e ->
  let rows := iter_verbose_rows matrix am w h scale (get_border w h ob) in
  (e = ValueError /\
     (scale < 1 \/ (exists b, ob = Some b /\ b < 0) \/
      (exists mt, In (mt, None) colormap) \/
      (exists mt c, In (mt, Some c) colormap /\ color_to_rgb c = Err ValueError)))
  \/ (e = KeyErr /\ exists row mt, In row rows /\ In mt row /\ assocZ mt colormap = None).
Proof.
  intros H rows. unfold write_ppm in H.
  destruct (valid_width_height_and_border w h scale ob) as [[[w' h'] b]|e'] eqn:Ev; sbind H.
  2:{ inversion H; subst. apply valid_whb_error in Ev. left. tauto. }
  assert (Hb : b = get_border w h ob).
  { rewrite valid_whb_spec in Ev. destruct (_ || _) in Ev; [discriminate|]. now inversion Ev. }
  subst b. fold rows in H.
  destruct (colormap_has_none colormap) eqn:En.
  { inversion H; subst. left. split; [reflexivity|]. right. right. left.
    unfold colormap_has_none in En. apply existsb_exists in En. destruct En as [[mt [c|]] [Hin Hc]]; [discriminate|].
    now exists mt. }
  destruct (ppm_convert_colormap colormap) as [cm|e'] eqn:Ecm; sbind H.
  2:{ inversion H; subst. left. unfold ppm_convert_colormap in Ecm. apply map_res_err in Ecm.
      destruct Ecm as [[mt [c|]] [Hin Hc]].
      - destruct (color_to_rgb c) as [rgb|e'] eqn:Ec; cbn [bind] in Hc; [discriminate|].
        inversion Hc; subst. pose proof (color_to_rgb_err _ _ Ec) as ->. split; [reflexivity|].
        right. right. right. now exists mt, c.
      - inversion Hc; subst. split; [reflexivity|]. right. right. left. now exists mt. }
  match type of H with context [map_res ?f rows] =>
    destruct (map_res f rows) as [body|e'] eqn:Eb; sbind H; [discriminate|] end.
  inversion H; subst e'. clear H. right.
  apply map_res_err in Eb. destruct Eb as [row [Hrow Hr]].
  destruct (map_res (ppm_pixel cm) row) as [pxs|e'] eqn:Ep; cbn [bind] in Hr; [discriminate|].
  inversion Hr; subst e'. clear Hr. apply map_res_err in Ep. destruct Ep as [mt [Hmt Hp]].
  unfold ppm_pixel, getZ in Hp. destruct (assocZ mt cm) as [rgb|] eqn:Ea; cbn [bind] in Hp.
  - exfalso. destruct (convert_colormap_lookup_strong _ _ _ _ Ecm Ea) as [c [Eac Ec]].
    apply color_to_rgb_ok in Ec. assert (Hx : exists e, pack_B 3 rgb = Err e) by (eexists; exact Hp).
    apply pack_B_err_iff in Hx. now apply Hx.
  - inversion Hp; subst. split; [reflexivity|]. exists row, mt. repeat split; try assumption.
    (* an entry missing after conversion was missing before *)
    clear - Ecm Ea. unfold ppm_convert_colormap in Ecm. revert cm Ecm Ea.
    induction colormap as [|[k c] colormap IH]; intros cm Ecm Ea; [reflexivity|].
    cbn [map_res] in Ecm. destruct c as [c|]; cbn [bind] in Ecm; [|discriminate].
    destruct (color_to_rgb c) as [rgb0|e] eqn:Ec; cbn [bind] in Ecm; [|discriminate].
    match type of Ecm with context [map_res ?f colormap] =>
      destruct (map_res f colormap) as [t|e] eqn:Et; cbn [bind] in Ecm; [|discriminate] end.
    inversion Ecm; subst. cbn [assocZ] in Ea |- *. destruct (mt =? k); [discriminate|]. now apply (IH t).
Qed.

(** ** no KeyError with the colormap of the @colorful decorator on a symbol of a legal size
    (sizes 42..44 do not exist: there `_make_colormap` drops the version keys although `matrix_iter_verbose`
    can yield version module types) *)
Lemma get_bit_in_make_colormap size o m am i j :
  size <= 41 \/ 45 <= size ->
  assocZ (get_bit m am size size (size =? size) ((size =? size) && (size <? 21)) i j) (make_colormap size o) <> None.
Proof.
  intros Hsize. rewrite Z.eqb_refl. cbn [andb].
  unfold make_colormap. destruct (size <? 21) eqn:Emicro; destruct (size <? 45) eqn:E45; try lia;
  cbn [app filter negb memZ existsb orb Z.eqb Pos.eqb
       TYPE_FINDER_PATTERN_LIGHT TYPE_FINDER_PATTERN_DARK TYPE_SEPARATOR TYPE_ALIGNMENT_PATTERN_LIGHT
       TYPE_ALIGNMENT_PATTERN_DARK TYPE_TIMING_LIGHT TYPE_TIMING_DARK TYPE_FORMAT_LIGHT TYPE_FORMAT_DARK
       TYPE_VERSION_LIGHT TYPE_VERSION_DARK TYPE_DARKMODULE TYPE_DATA_LIGHT TYPE_DATA_DARK TYPE_QUIET_ZONE];
  unfold get_bit; cbv beta zeta; cbn [negb andb];
  repeat match goal with |- context [if ?c then _ else _] => destruct c eqn:? end;
  try (cbn; discriminate); exfalso; lia.
Qed.

Theorem write_ppm_colorful_no_KeyErr matrix am size scale ob o :
  size <= 41 \/ 45 <= size ->
  write_ppm_colorful matrix am size scale ob o <> Err KeyErr.
Proof.
  intros Hsize H. unfold write_ppm_colorful in H. apply write_ppm_error in H. cbv zeta in H.
  destruct H as [[H _]|[_ [row [mt [Hrow [Hmt Ha]]]]]]; try discriminate.
  unfold iter_verbose_rows in Hrow. unfold repeat_each in Hrow.
  apply in_flat_map in Hrow. destruct Hrow as [row' [Hrow' Hrep]]. apply repeat_spec in Hrep. subst row'.
  apply in_map_iff in Hrow'. destruct Hrow' as [i [<- _]].
  apply in_flat_map in Hmt. destruct Hmt as [mt' [Hmt' Hrep]]. apply repeat_spec in Hrep. subst mt'.
  apply in_map_iff in Hmt'. destruct Hmt' as [j [<- _]].
  now apply get_bit_in_make_colormap in Ha.
Qed.

Corollary write_ppm_colorful_only_ValueError matrix am size scale ob o e :
  size <= 41 \/ 45 <= size ->
  write_ppm_colorful matrix am size scale ob o = Err e -> e = ValueError.
Proof.
  intros Hsize H. pose proof (write_ppm_colorful_no_KeyErr matrix am size scale ob o Hsize) as Hk.
  unfold write_ppm_colorful in *. pose proof H as H'. apply write_ppm_error in H'. cbv zeta in H'.
  destruct H' as [[-> _]|[-> _]]; [reflexivity|congruence].
Qed.

(* ------------------------------------------------------------------------------------------------ *)
(** * Regression examples for the defects repaired upstream (15a482c, f9f808f, 5c1c158, a5cbe35) *)

Definition cs (x : String.string) : pycolor := CStr (bytes_of x).
Arguments cs x%string_scope.

(* MAXVAL is 255 whatever the colours are *)
Example pam_maxval_fixed :
  pam_setup (CTuple [10; 20; 30]) (Some (CTuple [100; 100; 100]))
  = Ok {| pp_depth := 3; pp_maxval := 255; pp_tupltype := bytes_of "RGB"%string;
          pp_colours := ([100; 100; 100], [10; 20; 30]) |}.
Proof. vm_compute. reflexivity. Qed.

(* BLACKANDWHITE honours which colour is which: dark='white', light='black' writes sample 1 (white) at dark modules *)
Example pam_bw_fixed :
  pam_setup (cs "white") (Some (cs "black"))
  = Ok {| pp_depth := 1; pp_maxval := 1; pp_tupltype := bytes_of "BLACKANDWHITE"%string; pp_colours := ([0], [1]) |} /\
  pam_setup (cs "#000") (Some (cs "#fff"))
  = Ok {| pp_depth := 1; pp_maxval := 1; pp_tupltype := bytes_of "BLACKANDWHITE"%string; pp_colours := ([1], [0]) |}.
Proof. split; vm_compute; reflexivity. Qed.

(* GRAYSCALE_ALPHA: white opaque modules on a fully transparent background *)
Example pam_gray_alpha_fixed :
  pam_setup (cs "white") None
  = Ok {| pp_depth := 2; pp_maxval := 255; pp_tupltype := bytes_of "GRAYSCALE_ALPHA"%string;
          pp_colours := ([0; 0], [255; 255]) |}.
Proof. vm_compute. reflexivity. Qed.

(* an integer alpha of 1 is kept *)
Example alpha_one_fixed :
  color_to_rgb_or_rgba (CTuple [1; 2; 3; 1]) false = Ok [1; 2; 3; 1] /\
  color_to_rgb_or_rgba (cs "#01020301") false = Ok [1; 2; 3; 1].
Proof. split; vm_compute; reflexivity. Qed.

(* alpha together with a background colour: RGB_ALPHA instead of struct.error *)
Example pam_alpha_with_background_fixed :
  pam_setup (cs "#00000080") (Some (cs "#fff"))
  = Ok {| pp_depth := 2; pp_maxval := 255; pp_tupltype := bytes_of "GRAYSCALE_ALPHA"%string;
          pp_colours := ([255; 255], [0; 128]) |} /\
  pam_setup (cs "red") (Some (CTuple [1; 2; 3; 4]))
  = Ok {| pp_depth := 4; pp_maxval := 255; pp_tupltype := bytes_of "RGB_ALPHA"%string;
          pp_colours := ([1; 2; 3; 4], [255; 0; 0; 255]) |}.
Proof. split; vm_compute; reflexivity. Qed.

(* signed "hex digits" and the empty string are refused with ValueError *)
Example bad_hex_fixed :
  color_to_rgba (cs "#-f-f-f") false = Err ValueError /\ color_to_rgb (cs "#-f-f-f") = Err ValueError /\
  color_to_rgba (cs "") false = Err ValueError.
Proof. repeat split; vm_compute; reflexivity. Qed.

Lemma NETPBM_CREATOR_is_CREATOR : NETPBM_CREATOR = IsoData.CREATOR.
Proof. vm_compute. reflexivity. Qed.
