(* C16: payload builders of segno/helpers.py (model: Model/Helpers.v) against the independent readers of
   Ref/HelpersReader.v.  All statements are for strings of unbounded length over arbitrary code points.

   Main theorems
     mecard_escape_roundtrip, escape_mecard_no_unescaped_delims, escape_mecard_even_trailing_backslashes
     wifi_fields, wifi_fields_ascii
     mecard_fields, mecard_adr_components  (+ Example mecard_adr_comma_confusion)
     escape_vcard_no_crlf, escape_vcard_name_no_crlf, vcard_escape_roundtrip, vcard_escape_name_roundtrip,
     vcard_struct_roundtrip, vcard_one_line_per_value, vcard_errors
       (+ Examples vcard_geo_zero_is_accepted)
     epc_amount_value, epc_amount_exact, epc_rounded_in_range, epc_refusals_lengths, epc_refusals_amount,
     epc_refusals_size, epc_errors, epc_layout, epc_lengths_ok_spec
     geo_uri (+ Example geo_examples)
     utf8_roundtrip, unquote_quote_bytes, quote_utf8_roundtrip, mailto_uri, mailto_errors
       (+ Examples mailto_body_only, mailto_recipient_injection) *)
From Coq Require Import ZArith List Bool Lia ZifyBool.
From Segno Require Import Base.PyLite Model.Color Model.Helpers Ref.HelpersReader.
Import ListNotations.
Open Scope Z_scope.
Ltac Zify.zify_post_hook ::= Z.to_euclidean_division_equations.

(* ============================================================================================ *)
(* 1. generic facts about the escape-aware scanner of the reader *)

Definition prepend (a : str) (ps : list str) : list str :=
  match ps with p :: r => (a ++ p) :: r | [] => [a] end.

Lemma cons_hd_prepend c ps : cons_hd c ps = prepend [c] ps.
Proof. destruct ps; reflexivity. Qed.
Lemma prepend_app a b ps : prepend (a ++ b) ps = prepend a (prepend b ps).
Proof. destruct ps; cbn; now rewrite ?app_assoc, ?app_nil_r. Qed.
Lemma prepend_nil ps : ps <> [] -> prepend [] ps = ps.
Proof. destruct ps; [congruence|reflexivity]. Qed.

Lemma split_esc_nonnil sep e s : split_esc sep e s <> [].
Proof.
  revert e; induction s as [|c s IH]; intros e; cbn [split_esc]; [discriminate|].
  destruct (negb e && (c =? sep)); [discriminate|].
  specialize (IH (negb e && (c =? 92))). destruct (split_esc sep (negb e && (c =? 92)) s); [congruence|discriminate].
Qed.

Lemma final_esc_app a : forall e b, final_esc e (a ++ b) = final_esc (final_esc e a) b.
Proof. induction a as [|c a IH]; intros e b; cbn [app final_esc]; auto. Qed.

Lemma has_unescaped_app sep a : forall e b,
  has_unescaped sep e (a ++ b) = has_unescaped sep e a || has_unescaped sep (final_esc e a) b.
Proof.
  induction a as [|c a IH]; intros e b; cbn [app has_unescaped final_esc]; [reflexivity|].
  rewrite IH. now rewrite orb_assoc.
Qed.

Lemma split_esc_app sep a : forall e t, has_unescaped sep e a = false ->
  split_esc sep e (a ++ t) = prepend a (split_esc sep (final_esc e a) t).
Proof.
  induction a as [|c a IH]; intros e t H; cbn [app final_esc].
  - cbn [prepend]. symmetry. apply prepend_nil. apply split_esc_nonnil.
  - cbn [has_unescaped] in H. apply orb_false_iff in H. destruct H as [H1 H2].
    cbn [split_esc]. rewrite H1. rewrite (IH _ _ H2). rewrite cons_hd_prepend.
    now rewrite <- prepend_app.
Qed.

Lemma cut_esc_app sep a : forall e t, has_unescaped sep e a = false ->
  cut_esc sep e (a ++ t) =
  match cut_esc sep (final_esc e a) t with Some (x, y) => Some (a ++ x, y) | None => None end.
Proof.
  induction a as [|c a IH]; intros e t H; cbn [app final_esc].
  - destruct (cut_esc sep e t) as [[x y]|]; reflexivity.
  - cbn [has_unescaped] in H. apply orb_false_iff in H. destruct H as [H1 H2].
    cbn [cut_esc]. rewrite H1. rewrite (IH _ _ H2).
    destruct (cut_esc sep (final_esc (negb e && (c =? 92)) a) t) as [[x y]|]; reflexivity.
Qed.

(* a chunk is "closed" for sep: it contains no unescaped sep and leaves the scanner in the unescaped state *)
Definition closed (sep : Z) (a : str) : Prop :=
  has_unescaped sep false a = false /\ final_esc false a = false.

Lemma closed_app sep a b : closed sep a -> closed sep b -> closed sep (a ++ b).
Proof.
  intros [A1 A2] [B1 B2]. split.
  - rewrite has_unescaped_app, A1, A2, B1. reflexivity.
  - rewrite final_esc_app, A2. exact B2.
Qed.
Lemma closed_nil sep : closed sep [].
Proof. split; reflexivity. Qed.

Lemma split_esc_closed sep a t : closed sep a ->
  split_esc sep false (a ++ sep :: t) = a :: split_esc sep false t.
Proof.
  intros [A1 A2]. rewrite split_esc_app by exact A1. rewrite A2.
  cbn [split_esc negb andb]. rewrite Z.eqb_refl. cbn [prepend]. now rewrite app_nil_r.
Qed.

Lemma split_esc_closed_end sep a : closed sep a -> split_esc sep false a = [a].
Proof.
  intros [A1 A2]. rewrite <- (app_nil_r a) at 1. rewrite split_esc_app by exact A1.
  cbn [split_esc prepend]. now rewrite app_nil_r.
Qed.

Lemma cut_esc_closed sep a t : closed sep a -> cut_esc sep false (a ++ sep :: t) = Some (a, t).
Proof.
  intros [A1 A2]. rewrite cut_esc_app by exact A1. rewrite A2.
  cbn [cut_esc negb andb]. rewrite Z.eqb_refl. now rewrite app_nil_r.
Qed.

(* ============================================================================================ *)
(* 2. _escape_mecard *)

Definition mspecial (c : Z) : bool := (c =? 92) || (c =? 59) || (c =? 58) || (c =? 34).
Definition mecard_esc_char (c : Z) : str := if mspecial c then [92; c] else [c].

Lemma escape_mecard_cons c s : escape_mecard (c :: s) = mecard_esc_char c ++ escape_mecard s.
Proof.
  unfold escape_mecard, translate. cbn [flat_map]. f_equal.
  unfold MECARD_ESCAPE, mecard_esc_char, mspecial. cbn [assocZ].
  destruct (c =? 92) eqn:E1; [apply Z.eqb_eq in E1; subst; reflexivity|].
  destruct (c =? 59) eqn:E2; [apply Z.eqb_eq in E2; subst; reflexivity|].
  destruct (c =? 58) eqn:E3; [apply Z.eqb_eq in E3; subst; reflexivity|].
  destruct (c =? 34) eqn:E4; [apply Z.eqb_eq in E4; subst; reflexivity|].
  reflexivity.
Qed.
Lemma escape_mecard_nil : escape_mecard [] = [].
Proof. reflexivity. Qed.
Lemma escape_mecard_app a b : escape_mecard (a ++ b) = escape_mecard a ++ escape_mecard b.
Proof. unfold escape_mecard, translate. apply flat_map_app. Qed.

(* _escape_mecard is the table-driven str.translate; the table has exactly the four documented entries *)
Lemma escape_mecard_spec s :
  escape_mecard s = flat_map (fun c => if mspecial c then [92; c] else [c]) s.
Proof.
  induction s as [|c s IH]; [reflexivity|]. rewrite escape_mecard_cons, IH. reflexivity.
Qed.

Lemma unescape_escape_mecard_app s : forall t, unescape (escape_mecard s ++ t) = s ++ unescape t.
Proof.
  unfold unescape.
  induction s as [|c s IH]; intros t; [reflexivity|].
  rewrite escape_mecard_cons. unfold mecard_esc_char.
  destruct (mspecial c) eqn:E.
  - cbn [app unescape_bs]. change (92 =? 92) with true. cbn iota. now rewrite IH.
  - cbn [app unescape_bs]. unfold mspecial in E.
    destruct (c =? 92) eqn:E1; [discriminate E|]. now rewrite IH.
Qed.

Theorem mecard_escape_roundtrip s : unescape (escape_mecard s) = s.
Proof.
  rewrite <- (app_nil_r (escape_mecard s)). rewrite unescape_escape_mecard_app. cbn. apply app_nil_r.
Qed.
Print Assumptions mecard_escape_roundtrip.

(* the escaped text is closed for every separator that is in the table, and for every separator that does
   not occur in the text at all *)
Lemma escape_mecard_closed sep s :
  sep <> 92 -> (mspecial sep = true \/ ~ In sep s) -> closed sep (escape_mecard s).
Proof.
  intros Hsep. induction s as [|c s IH]; intros H; [apply closed_nil|].
  rewrite escape_mecard_cons. apply closed_app.
  - unfold mecard_esc_char. destruct (mspecial c) eqn:E.
    + split; cbn [has_unescaped final_esc negb andb orb].
      * change (92 =? 92) with true. cbn [negb andb orb].
        destruct (92 =? sep) eqn:E2; [lia|reflexivity].
      * change (92 =? 92) with true. reflexivity.
    + assert (Hc : c <> sep).
      { destruct H as [H|H]; [intros ->; congruence|intros ->; apply H; now left]. }
      unfold mspecial in E. destruct (c =? 92) eqn:E1; [discriminate E|].
      split; cbn [has_unescaped final_esc negb andb orb]; rewrite ?E1; [|reflexivity].
      destruct (c =? sep) eqn:E2; [lia|reflexivity].
  - apply IH. destruct H as [H|H]; [now left|right]. intros Hin. apply H. now right.
Qed.

Theorem escape_mecard_no_unescaped_delims s :
  has_unescaped 59 false (escape_mecard s) = false /\
  has_unescaped 58 false (escape_mecard s) = false /\
  has_unescaped 34 false (escape_mecard s) = false /\
  final_esc false (escape_mecard s) = false.
Proof.
  pose proof (escape_mecard_closed 59 s ltac:(lia) (or_introl eq_refl)) as [A B].
  pose proof (escape_mecard_closed 58 s ltac:(lia) (or_introl eq_refl)) as [C _].
  pose proof (escape_mecard_closed 34 s ltac:(lia) (or_introl eq_refl)) as [D _].
  auto.
Qed.
Print Assumptions escape_mecard_no_unescaped_delims.

(* literally: the number of backslashes at the end of the escaped text is even *)
Lemma trailing_bs_escape s : forall n, Nat.even n = true ->
  Nat.even (trailing_bs_from n (escape_mecard s)) = true.
Proof.
  induction s as [|c s IH]; intros n Hn; [exact Hn|].
  rewrite escape_mecard_cons. unfold mecard_esc_char.
  destruct (mspecial c) eqn:E.
  - cbn [app trailing_bs_from]. change (92 =? 92) with true. cbn iota.
    destruct (c =? 92) eqn:E1.
    + apply IH. cbn [Nat.even]. exact Hn.
    + apply IH. reflexivity.
  - cbn [app trailing_bs_from]. unfold mspecial in E.
    destruct (c =? 92) eqn:E1; [discriminate E|]. apply IH. reflexivity.
Qed.
Theorem escape_mecard_even_trailing_backslashes s :
  Nat.even (trailing_bs (escape_mecard s)) = true.
Proof. apply trailing_bs_escape. reflexivity. Qed.
Print Assumptions escape_mecard_even_trailing_backslashes.
(* ============================================================================================ *)
(* 3. generic "KEY:value;" field lists *)

Definition entry_render (e : str * str) : str := fst e ++ [58] ++ snd e ++ [59].
Definition entry_piece (e : str * str) : str := fst e ++ [58] ++ snd e.
Definition key_ok (k : str) : Prop := closed 59 k /\ closed 58 k.
Definition entry_ok (e : str * str) : Prop := key_ok (fst e) /\ closed 59 (snd e).
Definition entry_decode (e : str * str) : str * str := (fst e, unescape (snd e)).

Lemma closed_59_58 : closed 59 [58].
Proof. split; reflexivity. Qed.

Lemma pieces_entries es t : Forall entry_ok es ->
  split_esc 59 false (concat (map entry_render es) ++ t) = map entry_piece es ++ split_esc 59 false t.
Proof.
  induction 1 as [|e es He Hes IH]; [reflexivity|].
  cbn [map concat]. unfold entry_render at 1.
  replace ((fst e ++ [58] ++ snd e ++ [59]) ++ concat (map entry_render es)) with
    (entry_piece e ++ 59 :: concat (map entry_render es)).
  2:{ unfold entry_piece. rewrite <- !app_assoc. reflexivity. }
  rewrite <- app_assoc. cbn [app].
  rewrite split_esc_closed.
  - cbn [app]. f_equal. exact IH.
  - destruct He as [[K1 _] V]. unfold entry_piece. apply closed_app; [exact K1|].
    apply closed_app; [apply closed_59_58|exact V].
Qed.

Lemma parse_entry e : entry_ok e -> mecard_parse_field (entry_piece e) = Some (entry_decode e).
Proof.
  intros [[_ K2] _]. unfold mecard_parse_field, entry_piece. cbn [app].
  rewrite cut_esc_closed by exact K2. reflexivity.
Qed.

Lemma piece_nonempty e : nonempty_b (entry_piece e) = true.
Proof. unfold entry_piece. destruct (fst e); reflexivity. Qed.

Lemma filter_pieces es : filter nonempty_b (map entry_piece es) = map entry_piece es.
Proof.
  induction es as [|e es IH]; [reflexivity|]. cbn [map filter]. rewrite piece_nonempty. now rewrite IH.
Qed.

Lemma all_some_entries es : Forall entry_ok es ->
  all_some (map mecard_parse_field (map entry_piece es)) = Some (map entry_decode es).
Proof.
  induction 1 as [|e es He Hes IH]; [reflexivity|].
  cbn [map all_some]. rewrite parse_entry by exact He. now rewrite IH.
Qed.

Lemma strip_prefix_app p x : strip_prefix p (p ++ x) = Some x.
Proof. induction p as [|c p IH]; [reflexivity|]. cbn [app strip_prefix]. now rewrite Z.eqb_refl. Qed.

Lemma mecard_read_entries prefix es t :
  Forall entry_ok es -> filter nonempty_b (split_esc 59 false t) = [] ->
  mecard_pieces_read prefix (prefix ++ concat (map entry_render es) ++ t)
    = Some (map entry_piece es ++ split_esc 59 false t) /\
  mecard_read prefix (prefix ++ concat (map entry_render es) ++ t) = Some (map entry_decode es).
Proof.
  intros Hes Ht.
  assert (P : mecard_pieces_read prefix (prefix ++ concat (map entry_render es) ++ t)
              = Some (map entry_piece es ++ split_esc 59 false t)).
  { unfold mecard_pieces_read. rewrite strip_prefix_app. now rewrite pieces_entries. }
  split; [exact P|].
  unfold mecard_read. rewrite P. unfold str in *. rewrite filter_app, Ht, app_nil_r, filter_pieces.
  now apply all_some_entries.
Qed.

Lemma Forall_app_intro {A} (P : A -> Prop) a b : Forall P a -> Forall P b -> Forall P (a ++ b).
Proof. intros. apply Forall_app. now split. Qed.

Lemma key_ok_consts :
  key_ok K_T /\ key_ok K_S /\ key_ok K_P /\ key_ok K_H /\ key_ok K_N /\ key_ok K_SOUND /\ key_ok K_TEL /\
  key_ok K_TELAV /\ key_ok K_EMAIL /\ key_ok K_NICKNAME /\ key_ok K_BDAY /\ key_ok K_URL /\ key_ok K_ADR /\
  key_ok K_MEMO.
Proof. repeat split; reflexivity. Qed.

Lemma entry_ok_escaped k v : key_ok k -> entry_ok (k, escape_mecard v).
Proof.
  intros Hk. split; [exact Hk|]. cbn [snd]. apply escape_mecard_closed; [lia|now left].
Qed.

(* ============================================================================================ *)
(* 4. make_wifi_data *)

(* the value that ends up in the T field: "nopass" verbatim, otherwise security.upper() *)
Definition wifi_security_value (security : option str) (security_upper : str) : str :=
  if str_eqb (or_empty security) K_nopass then or_empty security else security_upper.

Definition wifi_expected (ssid : str) (password security : option str) (security_upper : str) (hidden : bool)
  : list (str * str) :=
  (if truthy security then [(K_T, wifi_security_value security security_upper)] else [])
  ++ [(K_S, ssid)]
  ++ (match password with Some p => [(K_P, p)] | None => [] end)
  ++ (if hidden then [(K_H, K_true)] else []).

Definition escape_entry (e : str * str) : str * str := (fst e, escape_mecard (snd e)).

Lemma wifi_shape ssid password security security_upper hidden :
  make_wifi_data ssid password security security_upper hidden =
  K_WIFI ++ concat (map entry_render (map escape_entry (wifi_expected ssid password security security_upper hidden)))
         ++ (if hidden then [] else [59]).
Proof.
  unfold make_wifi_data, wifi_expected, mecard_field, wifi_security_value. f_equal.
  destruct (truthy security); destruct password as [p|]; destruct hidden;
    cbn [map concat app escape_entry entry_render fst snd];
    rewrite <- ?app_assoc; cbn [app]; rewrite ?app_nil_r; reflexivity.
Qed.

Lemma decode_escape_entries es : map entry_decode (map escape_entry es) = es.
Proof.
  induction es as [|[k v] es IH]; [reflexivity|].
  cbn [map]. change (entry_decode (escape_entry (k, v))) with (k, unescape (escape_mecard v)).
  rewrite mecard_escape_roundtrip. now rewrite IH.
Qed.

Lemma wifi_entries_ok ssid password security security_upper hidden :
  Forall entry_ok (map escape_entry (wifi_expected ssid password security security_upper hidden)).
Proof.
  destruct key_ok_consts as (HT & HS & HP & HH & _).
  unfold wifi_expected. rewrite !map_app. repeat apply Forall_app_intro.
  - destruct (truthy security); cbn [map]; [|constructor].
    constructor; [|constructor]. now apply entry_ok_escaped.
  - constructor; [|constructor]. now apply entry_ok_escaped.
  - destruct password; cbn [map]; [|constructor]. constructor; [|constructor]. now apply entry_ok_escaped.
  - destruct hidden; cbn [map]; [|constructor]. constructor; [|constructor]. now apply entry_ok_escaped.
Qed.

(* Splitting the WIFI payload at unescaped ';' and each piece at the first unescaped ':' yields exactly the
   fields T (only if security is a non-empty string), S, P (only if password is not None), H:true (only if
   hidden), in this order, and removing the backslash escapes gives back the original values, for ALL strings.
   The T value is security.upper() (oracle argument), except that "nopass" stays as it is. *)
Theorem wifi_fields ssid password security security_upper hidden :
  let out := make_wifi_data ssid password security security_upper hidden in
  let fields := wifi_expected ssid password security security_upper hidden in
  mecard_read K_WIFI out = Some fields /\
  mecard_pieces_read K_WIFI out =
    Some (map (fun kv => fst kv ++ [58] ++ escape_mecard (snd kv)) fields ++ (if hidden then [[]] else [[]; []])).
Proof.
  cbv zeta. rewrite wifi_shape.
  destruct (mecard_read_entries K_WIFI
              (map escape_entry (wifi_expected ssid password security security_upper hidden))
              (if hidden then [] else [59])) as [P R].
  - apply wifi_entries_ok.
  - destruct hidden; reflexivity.
  - split.
    + rewrite R. now rewrite decode_escape_entries.
    + rewrite P. f_equal. f_equal.
      * rewrite map_map. reflexivity.
      * destruct hidden; reflexivity.
Qed.
Print Assumptions wifi_fields.

(* ASCII security values: the T value is the ASCII upper-casing *)
Corollary wifi_fields_ascii ssid password security hidden :
  mecard_read K_WIFI (make_wifi_data_ascii ssid password security hidden) =
  Some (wifi_expected ssid password security (upper_ascii (or_empty security)) hidden).
Proof. apply wifi_fields. Qed.

(* ============================================================================================ *)
(* 5. make_mecard_data *)

Definition e_opt (key : str) (o : option str) : list (str * str) :=
  if truthy o then [(key, or_empty o)] else [].
Definition e_multi (key : str) (vals : list str) : list (str * str) := map (fun v => (key, v)) vals.

(* the fields in the order of the MeCard payload; ADR carries the seven address components joined by ',' *)
Definition mecard_expected (a : mecard_args) : list (str * str) :=
  [(K_N, mc_name a)]
  ++ e_opt K_SOUND (mc_reading a)
  ++ e_multi K_TEL (mc_phone a)
  ++ e_multi K_TELAV (mc_videophone a)
  ++ e_multi K_EMAIL (mc_email a)
  ++ e_opt K_NICKNAME (mc_nickname a)
  ++ e_opt K_BDAY (mc_birthday a)
  ++ e_multi K_URL (mc_url a)
  ++ (if existsb truthy (mecard_adr_props a)
      then [(K_ADR, join [44] (map or_empty (mecard_adr_props a)))] else [])
  ++ e_opt K_MEMO (mc_memo a).

(* the same list with the raw (still escaped) values *)
Definition mecard_raw (a : mecard_args) : list (str * str) :=
  [(K_N, escape_mecard (mc_name a))]
  ++ map escape_entry (e_opt K_SOUND (mc_reading a))
  ++ map escape_entry (e_multi K_TEL (mc_phone a))
  ++ map escape_entry (e_multi K_TELAV (mc_videophone a))
  ++ map escape_entry (e_multi K_EMAIL (mc_email a))
  ++ map escape_entry (e_opt K_NICKNAME (mc_nickname a))
  ++ map escape_entry (e_opt K_BDAY (mc_birthday a))
  ++ map escape_entry (e_multi K_URL (mc_url a))
  ++ (if existsb truthy (mecard_adr_props a)
      then [(K_ADR, join [44] (map (fun o => escape_mecard (or_empty o)) (mecard_adr_props a)))] else [])
  ++ map escape_entry (e_opt K_MEMO (mc_memo a)).

Lemma render_opt key o : mecard_opt key o = map entry_render (map escape_entry (e_opt key o)).
Proof. unfold mecard_opt, e_opt. destruct (truthy o); reflexivity. Qed.
Lemma render_multi key vals : mecard_multi key vals = map entry_render (map escape_entry (e_multi key vals)).
Proof. unfold mecard_multi, e_multi. rewrite !map_map. reflexivity. Qed.

Lemma mecard_pieces_raw a : mecard_pieces a = map entry_render (mecard_raw a).
Proof.
  unfold mecard_pieces, mecard_raw. rewrite !map_app. rewrite !render_opt, !render_multi.
  repeat f_equal. unfold mecard_adr. destruct (existsb truthy (mecard_adr_props a)); reflexivity.
Qed.

(* unescaping a comma-joined list of escaped components gives the comma-joined components *)
Lemma unescape_join_escaped (l : list str) :
  unescape (join [44] (map escape_mecard l)) = join [44] l.
Proof.
  induction l as [|x l IH]; [reflexivity|].
  cbn [map join]. destruct l as [|y l].
  - cbn [map]. apply mecard_escape_roundtrip.
  - cbn [map] in *. rewrite unescape_escape_mecard_app.
    change (unescape ([44] ++ ?t)) with (44 :: unescape t). cbn [app].
    f_equal. change (unescape (44 :: ?t)) with (44 :: unescape t). f_equal. exact IH.
Qed.

Lemma closed_join_escaped sep (l : list str) : sep <> 92 -> sep <> 44 -> mspecial sep = true ->
  closed sep (join [44] (map escape_mecard l)).
Proof.
  intros H1 H2 H3. induction l as [|x l IH]; [apply closed_nil|].
  cbn [map join]. destruct l as [|y l].
  - cbn [map]. apply escape_mecard_closed; auto.
  - apply closed_app; [apply escape_mecard_closed; auto|].
    apply closed_app; [|exact IH].
    split; cbn [has_unescaped final_esc negb andb orb]; [|reflexivity].
    destruct (44 =? sep) eqn:E; [lia|reflexivity].
Qed.

Lemma Forall_escape_entries es : Forall (fun e => key_ok (fst e)) es -> Forall entry_ok (map escape_entry es).
Proof.
  induction 1 as [|[k v] es He Hes IH]; cbn [map]; constructor; auto.
  unfold escape_entry. cbn [fst snd] in *. now apply entry_ok_escaped.
Qed.
Lemma keys_opt key o : key_ok key -> Forall (fun e => key_ok (fst e)) (e_opt key o).
Proof. intros H. unfold e_opt. destruct (truthy o); [|constructor]. constructor; [exact H|constructor]. Qed.
Lemma keys_multi key vals : key_ok key -> Forall (fun e => key_ok (fst e)) (e_multi key vals).
Proof. intros H. unfold e_multi. apply Forall_forall. intros e He. apply in_map_iff in He. destruct He as [v [<- _]]. exact H. Qed.

Lemma mecard_raw_ok a : Forall entry_ok (mecard_raw a).
Proof.
  destruct key_ok_consts as (_ & _ & _ & _ & HN & HSOUND & HTEL & HTELAV & HEMAIL & HNICK & HBDAY & HURL & HADR & HMEMO).
  unfold mecard_raw.
  repeat apply Forall_app_intro;
    try (apply Forall_escape_entries; first [apply keys_opt | apply keys_multi]; assumption).
  - constructor; [|constructor]. now apply entry_ok_escaped.
  - destruct (existsb truthy (mecard_adr_props a)); [|constructor].
    constructor; [|constructor]. split; [exact HADR|]. cbn [snd].
    rewrite <- (map_map or_empty escape_mecard).
    apply closed_join_escaped; [lia|lia|reflexivity].
Qed.

Lemma mecard_raw_decode a : map entry_decode (mecard_raw a) = mecard_expected a.
Proof.
  unfold mecard_raw, mecard_expected. rewrite !map_app, !decode_escape_entries.
  f_equal.
  - cbn [map]. unfold entry_decode. cbn [fst snd]. now rewrite mecard_escape_roundtrip.
  - repeat f_equal. destruct (existsb truthy (mecard_adr_props a)); [|reflexivity].
    cbn [map]. unfold entry_decode. cbn [fst snd].
    rewrite <- (map_map or_empty escape_mecard). now rewrite unescape_join_escaped.
Qed.

(* Splitting the MeCard payload at unescaped ';' / first unescaped ':' yields exactly N, SOUND?, TEL*, TELAV*,
   EMAIL*, NICKNAME?, BDAY?, URL*, ADR?, MEMO? (multi-valued ones in input order) with the original values
   after unescaping, for ALL strings; the payload ends with the ";;" terminator (two empty pieces). *)
Theorem mecard_fields a :
  mecard_read K_MECARD (make_mecard_data a) = Some (mecard_expected a) /\
  mecard_pieces_read K_MECARD (make_mecard_data a) = Some (map entry_piece (mecard_raw a) ++ [[]; []]) /\
  map entry_decode (mecard_raw a) = mecard_expected a.
Proof.
  unfold make_mecard_data. rewrite mecard_pieces_raw.
  destruct (mecard_read_entries K_MECARD (mecard_raw a) [59] (mecard_raw_ok a) eq_refl) as [P R].
  split; [|split].
  - rewrite R. now rewrite mecard_raw_decode.
  - exact P.
  - apply mecard_raw_decode.
Qed.
Print Assumptions mecard_fields.

(* The ADR value: components are joined with ',' and ',' is NOT in _MECARD_ESCAPE.  If no component contains a
   comma, splitting the raw ADR value at unescaped ',' and unescaping gives back the seven components ... *)
Lemma split_join_escaped (l : list str) : Forall (fun s => ~ In 44 s) l -> l <> [] ->
  split_esc 44 false (join [44] (map escape_mecard l)) = map escape_mecard l.
Proof.
  induction 1 as [|x l Hx Hl IH]; intros Hne; [exfalso; apply Hne; reflexivity|].
  cbn [map join]. destruct l as [|y l].
  - cbn [map]. apply split_esc_closed_end. apply escape_mecard_closed; [lia|now right].
  - change (split_esc 44 false (escape_mecard x ++ 44 :: join [44] (map escape_mecard (y :: l)))
            = escape_mecard x :: map escape_mecard (y :: l)).
    rewrite split_esc_closed by (apply escape_mecard_closed; [lia|now right]).
    f_equal. apply IH. discriminate.
Qed.

Theorem mecard_adr_components (props : list (option str)) :
  props <> [] -> Forall (fun s => ~ In 44 s) (map or_empty props) ->
  mecard_components (join [44] (map (fun o => escape_mecard (or_empty o)) props)) = map or_empty props.
Proof.
  intros Hne H. unfold mecard_components. rewrite <- (map_map or_empty escape_mecard).
  rewrite split_join_escaped; [| exact H | destruct props; [congruence|discriminate]].
  rewrite map_map. rewrite <- (map_id (map or_empty props)) at 2. apply map_ext. apply mecard_escape_roundtrip.
Qed.
Print Assumptions mecard_adr_components.

(* ... but a comma inside a component is indistinguishable from the separator: houseno = "1,2" produces
   eight components instead of seven (known limitation, reported) *)
Example mecard_adr_comma_confusion :
  let a := {| mc_name := [110]; mc_reading := None; mc_email := []; mc_phone := []; mc_videophone := [];
              mc_memo := None; mc_nickname := None; mc_birthday := None; mc_url := [];
              mc_pobox := None; mc_roomno := None; mc_houseno := Some [49; 44; 50]; mc_city := Some [99];
              mc_prefecture := None; mc_zipcode := None; mc_country := None |} in
  make_mecard_data a = K_MECARD ++ [78;58;110;59] ++ K_ADR ++ [58; 44;44; 49;44;50; 44; 99; 44;44;44; 59; 59] /\
  List.length (mecard_components [44;44; 49;44;50; 44; 99; 44;44;44]) = 8%nat.
Proof. split; reflexivity. Qed.
(* ============================================================================================ *)
(* 6. vCard: escaping *)

Definition nocrlf (s : str) : bool := forallb (fun c => negb ((c =? 13) || (c =? 10))) s.
Definition remove_cr (s : str) : str := filter (fun c => negb (c =? 13)) s.

Lemma nocrlf_app a b : nocrlf (a ++ b) = nocrlf a && nocrlf b.
Proof. unfold nocrlf. apply forallb_app. Qed.

Definition vesc_char (c : Z) : str :=
  if c =? 92 then [92; 92] else if c =? 44 then [92; 44] else if c =? 59 then [92; 59]
  else if c =? 10 then [92; 110] else if c =? 13 then [] else [c].
Definition vesc_name_char (c : Z) : str :=
  if c =? 92 then [92; 92] else if c =? 10 then [92; 110] else if c =? 13 then [] else [c].

Lemma escape_vcard_cons c s : escape_vcard (c :: s) = vesc_char c ++ escape_vcard s.
Proof.
  unfold escape_vcard, translate. cbn [flat_map]. f_equal.
  unfold VCARD_ESCAPE, vesc_char. cbn [assocZ].
  destruct (c =? 92); [reflexivity|]. destruct (c =? 44); [reflexivity|].
  destruct (c =? 59); [reflexivity|]. destruct (c =? 10); [reflexivity|].
  destruct (c =? 13); reflexivity.
Qed.

(* the name table is the text table without the entries for ',' and ';' *)
Lemma vcard_escape_name_table : VCARD_ESCAPE_NAME = [(92, [92; 92]); (10, [92; 110]); (13, [])].
Proof. reflexivity. Qed.

Lemma escape_vcard_name_cons c s : escape_vcard_name (c :: s) = vesc_name_char c ++ escape_vcard_name s.
Proof.
  unfold escape_vcard_name, translate. cbn [flat_map]. f_equal.
  rewrite vcard_escape_name_table. unfold vesc_name_char. cbn [assocZ].
  destruct (c =? 92); [reflexivity|]. destruct (c =? 10); [reflexivity|].
  destruct (c =? 13); reflexivity.
Qed.

Lemma vesc_char_cases c :
  (c = 92 /\ vesc_char c = [92; 92]) \/ (c = 44 /\ vesc_char c = [92; 44]) \/ (c = 59 /\ vesc_char c = [92; 59]) \/
  (c = 10 /\ vesc_char c = [92; 110]) \/ (c = 13 /\ vesc_char c = []) \/
  (c <> 92 /\ c <> 44 /\ c <> 59 /\ c <> 10 /\ c <> 13 /\ vesc_char c = [c]).
Proof.
  unfold vesc_char.
  destruct (c =? 92) eqn:E1; [left; split; [lia|reflexivity]|right].
  destruct (c =? 44) eqn:E2; [left; split; [lia|reflexivity]|right].
  destruct (c =? 59) eqn:E3; [left; split; [lia|reflexivity]|right].
  destruct (c =? 10) eqn:E4; [left; split; [lia|reflexivity]|right].
  destruct (c =? 13) eqn:E5; [left; split; [lia|reflexivity]|right].
  repeat split; lia.
Qed.

Lemma vesc_name_char_cases c :
  (c = 92 /\ vesc_name_char c = [92; 92]) \/ (c = 10 /\ vesc_name_char c = [92; 110]) \/
  (c = 13 /\ vesc_name_char c = []) \/ (c <> 92 /\ c <> 10 /\ c <> 13 /\ vesc_name_char c = [c]).
Proof.
  unfold vesc_name_char.
  destruct (c =? 92) eqn:E1; [left; split; [lia|reflexivity]|right].
  destruct (c =? 10) eqn:E4; [left; split; [lia|reflexivity]|right].
  destruct (c =? 13) eqn:E5; [left; split; [lia|reflexivity]|right].
  repeat split; lia.
Qed.

Lemma eqb_false_of_neq a b : a <> b -> (a =? b) = false.
Proof. intros. lia. Qed.

(* no escaped value contains a raw CR or LF *)
Theorem escape_vcard_no_crlf s : nocrlf (escape_vcard s) = true.
Proof.
  induction s as [|c s IH]; [reflexivity|].
  rewrite escape_vcard_cons, nocrlf_app, IH, andb_true_r.
  destruct (vesc_char_cases c) as [[-> ->]|[[-> ->]|[[-> ->]|[[-> ->]|[[-> ->]|(H1&H2&H3&H4&H5&->)]]]]];
    try reflexivity.
  cbn [nocrlf forallb]. rewrite (eqb_false_of_neq _ _ H4), (eqb_false_of_neq _ _ H5). reflexivity.
Qed.
Theorem escape_vcard_name_no_crlf s : nocrlf (escape_vcard_name s) = true.
Proof.
  induction s as [|c s IH]; [reflexivity|].
  rewrite escape_vcard_name_cons, nocrlf_app, IH, andb_true_r.
  destruct (vesc_name_char_cases c) as [[-> ->]|[[-> ->]|[[-> ->]|(H1&H4&H5&->)]]]; try reflexivity.
  cbn [nocrlf forallb]. rewrite (eqb_false_of_neq _ _ H4), (eqb_false_of_neq _ _ H5). reflexivity.
Qed.
Print Assumptions escape_vcard_no_crlf.
Print Assumptions escape_vcard_name_no_crlf.

Lemma vcard_unescape_char c t :
  vcard_unescape (vesc_char c ++ t) = (if c =? 13 then [] else [c]) ++ vcard_unescape t.
Proof.
  unfold vcard_unescape.
  destruct (vesc_char_cases c) as [[-> ->]|[[-> ->]|[[-> ->]|[[-> ->]|[[-> ->]|(H1&H2&H3&H4&H5&->)]]]]];
    try reflexivity.
  rewrite (eqb_false_of_neq _ _ H5). cbn [app vcard_unescape_st]. now rewrite (eqb_false_of_neq _ _ H1).
Qed.
Lemma vcard_unescape_name_char c t :
  vcard_unescape (vesc_name_char c ++ t) = (if c =? 13 then [] else [c]) ++ vcard_unescape t.
Proof.
  unfold vcard_unescape.
  destruct (vesc_name_char_cases c) as [[-> ->]|[[-> ->]|[[-> ->]|(H1&H4&H5&->)]]]; try reflexivity.
  rewrite (eqb_false_of_neq _ _ H5). cbn [app vcard_unescape_st]. now rewrite (eqb_false_of_neq _ _ H1).
Qed.

Lemma remove_cr_cons c s : remove_cr (c :: s) = (if c =? 13 then [] else [c]) ++ remove_cr s.
Proof. unfold remove_cr. cbn [filter]. destruct (c =? 13); reflexivity. Qed.

(* Unescaping gives the value back except that every CR has been removed: LF stays LF, CRLF becomes LF,
   a lone CR disappears. *)
Theorem vcard_escape_roundtrip s : vcard_unescape (escape_vcard s) = remove_cr s.
Proof.
  induction s as [|c s IH]; [reflexivity|].
  rewrite escape_vcard_cons, vcard_unescape_char, IH, remove_cr_cons. reflexivity.
Qed.
Theorem vcard_escape_name_roundtrip s : vcard_unescape (escape_vcard_name s) = remove_cr s.
Proof.
  induction s as [|c s IH]; [reflexivity|].
  rewrite escape_vcard_name_cons, vcard_unescape_name_char, IH, remove_cr_cons. reflexivity.
Qed.
Print Assumptions vcard_escape_roundtrip.
Print Assumptions vcard_escape_name_roundtrip.

Example remove_cr_examples :
  remove_cr [97; 13; 10; 98] = [97; 10; 98] /\ remove_cr [97; 10; 98] = [97; 10; 98] /\
  remove_cr [97; 13; 98] = [97; 98].
Proof. repeat split; reflexivity. Qed.

Corollary vcard_escape_roundtrip_no_cr s : ~ In 13 s -> vcard_unescape (escape_vcard s) = s.
Proof.
  intros H. rewrite vcard_escape_roundtrip. unfold remove_cr.
  induction s as [|c s IH]; [reflexivity|]. cbn [filter].
  destruct (c =? 13) eqn:E; [exfalso; apply H; left; lia|].
  cbn [negb]. f_equal. apply IH. intros Hin. apply H. now right.
Qed.

Lemma escape_vcard_closed s : closed 59 (escape_vcard s).
Proof.
  induction s as [|c s IH]; [apply closed_nil|].
  rewrite escape_vcard_cons. apply closed_app; [|exact IH].
  destruct (vesc_char_cases c) as [[-> ->]|[[-> ->]|[[-> ->]|[[-> ->]|[[-> ->]|(H1&H2&H3&H4&H5&->)]]]]];
    try (split; reflexivity).
  split; cbn [has_unescaped final_esc negb andb orb].
  - now rewrite (eqb_false_of_neq _ _ H3).
  - now rewrite (eqb_false_of_neq _ _ H1).
Qed.

Lemma split_esc_join_closed sep (l : list str) : Forall (closed sep) l -> l <> [] ->
  split_esc sep false (join [sep] l) = l.
Proof.
  induction 1 as [|x l Hx Hl IH]; intros Hne; [exfalso; apply Hne; reflexivity|].
  destruct l as [|y l].
  - cbn [join]. now apply split_esc_closed_end.
  - change (split_esc sep false (x ++ sep :: join [sep] (y :: l)) = x :: y :: l).
    rewrite split_esc_closed by exact Hx. f_equal. apply IH. discriminate.
Qed.

(* a structured value (ADR): the components come back one by one *)
Theorem vcard_struct_roundtrip (comps : list str) : comps <> [] ->
  vcard_components (join [59] (map escape_vcard comps)) = map remove_cr comps.
Proof.
  intros Hne. unfold vcard_components. rewrite split_esc_join_closed.
  - rewrite map_map. apply map_ext. apply vcard_escape_roundtrip.
  - apply Forall_forall. intros x Hx. apply in_map_iff in Hx. destruct Hx as [s [<- _]]. apply escape_vcard_closed.
  - destruct comps; [congruence|discriminate].
Qed.
Print Assumptions vcard_struct_roundtrip.

(* ============================================================================================ *)
(* 7. vCard: content lines *)

Definition starts_ws (l : str) : bool := match l with c :: _ => (c =? 32) || (c =? 9) | [] => false end.

Lemma split_crlf_cons_ne c r : c <> 13 -> split_crlf (c :: r) = cons_hd c (split_crlf r).
Proof.
  intros H. destruct r as [|d r]; [reflexivity|].
  cbn [split_crlf]. rewrite (eqb_false_of_neq _ _ H). reflexivity.
Qed.

Lemma nocrlf_cons c x : nocrlf (c :: x) = true -> c <> 13 /\ c <> 10 /\ nocrlf x = true.
Proof.
  cbn [nocrlf forallb]. intros H. apply andb_true_iff in H. destruct H as [H1 H2].
  apply negb_true_iff in H1. apply orb_false_iff in H1. destruct H1 as [H1 H3].
  repeat split; [lia|lia|exact H2].
Qed.

Lemma split_crlf_line x t : nocrlf x = true -> split_crlf (x ++ 13 :: 10 :: t) = x :: split_crlf t.
Proof.
  induction x as [|c x IH]; intros H.
  - reflexivity.
  - apply nocrlf_cons in H. destruct H as (H1 & _ & H3).
    cbn [app]. rewrite split_crlf_cons_ne by exact H1. rewrite IH by exact H3. reflexivity.
Qed.
Lemma split_crlf_last x : nocrlf x = true -> split_crlf x = [x].
Proof.
  induction x as [|c x IH]; intros H; [reflexivity|].
  apply nocrlf_cons in H. destruct H as (H1 & _ & H3).
  rewrite split_crlf_cons_ne by exact H1. rewrite IH by exact H3. reflexivity.
Qed.

Lemma split_crlf_join (ls : list str) : Forall (fun l => nocrlf l = true) ls -> ls <> [] ->
  split_crlf (join CRLF ls) = ls.
Proof.
  induction 1 as [|x l Hx Hl IH]; intros Hne; [exfalso; apply Hne; reflexivity|].
  destruct l as [|y l].
  - cbn [join]. now apply split_crlf_last.
  - change (split_crlf (x ++ 13 :: 10 :: join CRLF (y :: l)) = x :: y :: l).
    rewrite split_crlf_line by exact Hx. f_equal. apply IH. discriminate.
Qed.

Lemma unfold_lines_id (ls : list str) : Forall (fun l => starts_ws l = false) ls -> unfold_lines ls = ls.
Proof.
  induction 1 as [|x l Hx Hl IH]; [reflexivity|].
  cbn [unfold_lines]. rewrite IH. destruct l as [|[|c n] r]; try reflexivity.
  inversion Hl as [|? ? Hc _]; subst. cbn [starts_ws] in Hc. now rewrite Hc.
Qed.

Lemma cut_first_app sep a t : forallb (fun c => negb (c =? sep)) a = true ->
  cut_first sep (a ++ sep :: t) = Some (a, t).
Proof.
  induction a as [|c a IH]; intros H.
  - cbn [app cut_first]. now rewrite Z.eqb_refl.
  - cbn [forallb] in H. apply andb_true_iff in H. destruct H as [H1 H2].
    cbn [app cut_first]. destruct (c =? sep); [discriminate H1|]. now rewrite IH.
Qed.

(* ============================================================================================ *)
(* 8. make_vcard_data *)

Inductive vvalue :=
  | VText (s : str)                (* escaped with _VCARD_ESCAPE *)
  | VName (s : str)                (* escaped with _VCARD_ESCAPE_NAME (the N property) *)
  | VStruct (comps : list str)     (* ';'-separated components, each escaped (ADR) *)
  | VVerbatim (s : str).           (* inserted without escaping: BDAY, REV, GEO *)

Definition raw_of_value (v : vvalue) : str :=
  match v with
  | VText s => escape_vcard s
  | VName s => escape_vcard_name s
  | VStruct comps => join [59] (map escape_vcard comps)
  | VVerbatim s => s
  end.

Definition x_opt (key : str) (o : option str) : list (str * vvalue) :=
  if truthy o then [(key, VText (or_empty o))] else [].
Definition x_multi (key : str) (vals : list str) : list (str * vvalue) := map (fun v => (key, VText v)) vals.
Definition x_date (key : str) (o : option (str * bool)) : list (str * vvalue) :=
  match o with Some (s, _) => if nonempty s then [(key, VVerbatim s)] else [] | None => [] end.

(* the supplied values in the order of the vCard lines *)
Definition vcard_expected (a : vcard_args) : list (str * vvalue) :=
  [(K_N, VName (vc_name a)); (K_FN, VText (vc_displayname a))]
  ++ x_opt K_ORG (vc_org a)
  ++ x_multi K_EMAIL (vc_email a)
  ++ x_multi K_TEL (vc_phone a)
  ++ x_multi K_TELFAX (vc_fax a)
  ++ x_multi K_TELVIDEO (vc_videophone a)
  ++ x_multi K_TELCELL (vc_cellphone a)
  ++ x_multi K_TELHOME (vc_homephone a)
  ++ x_multi K_TELWORK (vc_workphone a)
  ++ x_multi K_URL (vc_url a)
  ++ x_multi K_TITLE (vc_title a)
  ++ x_multi K_PHOTO (vc_photo_uri a)
  ++ x_opt K_NICKNAME (vc_nickname a)
  ++ (if existsb truthy (vcard_adr_props a)
      then [(K_ADR, VStruct [or_empty (vc_pobox a); []; or_empty (vc_street a); or_empty (vc_city a);
                             or_empty (vc_region a); or_empty (vc_zipcode a); or_empty (vc_country a)])]
      else [])
  ++ x_date K_BDAY (vc_birthday a)
  ++ (if geo_given (vc_lat a) && geo_given (vc_lng a)
      then [(K_GEO, VVerbatim (geo_text (vc_lat a) ++ [59] ++ geo_text (vc_lng a)))] else [])
  ++ x_opt K_SOURCE (vc_source a)
  ++ x_opt K_NOTE (vc_memo a)
  ++ x_date K_REV (vc_rev a).

Definition vrender (e : str * vvalue) : str := vline (fst e) (raw_of_value (snd e)).

Lemma vrender_opt key o : vcard_opt key o = map vrender (x_opt key o).
Proof. unfold vcard_opt, x_opt. destruct (truthy o); reflexivity. Qed.
Lemma vrender_multi key vals : vcard_multi key vals = map vrender (x_multi key vals).
Proof. unfold vcard_multi, x_multi. rewrite map_map. reflexivity. Qed.
Lemma vrender_date key o l : vcard_date key o = Ok l -> l = map vrender (x_date key o).
Proof.
  unfold vcard_date, x_date. destruct o as [[s ok]|]; [|now intros [= <-]].
  destruct (nonempty s); [|now intros [= <-]]. destruct ok; [now intros [= <-]|discriminate].
Qed.

Lemma vcard_lines_shape a ls : vcard_lines a = Ok ls ->
  ls = [K_BEGIN; K_VERSION] ++ map vrender (vcard_expected a) ++ [K_END; []].
Proof.
  unfold vcard_lines. intros H.
  destruct (vcard_date K_BDAY (vc_birthday a)) as [bd|] eqn:Eb; cbn [bind] in H; [|discriminate H].
  destruct (negb (Bool.eqb (geo_given (vc_lat a)) (geo_given (vc_lng a)))) eqn:Eg; [discriminate H|].
  destruct (vcard_date K_REV (vc_rev a)) as [rv|] eqn:Er; cbn [bind] in H; [|discriminate H].
  injection H as <-.
  apply vrender_date in Eb, Er. subst bd rv.
  unfold vcard_expected. rewrite !vrender_opt, !vrender_multi. rewrite !map_app.
  cbn [map app]. do 4 f_equal. rewrite <- !app_assoc. repeat f_equal.
  - unfold vcard_adr, vcard_adr_props. destruct (existsb truthy _); reflexivity.
  - destruct (geo_given (vc_lat a) && geo_given (vc_lng a)); reflexivity.
Qed.

(* all property names used by the writer: non-empty, no ':' , no CR/LF, not starting with white space *)
Definition name_okb (n : str) : bool :=
  nonempty n && negb (starts_ws n) && nocrlf n && forallb (fun c => negb (c =? 58)) n.

Lemma x_opt_names key o : name_okb key = true -> Forall (fun e => name_okb (fst e) = true) (x_opt key o).
Proof. intros H. unfold x_opt. destruct (truthy o); [|constructor]. constructor; [exact H|constructor]. Qed.
Lemma x_multi_names key vals : name_okb key = true -> Forall (fun e => name_okb (fst e) = true) (x_multi key vals).
Proof.
  intros H. unfold x_multi. apply Forall_forall. intros e He. apply in_map_iff in He.
  destruct He as [v [<- _]]. exact H.
Qed.
Lemma x_date_names key o : name_okb key = true -> Forall (fun e => name_okb (fst e) = true) (x_date key o).
Proof.
  intros H. unfold x_date. destruct o as [[s ok]|]; [|constructor]. destruct (nonempty s); [|constructor].
  constructor; [exact H|constructor].
Qed.

Lemma vcard_expected_names a : Forall (fun e => name_okb (fst e) = true) (vcard_expected a).
Proof.
  unfold vcard_expected.
  repeat apply Forall_app_intro;
    try (first [apply x_opt_names | apply x_multi_names | apply x_date_names]; reflexivity).
  - repeat constructor.
  - destruct (existsb truthy _); repeat constructor.
  - destruct (geo_given (vc_lat a) && geo_given (vc_lng a)); repeat constructor.
Qed.

(* the values that are inserted without escaping *)
Definition vcard_verbatim (a : vcard_args) : list str :=
  [match vc_birthday a with Some (s, _) => s | None => [] end;
   match vc_rev a with Some (s, _) => s | None => [] end;
   geo_text (vc_lat a); geo_text (vc_lng a)].

Lemma x_opt_values key o : Forall (fun e => nocrlf (raw_of_value (snd e)) = true) (x_opt key o).
Proof. unfold x_opt. destruct (truthy o); repeat constructor. apply escape_vcard_no_crlf. Qed.
Lemma x_multi_values key vals : Forall (fun e => nocrlf (raw_of_value (snd e)) = true) (x_multi key vals).
Proof.
  unfold x_multi. apply Forall_forall. intros e He. apply in_map_iff in He.
  destruct He as [v [<- _]]. apply escape_vcard_no_crlf.
Qed.
Lemma x_date_values key o : nocrlf (match o with Some (s, _) => s | None => [] end) = true ->
  Forall (fun e => nocrlf (raw_of_value (snd e)) = true) (x_date key o).
Proof.
  intros H. unfold x_date. destruct o as [[s ok]|]; [|constructor]. destruct (nonempty s); [|constructor].
  constructor; [exact H|constructor].
Qed.

Lemma nocrlf_join_escaped (comps : list str) : nocrlf (join [59] (map escape_vcard comps)) = true.
Proof.
  induction comps as [|x l IH]; [reflexivity|].
  cbn [map join]. destruct l as [|y l]; [apply escape_vcard_no_crlf|].
  cbn [map] in *. rewrite !nocrlf_app, escape_vcard_no_crlf, IH. reflexivity.
Qed.

Lemma vcard_expected_values a : Forall (fun s => nocrlf s = true) (vcard_verbatim a) ->
  Forall (fun e => nocrlf (raw_of_value (snd e)) = true) (vcard_expected a).
Proof.
  intros H. unfold vcard_verbatim in H.
  inversion H as [|? ? Hb H1]; subst. inversion H1 as [|? ? Hr H2]; subst.
  inversion H2 as [|? ? Hlat H3]; subst. inversion H3 as [|? ? Hlng _]; subst.
  unfold vcard_expected.
  repeat apply Forall_app_intro;
    try (first [apply x_opt_values | apply x_multi_values | now apply x_date_values]).
  - constructor; [apply escape_vcard_name_no_crlf|]. constructor; [apply escape_vcard_no_crlf|constructor].
  - destruct (existsb truthy _); [|constructor]. constructor; [|constructor]. apply nocrlf_join_escaped.
  - destruct (geo_given (vc_lat a) && geo_given (vc_lng a)); [|constructor].
    constructor; [|constructor]. cbn [snd raw_of_value]. rewrite !nocrlf_app, Hlat, Hlng. reflexivity.
Qed.

Lemma vrender_ok e : name_okb (fst e) = true -> nocrlf (raw_of_value (snd e)) = true ->
  nocrlf (vrender e) = true /\ starts_ws (vrender e) = false /\
  cut_first 58 (vrender e) = Some (fst e, raw_of_value (snd e)).
Proof.
  unfold name_okb, vrender, vline. intros Hn Hv.
  apply andb_true_iff in Hn. destruct Hn as [Hn N4]. apply andb_true_iff in Hn. destruct Hn as [Hn N3].
  apply andb_true_iff in Hn. destruct Hn as [N1 N2].
  repeat split.
  - rewrite !nocrlf_app, N3, Hv. reflexivity.
  - destruct (fst e) as [|c n]; [discriminate N1|]. cbn [app starts_ws]. cbn [starts_ws] in N2.
    now destruct ((c =? 32) || (c =? 9)).
  - cbn [app]. now apply cut_first_app.
Qed.

Definition vcard_parsed (a : vcard_args) : list (str * str) :=
  [([66; 69; 71; 73; 78], [86; 67; 65; 82; 68]); ([86; 69; 82; 83; 73; 79; 78], [51; 46; 48])]
  ++ map (fun e => (fst e, raw_of_value (snd e))) (vcard_expected a)
  ++ [([69; 78; 68], [86; 67; 65; 82; 68])].

(* Every supplied value occupies exactly one content line.  The payload split at CRLF (and after RFC 2425
   unfolding) is BEGIN:VCARD, VERSION:3.0, one line "name:escaped value" per supplied value in the documented
   order, END:VCARD and a final empty piece; no line contains a raw CR or LF; each line splits at its first ':'
   into the property name and the raw value.  Hypothesis: the four values that the writer inserts verbatim
   (birthday, rev, str(lat), str(lng)) contain no CR/LF.  For inputs of the documented types this always holds:
   str(float) has no line break, and a birthday / rev text is only written when the _looks_like_datetime oracle
   bit is true; since commit 1d19f11 the pattern ends with \Z, so a matching text consists of (Unicode) digits
   and '-', 'T', ':', 'Z' only.  The regex itself is not modelled, hence the explicit hypothesis. *)
Theorem vcard_one_line_per_value a out :
  make_vcard_data a = Ok out ->
  Forall (fun s => nocrlf s = true) (vcard_verbatim a) ->
  let lines := [K_BEGIN; K_VERSION] ++ map vrender (vcard_expected a) ++ [K_END; []] in
  split_crlf out = lines /\
  vcard_content_lines out = lines /\
  Forall (fun l => nocrlf l = true) lines /\
  vcard_read out = Some (vcard_parsed a).
Proof.
  intros Hout Hverb. cbv zeta.
  unfold make_vcard_data in Hout.
  destruct (vcard_lines a) as [ls|] eqn:El; cbn [bind] in Hout; [|discriminate Hout].
  injection Hout as <-. apply vcard_lines_shape in El. subst ls.
  pose proof (vcard_expected_names a) as Hnames.
  pose proof (vcard_expected_values a Hverb) as Hvals.
  assert (Hmid : Forall (fun l => nocrlf l = true /\ starts_ws l = false) (map vrender (vcard_expected a))).
  { apply Forall_forall. intros l Hl. apply in_map_iff in Hl. destruct Hl as [e [<- He]].
    rewrite Forall_forall in Hnames, Hvals. destruct (vrender_ok e (Hnames e He) (Hvals e He)) as (A & B & _).
    now split. }
  assert (Hall : Forall (fun l => nocrlf l = true /\ starts_ws l = false)
                        ([K_BEGIN; K_VERSION] ++ map vrender (vcard_expected a) ++ [K_END; []])).
  { apply Forall_app_intro; [repeat constructor|]. apply Forall_app_intro; [exact Hmid|repeat constructor]. }
  assert (S : split_crlf (join CRLF ([K_BEGIN; K_VERSION] ++ map vrender (vcard_expected a) ++ [K_END; []]))
              = [K_BEGIN; K_VERSION] ++ map vrender (vcard_expected a) ++ [K_END; []]).
  { apply split_crlf_join; [|discriminate]. eapply Forall_impl; [|exact Hall]. now intros l [A _]. }
  assert (U : vcard_content_lines (join CRLF ([K_BEGIN; K_VERSION] ++ map vrender (vcard_expected a) ++ [K_END; []]))
              = [K_BEGIN; K_VERSION] ++ map vrender (vcard_expected a) ++ [K_END; []]).
  { unfold vcard_content_lines. rewrite S. apply unfold_lines_id.
    eapply Forall_impl; [|exact Hall]. now intros l [_ B]. }
  split; [exact S|]. split; [exact U|]. split.
  { eapply Forall_impl; [|exact Hall]. now intros l [A _]. }
  unfold vcard_read. rewrite U.
  replace ([K_BEGIN; K_VERSION] ++ map vrender (vcard_expected a) ++ [K_END; []])
    with (([K_BEGIN; K_VERSION] ++ map vrender (vcard_expected a) ++ [K_END]) ++ [[]]).
  2:{ rewrite <- !app_assoc. reflexivity. }
  unfold str in *. rewrite last_last, removelast_last. rewrite !map_app.
  unfold vcard_parsed.
  assert (M : all_some (map (cut_first 58) (map vrender (vcard_expected a)))
              = Some (map (fun e => (fst e, raw_of_value (snd e))) (vcard_expected a))).
  { clear - Hnames Hvals. induction (vcard_expected a) as [|e es IH]; [reflexivity|].
    inversion Hnames as [|? ? Hn Hns]; subst. inversion Hvals as [|? ? Hv Hvs]; subst.
    cbn [map all_some]. destruct (vrender_ok e Hn Hv) as (_ & _ & C). unfold str in *. rewrite C.
    now rewrite (IH Hns Hvs). }
  change (map (cut_first 58) [K_BEGIN; K_VERSION]) with
    [Some ([66; 69; 71; 73; 78], [86; 67; 65; 82; 68]); Some ([86; 69; 82; 83; 73; 79; 78], [51; 46; 48])].
  change (map (cut_first 58) [K_END]) with [Some ([69; 78; 68], [86; 67; 65; 82; 68])].
  cbn [app all_some].
  assert (G : forall (g : list (option (list Z * list Z))) x y, all_some g = Some x ->
              all_some (g ++ [Some y]) = Some (x ++ [y])).
  { induction g as [|[p|] g IHg]; intros x y Hx; cbn [all_some app] in *.
    - injection Hx as <-. reflexivity.
    - destruct (all_some g) as [xs|] eqn:Eg; [|discriminate Hx]. injection Hx as <-.
      now rewrite (IHg xs y eq_refl).
    - discriminate Hx. }
  pose proof (G _ _ ([69; 78; 68], [86; 67; 65; 82; 68]) M) as G1. unfold str in *. rewrite G1. reflexivity.
Qed.
Print Assumptions vcard_one_line_per_value.

(* refusals: the only exception class is ValueError *)
Theorem vcard_errors a e : make_vcard_data a = Err e -> e = ValueError.
Proof.
  unfold make_vcard_data, vcard_lines, vcard_date. intros H.
  destruct (vc_birthday a) as [[s1 ok1]|]; [destruct (nonempty s1); [destruct ok1|]|];
  destruct (vc_rev a) as [[s2 ok2]|]; try (destruct (nonempty s2); [destruct ok2|]);
  cbn [bind] in H;
  destruct (negb (Bool.eqb (geo_given (vc_lat a)) (geo_given (vc_lng a))));
  cbn [bind] in H; congruence.
Qed.
Print Assumptions vcard_errors.

(* GEO is written iff both lat and lng are given (`is not None`); exactly one of them given is refused.  The
   truthiness bit of the argument is ignored: (0.0, 5.0) and (0.0, 0.0) are written. *)
Example vcard_geo_zero_is_accepted :
  let mk lat lng :=
    {| vc_name := [97]; vc_displayname := [98]; vc_email := []; vc_phone := []; vc_fax := [];
       vc_videophone := []; vc_memo := None; vc_nickname := None; vc_birthday := None; vc_url := [];
       vc_pobox := None; vc_street := None; vc_city := None; vc_region := None; vc_zipcode := None;
       vc_country := None; vc_org := None; vc_lat := lat; vc_lng := lng; vc_source := None;
       vc_rev := None; vc_title := []; vc_photo_uri := []; vc_cellphone := []; vc_homephone := [];
       vc_workphone := [] |} in
  vcard_expected (mk (Some (false, [48; 46; 48])) (Some (true, [53; 46; 48]))) =
    [(K_N, VName [97]); (K_FN, VText [98]); (K_GEO, VVerbatim [48; 46; 48; 59; 53; 46; 48])] /\
  (exists out, make_vcard_data (mk (Some (false, [48; 46; 48])) (Some (false, [48; 46; 48]))) = Ok out) /\
  make_vcard_data (mk (Some (false, [48; 46; 48])) None) = Err ValueError /\
  make_vcard_data (mk None (Some (true, [53; 46; 48]))) = Err ValueError.
Proof. repeat split; try reflexivity. eexists. reflexivity. Qed.
(* ============================================================================================ *)
(* 9. decimal formatting: '{:.kf}' + rstrip('0').rstrip('.') *)

Lemma fold_val_acc (b : list Z) : forall acc,
  fold_left (fun a d => 10 * a + (d - 48)) b acc = acc * 10 ^ Z.of_nat (length b) + val_digits b.
Proof.
  unfold val_digits. induction b as [|d b IH]; intros acc.
  - cbn [fold_left length]. change (10 ^ Z.of_nat 0) with 1. lia.
  - cbn [fold_left]. rewrite IH. rewrite (IH (10 * 0 + (d - 48))).
    replace (Z.of_nat (length (d :: b))) with (Z.of_nat (length b) + 1) by (cbn [length]; lia).
    rewrite Z.pow_add_r by lia. lia.
Qed.

Lemma val_digits_app a b : val_digits (a ++ b) = val_digits a * 10 ^ Z.of_nat (length b) + val_digits b.
Proof. unfold val_digits at 1. rewrite fold_left_app. fold (val_digits a). apply fold_val_acc. Qed.

Lemma val_digits_cons d b : val_digits (d :: b) = (d - 48) * 10 ^ Z.of_nat (length b) + val_digits b.
Proof. change (d :: b) with ([d] ++ b). rewrite val_digits_app. unfold val_digits at 1. cbn [fold_left]. lia. Qed.

Lemma val_digits_snoc a d : val_digits (a ++ [d]) = 10 * val_digits a + (d - 48).
Proof. rewrite val_digits_app. cbn [length]. change (10 ^ Z.of_nat 1) with 10. unfold val_digits at 2. cbn [fold_left]. lia. Qed.

Lemma forallb_snoc {A} (p : A -> bool) a d : forallb p (a ++ [d]) = forallb p a && p d.
Proof. rewrite forallb_app. cbn [forallb]. now rewrite andb_true_r. Qed.

Lemma is_digit_48 r : 0 <= r < 10 -> is_digit (48 + r) = true.
Proof. unfold is_digit. lia. Qed.

Lemma digits_fuel_spec fuel : forall n, 0 <= n < 2 ^ Z.of_nat fuel ->
  forallb is_digit (digits_fuel fuel n) = true /\ val_digits (digits_fuel fuel n) = n /\
  digits_fuel fuel n <> [].
Proof.
  induction fuel as [|f IH]; intros n Hn.
  - change (2 ^ Z.of_nat 0) with 1 in Hn. assert (n = 0) by lia. subst. repeat split; discriminate.
  - cbn [digits_fuel]. destruct (n <? 10) eqn:E.
    + repeat split; [cbn [forallb]; rewrite is_digit_48 by lia; reflexivity | unfold val_digits; cbn [fold_left]; lia | discriminate].
    + assert (Hq : 0 <= n / 10 < 2 ^ Z.of_nat f).
      { replace (Z.of_nat (S f)) with (Z.of_nat f + 1) in Hn by lia.
        rewrite Z.pow_add_r in Hn by lia. change (2 ^ 1) with 2 in Hn. lia. }
      destruct (IH _ Hq) as (A & B & C). repeat split.
      * rewrite forallb_snoc, A, is_digit_48 by lia. reflexivity.
      * rewrite val_digits_snoc, B. lia.
      * destruct (digits_fuel f (n / 10)); discriminate.
Qed.

Lemma digits_spec n : 0 <= n ->
  forallb is_digit (digits n) = true /\ val_digits (digits n) = n /\ digits n <> [].
Proof.
  intros Hn. unfold digits. apply digits_fuel_spec. split; [exact Hn|].
  destruct (Z.eq_dec n 0) as [->|Hne]; [reflexivity|].
  pose proof (Z.log2_spec n ltac:(lia)) as [_ H].
  replace (Z.of_nat (S (Z.to_nat (Z.log2 n)))) with (Z.succ (Z.log2 n)); [exact H|].
  pose proof (Z.log2_nonneg n). lia.
Qed.

Lemma lowdigits_spec k : forall r, 0 <= r ->
  forallb is_digit (lowdigits k r) = true /\ length (lowdigits k r) = k /\
  val_digits (lowdigits k r) = r mod 10 ^ Z.of_nat k.
Proof.
  induction k as [|k IH]; intros r Hr.
  - repeat split. change (10 ^ Z.of_nat 0) with 1. now rewrite Z.mod_1_r.
  - cbn [lowdigits]. assert (Hq : 0 <= r / 10) by lia. destruct (IH _ Hq) as (A & B & C). repeat split.
    + rewrite forallb_snoc, A, is_digit_48 by lia. reflexivity.
    + rewrite app_length, B. cbn [length]. lia.
    + rewrite val_digits_snoc, C.
      replace (Z.of_nat (S k)) with (1 + Z.of_nat k) by lia. rewrite Z.pow_add_r by lia.
      change (10 ^ 1) with 10.
      assert (P : 0 < 10 ^ Z.of_nat k) by (apply Z.pow_pos_nonneg; lia).
      rewrite (Z.rem_mul_r r 10 (10 ^ Z.of_nat k)) by lia. lia.
Qed.

(* --- rstrip --- *)
Lemma rstrip_app_nonempty p a b : rstrip_by p b <> [] -> rstrip_by p (a ++ b) = a ++ rstrip_by p b.
Proof.
  intros H. induction a as [|x a IH]; [reflexivity|].
  cbn [app rstrip_by]. rewrite IH. destruct (a ++ rstrip_by p b) eqn:E; [|reflexivity].
  apply app_eq_nil in E. destruct E as [_ E]. exfalso. exact (H E).
Qed.
Lemma rstrip_app_empty p a b : rstrip_by p b = [] -> rstrip_by p (a ++ b) = rstrip_by p a.
Proof.
  intros H. induction a as [|x a IH]; [exact H|]. cbn [app rstrip_by]. now rewrite IH.
Qed.
Lemma rstrip_none p s : forallb (fun c => negb (p c)) s = true -> rstrip_by p s = s.
Proof.
  induction s as [|x s IH]; intros H; [reflexivity|].
  cbn [forallb] in H. apply andb_true_iff in H. destruct H as [H1 H2].
  cbn [rstrip_by]. rewrite (IH H2). destruct s; [|reflexivity].
  apply negb_true_iff in H1. now rewrite H1.
Qed.
Lemma rstrip_In p s x : In x (rstrip_by p s) -> In x s.
Proof.
  revert x. induction s as [|y s IH]; intros x H; [exact H|].
  cbn [rstrip_by] in H. destruct (rstrip_by p s) as [|z r] eqn:E.
  - destruct (p y); [destruct H|]. destruct H as [<-|[]]. now left.
  - destruct H as [<-|H]; [now left|right]. now apply IH.
Qed.
Lemma lstrip_In p s x : In x (lstrip_by p s) -> In x s.
Proof.
  induction s as [|y s IH]; intros H; [exact H|].
  cbn [lstrip_by] in H. destruct (p y); [right; now apply IH|exact H].
Qed.

(* the stripped text does not end with a stripped character *)
Lemma rstrip_last p s d : rstrip_by p s <> [] -> p (last (rstrip_by p s) d) = false.
Proof.
  induction s as [|y s IH]; intros H; [exfalso; apply H; reflexivity|].
  cbn [rstrip_by] in *. destruct (rstrip_by p s) as [|z r] eqn:E.
  - destruct (p y) eqn:Py; [exfalso; apply H; reflexivity|]. exact Py.
  - change (last (y :: z :: r) d) with (last (z :: r) d). apply IH. discriminate.
Qed.

(* trailing zeros of a digit string: the value is kept up to the power of ten *)
Lemma rstrip_zeros_spec f : forallb is_digit f = true ->
  let t := rstrip_char 48 f in
  forallb is_digit t = true /\ (length t <= length f)%nat /\
  val_digits f = val_digits t * 10 ^ (Z.of_nat (length f) - Z.of_nat (length t)).
Proof.
  unfold rstrip_char. induction f as [|x r IH]; intros H.
  - repeat split; auto.
  - cbn [forallb] in H. apply andb_true_iff in H. destruct H as [Hx Hr].
    destruct (IH Hr) as (A & B & C). cbv zeta in *.
    cbn [rstrip_by]. destruct (rstrip_by (Z.eqb 48) r) as [|z r'] eqn:E.
    + cbn [length] in C. unfold val_digits at 2 in C. cbn [fold_left] in C.
      destruct (48 =? x) eqn:Ex.
      * repeat split; [cbn; lia|]. rewrite val_digits_cons, C. assert (x = 48) by lia. subst.
        unfold val_digits. cbn [fold_left]. lia.
      * repeat split; [cbn [forallb]; now rewrite Hx | cbn [length]; lia|].
        rewrite val_digits_cons, C. cbn [length].
        replace (Z.of_nat (S (length r)) - Z.of_nat 1) with (Z.of_nat (length r)) by lia.
        unfold val_digits. cbn [fold_left]. lia.
    + repeat split.
      * cbn [forallb]. rewrite Hx. exact A.
      * cbn [length] in *. lia.
      * rewrite (val_digits_cons x r), (val_digits_cons x (z :: r')), C.
        replace (Z.of_nat (length (x :: r)) - Z.of_nat (length (x :: z :: r')))
          with (Z.of_nat (length r) - Z.of_nat (length (z :: r'))) by (cbn [length]; lia).
        set (e := Z.of_nat (length r) - Z.of_nat (length (z :: r'))).
        assert (He : 0 <= e) by (unfold e; lia).
        replace (Z.of_nat (length r)) with (Z.of_nat (length (z :: r')) + e) by (unfold e; lia).
        rewrite Z.pow_add_r by lia. ring.
Qed.

Lemma digits_no_char c (s : str) : is_digit c = false -> forallb is_digit s = true ->
  forallb (fun x => negb (c =? x)) s = true.
Proof.
  intros Hc. induction s as [|x s IH]; intros H; [reflexivity|].
  cbn [forallb] in *. apply andb_true_iff in H. destruct H as [H1 H2]. rewrite (IH H2), andb_true_r.
  destruct (c =? x) eqn:E; [|reflexivity]. assert (c = x) by lia. subst. congruence.
Qed.

Lemma cut_first_none sep (s : str) : forallb (fun x => negb (sep =? x)) s = true -> cut_first sep s = None.
Proof.
  induction s as [|x s IH]; intros H; [reflexivity|].
  cbn [forallb] in H. apply andb_true_iff in H. destruct H as [H1 H2].
  cbn [cut_first]. rewrite (IH H2). destruct (x =? sep) eqn:E; [|reflexivity]. lia.
Qed.
Lemma cut_first_app' sep (a t : str) : forallb (fun x => negb (sep =? x)) a = true ->
  cut_first sep (a ++ sep :: t) = Some (a, t).
Proof.
  intros H. apply cut_first_app. induction a as [|x a IH]; [reflexivity|].
  cbn [forallb] in *. apply andb_true_iff in H. destruct H as [H1 H2].
  rewrite (IH H2), andb_true_r. now rewrite Z.eqb_sym.
Qed.

(* the number part produced by the trimming: sign, integer digits, and the fraction digits without trailing
   zeros (and without the '.' when nothing is left) *)
Definition trimmed_number (k : nat) (neg : bool) (q : Z) : str :=
  (if neg then [45] else []) ++ digits (q / 10 ^ Z.of_nat k)
  ++ (match rstrip_char 48 (lowdigits k q) with [] => [] | t => 46 :: t end).

Lemma py_trim_fixed (A : str) k neg q : 0 <= q ->
  py_trim (A ++ fixed_str k neg q) = A ++ trimmed_number k neg q.
Proof.
  intros Hq. unfold py_trim, fixed_str, trimmed_number.
  assert (P : 0 < 10 ^ Z.of_nat k) by (apply Z.pow_pos_nonneg; lia).
  assert (Hi : 0 <= q / 10 ^ Z.of_nat k) by (apply Z.div_pos; lia).
  destruct (digits_spec _ Hi) as (I1 & _ & I3). destruct (lowdigits_spec k q Hq) as (F1 & _ & _).
  destruct (rstrip_zeros_spec _ F1) as (T1 & _ & _). cbv zeta in T1.
  set (sg := if neg then [45] else []). set (i := digits (q / 10 ^ Z.of_nat k)) in *.
  set (f := lowdigits k q) in *.
  assert (I46 : rstrip_char 46 i = i).
  { apply rstrip_none. apply (digits_no_char 46 i eq_refl I1). }
  destruct (rstrip_char 48 f) as [|z t] eqn:Et.
  - (* all fraction digits are zeros *)
    replace (A ++ sg ++ i ++ [46] ++ f) with ((A ++ sg ++ i ++ [46]) ++ f) by (rewrite <- !app_assoc; reflexivity).
    unfold rstrip_char in *. rewrite rstrip_app_empty by exact Et.
    replace (A ++ sg ++ i ++ [46]) with ((A ++ sg ++ i) ++ [46]) by (rewrite <- !app_assoc; reflexivity).
    rewrite (rstrip_app_nonempty (Z.eqb 48) (A ++ sg ++ i) [46]) by discriminate.
    change (rstrip_by (Z.eqb 48) [46]) with [46].
    rewrite (rstrip_app_empty (Z.eqb 46) (A ++ sg ++ i) [46]) by reflexivity.
    replace (A ++ sg ++ i) with ((A ++ sg) ++ i) by (rewrite <- !app_assoc; reflexivity).
    rewrite rstrip_app_nonempty; rewrite I46; [|exact I3].
    rewrite <- !app_assoc. now rewrite app_nil_r.
  - replace (A ++ sg ++ i ++ [46] ++ f) with ((A ++ sg ++ i ++ [46]) ++ f) by (rewrite <- !app_assoc; reflexivity).
    unfold rstrip_char in *. rewrite rstrip_app_nonempty by (rewrite Et; discriminate). rewrite Et.
    rewrite rstrip_app_nonempty.
    + rewrite rstrip_none; [rewrite <- !app_assoc; reflexivity|].
      apply (digits_no_char 46 (z :: t) eq_refl T1).
    + rewrite rstrip_none; [discriminate|]. apply (digits_no_char 46 (z :: t) eq_refl T1).
Qed.

Lemma nonempty_b_true (s : str) : s <> [] -> nonempty_b s = true.
Proof. destruct s; [congruence|reflexivity]. Qed.

(* The trimmed number parses (sign, digits, optional '.' digits) to the same sign and to the same value q/10^k,
   with at most k fraction digits, none of them a trailing zero. *)
Lemma trimmed_number_parse k neg q : 0 <= q ->
  exists m sc, parse_decimal (trimmed_number k neg q) = Some (neg, m, sc) /\
               0 <= sc <= Z.of_nat k /\ m * 10 ^ (Z.of_nat k - sc) = q /\ (sc = 0 \/ m mod 10 <> 0).
Proof.
  intros Hq. unfold trimmed_number.
  assert (P : 0 < 10 ^ Z.of_nat k) by (apply Z.pow_pos_nonneg; lia).
  assert (Hi : 0 <= q / 10 ^ Z.of_nat k) by (apply Z.div_pos; lia).
  destruct (digits_spec _ Hi) as (I1 & I2 & I3). destruct (lowdigits_spec k q Hq) as (F1 & F2 & F3).
  destruct (rstrip_zeros_spec _ F1) as (T1 & T2 & T3). cbv zeta in *.
  pose proof (rstrip_last (Z.eqb 48) (lowdigits k q) 0) as TL. fold (rstrip_char 48 (lowdigits k q)) in TL.
  set (i := digits (q / 10 ^ Z.of_nat k)) in *.
  set (f := lowdigits k q) in *.
  assert (Hdiv : q = val_digits i * 10 ^ Z.of_nat k + val_digits f).
  { rewrite I2, F3. pose proof (Z.div_mod q (10 ^ Z.of_nat k) ltac:(lia)). lia. }
  assert (Hhead : forall rest, parse_decimal ((if neg then [45] else []) ++ i ++ rest) =
            match parse_unsigned (i ++ rest) with Some (m, sc) => Some (neg, m, sc) | None => None end).
  { intros rest. destruct neg.
    - cbn [app parse_decimal]. change (45 =? 45) with true. cbn iota. reflexivity.
    - cbn [app]. destruct i as [|c i'] eqn:Ei; [congruence|]. cbn [app parse_decimal].
      cbn [forallb] in I1. apply andb_true_iff in I1. destruct I1 as [Hc _].
      destruct (c =? 45) eqn:E; [unfold is_digit in Hc; lia|]. reflexivity. }
  destruct (rstrip_char 48 f) as [|z t] eqn:Et.
  - exists (val_digits i), 0. rewrite Hhead, app_nil_r. unfold parse_unsigned.
    rewrite cut_first_none by (apply (digits_no_char 46 i eq_refl I1)).
    rewrite nonempty_b_true by exact I3. rewrite I1. cbn [andb].
    split; [reflexivity|]. split; [lia|]. split; [|now left].
    unfold val_digits at 2 in T3. cbn [fold_left] in T3. rewrite Z.sub_0_r. lia.
  - exists (val_digits (i ++ z :: t)), (Z.of_nat (length (z :: t))).
    rewrite Hhead. unfold parse_unsigned.
    rewrite cut_first_app' by (apply (digits_no_char 46 i eq_refl I1)).
    rewrite nonempty_b_true by exact I3. rewrite I1, T1. cbn [nonempty_b andb].
    split; [reflexivity|]. split; [lia|]. split.
    + rewrite val_digits_app. rewrite F2 in T3.
      set (lt := Z.of_nat (length (z :: t))) in *.
      assert (Hlt : 0 <= lt <= Z.of_nat k) by (unfold lt; lia).
      replace (Z.of_nat k) with (lt + (Z.of_nat k - lt)) in Hdiv at 1 by lia.
      rewrite Z.pow_add_r in Hdiv by lia. lia.
    + right. specialize (TL ltac:(discriminate)).
      assert (Hlast : exists t' d, z :: t = t' ++ [d]).
      { destruct (exists_last (l := z :: t) ltac:(discriminate)) as (t' & d & E). now exists t', d. }
      destruct Hlast as (t' & d & E). rewrite E in *. rewrite last_last in TL.
      rewrite app_assoc, val_digits_snoc.
      rewrite forallb_snoc in T1. apply andb_true_iff in T1. destruct T1 as [_ Hd].
      unfold is_digit in Hd. lia.
Qed.

(* rounding: round_half_even m s k is the integer nearest to m * 10^k / 10^s, ties to even *)
Lemma round_half_even_exact m s k : s <= k -> round_half_even m s k = m * 10 ^ (k - s).
Proof. intros H. unfold round_half_even. destruct (s <=? k) eqn:E; [reflexivity|lia]. Qed.

Lemma round_half_even_spec m s k : 0 <= m -> k < s ->
  let r := round_half_even m s k in
  let d := 10 ^ (s - k) in
  0 <= r /\ 2 * Z.abs (m - r * d) <= d /\ (2 * Z.abs (m - r * d) = d -> Z.even r = true).
Proof.
  intros Hm Hk. cbv zeta. unfold round_half_even. destruct (s <=? k) eqn:E; [lia|].
  assert (P : 0 < 10 ^ (s - k)) by (apply Z.pow_pos_nonneg; lia).
  set (d := 10 ^ (s - k)) in *.
  pose proof (Z.div_mod m d ltac:(lia)) as DM. pose proof (Z.mod_pos_bound m d P) as MB.
  assert (Q0 : 0 <= m / d) by (apply Z.div_pos; lia).
  set (q := m / d) in *. set (r := m mod d) in *.
  destruct (2 * r <? d) eqn:E1; [repeat split; nia|].
  destruct (d <? 2 * r) eqn:E2; [repeat split; nia|].
  destruct (Z.even q) eqn:E3.
  - repeat split; try nia. intros _. exact E3.
  - repeat split; try nia. intros _. rewrite Z.even_add, E3. reflexivity.
Qed.
(* ============================================================================================ *)
(* 10. _make_epc_qr_data *)

Definition dec_wf (d : dec) : Prop := 0 <= d_mant d /\ 0 <= d_scale d.

Lemma round_half_even_nonneg m s k : 0 <= m -> 0 <= k -> 0 <= round_half_even m s k.
Proof.
  intros Hm Hk. destruct (Z_le_gt_dec s k) as [H|H].
  - rewrite round_half_even_exact by exact H. apply Z.mul_nonneg_nonneg; [exact Hm|]. apply Z.pow_nonneg. lia.
  - apply (round_half_even_spec m s k Hm ltac:(lia)).
Qed.

Definition num_char (c : Z) : bool := is_digit c || (c =? 45) || (c =? 46).

Lemma forallb_impl {A} (p q : A -> bool) l : (forall x, p x = true -> q x = true) ->
  forallb p l = true -> forallb q l = true.
Proof.
  intros H. induction l as [|x l IH]; [reflexivity|]. cbn [forallb]. intros H1.
  apply andb_true_iff in H1. destruct H1 as [H1 H2]. now rewrite (H x H1), (IH H2).
Qed.

Lemma trimmed_number_chars k neg q : 0 <= q -> forallb num_char (trimmed_number k neg q) = true.
Proof.
  intros Hq. unfold trimmed_number.
  assert (P : 0 < 10 ^ Z.of_nat k) by (apply Z.pow_pos_nonneg; lia).
  assert (Hi : 0 <= q / 10 ^ Z.of_nat k) by (apply Z.div_pos; lia).
  destruct (digits_spec _ Hi) as (I1 & _ & _). destruct (lowdigits_spec k q Hq) as (F1 & _ & _).
  destruct (rstrip_zeros_spec _ F1) as (T1 & _ & _). cbv zeta in T1.
  assert (D : forall l, forallb is_digit l = true -> forallb num_char l = true).
  { intros l. apply forallb_impl. intros x Hx. unfold num_char. now rewrite Hx. }
  rewrite !forallb_app. rewrite (D _ I1). destruct neg; cbn [forallb andb].
  - destruct (rstrip_char 48 (lowdigits k q)) as [|z t]; [reflexivity|].
    change (forallb num_char (46 :: z :: t)) with (forallb num_char (z :: t)). now apply D.
  - destruct (rstrip_char 48 (lowdigits k q)) as [|z t]; [reflexivity|].
    change (forallb num_char (46 :: z :: t)) with (forallb num_char (z :: t)). now apply D.
Qed.

Lemma epc_amount_str_eq d : dec_wf d ->
  epc_amount_str d = K_EUR ++ trimmed_number 2 (d_neg d) (round_half_even (d_mant d) (d_scale d) 2).
Proof.
  intros [Hm Hs]. unfold epc_amount_str, format_fixed. apply py_trim_fixed.
  apply round_half_even_nonneg; [exact Hm|lia].
Qed.

(* The amount line is "EUR" followed by a decimal number with at most two fraction digits and no trailing
   zeros whose value equals the input rounded half-even to cents. *)
Theorem epc_amount_value d : dec_wf d ->
  exists m sc, epc_read_amount (epc_amount_str d) = Some (d_neg d, m, sc) /\ 0 <= sc <= 2 /\
               m * 10 ^ (2 - sc) = round_half_even (d_mant d) (d_scale d) 2 /\ (sc = 0 \/ m mod 10 <> 0).
Proof.
  intros Hd. rewrite epc_amount_str_eq by exact Hd. destruct Hd as [Hm Hs].
  unfold epc_read_amount. change [69; 85; 82] with K_EUR. rewrite strip_prefix_app.
  apply (trimmed_number_parse 2). apply round_half_even_nonneg; [exact Hm|lia].
Qed.
Print Assumptions epc_amount_value.

(* with at most two fraction digits in the input the printed amount is numerically EQUAL to the input *)
Corollary epc_amount_exact d : dec_wf d -> d_scale d <= 2 ->
  exists m sc, epc_read_amount (epc_amount_str d) = Some (d_neg d, m, sc) /\ 0 <= sc <= 2 /\
               m * 10 ^ d_scale d = d_mant d * 10 ^ sc.
Proof.
  intros Hd Hs. destruct (epc_amount_value d Hd) as (m & sc & A & B & C & _).
  exists m, sc. split; [exact A|]. split; [exact B|].
  rewrite round_half_even_exact in C by exact Hs. destruct Hd as [Hm Hs0].
  assert (E : m * 10 ^ (2 - sc) * 10 ^ d_scale d * 10 ^ sc = d_mant d * 10 ^ (2 - d_scale d) * 10 ^ d_scale d * 10 ^ sc) by (now rewrite C).
  assert (P1 : 10 ^ (2 - sc) * 10 ^ sc = 100).
  { rewrite <- Z.pow_add_r by lia. now replace (2 - sc + sc) with 2 by lia. }
  assert (P2 : 10 ^ (2 - d_scale d) * 10 ^ d_scale d = 100).
  { rewrite <- Z.pow_add_r by lia. now replace (2 - d_scale d + d_scale d) with 2 by lia. }
  nia.
Qed.

(* the accepted range is kept by the rounding: 0.01 .. 999999999.99 *)
Lemma epc_rounded_in_range d : dec_wf d -> amount_in_range d = true ->
  d_neg d = false /\ 1 <= round_half_even (d_mant d) (d_scale d) 2 <= 99999999999.
Proof.
  intros [Hm Hs] H. unfold amount_in_range in H.
  apply andb_true_iff in H. destruct H as [H H3]. apply andb_true_iff in H. destruct H as [H1 H2].
  split; [now destruct (d_neg d)|].
  assert (P : 0 < 10 ^ d_scale d) by (apply Z.pow_pos_nonneg; lia).
  destruct (Z_le_gt_dec (d_scale d) 2) as [Hle|Hgt].
  - rewrite round_half_even_exact by exact Hle.
    assert (P2 : 10 ^ (2 - d_scale d) * 10 ^ d_scale d = 100).
    { rewrite <- Z.pow_add_r by lia. now replace (2 - d_scale d + d_scale d) with 2 by lia. }
    assert (P3 : 0 < 10 ^ (2 - d_scale d)) by (apply Z.pow_pos_nonneg; lia).
    nia.
  - destruct (round_half_even_spec (d_mant d) (d_scale d) 2 Hm ltac:(lia)) as (R0 & R1 & _).
    replace (d_scale d) with (2 + (d_scale d - 2)) in H2, H3 by lia.
    rewrite Z.pow_add_r in H2, H3 by lia. change (10 ^ 2) with 100 in H2, H3.
    assert (Pd : 0 < 10 ^ (d_scale d - 2)) by (apply Z.pow_pos_nonneg; lia).
    set (dd := 10 ^ (d_scale d - 2)) in *. set (r := round_half_even (d_mant d) (d_scale d) 2) in *.
    assert (H2' : dd <= d_mant d) by lia. assert (H3' : d_mant d <= 99999999999 * dd) by lia.
    clear H1 H2 H3 P. split.
    + destruct (Z_le_gt_dec r 0) as [Hr|Hr]; [|lia]. exfalso.
      assert (r * dd <= 0) by nia. lia.
    + destruct (Z_le_gt_dec r 99999999999) as [Hr|Hr]; [lia|]. exfalso.
      assert (100000000000 * dd <= r * dd) by nia. lia.
Qed.

(* --- charset selection --- *)
Lemma epc_auto_charset_spec (encodable : Z -> bool) :
  let cs := epc_auto_charset encodable in
  (2 <= cs <= 8 /\ encodable cs = true /\ forall n, 2 <= n < cs -> encodable n = false) \/
  (cs = 1 /\ forall n, 2 <= n <= 8 -> encodable n = false).
Proof.
  cbv zeta. unfold epc_auto_charset. cbn [find].
  destruct (encodable 2) eqn:E2; [left; repeat split; try lia; auto; intros; lia|].
  destruct (encodable 3) eqn:E3; [left; repeat split; try lia; auto; intros n Hn; assert (n = 2) by lia; now subst|].
  destruct (encodable 4) eqn:E4; [left; repeat split; try lia; auto; intros n Hn;
    assert (n = 2 \/ n = 3) as [->| ->] by lia; assumption|].
  destruct (encodable 5) eqn:E5; [left; repeat split; try lia; auto; intros n Hn;
    assert (n = 2 \/ n = 3 \/ n = 4) as [->|[->| ->]] by lia; assumption|].
  destruct (encodable 6) eqn:E6; [left; repeat split; try lia; auto; intros n Hn;
    assert (n = 2 \/ n = 3 \/ n = 4 \/ n = 5) as [->|[->|[->| ->]]] by lia; assumption|].
  destruct (encodable 7) eqn:E7; [left; repeat split; try lia; auto; intros n Hn;
    assert (n = 2 \/ n = 3 \/ n = 4 \/ n = 5 \/ n = 6) as [->|[->|[->|[->| ->]]]] by lia; assumption|].
  destruct (encodable 8) eqn:E8; [left; repeat split; try lia; auto; intros n Hn;
    assert (n = 2 \/ n = 3 \/ n = 4 \/ n = 5 \/ n = 6 \/ n = 7) as [->|[->|[->|[->|[->| ->]]]]] by lia; assumption|].
  right. split; [reflexivity|]. intros n Hn.
  assert (n = 2 \/ n = 3 \/ n = 4 \/ n = 5 \/ n = 6 \/ n = 7 \/ n = 8) as [->|[->|[->|[->|[->|[->| ->]]]]]] by lia;
    assumption.
Qed.

Lemma index_of_range x l : forall i j, index_of x l i = Some j -> i <= j < i + lenZ l.
Proof.
  induction l as [|y l IH]; intros i j H; [discriminate H|].
  cbn [index_of] in H. unfold lenZ in *. cbn [length].
  destruct (str_eqb x y); [injection H as <-; lia|]. apply IH in H. lia.
Qed.

Lemma epc_requested_range e n : epc_requested e = Ok (Some n) -> 1 <= n <= 8.
Proof.
  destruct e as [|s|m]; cbn [epc_requested]; [discriminate| |].
  - destruct (index_of (lower s) EPC_ENCODINGS 1) as [i|] eqn:E; [|discriminate].
    intros [= <-]. apply index_of_range in E. change (lenZ EPC_ENCODINGS) with 8 in E. lia.
  - change (lenZ EPC_ENCODINGS) with 8. destruct ((1 <=? m) && (m <=? 8)) eqn:E; [|discriminate].
    intros [= <-]. lia.
Qed.

Lemma epc_requested_err e x : epc_requested e = Err x -> x = ValueError.
Proof.
  destruct e as [|s|m]; cbn [epc_requested]; [discriminate| |].
  - destruct (index_of (lower s) EPC_ENCODINGS 1); [discriminate|]. now intros [= <-].
  - destruct ((1 <=? m) && (m <=? lenZ EPC_ENCODINGS)); [discriminate|]. now intros [= <-].
Qed.

(* the name -> number map of the `encodings` tuple *)
Example epc_requested_names :
  map (fun s => epc_requested (EncName s)) EPC_ENCODINGS = map (fun i => Ok (Some i)) [1; 2; 3; 4; 5; 6; 7; 8].
Proof. reflexivity. Qed.

Lemma digits_small n : 0 <= n < 10 -> digits n = [48 + n].
Proof.
  intros H. unfold digits. cbn [digits_fuel]. destruct (n <? 10) eqn:E; [reflexivity|lia].
Qed.

Lemma truthy_false_empty o : truthy o = false -> or_empty o = [].
Proof. destruct o as [[|c s]|]; [reflexivity|discriminate|reflexivity]. Qed.

(* --- line structure --- *)
Lemma split_char_cons_ne sep c r : c <> sep -> split_char sep (c :: r) = cons_hd c (split_char sep r).
Proof. intros H. cbn [split_char]. now rewrite (eqb_false_of_neq _ _ H). Qed.
Lemma split_char_line sep (x t : str) : ~ In sep x -> split_char sep (x ++ sep :: t) = x :: split_char sep t.
Proof.
  induction x as [|c x IH]; intros H.
  - cbn [app split_char]. now rewrite Z.eqb_refl.
  - cbn [app]. rewrite split_char_cons_ne by (intros ->; apply H; now left).
    rewrite IH by (intros Hin; apply H; now right). reflexivity.
Qed.
Lemma split_char_last sep (x : str) : ~ In sep x -> split_char sep x = [x].
Proof.
  induction x as [|c x IH]; intros H; [reflexivity|].
  rewrite split_char_cons_ne by (intros ->; apply H; now left).
  rewrite IH by (intros Hin; apply H; now right). reflexivity.
Qed.
Lemma split_char_join sep (ls : list str) : Forall (fun l => ~ In sep l) ls -> ls <> [] ->
  split_char sep (join [sep] ls) = ls.
Proof.
  induction 1 as [|x l Hx Hl IH]; intros Hne; [exfalso; apply Hne; reflexivity|].
  destruct l as [|y l].
  - cbn [join]. now apply split_char_last.
  - change (split_char sep (x ++ sep :: join [sep] (y :: l)) = x :: y :: l).
    rewrite split_char_line by exact Hx. f_equal. apply IH. discriminate.
Qed.

Lemma num_chars_no_lf (s : str) : forallb num_char s = true -> ~ In 10 s.
Proof.
  intros H Hin. rewrite forallb_forall in H. specialize (H _ Hin). discriminate H.
Qed.

Lemma map_truthy_In f o x : (forall s y, In y (f s) -> In y s) ->
  In x (or_empty (map_truthy f o)) -> In x (or_empty o).
Proof.
  intros Hf. unfold map_truthy. destruct (truthy o) eqn:E; [|auto].
  destruct o as [s|]; [|discriminate E]. cbn [or_empty]. apply Hf.
Qed.
Lemma py_rstrip_In s y : In y (py_rstrip s) -> In y s.
Proof. apply rstrip_In. Qed.
Lemma py_strip_In s y : In y (py_strip s) -> In y s.
Proof. unfold py_strip. intros H. apply rstrip_In in H. now apply lstrip_In in H. Qed.

Section EPC.
Variable encodable : Z -> bool.
Variable byte_len : Z -> str -> Z.

(* the fields after the strip()/rstrip() normalisation of the function *)
Definition epc_text' (a : epc_args) := map_truthy py_rstrip (epc_text a).
Definition epc_reference' (a : epc_args) := map_truthy py_rstrip (epc_reference a).
Definition epc_bic' (a : epc_args) := map_truthy py_strip (epc_bic a).
Definition epc_name' (a : epc_args) := map_truthy py_strip (epc_name a).

(* every documented length limit (on the normalised fields), the either/or rule and the encoding argument *)
Definition epc_lengths_ok (a : epc_args) : bool :=
  (match epc_requested (epc_enc a) with Ok _ => true | Err _ => false end)
  && negb (Bool.eqb (truthy (epc_text' a)) (truthy (epc_reference' a)))
  && (lenZ (or_empty (epc_text' a)) <=? 140)
  && (lenZ (or_empty (epc_reference' a)) <=? 35)
  && (match epc_name' a with Some nm => (0 <? lenZ nm) && (lenZ nm <=? 70) | None => false end)
  && (match epc_iban a with Some i => (4 <? lenZ i) && (lenZ i <=? 34) | None => false end)
  && (negb (truthy (epc_bic' a)) || (lenZ (or_empty (epc_bic' a)) =? 8) || (lenZ (or_empty (epc_bic' a)) =? 11))
  && (negb (truthy (epc_purpose a)) || (lenZ (or_empty (epc_purpose a)) =? 4)).

Definition epc_charset (a : epc_args) : Z :=
  match epc_requested (epc_enc a) with Ok (Some n) => n | _ => epc_auto_charset encodable end.

Definition epc_expected_lines (a : epc_args) (d : dec) : list str :=
  [K_BCD; K_002; [48 + epc_charset a]; K_SCT; or_empty (epc_bic' a); or_empty (epc_name' a);
   or_empty (epc_iban a); epc_amount_str d; or_empty (epc_purpose a); or_empty (epc_reference' a)]
  ++ (if truthy (epc_text' a) then [or_empty (epc_text' a)] else []).

(* complete case analysis of the function *)
Lemma epc_cases a :
  make_epc_qr_data encodable byte_len a =
  if negb (epc_lengths_ok a) then Err ValueError else
  match epc_check_amount (epc_amount a) with
  | Err e => Err e
  | Ok d =>
    let payload := join [10] (epc_expected_lines a d) in
    if negb (encodable (epc_charset a)) then Err UnicodeErr
    else if 331 <? byte_len (epc_charset a) payload then Err ValueError
    else Ok (epc_charset a, payload)
  end.
Proof.
  unfold make_epc_qr_data, epc_lengths_ok, epc_expected_lines, epc_charset.
  fold (epc_text' a) (epc_reference' a) (epc_bic' a) (epc_name' a).
  destruct (epc_requested (epc_enc a)) as [req|e] eqn:Ereq; cbn [bind].
  2:{ apply epc_requested_err in Ereq. subst e. reflexivity. }
  assert (Hreq : forall n, req = Some n -> 0 <= n < 10).
  { intros n ->. apply epc_requested_range in Ereq. lia. }
  assert (Hauto : 0 <= epc_auto_charset encodable < 10).
  { pose proof (epc_auto_charset_spec encodable) as H. cbv zeta in H. lia. }
  destruct (truthy (epc_text' a)) eqn:Et; destruct (truthy (epc_reference' a)) eqn:Er;
    cbn [negb andb orb Bool.eqb]; try reflexivity.
  - (* text only *)
    rewrite (truthy_false_empty _ Er). change (lenZ [] <=? 35) with true. rewrite andb_true_r.
    destruct (lenZ (or_empty (epc_text' a)) <=? 140); cbn [negb andb]; [|reflexivity].
    destruct (epc_name' a) as [nm|]; [|reflexivity].
    destruct ((0 <? lenZ nm) && (lenZ nm <=? 70)); cbn [negb andb]; [|reflexivity].
    destruct (epc_iban a) as [iban|]; [|reflexivity].
    destruct ((4 <? lenZ iban) && (lenZ iban <=? 34)); cbn [negb andb]; [|reflexivity].
    unfold memZ. cbn [existsb]. rewrite orb_false_r.
    destruct (truthy (epc_bic' a)); cbn [negb andb orb];
      [destruct ((lenZ (or_empty (epc_bic' a)) =? 8) || (lenZ (or_empty (epc_bic' a)) =? 11)); cbn [negb]; [|reflexivity]|];
      (destruct (truthy (epc_purpose a)); cbn [negb andb orb];
        [destruct (lenZ (or_empty (epc_purpose a)) =? 4); cbn [negb]; [|reflexivity]|]);
      (destruct (epc_check_amount (epc_amount a)) as [d|e]; cbn [bind]; [|reflexivity]);
      cbv zeta; unfold epc_lines; rewrite ?Et; cbn [or_empty];
      (destruct req as [n|]; [rewrite (digits_small n (Hreq n eq_refl))|rewrite (digits_small _ Hauto)]);
      reflexivity.
  - (* reference only *)
    rewrite (truthy_false_empty _ Et). change (lenZ [] <=? 140) with true. cbn [andb].
    destruct (lenZ (or_empty (epc_reference' a)) <=? 35); cbn [negb andb]; [|reflexivity].
    destruct (epc_name' a) as [nm|]; [|reflexivity].
    destruct ((0 <? lenZ nm) && (lenZ nm <=? 70)); cbn [negb andb]; [|reflexivity].
    destruct (epc_iban a) as [iban|]; [|reflexivity].
    destruct ((4 <? lenZ iban) && (lenZ iban <=? 34)); cbn [negb andb]; [|reflexivity].
    unfold memZ. cbn [existsb]. rewrite orb_false_r.
    destruct (truthy (epc_bic' a)); cbn [negb andb orb];
      [destruct ((lenZ (or_empty (epc_bic' a)) =? 8) || (lenZ (or_empty (epc_bic' a)) =? 11)); cbn [negb]; [|reflexivity]|];
      (destruct (truthy (epc_purpose a)); cbn [negb andb orb];
        [destruct (lenZ (or_empty (epc_purpose a)) =? 4); cbn [negb]; [|reflexivity]|]);
      (destruct (epc_check_amount (epc_amount a)) as [d|e]; cbn [bind]; [|reflexivity]);
      cbv zeta; unfold epc_lines; rewrite Et; cbn [or_empty app];
      (destruct req as [n|]; [rewrite (digits_small n (Hreq n eq_refl))|rewrite (digits_small _ Hauto)]);
      rewrite ?app_nil_r; reflexivity.
Qed.

(* Refusals.  Any violated length limit / either-or rule / invalid encoding argument gives ValueError: *)
Theorem epc_refusals_lengths a : epc_lengths_ok a = false -> make_epc_qr_data encodable byte_len a = Err ValueError.
Proof. intros H. rewrite epc_cases, H. reflexivity. Qed.

(* ... an amount outside 0.01 .. 999999999.99, an infinite one, NaN, or a string that is not a number gives
   ValueError (whatever the other arguments are): *)
Theorem epc_refusals_amount a :
  match epc_amount a with
  | AFin d => amount_in_range d = false -> make_epc_qr_data encodable byte_len a = Err ValueError
  | AInf _ | ANaN | ABad => make_epc_qr_data encodable byte_len a = Err ValueError
  end.
Proof.
  rewrite epc_cases. destruct (negb (epc_lengths_ok a)).
  - destruct (epc_amount a); auto.
  - destruct (epc_amount a) as [d| |neg|]; cbn [epc_check_amount]; try reflexivity. intros ->. reflexivity.
Qed.

(* the only exception classes: ValueError and its subclass UnicodeEncodeError *)
Theorem epc_errors a e : make_epc_qr_data encodable byte_len a = Err e -> e = ValueError \/ e = UnicodeErr.
Proof.
  rewrite epc_cases. destruct (negb (epc_lengths_ok a)); [intros [= <-]; now left|].
  destruct (epc_amount a) as [d| |neg|]; cbn [epc_check_amount]; try (intros [= <-]; now left).
  destruct (amount_in_range d); [|intros [= <-]; now left]. cbv zeta.
  destruct (negb (encodable (epc_charset a))); [intros [= <-]; now right|].
  destruct (331 <? _); [intros [= <-]; now left|discriminate].
Qed.

(* ... and a payload longer than 331 bytes gives ValueError, an unencodable one UnicodeEncodeError: *)
Theorem epc_refusals_size a d : epc_lengths_ok a = true -> epc_amount a = AFin d -> amount_in_range d = true ->
  let payload := join [10] (epc_expected_lines a d) in
  (encodable (epc_charset a) = false -> make_epc_qr_data encodable byte_len a = Err UnicodeErr) /\
  (encodable (epc_charset a) = true -> 331 < byte_len (epc_charset a) payload ->
   make_epc_qr_data encodable byte_len a = Err ValueError).
Proof.
  intros H Ha Hr. cbv zeta. rewrite epc_cases, H, Ha. cbn [negb epc_check_amount]. rewrite Hr. cbv zeta. split.
  - intros ->. reflexivity.
  - intros -> Hlen. cbn [negb]. destruct (331 <? _) eqn:E; [reflexivity|lia].
Qed.

Definition epc_fields_no_lf (a : epc_args) : Prop :=
  Forall (fun o => ~ In 10 (or_empty o))
         [epc_name a; epc_iban a; epc_text a; epc_reference a; epc_bic a; epc_purpose a].

(* Accepted inputs.  The payload is the LF-joined list of the EPC069-12 version 002 lines in order
   (BCD, 002, character set, SCT, BIC, name, IBAN, EUR amount, purpose, structured reference, and the
   unstructured text as an 11th line only when a text is given), all limits hold, exactly one of text/reference
   is present, the character set number is the requested one or the first of 2..8 that can encode the payload
   (else 1), the payload is encodable in it and at most 331 bytes long.  When no field contains a line break
   the independent reader recovers exactly these lines. *)
Theorem epc_layout a cs payload :
  make_epc_qr_data encodable byte_len a = Ok (cs, payload) ->
  exists d,
    epc_amount a = AFin d /\ amount_in_range d = true /\
    epc_lengths_ok a = true /\
    cs = epc_charset a /\ 1 <= cs <= 8 /\
    (match epc_requested (epc_enc a) with
     | Ok (Some n) => cs = n
     | _ => (2 <= cs <= 8 /\ encodable cs = true /\ forall n, 2 <= n < cs -> encodable n = false) \/
            (cs = 1 /\ forall n, 2 <= n <= 8 -> encodable n = false)
     end) /\
    encodable cs = true /\ byte_len cs payload <= 331 /\
    payload = join [10] (epc_expected_lines a d) /\
    (length (epc_expected_lines a d) = if truthy (epc_text' a) then 11%nat else 10%nat) /\
    (dec_wf d -> epc_fields_no_lf a -> epc_read_lines payload = epc_expected_lines a d).
Proof.
  rewrite epc_cases. destruct (epc_lengths_ok a) eqn:HL; cbn [negb]; [|discriminate].
  destruct (epc_amount a) as [d| |neg|] eqn:Ha; cbn [epc_check_amount]; try discriminate.
  destruct (amount_in_range d) eqn:Hr; [|discriminate]. cbv zeta.
  remember (join [10] (epc_expected_lines a d)) as pl eqn:Hpl.
  remember (epc_charset a) as cs0 eqn:Hcs0.
  destruct (encodable cs0) eqn:He; cbn [negb]; [|discriminate].
  destruct (331 <? byte_len cs0 pl) eqn:Hb; [discriminate|].
  intros [= <- <-]. subst cs0 pl. exists d.
  assert (Hcs : match epc_requested (epc_enc a) with
     | Ok (Some n) => epc_charset a = n
     | _ => (2 <= epc_charset a <= 8 /\ encodable (epc_charset a) = true /\
             forall n, 2 <= n < epc_charset a -> encodable n = false) \/
            (epc_charset a = 1 /\ forall n, 2 <= n <= 8 -> encodable n = false)
     end).
  { unfold epc_charset. destruct (epc_requested (epc_enc a)) as [[n|]|e]; [reflexivity| |];
      apply (epc_auto_charset_spec encodable). }
  assert (Hrange : 1 <= epc_charset a <= 8).
  { destruct (epc_requested (epc_enc a)) as [[n|]|e] eqn:Ereq.
    - rewrite Hcs. now apply epc_requested_range in Ereq.
    - destruct Hcs as [H|H]; lia.
    - destruct Hcs as [H|H]; lia. }
  apply Z.ltb_ge in Hb.
  split; [reflexivity|]. split; [exact Hr|]. split; [reflexivity|]. split; [reflexivity|].
  split; [exact Hrange|]. split; [exact Hcs|]. split; [exact He|]. split; [exact Hb|].
  split; [reflexivity|]. split.
  - unfold epc_expected_lines. destruct (truthy (epc_text' a)); reflexivity.
  - intros Hd Hlf. unfold epc_read_lines. apply split_char_join.
    2:{ unfold epc_expected_lines. discriminate. }
    unfold epc_fields_no_lf in Hlf.
    inversion Hlf as [|? ? L1 Hlf1]; subst. inversion Hlf1 as [|? ? L2 Hlf2]; subst.
    inversion Hlf2 as [|? ? L3 Hlf3]; subst. inversion Hlf3 as [|? ? L4 Hlf4]; subst.
    inversion Hlf4 as [|? ? L5 Hlf5]; subst. inversion Hlf5 as [|? ? L6 _]; subst.
    unfold epc_expected_lines. apply Forall_app_intro.
    + repeat constructor;
        try (intros Hin; repeat (destruct Hin as [Hin|Hin]; [lia|]); now destruct Hin).
      * intros Hin. apply L5. revert Hin. apply map_truthy_In. apply py_strip_In.
      * intros Hin. apply L1. revert Hin. apply map_truthy_In. apply py_strip_In.
      * exact L2.
      * rewrite epc_amount_str_eq by exact Hd. intros Hin. apply in_app_or in Hin.
        destruct Hin as [Hin|Hin]; [cbn in Hin; lia|].
        revert Hin. apply num_chars_no_lf. apply trimmed_number_chars.
        destruct Hd as [Hm Hs]. apply round_half_even_nonneg; [exact Hm|lia].
      * exact L6.
      * intros Hin. apply L4. revert Hin. apply map_truthy_In. apply py_rstrip_In.
    + destruct (truthy (epc_text' a)); [|constructor]. constructor; [|constructor].
      intros Hin. apply L3. revert Hin. apply map_truthy_In. apply py_rstrip_In.
Qed.

(* what epc_lengths_ok = true means, spelled out *)
Lemma epc_lengths_ok_spec a : epc_lengths_ok a = true ->
  (exists r, epc_requested (epc_enc a) = Ok r) /\
  truthy (epc_text' a) = negb (truthy (epc_reference' a)) /\
  lenZ (or_empty (epc_text' a)) <= 140 /\ lenZ (or_empty (epc_reference' a)) <= 35 /\
  (exists nm, epc_name' a = Some nm /\ 0 < lenZ nm <= 70) /\
  (exists i, epc_iban a = Some i /\ 4 < lenZ i <= 34) /\
  (truthy (epc_bic' a) = true -> lenZ (or_empty (epc_bic' a)) = 8 \/ lenZ (or_empty (epc_bic' a)) = 11) /\
  (truthy (epc_purpose a) = true -> lenZ (or_empty (epc_purpose a)) = 4).
Proof.
  unfold epc_lengths_ok. intros H.
  repeat (apply andb_true_iff in H; let H' := fresh "C" in destruct H as [H H']).
  repeat split.
  - destruct (epc_requested (epc_enc a)) as [r|]; [now exists r|discriminate].
  - destruct (truthy (epc_text' a)), (truthy (epc_reference' a)); try reflexivity; discriminate.
  - lia.
  - lia.
  - destruct (epc_name' a) as [nm|]; [exists nm; split; [reflexivity|lia]|discriminate].
  - destruct (epc_iban a) as [i|]; [exists i; split; [reflexivity|lia]|discriminate].
  - intros Hb. rewrite Hb in C0. cbn [negb orb] in C0. lia.
  - intros Hp. rewrite Hp in C. cbn [negb orb] in C. lia.
Qed.
End EPC.
Print Assumptions epc_refusals_lengths.
Print Assumptions epc_refusals_amount.
Print Assumptions epc_errors.
Print Assumptions epc_refusals_size.
Print Assumptions epc_layout.
(* ============================================================================================ *)
(* 11. make_geo_data *)

Lemma scale_eq k m sc mant s : 0 <= sc <= k -> 0 <= s <= k ->
  m * 10 ^ (k - sc) = mant * 10 ^ (k - s) -> m * 10 ^ s = mant * 10 ^ sc.
Proof.
  intros Hsc Hs E.
  assert (P1 : 10 ^ (k - sc) * 10 ^ sc = 10 ^ k).
  { rewrite <- Z.pow_add_r by lia. now replace (k - sc + sc) with k by lia. }
  assert (P2 : 10 ^ (k - s) * 10 ^ s = 10 ^ k).
  { rewrite <- Z.pow_add_r by lia. now replace (k - s + s) with k by lia. }
  assert (Pk : 0 < 10 ^ k) by (apply Z.pow_pos_nonneg; lia).
  assert (E2 : m * 10 ^ s * 10 ^ k = mant * 10 ^ sc * 10 ^ k).
  { rewrite <- P1 at 1. rewrite <- P2 at 1. 
    replace (m * 10 ^ s * (10 ^ (k - sc) * 10 ^ sc)) with ((m * 10 ^ (k - sc)) * 10 ^ s * 10 ^ sc) by ring.
    rewrite E. ring. }
  apply Z.mul_cancel_r in E2; [exact E2|lia].
Qed.

(* what the reader gets back for one coordinate *)
Definition geo_num_ok (d : dec) (p : bool * Z * Z) : Prop :=
  let '(neg, m, sc) := p in
  neg = d_neg d /\ 0 <= sc <= 8 /\
  m * 10 ^ (8 - sc) = round_half_even (d_mant d) (d_scale d) 8 /\     (* the input rounded to 8 decimals *)
  (sc = 0 \/ m mod 10 <> 0) /\                                        (* shortest: no trailing zero *)
  (d_scale d <= 8 -> m * 10 ^ d_scale d = d_mant d * 10 ^ sc).        (* exact for <= 8 fraction digits *)

Lemma geo_float_to_str_fin d : dec_wf d ->
  geo_float_to_str (NFin d) = trimmed_number 8 (d_neg d) (round_half_even (d_mant d) (d_scale d) 8).
Proof.
  intros [Hm Hs]. unfold geo_float_to_str, float_fmt8, format_fixed.
  rewrite <- (app_nil_l (fixed_str 8 _ _)). rewrite py_trim_fixed; [reflexivity|].
  apply round_half_even_nonneg; [exact Hm|lia].
Qed.

Lemma geo_num_parse d : dec_wf d ->
  exists p, parse_decimal (geo_float_to_str (NFin d)) = Some p /\ geo_num_ok d p.
Proof.
  intros Hd. rewrite geo_float_to_str_fin by exact Hd. destruct Hd as [Hm Hs].
  assert (Hq : 0 <= round_half_even (d_mant d) (d_scale d) 8) by (apply round_half_even_nonneg; lia).
  destruct (trimmed_number_parse 8 (d_neg d) _ Hq) as (m & sc & A & B & C & D).
  exists (d_neg d, m, sc). split; [exact A|]. unfold geo_num_ok.
  split; [reflexivity|]. split; [exact B|]. split; [exact C|]. split; [exact D|].
  intros Hle. rewrite round_half_even_exact in C by exact Hle.
  apply (scale_eq 8); [exact B|lia|exact C].
Qed.

Lemma num_chars_no_comma (s : str) : forallb num_char s = true -> forallb (fun c => negb (c =? 44)) s = true.
Proof. apply forallb_impl. intros x. unfold num_char, is_digit. lia. Qed.

(* The geo payload is "geo:" LAT "," LNG; each number is the input rounded (half-even on the exact value, as
   float.__format__ does) to 8 decimals, printed without trailing zeros / trailing dot, sign kept (so negative
   zero and negative values that round to zero print as "-0"); it parses back to the same value whenever the
   input has at most 8 fraction digits. *)
Theorem geo_uri dlat dlng : dec_wf dlat -> dec_wf dlng ->
  make_geo_data (NFin dlat) (NFin dlng) =
    K_geo ++ trimmed_number 8 (d_neg dlat) (round_half_even (d_mant dlat) (d_scale dlat) 8) ++ [44]
          ++ trimmed_number 8 (d_neg dlng) (round_half_even (d_mant dlng) (d_scale dlng) 8) /\
  exists p1 p2, geo_read (make_geo_data (NFin dlat) (NFin dlng)) = Some (p1, p2) /\
                geo_num_ok dlat p1 /\ geo_num_ok dlng p2.
Proof.
  intros H1 H2. unfold make_geo_data. split.
  - now rewrite !geo_float_to_str_fin.
  - destruct (geo_num_parse dlat H1) as (p1 & A1 & B1). destruct (geo_num_parse dlng H2) as (p2 & A2 & B2).
    exists p1, p2. split; [|now split].
    unfold geo_read. change [103; 101; 111; 58] with K_geo. rewrite strip_prefix_app.
    cbn [app]. rewrite cut_first_app.
    + now rewrite A1, A2.
    + rewrite geo_float_to_str_fin by exact H1. apply num_chars_no_comma. apply trimmed_number_chars.
      destruct H1 as [Hm Hs]. apply round_half_even_nonneg; lia.
Qed.
Print Assumptions geo_uri.

(* observed behaviour, reproduced by the model: -0.0 -> "-0", -0.000000001 -> "-0", nan / inf are printed
   as such (not valid geo URIs) *)
Example geo_examples :
  make_geo_data (NFin {| d_neg := true; d_mant := 0; d_scale := 1 |}) (NFin {| d_neg := false; d_mant := 0; d_scale := 1 |})
    = K_geo ++ [45; 48; 44; 48] /\
  make_geo_data (NFin {| d_neg := true; d_mant := 1; d_scale := 9 |}) (NFin {| d_neg := false; d_mant := 1000; d_scale := 1 |})
    = K_geo ++ [45; 48; 44; 49; 48; 48] /\
  make_geo_data NNan (NInf true) = K_geo ++ K_nan ++ [44] ++ K_minf /\
  geo_read (make_geo_data NNan (NInf true)) = None.
Proof. repeat split; vm_compute; reflexivity. Qed.

(* ============================================================================================ *)
(* 12. UTF-8 and percent-encoding *)

Lemma Ok_inj {A} (a b : A) : Ok a = Ok b -> a = b.
Proof. now intros [= ->]. Qed.

Lemma utf8_cp_bytes c bs : utf8_cp c = Ok bs -> Forall (fun b => 0 <= b < 256) bs.
Proof.
  unfold utf8_cp.
  destruct (c <? 0) eqn:E0; [discriminate|].
  destruct (c <? 128) eqn:E1; [intros H; apply Ok_inj in H; subst bs; repeat (apply Forall_cons; [lia|]); apply Forall_nil|].
  destruct (c <? 2048) eqn:E2; [intros H; apply Ok_inj in H; subst bs; repeat (apply Forall_cons; [lia|]); apply Forall_nil|].
  destruct (c <? 65536) eqn:E3.
  - destruct ((55296 <=? c) && (c <=? 57343)); [discriminate|]. intros H; apply Ok_inj in H; subst bs; repeat (apply Forall_cons; [lia|]); apply Forall_nil.
  - destruct (c <? 1114112) eqn:E4; [|discriminate]. intros H; apply Ok_inj in H; subst bs; repeat (apply Forall_cons; [lia|]); apply Forall_nil.
Qed.

Ltac solve_if :=
  repeat match goal with
         | |- context [if ?b then _ else _] => let E := fresh "E" in destruct b eqn:E; try lia
         end.

Lemma utf8_cp_decode c bs rest : utf8_cp c = Ok bs ->
  utf8_decode (bs ++ rest) = ocons c (utf8_decode rest).
Proof.
  unfold utf8_cp.
  destruct (c <? 0) eqn:E0; [discriminate|].
  destruct (c <? 128) eqn:E1.
  { intros H; apply Ok_inj in H; subst bs. cbn [app utf8_decode]. rewrite E0, E1. reflexivity. }
  destruct (c <? 2048) eqn:E2.
  { intros H; apply Ok_inj in H; subst bs. cbn [app utf8_decode]. unfold is_cont.
    set (b0 := 192 + c / 64). set (b1 := 128 + c mod 64).
    assert (H0 : 194 <= b0 < 224) by (unfold b0; lia). assert (H1 : 128 <= b1 < 192) by (unfold b1; lia).
    assert (Hc : (b0 - 192) * 64 + (b1 - 128) = c) by (unfold b0, b1; lia).
    rewrite Hc. solve_if. reflexivity. }
  destruct (c <? 65536) eqn:E3.
  { destruct ((55296 <=? c) && (c <=? 57343)) eqn:Es; [discriminate|].
    intros H; apply Ok_inj in H; subst bs. cbn [app utf8_decode]. unfold is_cont.
    set (b0 := 224 + c / 4096). set (b1 := 128 + (c / 64) mod 64). set (b2 := 128 + c mod 64).
    assert (H0 : 224 <= b0 < 240) by (unfold b0; lia). assert (H1 : 128 <= b1 < 192) by (unfold b1; lia).
    assert (H2 : 128 <= b2 < 192) by (unfold b2; lia).
    assert (Hc : (b0 - 224) * 4096 + (b1 - 128) * 64 + (b2 - 128) = c) by (unfold b0, b1, b2; lia).
    rewrite Hc. rewrite Es. solve_if. reflexivity. }
  destruct (c <? 1114112) eqn:E4; [|discriminate].
  intros H; apply Ok_inj in H; subst bs. cbn [app utf8_decode]. unfold is_cont.
  set (b0 := 240 + c / 262144). set (b1 := 128 + (c / 4096) mod 64).
  set (b2 := 128 + (c / 64) mod 64). set (b3 := 128 + c mod 64).
  assert (H0 : 240 <= b0 < 245) by (unfold b0; lia). assert (H1 : 128 <= b1 < 192) by (unfold b1; lia).
  assert (H2 : 128 <= b2 < 192) by (unfold b2; lia). assert (H3 : 128 <= b3 < 192) by (unfold b3; lia).
  assert (Hc : (b0 - 240) * 262144 + (b1 - 128) * 4096 + (b2 - 128) * 64 + (b3 - 128) = c)
    by (unfold b0, b1, b2, b3; lia).
  rewrite Hc. solve_if. reflexivity.
Qed.

Theorem utf8_roundtrip s bs : utf8_encode s = Ok bs ->
  utf8_decode bs = Some s /\ Forall (fun b => 0 <= b < 256) bs.
Proof.
  revert bs. induction s as [|c s IH]; intros bs H.
  - injection H as <-. split; [reflexivity|constructor].
  - cbn [utf8_encode] in H. destruct (utf8_cp c) as [b|] eqn:Ec; cbn [bind] in H; [|discriminate].
    destruct (utf8_encode s) as [br|] eqn:Es; cbn [bind] in H; [|discriminate]. injection H as <-.
    destruct (IH br eq_refl) as [A B]. split.
    + rewrite (utf8_cp_decode c b br Ec), A. reflexivity.
    + apply Forall_app_intro; [now apply utf8_cp_bytes in Ec|exact B].
Qed.
Print Assumptions utf8_roundtrip.

Lemma hexval_hexdigit n : 0 <= n < 16 -> hexval (hexdigit_upper n) = Some n.
Proof.
  intros H. unfold hexdigit_upper, HelpersReader.hexval. destruct (n <? 10) eqn:E.
  - destruct ((48 <=? 48 + n) && (48 + n <=? 57)) eqn:E1; [f_equal; lia|lia].
  - destruct ((48 <=? 55 + n) && (55 + n <=? 57)) eqn:E1; [lia|].
    destruct ((65 <=? 55 + n) && (55 + n <=? 70)) eqn:E2; [f_equal; lia|lia].
Qed.

Lemma unquote_quote_byte b rest : 0 <= b < 256 -> unquote (quote_byte b ++ rest) = b :: unquote rest.
Proof.
  intros Hb. unfold quote_byte. destruct (quote_safe b) eqn:Es.
  - cbn [app unquote]. destruct (b =? 37) eqn:E; [|reflexivity]. unfold quote_safe in Es. lia.
  - cbn [app unquote]. change (37 =? 37) with true. cbn iota.
    rewrite !hexval_hexdigit by lia. f_equal. lia.
Qed.

Theorem unquote_quote_bytes bs : Forall (fun b => 0 <= b < 256) bs -> unquote (quote_bytes bs) = bs.
Proof.
  induction 1 as [|b bs Hb Hbs IH]; [reflexivity|].
  unfold quote_bytes in *. cbn [flat_map]. rewrite unquote_quote_byte by exact Hb. now rewrite IH.
Qed.
Print Assumptions unquote_quote_bytes.

(* characters that quote() can emit: unreserved, '/', and '%' (followed by two upper-case hex digits) *)
Definition quoted_char (c : Z) : bool := quote_safe c || (c =? 37).

Lemma quote_bytes_chars bs : Forall (fun b => 0 <= b < 256) bs -> forallb quoted_char (quote_bytes bs) = true.
Proof.
  induction 1 as [|b bs Hb Hbs IH]; [reflexivity|].
  unfold quote_bytes in *. cbn [flat_map]. rewrite forallb_app, IH, andb_true_r.
  unfold quote_byte. destruct (quote_safe b) eqn:Es.
  - cbn [forallb]. unfold quoted_char. now rewrite Es.
  - cbn [forallb]. unfold quoted_char, quote_safe, hexdigit_upper.
    destruct (b / 16 <? 10) eqn:E1; destruct (b mod 16 <? 10) eqn:E2; lia.
Qed.

(* subject / body: percent-encoded UTF-8 that decodes back to the input *)
Theorem quote_utf8_roundtrip s q : quote_utf8 s = Ok q ->
  uri_text q = Some s /\ forallb quoted_char q = true.
Proof.
  unfold quote_utf8, uri_text. destruct (utf8_encode s) as [bs|] eqn:E; cbn [bind]; [|discriminate].
  intros [= <-]. destruct (utf8_roundtrip s bs E) as [A B].
  rewrite unquote_quote_bytes by exact B. split; [exact A|]. now apply quote_bytes_chars.
Qed.
Print Assumptions quote_utf8_roundtrip.

(* the only failure of the encoder: lone surrogates (UnicodeEncodeError) or values that are not code points *)
Lemma utf8_encode_ok s : Forall (fun c => 0 <= c < 1114112 /\ ~ (55296 <= c <= 57343)) s ->
  exists bs, utf8_encode s = Ok bs.
Proof.
  induction 1 as [|c s [Hc Hs] Hrest IH]; [now exists []|].
  destruct IH as [br Hbr]. cbn [utf8_encode]. rewrite Hbr.
  assert (exists b, utf8_cp c = Ok b) as [b Hb].
  { unfold utf8_cp. solve_if; eexists; reflexivity. }
  rewrite Hb. cbn [bind]. now eexists.
Qed.
(* ============================================================================================ *)
(* 13. make_make_email_data *)

Definition email_addr_entry (key : str) (vals : list str) : list (str * str) :=
  match vals with [] => [] | _ => [(key, join [44] vals)] end.
Definition quoted_or_empty (v : str) : str := match quote_utf8 v with Ok q => q | Err _ => [] end.
Definition email_text_entry (key : str) (o : option str) : list (str * str) :=
  match o with Some v => [(key, quoted_or_empty v)] | None => [] end.

(* the query parameters, in order: cc, bcc (comma-joined, verbatim), subject, body (percent-encoded UTF-8) *)
Definition mailto_entries (cc bcc : list str) (subject body : option str) : list (str * str) :=
  email_addr_entry K_cc cc ++ email_addr_entry K_bcc bcc
  ++ email_text_entry K_subject subject ++ email_text_entry K_body body.

Definition kv_render (e : str * str) : str := fst e ++ [61] ++ snd e.

Lemma mailto_shape to cc bcc subject body out :
  make_make_email_data to cc bcc subject body = Ok out ->
  out = K_mailto ++ join [44] to ++
        (match mailto_entries cc bcc subject body with
         | [] => []
         | es => 63 :: join [38] (map kv_render es)
         end).
Proof.
  unfold make_make_email_data. intros H.
  destruct to as [|t0 to]; [discriminate H|].
  unfold mailto_entries, email_addr_entry, email_text_entry, quoted_or_empty.
  destruct cc as [|c0 cc]; destruct bcc as [|b0 bcc]; cbn [email_addr_part] in H;
    (destruct subject as [s|]; cbn [email_text_part] in H;
      [destruct (quote_utf8 s) as [qs|] eqn:Eqs; cbn [bind] in H; [|discriminate H]|]);
    (destruct body as [b|]; cbn [email_text_part] in H;
      [destruct (quote_utf8 b) as [qb|] eqn:Eqb; cbn [bind] in H; [|discriminate H]|]);
    cbn [bind] in H; apply Ok_inj in H; subst out;
    unfold kv_render; cbn [app map fst snd];
    repeat match goal with |- context [join [38] (?x :: ?y :: ?r)] =>
             change (join [38] (x :: y :: r)) with (x ++ [38] ++ join [38] (y :: r)) end;
    repeat match goal with |- context [join [38] [?x]] => change (join [38] [x]) with x end;
    rewrite <- ?app_assoc; cbn [app]; rewrite ?app_nil_r; reflexivity.
Qed.

Lemma notin_forallb c (s : str) : ~ In c s -> forallb (fun x => negb (x =? c)) s = true.
Proof.
  induction s as [|x s IH]; intros H; [reflexivity|]. cbn [forallb].
  rewrite IH by (intros Hin; apply H; now right).
  destruct (x =? c) eqn:E; [exfalso; apply H; left; lia|reflexivity].
Qed.
Lemma forallb_notin c (s : str) : forallb (fun x => negb (x =? c)) s = true -> ~ In c s.
Proof.
  intros H Hin. rewrite forallb_forall in H. specialize (H _ Hin). rewrite Z.eqb_refl in H. discriminate H.
Qed.
Lemma cut_first_none' sep (s : str) : ~ In sep s -> cut_first sep s = None.
Proof.
  induction s as [|x s IH]; intros H; [reflexivity|]. cbn [cut_first].
  rewrite IH by (intros Hin; apply H; now right).
  destruct (x =? sep) eqn:E; [exfalso; apply H; left; lia|reflexivity].
Qed.

Lemma quoted_no_delims (q : str) : forallb quoted_char q = true ->
  ~ In 38 q /\ ~ In 63 q /\ ~ In 61 q /\ ~ In 35 q /\ ~ In 32 q.
Proof.
  intros H. rewrite forallb_forall in H.
  repeat split; intros Hin; specialize (H _ Hin); discriminate H.
Qed.

Definition mailto_entry_ok (e : str * str) : Prop :=
  forallb (fun x => negb (x =? 61)) (fst e) = true /\ ~ In 38 (fst e) /\ ~ In 38 (snd e).

Lemma quoted_or_empty_ok v : ~ In 38 (quoted_or_empty v).
Proof.
  unfold quoted_or_empty. destruct (quote_utf8 v) as [q|] eqn:E; [|intros []].
  apply quote_utf8_roundtrip in E. destruct E as [_ E]. now apply quoted_no_delims in E.
Qed.

Lemma mailto_entries_ok cc bcc subject body : ~ In 38 (join [44] cc) -> ~ In 38 (join [44] bcc) ->
  Forall mailto_entry_ok (mailto_entries cc bcc subject body).
Proof.
  intros Hcc Hbcc. unfold mailto_entries. repeat apply Forall_app_intro.
  - unfold email_addr_entry. destruct cc; [constructor|]. constructor; [|constructor].
    split; [reflexivity|]. split; [|exact Hcc]. cbn. lia.
  - unfold email_addr_entry. destruct bcc; [constructor|]. constructor; [|constructor].
    split; [reflexivity|]. split; [|exact Hbcc]. cbn. lia.
  - unfold email_text_entry. destruct subject; [|constructor]. constructor; [|constructor].
    split; [reflexivity|]. split; [cbn; lia|apply quoted_or_empty_ok].
  - unfold email_text_entry. destruct body; [|constructor]. constructor; [|constructor].
    split; [reflexivity|]. split; [cbn; lia|apply quoted_or_empty_ok].
Qed.

Lemma all_some_kv es : Forall mailto_entry_ok es -> all_some (map (cut_first 61) (map kv_render es)) = Some es.
Proof.
  induction 1 as [|[k v] es [K1 _] Hes IH]; [reflexivity|].
  cbn [map all_some]. unfold kv_render at 1. cbn [fst snd app] in *.
  rewrite cut_first_app by exact K1. now rewrite IH.
Qed.

(* The mailto payload.  Provided the recipient lists - which the writer joins with ',' and inserts VERBATIM -
   contain no '?' (to) and no '&' (cc, bcc), the URI splits at the first '?', then at '&' and at the first '='
   into exactly the recipient part and the parameters cc, bcc, subject, body (those that were given, in this
   order; the first one is introduced by '?', the others by '&'); subject and body are percent-encoded UTF-8
   and decode to the input. *)
Theorem mailto_uri to cc bcc subject body out :
  make_make_email_data to cc bcc subject body = Ok out ->
  ~ In 63 (join [44] to) -> ~ In 38 (join [44] cc) -> ~ In 38 (join [44] bcc) ->
  mailto_read out = Some (join [44] to, mailto_entries cc bcc subject body) /\
  (forall s, subject = Some s -> exists q, quote_utf8 s = Ok q /\ quoted_or_empty s = q /\ uri_text q = Some s) /\
  (forall b, body = Some b -> exists q, quote_utf8 b = Ok q /\ quoted_or_empty b = q /\ uri_text q = Some b).
Proof.
  intros H Hto Hcc Hbcc. split.
  - rewrite (mailto_shape _ _ _ _ _ _ H).
    pose proof (mailto_entries_ok cc bcc subject body Hcc Hbcc) as Hes.
    unfold mailto_read. change [109; 97; 105; 108; 116; 111; 58] with K_mailto. rewrite strip_prefix_app.
    destruct (mailto_entries cc bcc subject body) as [|e es] eqn:Ees.
    + rewrite app_nil_r. now rewrite cut_first_none' by exact Hto.
    + rewrite cut_first_app by (now apply notin_forallb).
      rewrite split_char_join.
      * now rewrite all_some_kv.
      * apply Forall_forall. intros l Hl. apply in_map_iff in Hl. destruct Hl as [e' [<- He']].
        rewrite Forall_forall in Hes. destruct (Hes e' He') as (_ & K2 & V).
        unfold kv_render. intros Hin. apply in_app_or in Hin. destruct Hin as [Hin|Hin]; [now apply K2|].
        destruct Hin as [Hin|Hin]; [lia|now apply V].
      * discriminate.
  - unfold make_make_email_data in H. destruct to as [|t0 to]; [discriminate H|].
    destruct (email_addr_part 63 K_cc cc) as [pcc d1]. destruct (email_addr_part d1 K_bcc bcc) as [pbcc d2].
    split.
    + intros s ->. cbn [email_text_part] in H. unfold quoted_or_empty.
      destruct (quote_utf8 s) as [q|] eqn:E; cbn [bind] in H; [|discriminate H].
      exists q. split; [reflexivity|]. split; [reflexivity|]. now apply quote_utf8_roundtrip in E.
    + intros b ->. destruct (email_text_part d2 K_subject subject) as [[ps d3]|]; cbn [bind] in H; [|discriminate H].
      cbn [email_text_part] in H. unfold quoted_or_empty.
      destruct (quote_utf8 b) as [q|] eqn:E; cbn [bind] in H; [|discriminate H].
      exists q. split; [reflexivity|]. split; [reflexivity|]. now apply quote_utf8_roundtrip in E.
Qed.
Print Assumptions mailto_uri.

(* refusals: empty `to` gives ValueError; the only other failure is UnicodeEncodeError (a ValueError subclass)
   for lone surrogates in subject / body *)
Theorem mailto_errors to cc bcc subject body e :
  make_make_email_data to cc bcc subject body = Err e -> e = ValueError \/ e = UnicodeErr.
Proof.
  unfold make_make_email_data. destruct to as [|t0 to]; [intros [= <-]; now left|].
  destruct (email_addr_part 63 K_cc cc) as [pcc d1]. destruct (email_addr_part d1 K_bcc bcc) as [pbcc d2].
  assert (Q : forall s x, quote_utf8 s = Err x -> x = UnicodeErr).
  { intros s x. unfold quote_utf8. destruct (utf8_encode s) as [bs|y] eqn:E; cbn [bind]; [discriminate|].
    intros [= <-]. revert y E. induction s as [|c s IH]; intros y E; [discriminate E|].
    cbn [utf8_encode] in E. destruct (utf8_cp c) as [b|z] eqn:Ec; cbn [bind] in E.
    - destruct (utf8_encode s) as [br|w]; cbn [bind] in E; [discriminate E|]. injection E as <-. now apply IH.
    - injection E as <-. unfold utf8_cp in Ec. repeat (destruct (_ <? _) in Ec; try discriminate Ec);
        try (destruct (_ && _) in Ec; try discriminate Ec); now injection Ec as <-. }
  destruct subject as [s|]; cbn [email_text_part].
  - destruct (quote_utf8 s) as [q|x] eqn:E; cbn [bind]; [|intros [= <-]; right; now apply (Q s)].
    destruct body as [b|]; cbn [email_text_part bind]; [|discriminate].
    destruct (quote_utf8 b) as [q2|x] eqn:E2; cbn [bind]; [discriminate|intros [= <-]; right; now apply (Q b)].
  - cbn [bind]. destruct body as [b|]; cbn [email_text_part bind]; [|discriminate].
    destruct (quote_utf8 b) as [q2|x] eqn:E2; cbn [bind]; [discriminate|intros [= <-]; right; now apply (Q b)].
Qed.
Print Assumptions mailto_errors.

(* to='a', body='x' (no cc, bcc, subject) gives 'mailto:a?body=x' (repaired by commit 578204b) *)
Example mailto_body_only :
  make_make_email_data [[97]] [] [] None (Some [120]) = Ok (K_mailto ++ [97; 63] ++ K_body ++ [61; 120]) /\
  mailto_read (K_mailto ++ [97; 63] ++ K_body ++ [61; 120]) = Some ([97], [(K_body, [120])]).
Proof. split; reflexivity. Qed.

(* recipients are not encoded: to = 'a?subject=x', cc = 'c&body=evil' changes the structure *)
Example mailto_recipient_injection :
  exists out, make_make_email_data [[97; 63] ++ K_subject ++ [61; 120]] [[99; 38] ++ K_body ++ [61; 101]] [] None None = Ok out /\
  mailto_read out = Some ([97], [(K_subject, [120; 63; 99; 99; 61; 99]); (K_body, [101])]).
Proof. eexists. split; reflexivity. Qed.
