(* C14: the model of segno's public encoding entry point with RAW (un-normalised) arguments (Model/Args.v,
   encode_args) either returns a symbol or fails with ValueError / DataOverflowError / UnicodeError /
   LookupError -- IndexError, KeyError, TypeError, AssertionError, AttributeError are unreachable;
   the documented exclusions are always refused; alternative spellings normalise to the canonical value. *)
From Coq Require Import String.
From Coq Require Import ZArith List Bool Lia ZifyBool.
From Segno Require Import Base.PyLite Base.PyCase Ref.IsoData Ref.Spec.
From Segno Require Import Model.Bits Model.Segment Model.Version Model.Stream Model.Matrix Model.Encode Model.Sequence Model.Color Model.Args.
From Segno Require Import Lemmas.PackLemmas Lemmas.ModeLemmas Lemmas.VersionLemmas Lemmas.PadLemmas Lemmas.RsModel Lemmas.BlockLemmas Lemmas.MaskLemmas Lemmas.GeomLemmas.
Import ListNotations.
Open Scope Z_scope.
Ltac Zify.zify_post_hook ::= Z.to_euclidean_division_equations.

Definition allowed (e : exn) : Prop := e = ValueError \/ e = DataOverflow \/ e = UnicodeErr \/ e = LookupErr.

(* ================================================================================================ *)
(* 1. Argument normalisation                                                                        *)
(* ================================================================================================ *)

(* ---- strings ---- *)
Lemma str_eqb_eq (a : list Z) : forall b, str_eqb a b = true <-> a = b.
Proof.
  induction a as [|x a IH]; intros [|y b]; cbn [str_eqb]; split; intros H;
    try reflexivity; try discriminate H.
  - apply andb_prop in H. destruct H as [H1 H2]. apply Z.eqb_eq in H1. apply IH in H2. congruence.
  - injection H as -> ->. rewrite Z.eqb_refl. cbn [andb]. apply IH. reflexivity.
Qed.
Lemma str_eqb_refl (a : list Z) : str_eqb a a = true.
Proof. apply str_eqb_eq. reflexivity. Qed.

(* ---- Python int(str) is blind to (ASCII) str.ascii_upper(): no character it accepts is a letter ---- *)
Lemma upper_cp_class c :
  is_ws (ascii_upper_cp c) = is_ws c /\ is_dig (ascii_upper_cp c) = is_dig c /\
  (ascii_upper_cp c =? 45) = (c =? 45) /\ (ascii_upper_cp c =? 43) = (c =? 43) /\ (ascii_upper_cp c =? 95) = (c =? 95) /\
  (is_dig c = true -> ascii_upper_cp c = c).
Proof.
  unfold ascii_upper_cp, is_ws, is_dig, memZ. cbn [existsb].
  destruct ((97 <=? c) && (c <=? 122)) eqn:E; repeat split; try reflexivity; try lia.
Qed.

Lemma lstrip_ascii_upper s : lstrip (ascii_upper s) = ascii_upper (lstrip s).
Proof.
  induction s as [|c r IH]; [reflexivity|]. cbn [ascii_upper map lstrip].
  destruct (upper_cp_class c) as (Hw & _). rewrite Hw. destruct (is_ws c); [exact IH|reflexivity].
Qed.
Lemma upper_rev s : ascii_upper (rev s) = rev (ascii_upper s).
Proof. unfold ascii_upper. apply map_rev. Qed.
Lemma strip_ascii_upper s : strip (ascii_upper s) = ascii_upper (strip s).
Proof. unfold strip. rewrite lstrip_ascii_upper, <- upper_rev, lstrip_ascii_upper, upper_rev. reflexivity. Qed.

Lemma digits_val_ascii_upper s : forall acc p, digits_val (ascii_upper s) acc p = digits_val s acc p.
Proof.
  induction s as [|c r IH]; intros acc p; [reflexivity|]. cbn [ascii_upper map digits_val].
  fold (ascii_upper r).
  destruct (upper_cp_class c) as (_ & Hd & _ & _ & H95 & Hid). rewrite Hd, H95.
  destruct (is_dig c) eqn:Edc.
  - rewrite (Hid eq_refl). apply IH.
  - destruct ((c =? 95) && p); [|reflexivity].
    destruct r as [|d r']; [reflexivity|]. cbn [ascii_upper map]. fold (ascii_upper r').
    destruct (upper_cp_class d) as (_ & Hdd & _). rewrite Hdd.
    destruct (is_dig d); [|reflexivity]. apply (IH acc false).
Qed.

Lemma int_of_ascii_ascii_upper s : int_of_ascii (ascii_upper s) = int_of_ascii s.
Proof.
  unfold int_of_ascii. rewrite strip_ascii_upper. destruct (strip s) as [|c r]; [reflexivity|].
  cbn [ascii_upper map]. fold (ascii_upper r).
  destruct (upper_cp_class c) as (_ & Hd & H45 & H43 & _ & Hid). rewrite H45, H43.
  destruct (c =? 45); [rewrite digits_val_ascii_upper; reflexivity|].
  destruct (c =? 43); [rewrite digits_val_ascii_upper; reflexivity|].
  change (ascii_upper_cp c :: ascii_upper r) with (ascii_upper (c :: r)). apply digits_val_ascii_upper.
Qed.

(* ... and str.ascii_upper() commutes with the rewriting of a non-ASCII str to ASCII (spaces, decimal digits, '?') *)
Lemma is_ascii_ascii_upper s : is_ascii (ascii_upper s) = is_ascii s.
Proof.
  unfold is_ascii, ascii_upper. induction s as [|c r IH]; [reflexivity|]. cbn [map forallb]. rewrite IH. f_equal.
  unfold ascii_upper_cp. destruct ((97 <=? c) && (c <=? 122)) eqn:E; lia.
Qed.
Lemma decimal_of_range c zs d : decimal_of c zs = Some d -> 0 <= d <= 9.
Proof.
  induction zs as [|z r IH]; cbn [decimal_of]; [discriminate|].
  destruct ((z <=? c) && (c <=? z + 9)) eqn:E; [intros [= <-]; lia|exact IH].
Qed.
Lemma to_ascii_ascii_upper c : to_ascii_cp (ascii_upper_cp c) = ascii_upper_cp (to_ascii_cp c).
Proof.
  unfold ascii_upper_cp at 1. destruct ((97 <=? c) && (c <=? 122)) eqn:E.
  - unfold to_ascii_cp. replace (c - 32 <? 127) with true by lia. replace (c <? 127) with true by lia.
    unfold ascii_upper_cp. now rewrite E.
  - unfold to_ascii_cp. destruct (c <? 127) eqn:E127; [unfold ascii_upper_cp; now rewrite E|].
    destruct (memZ c UNI_SPACES); [reflexivity|].
    destruct (decimal_of c DECIMAL_ZEROS) as [d|] eqn:Ed; [|reflexivity].
    apply decimal_of_range in Ed. unfold ascii_upper_cp.
    destruct ((97 <=? 48 + d) && (48 + d <=? 122)) eqn:E2; [lia|reflexivity].
Qed.
Lemma int_text_ascii_upper s : int_text (ascii_upper s) = ascii_upper (int_text s).
Proof.
  unfold int_text. rewrite is_ascii_ascii_upper. destruct (is_ascii s); [reflexivity|].
  unfold ascii_upper. rewrite !map_map. apply map_ext. exact to_ascii_ascii_upper.
Qed.
Lemma digit_count_ascii_upper t : lenZ (filter is_dig (ascii_upper t)) = lenZ (filter is_dig t).
Proof.
  unfold lenZ. f_equal. induction t as [|c r IH]; [reflexivity|]. cbn [ascii_upper map filter]. fold (ascii_upper r).
  destruct (upper_cp_class c) as (_ & Hd & _). rewrite Hd. destruct (is_dig c); cbn [List.length]; now rewrite IH.
Qed.

Theorem int_of_str_ascii_upper s : int_of_str (ascii_upper s) = int_of_str s.
Proof. unfold int_of_str. cbv zeta. now rewrite int_text_ascii_upper, digit_count_ascii_upper, int_of_ascii_ascii_upper. Qed.

(* ---- ... and to Python's str.upper() on EVERY str (Base/PyCase.v).  A str without one of the 17 non-ASCII code points
   whose upper() contains an ASCII character is uppered like an ASCII str (other non-ASCII code points are kept by the
   model; int() looks at them through to_ascii_cp, which commutes: to_ascii_ascii_upper).  A str WITH such a code point
   x is no int literal (x is neither a Unicode space nor a decimal digit: '?'), and neither is its upper(): it contains
   an ASCII capital letter, which int() never accepts. ---- *)
Definition int_bad (c : Z) : bool := negb (is_ws c || is_dig c || (c =? 45) || (c =? 43) || (c =? 95)).
Lemma In_lstrip c s : In c s -> is_ws c = false -> In c (lstrip s).
Proof.
  induction s as [|d r IH]; [intros []|]. intros [->|H] Hw; cbn [lstrip].
  - rewrite Hw. left. reflexivity.
  - destruct (is_ws d); [exact (IH H Hw)|right; exact H].
Qed.
Lemma In_strip c s : In c s -> is_ws c = false -> In c (strip s).
Proof.
  intros H Hw. unfold strip. apply -> in_rev. apply In_lstrip; [|exact Hw]. apply -> in_rev. apply In_lstrip; assumption.
Qed.
Lemma digits_val_bad c s : In c s -> int_bad c = true -> forall acc p, digits_val s acc p = None.
Proof.
  unfold int_bad. intros H Hb. apply negb_true_iff in Hb. apply orb_false_iff in Hb. destruct Hb as [Hb H95].
  apply orb_false_iff in Hb. destruct Hb as [Hb _]. apply orb_false_iff in Hb. destruct Hb as [Hb _].
  apply orb_false_iff in Hb. destruct Hb as [_ Hd].
  induction s as [|d r IH]; [destruct H|]. intros acc p. cbn [digits_val].
  destruct (is_dig d) eqn:Ed.
  - destruct H as [->|H]; [rewrite Hd in Ed; discriminate Ed|]. exact (IH H _ _).
  - destruct ((d =? 95) && p) eqn:Eu; [|reflexivity].
    destruct H as [->|H]; [rewrite H95 in Eu; discriminate Eu|].
    destruct r as [|e r']; [reflexivity|]. destruct (is_dig e); [exact (IH H _ _)|reflexivity].
Qed.
Lemma int_of_ascii_bad c t : In c t -> int_bad c = true -> int_of_ascii t = None.
Proof.
  intros H Hb. assert (Hw : is_ws c = false).
  { unfold int_bad in Hb. apply negb_true_iff in Hb. destruct (is_ws c); [discriminate Hb|reflexivity]. }
  assert (H45 : (c =? 45) = false /\ (c =? 43) = false).
  { unfold int_bad in Hb. apply negb_true_iff in Hb. destruct (c =? 45), (c =? 43); rewrite ?orb_true_r in Hb; try discriminate Hb; split; reflexivity. }
  pose proof (In_strip c t H Hw) as Hs. unfold int_of_ascii. destruct (strip t) as [|d r]; [reflexivity|].
  destruct (d =? 45) eqn:E1.
  - destruct Hs as [->|Hs]; [destruct H45 as [F _]; rewrite F in E1; discriminate E1|]. rewrite (digits_val_bad c r Hs Hb). reflexivity.
  - destruct (d =? 43) eqn:E2.
    + destruct Hs as [->|Hs]; [destruct H45 as [_ F]; rewrite F in E2; discriminate E2|]. exact (digits_val_bad c r Hs Hb _ _).
    + exact (digits_val_bad c (d :: r) Hs Hb _ _).
Qed.
Lemma int_of_str_bad c s : In c (int_text s) -> int_bad c = true -> int_of_str s = None.
Proof.
  intros H Hb. unfold int_of_str. cbv zeta. rewrite (int_of_ascii_bad c _ H Hb). destruct (_ <? _); reflexivity.
Qed.
(* the 17 code points are rewritten to '?' by int() *)
Lemma upper_special_question : forallb (fun p => to_ascii_cp (fst p) =? 63) UPPER_SPECIAL = true.
Proof. vm_compute. reflexivity. Qed.
Lemma capital_bad y : 65 <= y <= 90 -> int_bad y = true /\ to_ascii_cp y = y.
Proof.
  intros Hy. unfold int_bad, is_ws, is_dig, memZ, to_ascii_cp. cbn [existsb]. split.
  - repeat match goal with |- context [?a =? ?b] => replace (a =? b) with false by lia end.
    replace (48 <=? y) with true by lia. replace (y <=? 57) with false by lia. reflexivity.
  - replace (y <? 127) with true by lia. reflexivity.
Qed.
Lemma is_ascii_false_In x s : In x s -> 128 <= x -> is_ascii s = false.
Proof.
  intros H Hx. unfold is_ascii. destruct (forallb (fun c => c <? 128) s) eqn:E; [|reflexivity].
  pose proof (proj1 (forallb_forall _ _) E x H) as F. cbn beta in F. lia.
Qed.
Lemma int_of_str_special s : no_upper_special s = false -> int_of_str s = None /\ int_of_str (py_upper s) = None.
Proof.
  intros Hs. destruct (py_upper_has_special s Hs) as (x & l & Hx & Hl & Himg). split.
  - apply (int_of_str_bad 63); [|reflexivity]. unfold int_text.
    rewrite (is_ascii_false_In x s Hx (upper_special_nonascii x l Hl)).
    pose proof (proj1 (forallb_forall _ _) upper_special_question _ Hl) as F. cbn [fst] in F. apply Z.eqb_eq in F.
    rewrite <- F. apply in_map. exact Hx.
  - destruct (upper_special_letter x l Hl) as (y & Hy & Hr). destruct (capital_bad y Hr) as [Hb Hk].
    apply (int_of_str_bad y); [|exact Hb]. unfold int_text. destruct (is_ascii (py_upper s)); [exact (Himg y Hy)|].
    rewrite <- Hk. apply in_map. exact (Himg y Hy).
Qed.
Theorem int_of_str_upper s : int_of_str (py_upper s) = int_of_str s.
Proof.
  destruct (no_upper_special s) eqn:Es.
  - rewrite (py_upper_plain s Es). apply int_of_str_ascii_upper.
  - destruct (int_of_str_special s Es) as [-> ->]. reflexivity.
Qed.

(* ---- normalize_version ---- *)
Definition ver_pre (version : pyval) : option Z :=
  match py_int_val version with
  | Ok z => if z <? 1 then None else Some z
  | Err _ => match version with VStr s => assoc_sz (py_upper s) MICRO_VERSION_MAPPING | _ => None end
  end.
Definition ver_post (r : option Z) : res (option Z) :=
  match r with
  | None => Err ValueError
  | Some v => if ((0 <? v) && (v <? 41)) || memZ v MICRO_VERSIONS then Ok (Some v) else Err ValueError
  end.
Lemma normalize_version_eq v :
  normalize_version v = match v with VNone => Ok None | _ => ver_post (ver_pre v) end.
Proof. destruct v; reflexivity. Qed.

Lemma ver_post_exn r e : ver_post r = Err e -> e = ValueError.
Proof.
  unfold ver_post. destruct r as [v|]; [|intros H; injection H as <-; reflexivity].
  destruct (((0 <? v) && (v <? 41)) || memZ v MICRO_VERSIONS); intros H; [discriminate H|].
  injection H as <-. reflexivity.
Qed.
Lemma ver_post_ok r x : ver_post r = Ok x -> exists v, x = Some v /\ r = Some v /\ -3 <= v <= 40.
Proof.
  unfold ver_post. destruct r as [v|]; [|discriminate].
  destruct (((0 <? v) && (v <? 41)) || memZ v MICRO_VERSIONS) eqn:E; intros H; [|discriminate H].
  injection H as <-. exists v. split; [reflexivity|]. split; [reflexivity|].
  unfold MICRO_VERSIONS, memZ in E. cbn [existsb] in E. lia.
Qed.
Lemma ver_post_range v : -3 <= v <= 40 -> ver_post (Some v) = Ok (Some v).
Proof.
  intros H. unfold ver_post, MICRO_VERSIONS, memZ. cbn [existsb].
  destruct (((0 <? v) && (v <? 41)) || ((v =? -3) || ((v =? -2) || ((v =? -1) || ((v =? 0) || false))))) eqn:E;
    [reflexivity|lia].
Qed.
Lemma ver_post_out v : ~ -3 <= v <= 40 -> ver_post (Some v) = Err ValueError.
Proof.
  intros H. unfold ver_post, MICRO_VERSIONS, memZ. cbn [existsb].
  destruct (((0 <? v) && (v <? 41)) || ((v =? -3) || ((v =? -2) || ((v =? -1) || ((v =? 0) || false))))) eqn:E;
    [lia|reflexivity].
Qed.

Theorem normalize_version_exn v e : normalize_version v = Err e -> e = ValueError.
Proof. rewrite normalize_version_eq. destruct v; [discriminate| | |]; apply ver_post_exn. Qed.

Theorem normalize_version_ok v x : normalize_version v = Ok (Some x) -> -3 <= x <= 40.
Proof.
  rewrite normalize_version_eq. destruct v; [discriminate| | |]; intros H; apply ver_post_ok in H;
    destruct H as (w & Hx & _ & Hr); injection Hx as ->; exact Hr.
Qed.

Theorem normalize_version_none v : normalize_version v = Ok None <-> v = VNone.
Proof.
  split; [|intros ->; reflexivity]. rewrite normalize_version_eq.
  destruct v; [reflexivity| | |]; intros H; apply ver_post_ok in H; destruct H as (w & Hx & _); discriminate Hx.
Qed.

(* integers: exactly 1..40; in particular 0, -1, -2, -3 (the internal Micro QR constants) and 41 are refused *)
Theorem normalize_version_int n :
  normalize_version (VInt n) = if (1 <=? n) && (n <=? 40) then Ok (Some n) else Err ValueError.
Proof.
  rewrite normalize_version_eq. unfold ver_pre. cbn [py_int_val].
  destruct (n <? 1) eqn:E1.
  - replace ((1 <=? n) && (n <=? 40)) with false by lia. reflexivity.
  - destruct ((1 <=? n) && (n <=? 40)) eqn:E2; [apply ver_post_range; lia|apply ver_post_out; lia].
Qed.
Corollary normalize_version_int_refused n : n < 1 \/ 40 < n -> normalize_version (VInt n) = Err ValueError.
Proof. intros H. rewrite normalize_version_int. replace ((1 <=? n) && (n <=? 40)) with false by lia. reflexivity. Qed.
Theorem normalize_version_bool b :
  normalize_version (VBool b) = if b then Ok (Some 1) else Err ValueError.
Proof. destruct b; reflexivity. Qed.

(* strings: a decimal string is treated exactly as the integer it denotes *)
Theorem normalize_version_str_int s n :
  int_of_str s = Some n -> normalize_version (VStr s) = normalize_version (VInt n).
Proof. intros H. rewrite !normalize_version_eq. unfold ver_pre. cbn [py_int_val]. rewrite H. reflexivity. Qed.

(* ... any other string only as a Micro QR name, looked up after str.upper() *)
Theorem normalize_version_str_name s :
  int_of_str s = None ->
  normalize_version (VStr s) = match assoc_sz (py_upper s) MICRO_VERSION_MAPPING with
                               | Some x => Ok (Some x) | None => Err ValueError end.
Proof.
  intros H. rewrite normalize_version_eq. unfold ver_pre. cbn [py_int_val]. rewrite H.
  destruct (assoc_sz (py_upper s) MICRO_VERSION_MAPPING) as [x|] eqn:E; [|reflexivity].
  apply ver_post_range.
  unfold MICRO_VERSION_MAPPING in E. cbn [assoc_sz] in E.
  repeat match type of E with (if ?c then _ else _) = _ => destruct c; [injection E as <-; lia|] end.
  discriminate E.
Qed.

Definition name_M (k : Z) : list Z := [77; 49 + k].   (* "M1" .. "M4" for k = 0..3 *)
Lemma assoc_micro_names u x :
  assoc_sz u MICRO_VERSION_MAPPING = Some x <-> exists k, 0 <= k <= 3 /\ u = name_M k /\ x = k - 3.
Proof.
  unfold MICRO_VERSION_MAPPING. cbn [assoc_sz]. split.
  - intros E.
    destruct (str_eqb u (str_of_string "M1")) eqn:E1; [injection E as <-; apply str_eqb_eq in E1; exists 0; repeat split; try lia; exact E1|].
    destruct (str_eqb u (str_of_string "M2")) eqn:E2; [injection E as <-; apply str_eqb_eq in E2; exists 1; repeat split; try lia; exact E2|].
    destruct (str_eqb u (str_of_string "M3")) eqn:E3; [injection E as <-; apply str_eqb_eq in E3; exists 2; repeat split; try lia; exact E3|].
    destruct (str_eqb u (str_of_string "M4")) eqn:E4; [injection E as <-; apply str_eqb_eq in E4; exists 3; repeat split; try lia; exact E4|].
    discriminate E.
  - intros (k & Hk & -> & ->).
    assert (Hc : k = 0 \/ k = 1 \/ k = 2 \/ k = 3) by lia.
    destruct Hc as [->|[->|[->| ->]]]; reflexivity.
Qed.

(* the strings whose upper-case form is "M<d>": "M<d>" and "m<d>" (no image of a non-ASCII code point has an 'M' or a digit) *)
Lemma upper_images_no_M : forallb (fun p => forallb (fun y => negb (y =? 77) && negb ((49 <=? y) && (y <=? 52))) (snd p)) UPPER_SPECIAL = true.
Proof. vm_compute. reflexivity. Qed.
Lemma upper_is_name s k : 0 <= k <= 3 -> py_upper s = name_M k -> s = [77; 49 + k] \/ s = [109; 49 + k].
Proof.
  intros Hk H.
  assert (Hp : no_upper_special s = true).
  { destruct (no_upper_special s) eqn:Es; [reflexivity|exfalso].
    destruct (py_upper_has_special s Es) as (x & l & _ & Hl & Himg).
    pose proof (proj1 (forallb_forall _ _) upper_images_no_M _ Hl) as F. cbn [snd] in F.
    destruct l as [|y l']; [pose proof (proj1 (forallb_forall _ _) upper_special_facts _ Hl) as G; apply andb_prop in G; destruct G as [_ G]; discriminate G|].
    cbn [forallb] in F. apply andb_prop in F. destruct F as [F _].
    specialize (Himg y (or_introl eq_refl)). rewrite H in Himg. unfold name_M in Himg. cbn [In] in Himg. lia. }
  rewrite (py_upper_plain s Hp) in H.
  destruct s as [|a [|b [|c r]]]; try discriminate H.
  unfold name_M in H. remember (49 + k) as d eqn:Ed. cbn [ascii_upper map] in H. injection H as Ha Hb.
  unfold ascii_upper_cp in Ha, Hb.
  destruct ((97 <=? a) && (a <=? 122)) eqn:Ea; destruct ((97 <=? b) && (b <=? 122)) eqn:Eb; try lia.
  - right. f_equal; [lia|]. f_equal. lia.
  - left. f_equal; [lia|]. f_equal. lia.
Qed.
Lemma name_not_int k : 0 <= k <= 3 -> int_of_str [77; 49 + k] = None /\ int_of_str [109; 49 + k] = None.
Proof.
  intros Hk. assert (Hc : k = 0 \/ k = 1 \/ k = 2 \/ k = 3) by lia.
  destruct Hc as [->|[->|[->| ->]]]; split; vm_compute; reflexivity.
Qed.

(* "M1".."M4" in any letter case give -3..0 *)
Theorem normalize_version_micro_name s k :
  0 <= k <= 3 -> py_upper s = name_M k -> normalize_version (VStr s) = Ok (Some (k - 3)).
Proof.
  intros Hk Hu. assert (Hn : int_of_str s = None).
  { destruct (upper_is_name s k Hk Hu) as [-> | ->]; apply (name_not_int k Hk). }
  rewrite (normalize_version_str_name s Hn).
  assert (E : assoc_sz (py_upper s) MICRO_VERSION_MAPPING = Some (k - 3)).
  { apply assoc_micro_names. exists k. repeat split; try lia. exact Hu. }
  rewrite E. reflexivity.
Qed.

(* exact characterisation of the accepted strings *)
Theorem normalize_version_str_iff s x :
  normalize_version (VStr s) = Ok (Some x) <->
  (int_of_str s = Some x /\ 1 <= x <= 40) \/ (exists k, 0 <= k <= 3 /\ py_upper s = name_M k /\ x = k - 3).
Proof.
  split.
  - intros H. destruct (int_of_str s) as [n|] eqn:En.
    + rewrite (normalize_version_str_int s n En), normalize_version_int in H.
      destruct ((1 <=? n) && (n <=? 40)) eqn:E; [|discriminate H]. injection H as <-. left. split; [reflexivity|lia].
    + rewrite (normalize_version_str_name s En) in H.
      destruct (assoc_sz (py_upper s) MICRO_VERSION_MAPPING) as [y|] eqn:E; [|discriminate H].
      injection H as <-. right. apply assoc_micro_names. exact E.
  - intros [[Hn Hx]|(k & Hk & Hu & ->)].
    + rewrite (normalize_version_str_int s x Hn), normalize_version_int.
      replace ((1 <=? x) && (x <=? 40)) with true by lia. reflexivity.
    + apply normalize_version_micro_name; assumption.
Qed.
Corollary normalize_version_str_refused s :
  (forall n, int_of_str s = Some n -> n < 1 \/ 40 < n) -> (forall k, 0 <= k <= 3 -> py_upper s <> name_M k) ->
  normalize_version (VStr s) = Err ValueError.
Proof.
  intros Hi Hn. destruct (normalize_version (VStr s)) as [[x|]|e] eqn:E.
  - apply normalize_version_str_iff in E. destruct E as [[Hx Hr]|(k & Hk & Hu & _)].
    + specialize (Hi x Hx). lia.
    + exfalso. exact (Hn k Hk Hu).
  - apply normalize_version_none in E. discriminate E.
  - apply normalize_version_exn in E. rewrite E. reflexivity.
Qed.

(* the result does not depend on the letter case of the argument *)
Theorem normalize_version_upper s : normalize_version (VStr (py_upper s)) = normalize_version (VStr s).
Proof.
  rewrite !normalize_version_eq. unfold ver_pre. cbn [py_int_val]. rewrite int_of_str_upper, py_upper_idem. reflexivity.
Qed.
Corollary normalize_version_case s t : py_upper s = py_upper t -> normalize_version (VStr s) = normalize_version (VStr t).
Proof. intros H. rewrite <- (normalize_version_upper s), <- (normalize_version_upper t), H. reflexivity. Qed.

(* ---- normalize_mode ---- *)
Theorem normalize_mode_exn v e : normalize_mode v = Err e -> e = ValueError.
Proof.
  unfold normalize_mode. destruct v as [|b|z|s]; [discriminate| | |].
  - destruct (memZ (if b then 1 else 0) mode_values); intros H; [discriminate H|injection H as <-; reflexivity].
  - destruct (memZ z mode_values); intros H; [discriminate H|injection H as <-; reflexivity].
  - destruct (assoc_sz (py_lower s) MODE_MAPPING); intros H; [discriminate H|injection H as <-; reflexivity].
Qed.

Lemma mode_values_mem z : memZ z mode_values = true <-> VersionLemmas.valid_mode z.
Proof.
  unfold mode_values, MODE_MAPPING, memZ, VersionLemmas.valid_mode. cbn [map snd existsb]. lia.
Qed.

Lemma assoc_mode_names u m :
  assoc_sz u MODE_MAPPING = Some m <->
  (u = str_of_string "numeric" /\ m = 1) \/ (u = str_of_string "alphanumeric" /\ m = 2) \/
  (u = str_of_string "byte" /\ m = 4) \/ (u = str_of_string "kanji" /\ m = 8) \/ (u = str_of_string "hanzi" /\ m = 13).
Proof.
  unfold MODE_MAPPING. cbn [assoc_sz]. split.
  - intros E.
    destruct (str_eqb u (str_of_string "numeric")) eqn:E1; [injection E as <-; apply str_eqb_eq in E1; auto|].
    destruct (str_eqb u (str_of_string "alphanumeric")) eqn:E2; [injection E as <-; apply str_eqb_eq in E2; auto|].
    destruct (str_eqb u (str_of_string "byte")) eqn:E3; [injection E as <-; apply str_eqb_eq in E3; auto|].
    destruct (str_eqb u (str_of_string "kanji")) eqn:E4; [injection E as <-; apply str_eqb_eq in E4; auto 6|].
    destruct (str_eqb u (str_of_string "hanzi")) eqn:E5; [injection E as <-; apply str_eqb_eq in E5; auto 6|].
    discriminate E.
  - intros [[-> ->]|[[-> ->]|[[-> ->]|[[-> ->]|[-> ->]]]]]; reflexivity.
Qed.

Theorem normalize_mode_ok v m : normalize_mode v = Ok (Some m) -> VersionLemmas.valid_mode m.
Proof.
  unfold normalize_mode. destruct v as [|b|z|s]; [discriminate| | |].
  - destruct (memZ (if b then 1 else 0) mode_values) eqn:E; intros H; [|discriminate H]. injection H as <-.
    apply mode_values_mem. exact E.
  - destruct (memZ z mode_values) eqn:E; intros H; [|discriminate H]. injection H as <-.
    apply mode_values_mem. exact E.
  - destruct (assoc_sz (py_lower s) MODE_MAPPING) as [x|] eqn:E; intros H; [|discriminate H]. injection H as <-.
    apply assoc_mode_names in E. unfold VersionLemmas.valid_mode.
    destruct E as [[_ ->]|[[_ ->]|[[_ ->]|[[_ ->]|[_ ->]]]]]; auto 6.
Qed.
Theorem normalize_mode_none v : normalize_mode v = Ok None <-> v = VNone.
Proof.
  split; [|intros ->; reflexivity]. unfold normalize_mode. destruct v as [|b|z|s]; [reflexivity| | |].
  - destruct (memZ (if b then 1 else 0) mode_values); discriminate.
  - destruct (memZ z mode_values); discriminate.
  - destruct (assoc_sz (py_lower s) MODE_MAPPING); discriminate.
Qed.
(* integers: exactly the five mode constants *)
Theorem normalize_mode_int z :
  normalize_mode (VInt z) = if memZ z [1; 2; 4; 8; 13] then Ok (Some z) else Err ValueError.
Proof. reflexivity. Qed.
(* strings: only the lower-case form matters; the five names map to 1, 2, 4, 8, 13 *)
Theorem normalize_mode_lower s : normalize_mode (VStr (py_lower s)) = normalize_mode (VStr s).
Proof. unfold normalize_mode. rewrite py_lower_idem. reflexivity. Qed.
Corollary normalize_mode_case s t : py_lower s = py_lower t -> normalize_mode (VStr s) = normalize_mode (VStr t).
Proof. intros H. rewrite <- (normalize_mode_lower s), <- (normalize_mode_lower t), H. reflexivity. Qed.
Theorem normalize_mode_str_iff s m :
  normalize_mode (VStr s) = Ok (Some m) <->
  (py_lower s = str_of_string "numeric" /\ m = 1) \/ (py_lower s = str_of_string "alphanumeric" /\ m = 2) \/
  (py_lower s = str_of_string "byte" /\ m = 4) \/ (py_lower s = str_of_string "kanji" /\ m = 8) \/
  (py_lower s = str_of_string "hanzi" /\ m = 13).
Proof.
  rewrite <- assoc_mode_names. unfold normalize_mode.
  destruct (assoc_sz (py_lower s) MODE_MAPPING) as [x|]; split; intros H; try discriminate H; congruence.
Qed.

(* ---- normalize_errorlevel ---- *)
Theorem normalize_errorlevel_exn v a e : normalize_errorlevel v a = Err e -> e = ValueError.
Proof.
  unfold normalize_errorlevel. destruct v as [|b|z|s].
  - destruct a; intros H; [discriminate H|injection H as <-; reflexivity].
  - destruct (memZ (if b then 1 else 0) error_values); intros H; [discriminate H|injection H as <-; reflexivity].
  - destruct (memZ z error_values); intros H; [discriminate H|injection H as <-; reflexivity].
  - destruct (assoc_sz (py_upper s) ERROR_MAPPING); intros H; [discriminate H|injection H as <-; reflexivity].
Qed.
Definition valid_level (e : Z) : Prop := e = 1 \/ e = 0 \/ e = 3 \/ e = 2.
Lemma error_values_mem z : memZ z error_values = true <-> valid_level z.
Proof. unfold error_values, ERROR_MAPPING, memZ, valid_level. cbn [map snd existsb]. lia. Qed.
Lemma assoc_error_names u e :
  assoc_sz u ERROR_MAPPING = Some e <->
  (u = [76] /\ e = 1) \/ (u = [77] /\ e = 0) \/ (u = [81] /\ e = 3) \/ (u = [72] /\ e = 2).
Proof.
  unfold ERROR_MAPPING. cbn [assoc_sz]. split.
  - intros E.
    destruct (str_eqb u (str_of_string "L")) eqn:E1; [injection E as <-; apply str_eqb_eq in E1; auto|].
    destruct (str_eqb u (str_of_string "M")) eqn:E2; [injection E as <-; apply str_eqb_eq in E2; auto|].
    destruct (str_eqb u (str_of_string "Q")) eqn:E3; [injection E as <-; apply str_eqb_eq in E3; auto|].
    destruct (str_eqb u (str_of_string "H")) eqn:E4; [injection E as <-; apply str_eqb_eq in E4; auto 6|].
    discriminate E.
  - intros [[-> ->]|[[-> ->]|[[-> ->]|[-> ->]]]]; reflexivity.
Qed.
Theorem normalize_errorlevel_ok v a e : normalize_errorlevel v a = Ok (Some e) -> valid_level e.
Proof.
  unfold normalize_errorlevel. destruct v as [|b|z|s].
  - destruct a; discriminate.
  - destruct (memZ (if b then 1 else 0) error_values) eqn:E; intros H; [|discriminate H]. injection H as <-.
    apply error_values_mem. exact E.
  - destruct (memZ z error_values) eqn:E; intros H; [|discriminate H]. injection H as <-.
    apply error_values_mem. exact E.
  - destruct (assoc_sz (py_upper s) ERROR_MAPPING) as [x|] eqn:E; intros H; [|discriminate H]. injection H as <-.
    apply assoc_error_names in E. unfold valid_level.
    destruct E as [[_ ->]|[[_ ->]|[[_ ->]|[_ ->]]]]; auto.
Qed.
Theorem normalize_errorlevel_none v a : normalize_errorlevel v a = Ok None <-> v = VNone /\ a = true.
Proof.
  unfold normalize_errorlevel. destruct v as [|b|z|s].
  - destruct a; split; intros H; try discriminate H; auto. destruct H as [_ H]. discriminate H.
  - split; [|intros [H _]; discriminate H]. destruct (memZ (if b then 1 else 0) error_values); discriminate.
  - split; [|intros [H _]; discriminate H]. destruct (memZ z error_values); discriminate.
  - split; [|intros [H _]; discriminate H]. destruct (assoc_sz (py_upper s) ERROR_MAPPING); discriminate.
Qed.
Theorem normalize_errorlevel_int z a :
  normalize_errorlevel (VInt z) a = if memZ z [1; 0; 3; 2] then Ok (Some z) else Err ValueError.
Proof. reflexivity. Qed.
(* strings: only the upper-case form matters; L, M, Q, H -> 1, 0, 3, 2 *)
Theorem normalize_errorlevel_upper s a : normalize_errorlevel (VStr (py_upper s)) a = normalize_errorlevel (VStr s) a.
Proof. unfold normalize_errorlevel. rewrite py_upper_idem. reflexivity. Qed.
Corollary normalize_errorlevel_case s t a :
  py_upper s = py_upper t -> normalize_errorlevel (VStr s) a = normalize_errorlevel (VStr t) a.
Proof. intros H. rewrite <- (normalize_errorlevel_upper s), <- (normalize_errorlevel_upper t), H. reflexivity. Qed.
Theorem normalize_errorlevel_str_iff s a e :
  normalize_errorlevel (VStr s) a = Ok (Some e) <->
  (py_upper s = [76] /\ e = 1) \/ (py_upper s = [77] /\ e = 0) \/ (py_upper s = [81] /\ e = 3) \/ (py_upper s = [72] /\ e = 2).
Proof.
  rewrite <- assoc_error_names. unfold normalize_errorlevel.
  destruct (assoc_sz (py_upper s) ERROR_MAPPING) as [x|]; split; intros H; try discriminate H; congruence.
Qed.

(* The accepted level strings are the eight one-letter ASCII strings: Python's upper() maps no other str to "L", "M", "Q",
   "H" ('\u1e96'.upper() is 'H' + U+0331, '\ufb02'.upper() is 'FL', '\u017f'.upper() is 'S'). *)
Lemma upper_images_no_level :
  forallb (fun p => match snd p with [y] => negb (memZ y [76; 77; 81; 72]) | _ => true end) UPPER_SPECIAL = true.
Proof. vm_compute. reflexivity. Qed.
Lemma upper_single_level s y : memZ y [76; 77; 81; 72] = true -> py_upper s = [y] -> s = [y] \/ s = [y + 32].
Proof.
  intros Hy H. destruct s as [|c [|c2 r]].
  - discriminate H.
  - rewrite py_upper_cons in H. cbn [py_upper flat_map] in H. rewrite app_nil_r in H.
    destruct (py_upper_cp_cases c) as [[_ Hc]|Hc].
    + rewrite Hc in H. injection H as H. unfold ascii_upper_cp in H. unfold memZ in Hy. cbn [existsb] in Hy.
      destruct ((97 <=? c) && (c <=? 122)) eqn:E; [right; f_equal; lia|left; f_equal; lia].
    + exfalso. rewrite H in Hc. pose proof (proj1 (forallb_forall _ _) upper_images_no_level _ Hc) as F. cbn [snd] in F.
      rewrite Hy in F. discriminate F.
  - exfalso. rewrite !py_upper_cons in H. pose proof (py_upper_cp_nonempty c) as N1. pose proof (py_upper_cp_nonempty c2) as N2.
    destruct (py_upper_cp c) as [|a1 [|a2 l1]]; [contradiction| |discriminate H].
    destruct (py_upper_cp c2) as [|b1 l2]; [contradiction|discriminate H].
Qed.
Theorem normalize_errorlevel_str_ascii s a e :
  normalize_errorlevel (VStr s) a = Ok (Some e) -> In s [[76]; [108]; [77]; [109]; [81]; [113]; [72]; [104]].
Proof.
  intros H. apply normalize_errorlevel_str_iff in H.
  destruct H as [[H _]|[[H _]|[[H _]|[H _]]]]; apply upper_single_level in H; try reflexivity;
    destruct H as [-> | ->]; cbn; tauto.
Qed.
(* Python's case mappings at work (DESIGN.md 11.14.1): the Kelvin sign U+212A lowers to 'k', so 'Kanji' with it IS kanji;
   dotless i U+0131 uppers to 'I' but lowers to itself, e-acute stays non-ASCII, long s U+017F uppers to 'S', the
   ligature U+FB02 to 'FL', U+1E96 to 'H' + U+0331: all refused, as by /repo. *)
Example case_mapping_examples :
  normalize_mode (VStr [8490; 97; 110; 106; 105]) = Ok (Some 8) /\
  normalize_mode (VStr [8490; 65; 78; 74; 73]) = Ok (Some 8) /\
  normalize_mode (VStr [107; 97; 110; 106; 305]) = Err ValueError /\
  normalize_mode (VStr [107; 97; 110; 106; 304]) = Err ValueError /\
  normalize_mode (VStr [98; 121; 116; 233]) = Err ValueError /\
  normalize_errorlevel (VStr [383]) true = Err ValueError /\
  normalize_errorlevel (VStr [7830]) true = Err ValueError /\
  normalize_errorlevel (VStr [64258]) true = Err ValueError /\
  normalize_version (VStr [109; 305]) = Err ValueError /\
  normalize_version (VStr [383; 49]) = Err ValueError.
Proof. vm_compute. repeat split; reflexivity. Qed.

(* ---- normalize_mask ---- *)
Definition mask_post (k : Z) (is_micro : bool) : res (option Z) :=
  if (0 <=? k) && (k <? (if is_micro then 4 else 8)) then Ok (Some k) else Err ValueError.
Lemma normalize_mask_eq v b :
  normalize_mask v b = match v with VNone => Ok None | _ => do k <- py_int_val v; mask_post k b end.
Proof. destruct v; reflexivity. Qed.
Theorem normalize_mask_exn v b e : normalize_mask v b = Err e -> e = ValueError.
Proof.
  rewrite normalize_mask_eq. unfold mask_post. destruct v as [|c|z|s]; [discriminate| | |]; cbn [py_int_val bind].
  - destruct ((0 <=? (if c then 1 else 0)) && ((if c then 1 else 0) <? (if b then 4 else 8))); intros H;
      [discriminate H|injection H as <-; reflexivity].
  - destruct ((0 <=? z) && (z <? (if b then 4 else 8))); intros H; [discriminate H|injection H as <-; reflexivity].
  - destruct (int_of_str s) as [z|]; cbn [bind]; [|intros H; injection H as <-; reflexivity].
    destruct ((0 <=? z) && (z <? (if b then 4 else 8))); intros H; [discriminate H|injection H as <-; reflexivity].
Qed.
Theorem normalize_mask_ok v b k : normalize_mask v b = Ok (Some k) -> 0 <= k < (if b then 4 else 8).
Proof.
  rewrite normalize_mask_eq. destruct v as [|c|z|s]; [discriminate| | |]; cbn [py_int_val bind].
  - unfold mask_post. destruct ((0 <=? (if c then 1 else 0)) && ((if c then 1 else 0) <? (if b then 4 else 8))) eqn:E;
      intros H; [|discriminate H]. injection H as <-. destruct b; lia.
  - unfold mask_post. destruct ((0 <=? z) && (z <? (if b then 4 else 8))) eqn:E; intros H; [|discriminate H].
    injection H as <-. destruct b; lia.
  - destruct (int_of_str s) as [z|]; cbn [bind]; [|discriminate]. unfold mask_post.
    destruct ((0 <=? z) && (z <? (if b then 4 else 8))) eqn:E; intros H; [|discriminate H].
    injection H as <-. destruct b; lia.
Qed.
Theorem normalize_mask_none v b : normalize_mask v b = Ok None <-> v = VNone.
Proof.
  split; [|intros ->; reflexivity]. rewrite normalize_mask_eq.
  destruct v as [|c|z|s]; [reflexivity| | |]; cbn [py_int_val bind]; unfold mask_post.
  - destruct ((0 <=? (if c then 1 else 0)) && ((if c then 1 else 0) <? (if b then 4 else 8))); discriminate.
  - destruct ((0 <=? z) && (z <? (if b then 4 else 8))); discriminate.
  - destruct (int_of_str s) as [z|]; cbn [bind]; [|discriminate].
    destruct ((0 <=? z) && (z <? (if b then 4 else 8))); discriminate.
Qed.
(* integers: accepted iff 0 <= n < 8 (QR) resp. < 4 (Micro QR) *)
Theorem normalize_mask_int n b :
  normalize_mask (VInt n) b = if (0 <=? n) && (n <? (if b then 4 else 8)) then Ok (Some n) else Err ValueError.
Proof. reflexivity. Qed.
(* strings: a decimal string is treated exactly as the integer it denotes, everything else is refused *)
Theorem normalize_mask_str_int s n b : int_of_str s = Some n -> normalize_mask (VStr s) b = normalize_mask (VInt n) b.
Proof. intros H. rewrite !normalize_mask_eq. cbn [py_int_val]. rewrite H. reflexivity. Qed.
Theorem normalize_mask_str_refused s b : int_of_str s = None -> normalize_mask (VStr s) b = Err ValueError.
Proof. intros H. rewrite normalize_mask_eq. cbn [py_int_val]. rewrite H. reflexivity. Qed.

(* ---- examples ---- *)
Example ex_version_m5 : normalize_version (VStr (str_of_string "m5")) = Err ValueError.
Proof. vm_compute. reflexivity. Qed.
Example ex_version_sp2sp : normalize_version (VStr (str_of_string " 2 ")) = Ok (Some 2).
Proof. vm_compute. reflexivity. Qed.
Example ex_version_forms :
  normalize_version (VStr (str_of_string "m3")) = Ok (Some (-1)) /\
  normalize_version (VStr (str_of_string "M3")) = Ok (Some (-1)) /\
  normalize_version (VStr (str_of_string "+4_0")) = Ok (Some 40) /\
  normalize_version (VStr (str_of_string "007")) = Ok (Some 7) /\
  normalize_version (VStr (str_of_string "0")) = Err ValueError /\
  normalize_version (VStr (str_of_string "-1")) = Err ValueError /\
  normalize_version (VStr (str_of_string "41")) = Err ValueError /\
  normalize_version (VStr (str_of_string "4__0")) = Err ValueError /\
  normalize_version (VStr (str_of_string "")) = Err ValueError /\
  normalize_version (VInt 0) = Err ValueError /\ normalize_version (VInt (-3)) = Err ValueError /\
  normalize_version (VInt 41) = Err ValueError.
Proof. vm_compute. repeat split; reflexivity. Qed.
Example ex_mask_8 : normalize_mask (VStr (str_of_string "8")) false = Err ValueError.
Proof. vm_compute. reflexivity. Qed.
Example ex_mask_forms :
  normalize_mask (VStr (str_of_string " 3")) false = Ok (Some 3) /\
  normalize_mask (VStr (str_of_string "+2")) true = Ok (Some 2) /\
  normalize_mask (VStr (str_of_string "-0")) true = Ok (Some 0) /\
  normalize_mask (VStr (str_of_string "4")) true = Err ValueError /\
  normalize_mask (VInt (-1)) false = Err ValueError /\ normalize_mask (VInt 8) false = Err ValueError /\
  normalize_mask (VStr (str_of_string "x")) false = Err ValueError.
Proof. vm_compute. repeat split; reflexivity. Qed.
Example ex_error_x : normalize_errorlevel (VStr (str_of_string "x")) true = Err ValueError.
Proof. vm_compute. reflexivity. Qed.
Example ex_error_forms :
  normalize_errorlevel (VStr (str_of_string "q")) true = Ok (Some 3) /\
  normalize_errorlevel (VStr (str_of_string "H")) true = Ok (Some 2) /\
  normalize_errorlevel (VStr (str_of_string "LL")) true = Err ValueError /\
  normalize_errorlevel (VInt 4) true = Err ValueError /\ normalize_errorlevel VNone false = Err ValueError.
Proof. vm_compute. repeat split; reflexivity. Qed.
Example ex_mode_KANJI : normalize_mode (VStr (str_of_string "KANJI")) = Ok (Some 8).
Proof. vm_compute. reflexivity. Qed.
Example ex_mode_forms :
  normalize_mode (VStr (str_of_string "Alphanumeric")) = Ok (Some 2) /\
  normalize_mode (VStr (str_of_string "hanzi")) = Ok (Some 13) /\
  normalize_mode (VStr (str_of_string "binary")) = Err ValueError /\
  normalize_mode (VInt 3) = Err ValueError /\ normalize_mode (VInt 7) = Err ValueError /\
  normalize_mode (VInt 13) = Ok (Some 13).
Proof. vm_compute. repeat split; reflexivity. Qed.

(* ================================================================================================ *)
(* 2. Content -> segments (prepare_data)                                                            *)
(* ================================================================================================ *)
Definition bytes_ok (l : list Z) : Prop := Forall (fun b => 0 <= b < 256) l.
Definition wf_codec (r : codec_result) : Prop := match r with CROk bs => bytes_ok bs | _ => True end.
Definition wf_content (c : pcontent) : Prop :=
  match c with
  | PBytes bs => bytes_ok bs
  | PText given latin1 sjis utf8 => wf_codec given /\ wf_codec latin1 /\ wf_codec sjis /\ wf_codec utf8
  end.
(* the part's content consists of bytes 0..255 (for text: every successful codec result), and its effective
   mode (item[1] or the normalised global mode) is absent or one of the five mode constants *)
Definition wf_part (p : part) : Prop :=
  wf_content (p_content p) /\ match p_mode p with None => True | Some m => VersionLemmas.valid_mode m end.

(* the second conjunct is needed: a mode outside the five constants reaches the Kanji packer with a
   dangling byte (this is outside the documented argument domain; encode_args normalises the global mode) *)
Example part_mode_must_be_valid :
  make_segment (PBytes [65]) (Some 9) None = Err IndexErr /\
  prepare_data [{| p_content := PBytes [65]; p_mode := Some 9; p_enc := None |}] = Err IndexErr.
Proof. vm_compute. split; reflexivity. Qed.

Definition seg_inv (s : segment) : Prop := wf_seg s /\ (s_mode s = 4 -> s_enc s <> None).

Lemma data_to_bytes_exn c oe e : data_to_bytes c oe = Err e -> e = UnicodeErr \/ e = LookupErr.
Proof.
  assert (Hc : forall r x, (do bs <- of_codec r; Ok (bs, x)) = @Err (list Z * enc) e -> e = UnicodeErr \/ e = LookupErr).
  { intros r x. destruct r; cbn [of_codec bind]; intros H; [discriminate H| |]; injection H as <-; auto. }
  unfold data_to_bytes. destruct c as [bs|g l s u]; [discriminate|].
  destruct oe as [x|]; [apply Hc|].
  destruct l; [discriminate| |]; (destruct s; [discriminate| |]); apply Hc.
Qed.

Lemma pack_kanji_len : forall l bs, pack_kanji l = Ok bs -> lenZ bs = 13 * (lenZ l / 2).
Proof.
  induction l as [| a | a b r IH] using list_pair_ind; intros bs H.
  - injection H as <-. reflexivity.
  - discriminate H.
  - destruct (kanji_pair a b) eqn:Hk.
    + rewrite (pack_kanji_cons a b r Hk) in H. destruct (pack_kanji r) as [rest|e]; unfold bind in H; [|discriminate H].
      apply Ok_inj in H. subst bs. rewrite PackLemmas.lenZ_app, lenZ_bits_of by lia. rewrite (IH rest eq_refl).
      unfold lenZ. cbn [List.length]. lia.
    + pose proof (pack_kanji_spec (a :: b :: r)) as Hs. rewrite H in Hs. cbn [all_pairs] in Hs.
      rewrite Hk in Hs. discriminate Hs.
Qed.
Lemma pack_hanzi_len : forall l bs, pack_hanzi l = Ok bs -> lenZ bs = 13 * (lenZ l / 2).
Proof.
  induction l as [| a | a b r IH] using list_pair_ind; intros bs H.
  - injection H as <-. reflexivity.
  - discriminate H.
  - destruct (hanzi_pair a b) eqn:Hk.
    + rewrite (pack_hanzi_cons a b r Hk) in H. destruct (pack_hanzi r) as [rest|e]; unfold bind in H; [|discriminate H].
      apply Ok_inj in H. subst bs. rewrite PackLemmas.lenZ_app, lenZ_bits_of by lia. rewrite (IH rest eq_refl).
      unfold lenZ. cbn [List.length]. lia.
    + rewrite (pack_hanzi_reject a b r Hk) in H. discriminate H.
Qed.

Lemma pack_mode_len m data bs : VersionLemmas.valid_mode m ->
  pack_mode m data = Ok bs -> lenZ bs = payload_bits m (count_mode m data).
Proof.
  intros [->|[->|[->|[->| ->]]]] H.
  - change (pack_mode 1 data) with (Ok (pack_numeric (S (List.length data)) data)) in H. injection H as <-.
    apply numeric_length.
  - change (pack_mode 2 data) with (Ok (pack_alnum data)) in H. injection H as <-. apply alnum_length.
  - change (pack_mode 4 data) with (Ok (flat_map (fun b => bits_of b 8) data)) in H. injection H as <-.
    apply byte_length.
  - change (pack_mode 8 data) with (pack_kanji data) in H. apply pack_kanji_len in H. exact H.
  - change (pack_mode 13 data) with (pack_hanzi data) in H. apply pack_hanzi_len in H. exact H.
Qed.

Lemma pack_mode_exn m data e : VersionLemmas.valid_mode m ->
  (((m =? MODE_KANJI) || (m =? MODE_HANZI)) && negb (lenZ data / 2 * 2 =? lenZ data)) = false ->
  pack_mode m data = Err e -> e = ValueError.
Proof.
  intros [->|[->|[->|[->| ->]]]] Htwo H.
  - discriminate H.
  - discriminate H.
  - discriminate H.
  - change (pack_mode 8 data) with (pack_kanji data) in H. pose proof (pack_kanji_spec data) as Hs.
    rewrite H in Hs. destruct Hs as [_ [->|[_ Hodd]]]; [reflexivity|].
    change ((8 =? MODE_KANJI) || (8 =? MODE_HANZI)) with true in Htwo. cbn [andb] in Htwo.
    assert (Hev : Z.even (lenZ data) = true) by (apply even_half; lia). congruence.
  - change (pack_mode 13 data) with (pack_hanzi data) in H. pose proof (pack_hanzi_spec data) as Hs.
    rewrite H in Hs. destruct Hs as [_ [->|[_ Hodd]]]; [reflexivity|].
    change ((13 =? MODE_KANJI) || (13 =? MODE_HANZI)) with true in Htwo. cbn [andb] in Htwo.
    assert (Hev : Z.even (lenZ data) = true) by (apply even_half; lia). congruence.
Qed.

Definition omode_ok (mode : option Z) : Prop := match mode with None => True | Some m => VersionLemmas.valid_mode m end.

(* make_segment fails with ValueError (mode not applicable), UnicodeError or LookupError (codec) only;
   extends ModeLemmas.make_segment_refusal from byte strings to text contents *)
Lemma make_segment_cases c mode oe : omode_ok mode ->
  match make_segment c mode oe with
  | Ok s => seg_inv s
  | Err e => e = ValueError \/ e = UnicodeErr \/ e = LookupErr
  end.
Proof.
  intros Hm. destruct (make_segment c mode oe) as [s|e] eqn:H.
  - (* Ok *)
    pose proof (make_segment_pack c mode oe s H) as (data & senc0 & _ & Hpk & Hcnt).
    unfold make_segment in H.
    destruct (data_to_bytes c _) as [[data' senc]|x]; [|discriminate H].
    cbn [bind] in H.
    match type of H with context [bind ?X _] =>
      match X with (match mode with _ => _ end) => destruct X as [smode|x] eqn:Esm end end; [|discriminate H].
    cbn [bind] in H.
    match type of H with (if ?b then _ else _) = _ => destruct b end; [discriminate H|].
    match type of H with context [bind ?X _] => destruct X as [bs|x] end; [|discriminate H].
    cbn [bind] in H. injection H as <-. cbn [s_mode s_count s_bits s_enc] in *.
    assert (Hv : VersionLemmas.valid_mode smode).
    { destruct mode as [m|].
      - destruct (m <? _) in Esm; [discriminate Esm|]. injection Esm as <-. exact Hm.
      - injection Esm as <-. change (oz_eqb None (Some MODE_BYTE)) with false. cbv iota.
        unfold VersionLemmas.valid_mode. destruct (find_mode_cases data') as [E|[E|[E|E]]]; rewrite E; auto 6. }
    split; [split; [exact Hv|split]|]; cbn [s_mode s_count s_bits s_enc].
    + pose proof (PackLemmas.lenZ_nonneg data') as Hl.
      match goal with |- 0 <= (if ?b then _ else _) => destruct b end; lia.
    + rewrite Hcnt. apply pack_mode_len; assumption.
    + intros ->. change (4 =? MODE_BYTE) with true. cbv iota. discriminate.
  - (* Err *)
    unfold make_segment in H.
    destruct (data_to_bytes c _) as [[data senc]|x] eqn:Ed.
    2:{ cbn [bind] in H. injection H as <-. right. eapply data_to_bytes_exn. exact Ed. }
    cbn [bind] in H.
    match type of H with context [bind ?X _] =>
      match X with (match mode with _ => _ end) => destruct X as [smode|x] eqn:Esm end end.
    2:{ cbn [bind] in H. injection H as <-. destruct mode as [m|]; [|discriminate Esm].
        destruct (m <? _) in Esm; [|discriminate Esm]. injection Esm as <-. left. reflexivity. }
    cbn [bind] in H.
    assert (Hv : VersionLemmas.valid_mode smode).
    { destruct mode as [m|].
      - destruct (m <? _) in Esm; [discriminate Esm|]. injection Esm as <-. exact Hm.
      - injection Esm as <-. change (oz_eqb None (Some MODE_BYTE)) with false. cbv iota.
        unfold VersionLemmas.valid_mode. destruct (find_mode_cases data) as [E|[E|[E|E]]]; rewrite E; auto 6. }
    match type of H with (if ?b then _ else _) = _ => destruct b eqn:Etwo end;
      [injection H as <-; left; reflexivity|].
    fold (pack_mode smode data) in H.
    destruct (pack_mode smode data) as [bs|x] eqn:Epk; [discriminate H|]. cbn [bind] in H. injection H as <-.
    left. apply (pack_mode_exn smode data x Hv); [|exact Epk].
    destruct ((smode =? MODE_KANJI) || (smode =? MODE_HANZI)); [|reflexivity]. cbn [andb] in *. exact Etwo.
Qed.

Lemma payload_bits_add m c1 c2 : VersionLemmas.valid_mode m -> 0 <= c1 -> 0 <= c2 ->
  c1 mod merge_group m = 0 -> payload_bits m (c1 + c2) = payload_bits m c1 + payload_bits m c2.
Proof.
  intros [->|[->|[->|[->| ->]]]] H1 H2 Hg.
  - change (merge_group 1) with 3 in Hg. change (payload_bits 1 (c1 + c2))
      with (10 * ((c1 + c2) / 3) + (if (c1 + c2) mod 3 =? 0 then 0 else if (c1 + c2) mod 3 =? 1 then 4 else 7)).
    change (payload_bits 1 c1) with (10 * (c1 / 3) + (if c1 mod 3 =? 0 then 0 else if c1 mod 3 =? 1 then 4 else 7)).
    change (payload_bits 1 c2) with (10 * (c2 / 3) + (if c2 mod 3 =? 0 then 0 else if c2 mod 3 =? 1 then 4 else 7)).
    assert (E1 : (c1 + c2) / 3 = c1 / 3 + c2 / 3) by lia.
    assert (E2 : (c1 + c2) mod 3 = c2 mod 3) by lia.
    rewrite E1, E2, Hg. change (0 =? 0) with true. cbv iota. lia.
  - change (merge_group 2) with 2 in Hg.
    change (payload_bits 2 (c1 + c2)) with (11 * ((c1 + c2) / 2) + 6 * ((c1 + c2) mod 2)).
    change (payload_bits 2 c1) with (11 * (c1 / 2) + 6 * (c1 mod 2)).
    change (payload_bits 2 c2) with (11 * (c2 / 2) + 6 * (c2 mod 2)). lia.
  - change (payload_bits 4 (c1 + c2)) with (8 * (c1 + c2)). change (payload_bits 4 c1) with (8 * c1).
    change (payload_bits 4 c2) with (8 * c2). lia.
  - change (payload_bits 8 (c1 + c2)) with (13 * (c1 + c2)). change (payload_bits 8 c1) with (13 * c1).
    change (payload_bits 8 c2) with (13 * c2). lia.
  - change (payload_bits 13 (c1 + c2)) with (13 * (c1 + c2)). change (payload_bits 13 c1) with (13 * c1).
    change (payload_bits 13 c2) with (13 * c2). lia.
Qed.

Lemma add_segment_inv acc s : Forall seg_inv acc -> seg_inv s -> Forall seg_inv (add_segment acc s).
Proof.
  intros HF Hs. destruct acc as [|prev rest]; cbn [add_segment]; [constructor; [exact Hs|constructor]|].
  destruct ((s_mode prev =? s_mode s) && oenc_eqb (s_enc prev) (s_enc s)
            && (s_count prev mod merge_group (s_mode s) =? 0)) eqn:E.
  - apply Forall_cons_iff in HF. destruct HF as [[(Hpm & Hpc & Hpl) _] HF].
    destruct Hs as [(Hm & Hc & Hl) He]. constructor; [|exact HF].
    assert (Em : s_mode prev = s_mode s) by lia. rewrite Em in *.
    split; [split; [exact Hm|split]|exact He]; cbn [s_mode s_count s_bits].
    + lia.
    + rewrite PackLemmas.lenZ_app, Hpl, Hl. symmetry. apply payload_bits_add; try assumption. lia.
  - constructor; assumption.
Qed.

Theorem stage_prepare_exn parts : Forall wf_part parts ->
  match prepare_data parts with
  | Ok segs => Forall seg_inv segs
  | Err e => e = ValueError \/ e = UnicodeErr \/ e = LookupErr
  end.
Proof.
  unfold prepare_data. intros Hp.
  assert (G : forall acc, Forall seg_inv acc ->
              match prepare_aux parts acc with
              | Ok segs => Forall seg_inv segs
              | Err e => e = ValueError \/ e = UnicodeErr \/ e = LookupErr end).
  { induction Hp as [|p r [_ Hpm] Hr IH]; intros acc Hacc; cbn [prepare_aux].
    - apply Forall_rev. exact Hacc.
    - pose proof (make_segment_cases (p_content p) (p_mode p) (p_enc p) Hpm) as Hc.
      destruct (make_segment (p_content p) (p_mode p) (p_enc p)) as [s|e]; cbn [bind]; [|exact Hc].
      apply IH. apply add_segment_inv; assumption. }
  apply G. constructor.
Qed.

(* ================================================================================================ *)
(* 3. Version selection, capacity and bit length lookups                                            *)
(* ================================================================================================ *)
Lemma seg_inv_wf segs : Forall seg_inv segs -> Forall wf_seg segs.
Proof. intros H. eapply Forall_impl; [|exact H]. intros s [Hs _]. exact Hs. Qed.

Lemma find_version_nil error eci micro :
  find_version [] error eci micro false =
  if eci && otruthy micro then Err AssertErr
  else if (match micro with Some b => b | None => true end) && negb eci then Err ValueError
  else find_version_loop [] eci false (zrange 1 41) error.
Proof. destruct micro as [[|]|], eci, error; reflexivity. Qed.

Lemma zrange_1_41 v : In v (zrange 1 41) -> -2 <= v <= 40.
Proof. intros H. apply zrange_In_inv in H. lia. Qed.

(* what a successful find_version guarantees (also for an empty segment list) *)
Lemma find_version_ok_facts segs error eci micro v : Forall wf_seg segs ->
  find_version segs error eci micro false = Ok v ->
  -3 <= v <= 40 /\ spec_fits v error (map (abs_seg eci) segs) false = true /\
  (v <= 0 -> micro <> Some false /\ eci = false) /\ (1 <= v -> micro <> Some true) /\ (v = -3 -> error = None).
Proof.
  intros Hwf H. destruct segs as [|s0 r0].
  - rewrite find_version_nil in H.
    destruct (eci && otruthy micro) eqn:E1; [discriminate H|].
    destruct ((match micro with Some b => b | None => true end) && negb eci) eqn:E2; [discriminate H|].
    rewrite (loop_from_M2 [] eci false error Hwf (zrange 1 41) zrange_1_41) in H.
    destruct (find _ (zrange 1 41)) as [w|] eqn:Ef; [|discriminate H]. injection H as ->.
    apply find_some in Ef. destruct Ef as [Hin Hf]. apply zrange_In_inv in Hin.
    split; [lia|]. split; [exact Hf|]. split; [lia|]. split; [|lia].
    intros _ ->. destruct eci; discriminate.
  - assert (Hne : s0 :: r0 <> []) by discriminate.
    destruct (find_version_sound _ _ _ _ _ _ Hwf Hne H) as (Hf & _ & _).
    destruct (find_version_kind _ _ _ _ _ _ Hwf Hne H) as (Hv & Hm & Hq & H1).
    repeat split; try assumption; try lia; try (apply Hm; assumption).
Qed.

Lemma find_version_err segs error eci micro e : Forall wf_seg segs -> eci && otruthy micro = false ->
  find_version segs error eci micro false = Err e -> e = DataOverflow \/ e = ValueError.
Proof.
  intros Hwf Hex H. destruct segs as [|s0 r0].
  - rewrite find_version_nil, Hex in H.
    destruct ((match micro with Some b => b | None => true end) && negb eci); [injection H as <-; right; reflexivity|].
    rewrite (loop_from_M2 [] eci false error Hwf (zrange 1 41) zrange_1_41) in H.
    destruct (find _ (zrange 1 41)); [discriminate H|]. injection H as <-. left. reflexivity.
  - assert (Hne : s0 :: r0 <> []) by discriminate.
    destruct (find_version_total _ error _ _ false Hwf Hne Hex) as [[w Hw]|Hd]; rewrite H in *.
    + discriminate Hw.
    + injection Hd as ->. left. reflexivity.
Qed.

Lemma mode_available_mono m g v : g <= v -> mode_available m g = true -> mode_available m v = true.
Proof.
  intros Hgv. unfold mode_available. destruct (0 <? v) eqn:Ev; [reflexivity|].
  destruct (0 <? g) eqn:Eg; [lia|]. destruct (m =? 1); [reflexivity|].
  destruct (m =? 2); [lia|]. destruct ((m =? 4) || (m =? 8)); [lia|]. intros H; exact H.
Qed.
Lemma all_available_mono segs g v : g <= v -> all_available g segs = true -> all_available v segs = true.
Proof.
  intros Hgv. unfold all_available. rewrite !forallb_forall. intros H m Hm.
  apply (mode_available_mono m g v Hgv). apply H. exact Hm.
Qed.

Lemma cap_mono_all :
  forallb (fun g => forallb (fun v => forallb (fun e =>
     match spec_capacity g (Some e) with
     | Some _ => if g <=? v then match spec_capacity v (Some e) with Some _ => true | None => false end else true
     | None => true end) [1; 0; 3; 2]) (zrange (-3) 41)) (zrange (-3) 41) = true.
Proof. vm_compute. reflexivity. Qed.

Lemma valid_level_In e : valid_level e -> In e [1; 0; 3; 2].
Proof. unfold valid_level. cbn [In]. lia. Qed.

(* an error level that exists for a version exists for every larger version *)
Lemma cap_mono g v e c : valid_level e -> -3 <= g -> g <= v <= 40 ->
  spec_capacity g (Some e) = Some c -> exists c', spec_capacity v (Some e) = Some c'.
Proof.
  intros He Hg Hv Hc. pose proof cap_mono_all as T. rewrite forallb_forall in T.
  specialize (T g (zrange_In (-3) 41 g ltac:(lia))). cbv beta in T. rewrite forallb_forall in T.
  specialize (T v (zrange_In (-3) 41 v ltac:(lia))). cbv beta in T. rewrite forallb_forall in T.
  specialize (T e (valid_level_In e He)). cbv beta in T. rewrite Hc in T.
  destruct (g <=? v) eqn:E; [|lia]. destruct (spec_capacity v (Some e)) as [c'|]; [eauto|discriminate T].
Qed.

Lemma cap_levels_all :
  forallb (fun v => forallb (fun e =>
     match spec_capacity v (Some e) with Some _ => memZ e (levels_of_version v) | None => true end) [1; 0; 3; 2])
    (zrange (-3) 41) = true.
Proof. vm_compute. reflexivity. Qed.
Lemma cap_level_in v e c : valid_level e -> -3 <= v <= 40 ->
  spec_capacity v (Some e) = Some c -> In e (levels_of_version v) /\ v <> -3.
Proof.
  intros He Hv Hc. pose proof cap_levels_all as T. rewrite forallb_forall in T.
  specialize (T v (zrange_In (-3) 41 v ltac:(lia))). cbv beta in T. rewrite forallb_forall in T.
  specialize (T e (valid_level_In e He)). cbv beta in T. rewrite Hc in T.
  split; [apply memZ_In; exact T|]. intros ->. unfold valid_level in He.
  destruct He as [->|[->|[->| ->]]]; vm_compute in Hc; discriminate Hc.
Qed.

(* the facts the rest of the pipeline needs about (segments, version, level) *)
Definition olevel_ok (e : option Z) : Prop := match e with None => True | Some x => valid_level x end.
Definition stage_ok (segs : list segment) (eci : bool) (v : Z) (e : option Z) : Prop :=
  -3 <= v <= 40 /\ olevel_ok e /\ all_available v segs = true /\
  exists cap, capacity v e = Ok cap /\ spec_bits v (map (abs_seg eci) segs) false <= cap.

Lemma capacity_Ok_spec v e c : capacity v e = Ok c -> spec_capacity v e = Some c.
Proof. apply capacity_ok_iff. Qed.

(* the level encode() continues with *)
Definition eff_error (version : Z) (error : option Z) : option Z :=
  match error with None => if version =? VERSION_M1 then None else Some ERROR_LEVEL_L | e => e end.

(* after find_version: for the guessed version, and for every explicitly requested version that is not
   smaller, both table lookups are defined.  In particular a requested Micro QR version with a level it
   does not have (M2-Q, M3-Q, Mx-H ...) never reaches capacity(): the guessed version is larger. *)
Theorem stage_version_lookups segs error eci micro guessed v :
  Forall wf_seg segs -> olevel_ok error ->
  find_version segs error eci micro false = Ok guessed -> guessed <= v <= 40 ->
  -3 <= v <= 40 /\ all_available v segs = true /\
  (exists cap, capacity v (eff_error v error) = Ok cap) /\
  bit_length_with_overhead segs v eci false = Ok (spec_bits v (map (abs_seg eci) segs) false) /\
  olevel_ok (eff_error v error).
Proof.
  intros Hwf He Hfv Hv.
  destruct (find_version_ok_facts _ _ _ _ _ Hwf Hfv) as (Hg & Hfit & _ & _ & Hm1).
  rewrite spec_fits_unfold in Hfit. apply andb_prop in Hfit. destruct Hfit as [Hav Hcap].
  assert (Hav' : all_available v segs = true) by (apply (all_available_mono segs guessed v); [lia|exact Hav]).
  split; [lia|]. split; [exact Hav'|]. split; [|split].
  - destruct error as [e|]; cbn [eff_error].
    + assert (Hg3 : guessed <> -3) by (intros E; specialize (Hm1 E); discriminate Hm1).
      unfold eff_level in Hcap. destruct (guessed =? -3) eqn:E3; [lia|].
      destruct (spec_capacity guessed (Some e)) as [c|] eqn:Ec; [|discriminate Hcap].
      destruct (cap_mono guessed v e c He ltac:(lia) ltac:(lia) Ec) as [c' Hc'].
      exists c'. rewrite capacity_spec, Hc'. reflexivity.
    + unfold VERSION_M1, ERROR_LEVEL_L. destruct (v =? -3) eqn:E3.
      * assert (v = -3) as -> by lia. exists 20. reflexivity.
      * destruct (cap_table v ltac:(lia)) as (cl & cm & Hl & _). exists cl. rewrite capacity_spec, Hl. reflexivity.
  - rewrite (bit_length_spec segs v eci false ltac:(lia) Hwf), Hav'. reflexivity.
  - destruct error as [e|]; cbn [eff_error]; [exact He|].
    destruct (v =? VERSION_M1); [exact I|]. unfold olevel_ok, valid_level, ERROR_LEVEL_L. auto.
Qed.

(* ---- boosting the error level keeps all of this ---- *)
Lemma lenZ_one {A} (l : list A) : lenZ l = 1 -> exists x, l = [x].
Proof. destruct l as [|x [|y r]]; unfold lenZ; cbn [List.length]; intros H; try lia. eauto. Qed.

Lemma levels_valid v x : In x (levels_of_version v) -> valid_level x.
Proof.
  unfold levels_of_version, valid_level. destruct (v =? -3); [intros []|].
  destruct (v <? 0); [cbn [In]; lia|]. destruct (v =? 0); cbn [In]; lia.
Qed.
Lemma spec_boost_in v e segs sa : spec_boost v e segs sa = e \/ In (spec_boost v e segs sa) (levels_of_version v).
Proof.
  unfold spec_boost. generalize (levels_of_version v) as ls. intros ls. revert e.
  induction ls as [|l r IH]; intros e; cbn [fold_left]; [left; reflexivity|].
  match goal with |- context [fold_left _ r ?x] => destruct (IH x) as [E|E] end.
  - rewrite E. destruct ((level_rank e <? level_rank l) && spec_fits v (Some l) segs sa); [right; left; reflexivity|left; reflexivity].
  - right. right. exact E.
Qed.

Theorem stage_boost_exn segs eci v e : Forall wf_seg segs -> stage_ok segs eci v e ->
  exists e', boost_error_level v e segs eci false = Ok e' /\ stage_ok segs eci v e'.
Proof.
  intros Hwf Hst. destruct e as [e|]; [|exists None; split; [reflexivity|exact Hst]].
  destruct (Z.eq_dec e 2) as [->|Hn2]; [exists (Some 2); split; [reflexivity|exact Hst]|].
  destruct (Z.eq_dec (lenZ segs) 1) as [H1|Hn1].
  2:{ exists (Some e). split; [apply boost_multi; exact Hn1|exact Hst]. }
  destruct (lenZ_one segs H1) as [s ->].
  destruct Hst as (Hv & He & Hav & cap & Hcap & Hlen). cbn [olevel_ok] in He.
  pose proof (capacity_Ok_spec _ _ _ Hcap) as Hsc.
  destruct (cap_level_in v e cap He Hv Hsc) as [Hin Hv3].
  assert (Hws : wf_seg s) by (inversion Hwf; assumption).
  assert (Havs : mode_available (s_mode s) v = true).
  { unfold all_available, seg_modes in Hav. cbn [map forallb] in Hav. apply andb_prop in Hav. apply Hav. }
  rewrite (boost_spec v e s eci false Hv Hws Havs Hin).
  eexists. split; [reflexivity|].
  assert (Hfit : spec_fits v (Some e) (map (abs_seg eci) [s]) false = true).
  { rewrite spec_fits_unfold, Hav. unfold eff_level. destruct (v =? -3) eqn:E3; [lia|]. rewrite Hsc. cbn [andb]. lia. }
  apply spec_boost_fits in Hfit. set (e' := spec_boost v e (map (abs_seg eci) [s]) false) in *.
  rewrite spec_fits_unfold in Hfit. apply andb_prop in Hfit. destruct Hfit as [_ Hfit].
  unfold eff_level in Hfit. destruct (v =? -3) eqn:E3; [lia|].
  destruct (spec_capacity v (Some e')) as [c'|] eqn:Ec'; [|discriminate Hfit].
  split; [exact Hv|]. split; [|split; [exact Hav|]].
  - cbn [olevel_ok]. destruct (spec_boost_in v e (map (abs_seg eci) [s]) false) as [E|E]; fold e' in E.
    + rewrite E. exact He.
    + apply (levels_valid v). exact E.
  - exists c'. split; [rewrite capacity_spec, Ec'; reflexivity|lia].
Qed.

(* ================================================================================================ *)
(* 4. The data bit stream (write_segment ... write_pad_codewords)                                   *)
(* ================================================================================================ *)
Lemma spec_cci_nonneg_all :
  forallb (fun m => forallb (fun v => 0 <=? spec_cci m v) (zrange (-3) 41)) [1; 2; 4; 8; 13] = true.
Proof. vm_compute. reflexivity. Qed.
Lemma spec_cci_nonneg m v : VersionLemmas.valid_mode m -> -3 <= v <= 40 -> 0 <= spec_cci m v.
Proof.
  intros Hm Hv. pose proof spec_cci_nonneg_all as T. rewrite forallb_forall in T.
  specialize (T m (proj1 (valid_mode_In m) Hm)). cbv beta in T. rewrite forallb_forall in T.
  specialize (T v (zrange_In (-3) 41 v ltac:(lia))). cbv beta in T. lia.
Qed.

Lemma eci_number_exn x e : eci_number (Some x) = Err e -> e = ValueError \/ e = LookupErr.
Proof.
  unfold eci_number. destruct (e_canon x) as [c|]; [|intros H; injection H as <-; right; reflexivity].
  destruct (assocS c ECI_ASSIGNMENT_NUM); intros H; [discriminate H|injection H as <-; left; reflexivity].
Qed.

(* ECI header: TypeError would need a byte segment without encoding -- make_segment never builds one *)
Lemma hdr_eci_cases s (eci : bool) : seg_inv s ->
  match (if eci && (s_mode s =? MODE_BYTE) && negb (enc_is_default (s_enc s))
         then do n <- eci_number (s_enc s); Ok (bits_of MODE_ECI 4 ++ bits_of n 8) else Ok []) with
  | Ok h => lenZ h = if eci && (s_mode s =? MODE_BYTE) && negb (enc_is_default (s_enc s)) then 12 else 0
  | Err x => x = ValueError \/ x = LookupErr
  end.
Proof.
  intros [_ Henc]. destruct (eci && (s_mode s =? MODE_BYTE) && negb (enc_is_default (s_enc s))) eqn:E; [|reflexivity].
  assert (Hm : s_mode s = 4) by (unfold MODE_BYTE in E; lia).
  destruct (s_enc s) as [x|] eqn:Ex; [|exfalso; exact (Henc Hm eq_refl)].
  destruct (eci_number (Some x)) as [n|e] eqn:En; cbn [bind].
  - rewrite PackLemmas.lenZ_app, !lenZ_bits_of by lia. reflexivity.
  - apply (eci_number_exn x e En).
Qed.

(* mode header: the Micro QR mode table has no Hanzi entry, but Hanzi is not available in M1..M4 *)
Lemma hdr_mode_ok s v : VersionLemmas.valid_mode (s_mode s) -> -3 <= v <= 40 -> mode_available (s_mode s) v = true ->
  exists h,
    match (if v <? 1 then Some v else None) with
    | None => Ok (bits_of (s_mode s) 4 ++ (if s_mode s =? MODE_HANZI then bits_of 1 4 else []))
    | Some v => if VERSION_M1 <? v
                then do mm <- getZ (s_mode s) MODE_TO_MICRO_MODE_MAPPING; Ok (bits_of mm (v + 3))
                else Ok []
    end = Ok h /\
    lenZ h = (if 0 <? v then 4 else v + 3) + (if (s_mode s =? 13) && (0 <? v) then 4 else 0).
Proof.
  intros Hm Hv Hav. destruct (v <? 1) eqn:E1.
  - destruct (0 <? v) eqn:E0; [lia|]. rewrite andb_false_r.
    unfold VERSION_M1. destruct (-3 <? v) eqn:E3.
    + assert (Hk : exists mm, getZ (s_mode s) MODE_TO_MICRO_MODE_MAPPING = Ok mm).
      { unfold mode_available in Hav. rewrite E0 in Hav.
        destruct Hm as [E|[E|[E|[E|E]]]]; rewrite E in *; try (eexists; reflexivity). cbv in Hav. discriminate Hav. }
      destruct Hk as [mm ->]. cbn [bind]. eexists. split; [reflexivity|]. rewrite lenZ_bits_of by lia. lia.
    + eexists. split; [reflexivity|]. unfold lenZ. cbn [List.length]. lia.
  - destruct (0 <? v) eqn:E0; [|lia]. rewrite andb_true_r. eexists. split; [reflexivity|].
    unfold MODE_HANZI. rewrite PackLemmas.lenZ_app, lenZ_bits_of by lia.
    destruct (s_mode s =? 13); [rewrite lenZ_bits_of by lia; lia|]. unfold lenZ. cbn [List.length]. lia.
Qed.

Lemma write_segment_cases s eci v r : seg_inv s -> -3 <= v <= 40 -> mode_available (s_mode s) v = true ->
  cci_length (s_mode s) r = Ok (spec_cci (s_mode s) v) ->
  match write_segment s (if v <? 1 then Some v else None) r eci with
  | Ok bits => lenZ bits = seg_cost v (abs_seg eci s)
  | Err x => x = ValueError \/ x = LookupErr
  end.
Proof.
  intros Hs Hv Hav Hcci. pose proof Hs as [(Hm & Hc & Hl) _].
  unfold write_segment. cbv zeta.
  pose proof (hdr_eci_cases s eci Hs) as He.
  destruct (if eci && (s_mode s =? MODE_BYTE) && negb (enc_is_default (s_enc s))
            then do n <- eci_number (s_enc s); Ok (bits_of MODE_ECI 4 ++ bits_of n 8) else Ok []) as [h1|x];
    cbn [bind]; [|exact He].
  destruct (hdr_mode_ok s v Hm Hv Hav) as (h2 & Hh2 & Hl2). rewrite Hh2. cbn [bind].
  rewrite Hcci. cbn [bind].
  pose proof (spec_cci_nonneg (s_mode s) v Hm Hv) as Hn.
  rewrite !PackLemmas.lenZ_app, lenZ_bits_of by lia. rewrite He, Hl2, Hl.
  unfold seg_cost, abs_seg. lia.
Qed.

Lemma write_segments_cases segs eci v r : Forall seg_inv segs -> -3 <= v <= 40 ->
  all_available v segs = true ->
  (forall m, VersionLemmas.valid_mode m -> cci_length m r = if mode_available m v then Ok (spec_cci m v) else Err KeyErr) ->
  match write_segments segs (if v <? 1 then Some v else None) r eci with
  | Ok stream => lenZ stream = spec_bits v (map (abs_seg eci) segs) false
  | Err x => x = ValueError \/ x = LookupErr
  end.
Proof.
  intros Hs Hv Hav Hcci. rewrite spec_bits_sum. cbv iota.
  induction Hs as [|s rs Hs1 Hrs IH]; [reflexivity|].
  unfold all_available, seg_modes in Hav. cbn [map forallb] in Hav. apply andb_prop in Hav. destruct Hav as [Ha1 Ha2].
  specialize (IH Ha2). cbn [write_segments map fold_right].
  assert (Hc1 : cci_length (s_mode s) r = Ok (spec_cci (s_mode s) v)).
  { destruct Hs1 as [(Hm & _) _]. rewrite (Hcci _ Hm), Ha1. reflexivity. }
  pose proof (write_segment_cases s eci v r Hs1 Hv Ha1 Hc1) as H1.
  destruct (write_segment s (if v <? 1 then Some v else None) r eci) as [a|x]; cbn [bind]; [|exact H1].
  destruct (write_segments rs (if v <? 1 then Some v else None) r eci) as [b|x]; cbn [bind]; [|exact IH].
  rewrite PackLemmas.lenZ_app. lia.
Qed.

(* length of the padded stream *)
Lemma padded_length v cap t (stream : bits) : 0 <= t -> cap mod 8 = (if is_m1_m3 v then 4 else 0) ->
  let b1 := stream ++ zeros (Z.min (cap - lenZ stream) t) in
  let buff := write_pad_codewords (write_padding_bits b1 v) v cap in
  cap <= lenZ buff /\ (is_m1_m3 v = true -> lenZ stream <= cap -> lenZ buff = cap).
Proof.
  intros Ht Hmod. cbv zeta. pose proof (PackLemmas.lenZ_nonneg stream) as H0.
  unfold write_pad_codewords, write_padding_bits. destruct (is_m1_m3 v) eqn:Em.
  - set (b1 := stream ++ zeros (Z.min (cap - lenZ stream) t)).
    assert (Hb1 : lenZ b1 = lenZ stream + Z.max 0 (Z.min (cap - lenZ stream) t)).
    { unfold b1. rewrite PackLemmas.lenZ_app, lenZ_zeros. reflexivity. }
    destruct (lenZ b1 <? cap - 4) eqn:Elt.
    + rewrite !PackLemmas.lenZ_app, !lenZ_zeros, lenZ_pad_codewords. split; [lia|]. intros _ _. lia.
    + rewrite !PackLemmas.lenZ_app, !lenZ_zeros. split; [lia|]. intros _ Hle. lia.
  - rewrite !PackLemmas.lenZ_app, !lenZ_zeros, lenZ_pad_codewords.
    split; [lia|]. intros H; discriminate H.
Qed.

Lemma capacity_mod8' v e cap : capacity v e = Ok cap -> cap mod 8 = (if is_m1_m3 v then 4 else 0).
Proof.
  intros Hc. destruct (capacity_has_ecc v e cap Hc) as [infos Hi].
  destruct (ecc_facts v e infos Hi) as (_ & _ & Hc' & _). rewrite Hc in Hc'. apply Ok_inj in Hc'. subst cap.
  generalize (data_codewords infos). intros d. destruct (is_m1_m3 v); lia.
Qed.

Theorem stage_data_stream_exn segs eci v e : Forall seg_inv segs -> stage_ok segs eci v e ->
  match data_stream segs e v eci None with
  | Ok buff => exists cap, capacity v e = Ok cap /\ cap <= lenZ buff /\ (is_m1_m3 v = true -> lenZ buff = cap)
  | Err x => x = ValueError \/ x = LookupErr
  end.
Proof.
  intros Hs (Hv & _ & Hav & cap & Hcap & Hlen).
  destruct (cci_table v Hv) as (r & Hr & Hcci).
  unfold data_stream. cbv zeta.
  assert (Hvr : (if v <? 1 then Ok v else version_range v) = Ok r).
  { destruct (v <? 1) eqn:E1; destruct (0 <? v) eqn:E0; try lia; exact Hr. }
  rewrite Hvr. cbn [bind].
  pose proof (write_segments_cases segs eci v r Hs Hv Hav Hcci) as Hw.
  destruct (write_segments segs (if v <? 1 then Some v else None) r eci) as [stream|x]; cbn [bind]; [|exact Hw].
  rewrite Hcap. cbn [bind app]. unfold write_terminator. rewrite (terminator_table v Hv). cbn [bind].
  pose proof (iso_terminator_length_bounds v Hv) as Ht.
  destruct (padded_length v cap (iso_terminator_length v) stream ltac:(lia) (capacity_mod8' v e cap Hcap)) as [H1 H2].
  exists cap. split; [reflexivity|]. split; [exact H1|]. intros Hm. apply H2; [exact Hm|lia].
Qed.

(* ================================================================================================ *)
(* 5. encode_core: blocks, matrix, mask, format and version information                            *)
(* ================================================================================================ *)
Lemma level_code_ex e : olevel_ok e -> exists lvl, Decoder.level_code lvl = e.
Proof.
  destruct e as [x|]; [|intros _; exists None; reflexivity].
  intros [->|[->|[->| ->]]];
    [exists (Some Decoder.LvL)|exists (Some Decoder.LvM)|exists (Some Decoder.LvQ)|exists (Some Decoder.LvH)]; reflexivity.
Qed.

Lemma size_micro v : -3 <= v <= 40 -> (calc_matrix_size v <? 21) = (v <? 1).
Proof. intros Hv. unfold calc_matrix_size. destruct (0 <? v) eqn:E; lia. Qed.

Lemma fv_cells_ok v e cap k : -3 <= v <= 40 -> capacity v e = Ok cap -> 0 <= k < (if v <? 1 then 4 else 8) ->
  exists cells, fv_cells v e k = Ok cells.
Proof.
  intros Hv Hc Hk.
  assert (Hk' : -28 <= k < 32) by (destruct (v <? 1); lia).
  pose proof (triple_check_lift v e cap k Hv Hc Hk') as T. unfold triple_check in T.
  destruct (fv_cells v e k) as [cells|x]; [eauto|].
  destruct (v <? 1); lia.
Qed.

Definition mask_ok (v : Z) (mask : option Z) : Prop :=
  match mask with Some k => 0 <= k < (if v <? 1 then 4 else 8) | None => True end.

Theorem stage_encode_core_exn segs e v mask eci boost :
  Forall seg_inv segs -> stage_ok segs eci v e -> mask_ok v mask ->
  match encode_core segs e v mask eci boost None with
  | Ok k => c_version k = v /\ 0 <= c_mask k < (if v <? 1 then 4 else 8) /\
            (forall m, mask = Some m -> c_mask k = m) /\ c_segments k = segs /\
            (exists cap, capacity v (c_error k) = Ok cap)
  | Err x => x = ValueError \/ x = LookupErr
  end.
Proof.
  intros Hs Hst Hmask. pose proof (seg_inv_wf segs Hs) as Hwf.
  unfold encode_core.
  (* boosting *)
  assert (Hb : exists e', (if boost then boost_error_level v e segs eci false else Ok e) = Ok e' /\ stage_ok segs eci v e').
  { destruct boost; [apply stage_boost_exn; assumption|exists e; split; [reflexivity|exact Hst]]. }
  destruct Hb as (e' & -> & Hst'). cbn [bind]. clear Hst.
  (* data stream *)
  pose proof (stage_data_stream_exn segs eci v e' Hs Hst') as Hd.
  destruct (data_stream segs e' v eci None) as [buff|x]; cbn [bind]; [|exact Hd].
  destruct Hd as (cap & Hcap & Hle & Hm13).
  destruct Hst' as (Hv & He' & _).
  (* blocks *)
  destruct (level_code_ex e' He') as [lvl Hlvl].
  destruct (make_final_message_total v e' lvl buff cap Hv Hlvl Hcap Hle Hm13) as (final & infos & -> & _).
  cbn [bind].
  (* function patterns *)
  destruct (size_facts v Hv) as [Hsz Hsize].
  destruct (base_matrix_geometry v Hv) as (m2 & fm & Hbase & Hfm & _).
  rewrite <- Hsize in Hbase, Hfm. unfold base_matrix in Hbase.
  destruct (bind_ok _ _ _ Hbase) as (m1 & Hm1 & Hm2). rewrite Hm1. cbn [bind]. rewrite Hm2. cbn [bind].
  (* codewords *)
  destruct (add_codewords (calc_matrix_size v) v m2 final) as [m3|x] eqn:Ecw; cbn [bind].
  2:{ unfold add_codewords in Ecw. destruct (place_visit _ _ _ _) as [m' rest]. destruct rest; [discriminate Ecw|].
      injection Ecw as <-. left. reflexivity. }
  (* mask *)
  assert (Hbm : exists k m4, find_and_apply_best_mask (calc_matrix_size v) m3 mask = Ok (k, m4) /\
                             0 <= k < (if v <? 1 then 4 else 8) /\ (forall m, mask = Some m -> k = m)).
  { destruct mask as [k0|].
    - unfold find_and_apply_best_mask. rewrite Hfm. cbn [bind]. eexists. eexists. split; [reflexivity|].
      split; [exact Hmask|]. intros m Hm. injection Hm as <-. reflexivity.
    - assert (Hs177 : 0 < calc_matrix_size v <= 177) by (rewrite Hsize; unfold Geometry.size_of_version; destruct (0 <? v); lia).
      pose proof (find_and_apply_best_mask_auto (calc_matrix_size v) m3 fm Hs177 Hfm) as Ha. cbv zeta in Ha.
      destruct (find_and_apply_best_mask (calc_matrix_size v) m3 None) as [[k m4]|x] eqn:Ebm; [|discriminate Ha].
      clear Ha. exists k, m4. split; [reflexivity|].
      destruct (find_best_mask_shape _ _ _ _ _ Ebm) as (_ & _ & _ & Hr). specialize (Hr eq_refl).
      rewrite (size_micro v Hv) in Hr. split; [exact Hr|]. intros m Hm. discriminate Hm. }
  destruct Hbm as (k & m4 & -> & Hk & Hkm). cbn [bind].
  (* format and version information *)
  destruct (fv_cells_ok v e' cap k Hv Hcap Hk) as [cells Hcells].
  unfold fv_cells in Hcells.
  destruct (bind_ok _ _ _ Hcells) as (fi & Hfi & Hcells2).
  destruct (bind_ok _ _ _ Hcells2) as (vc & Hvc & _).
  rewrite add_format_info_eq, Hfi. cbn [bind]. rewrite add_version_info_eq, Hvc. cbn [bind].
  cbn [c_version c_mask c_segments c_error]. split; [reflexivity|]. split; [exact Hk|]. split; [exact Hkm|].
  split; [reflexivity|]. exists cap. exact Hcap.
Qed.

(* ================================================================================================ *)
(* 6. encode_args = argument checks ; content pipeline                                              *)
(* ================================================================================================ *)
Definition in_micro (v : option Z) : bool := match v with Some x => memZ x MICRO_VERSIONS | None => false end.

(* everything encode() does before it looks at the content *)
Definition pre_checks (error version mode : pyval) (eci : bool) (mic : option bool)
  : res (option Z * option Z * option Z) :=
  do version <- normalize_version version;
  if (match mic with Some false => true | _ => false end) && in_micro version then Err ValueError else
  if otruthy mic && (match version with Some x => negb (memZ x MICRO_VERSIONS) | None => false end) then Err ValueError else
  do error <- normalize_errorlevel error true;
  do mode <- normalize_mode mode;
  do _ <- (match mode, version with
           | Some m, Some v => do b <- is_mode_supported m v; if b then Ok tt else Err ValueError
           | _, _ => Ok tt end);
  if oz_eqb error (Some ERROR_LEVEL_H) && (otruthy mic || in_micro version) then Err ValueError else
  if eci && (otruthy mic || in_micro version) then Err ValueError else
  Ok (version, error, mode).

(* ... and everything after *)
Definition post (parts : list part) (version error : option Z) (mask : pyval) (eci : bool) (mic : option bool)
           (boost : bool) : res code :=
  do segs <- prepare_data parts;
  do guessed <- find_version segs error eci mic false;
  do version <- (match version with
                 | None => Ok guessed
                 | Some v => if v <? guessed then Err DataOverflow else Ok v end);
  do cap <- capacity version (eff_error version error);
  do len <- bit_length_with_overhead segs version eci false;
  if cap <? len then Err DataOverflow else
  do mask <- normalize_mask mask (version <? 1);
  encode_core segs (eff_error version error) version mask eci boost None.

Lemma encode_args_eq pom error version mode mask eci micro boost :
  encode_args pom error version mode mask eci micro boost =
  match pre_checks error version mode eci (micro_of micro) with
  | Ok (ov, oe, om) => post (pom om) ov oe mask eci (micro_of micro) boost
  | Err e => Err e
  end.
Proof.
  unfold encode_args, pre_checks, in_micro. cbv zeta.
  destruct (normalize_version version) as [ov|x]; cbn [bind]; [|reflexivity].
  match goal with |- (if ?c then _ else _) = _ => destruct c; [reflexivity|] end.
  match goal with |- (if ?c then _ else _) = _ => destruct c; [reflexivity|] end.
  destruct (normalize_errorlevel error true) as [oe|x]; cbn [bind]; [|reflexivity].
  destruct (normalize_mode mode) as [om|x]; cbn [bind]; [|reflexivity].
  match goal with |- bind ?c _ = _ => destruct c as [u|x]; cbn [bind]; [|reflexivity] end.
  match goal with |- (if ?c then _ else _) = _ => destruct c; [reflexivity|] end.
  match goal with |- (if ?c then _ else _) = _ => destruct c; reflexivity end.
Qed.

Lemma is_mode_supported_exn m v e : is_mode_supported m v = Err e -> e = ValueError.
Proof.
  unfold is_mode_supported. destruct (assocZ m SUPPORTED_MODES); intros H; [discriminate H|].
  injection H as <-. reflexivity.
Qed.
Lemma is_mode_supported_all :
  forallb (fun m => forallb (fun v => match is_mode_supported m v with
                                      | Ok b => Bool.eqb b (mode_available m v) | Err _ => false end)
                            (zrange (-3) 41)) [1; 2; 4; 8; 13] = true.
Proof. vm_compute. reflexivity. Qed.
(* segno's SUPPORTED_MODES table is ISO Table 2 *)
Lemma is_mode_supported_spec m v : VersionLemmas.valid_mode m -> -3 <= v <= 40 ->
  is_mode_supported m v = Ok (mode_available m v).
Proof.
  intros Hm Hv. pose proof is_mode_supported_all as T. rewrite forallb_forall in T.
  specialize (T m (proj1 (valid_mode_In m) Hm)). cbv beta in T. rewrite forallb_forall in T.
  specialize (T v (zrange_In (-3) 41 v ltac:(lia))). cbv beta in T.
  destruct (is_mode_supported m v) as [b|x]; [|discriminate T]. apply eqb_prop in T. rewrite T. reflexivity.
Qed.

Theorem stage_pre_checks_exn error version mode eci mic e :
  pre_checks error version mode eci mic = Err e -> e = ValueError.
Proof.
  unfold pre_checks.
  destruct (normalize_version version) as [ov|x] eqn:Ev; cbn [bind];
    [|intros H; injection H as <-; exact (normalize_version_exn _ _ Ev)].
  destruct ((match mic with Some false => true | _ => false end) && in_micro ov);
    [intros H; injection H as <-; reflexivity|].
  destruct (otruthy mic && (match ov with Some x => negb (memZ x MICRO_VERSIONS) | None => false end));
    [intros H; injection H as <-; reflexivity|].
  destruct (normalize_errorlevel error true) as [oe|x] eqn:Ee; cbn [bind];
    [|intros H; injection H as <-; exact (normalize_errorlevel_exn _ _ _ Ee)].
  destruct (normalize_mode mode) as [om|x] eqn:Em; cbn [bind];
    [|intros H; injection H as <-; exact (normalize_mode_exn _ _ Em)].
  destruct (match om, ov with
            | Some m, Some v => do b <- is_mode_supported m v; if b then Ok tt else Err ValueError
            | _, _ => Ok tt end) as [u|x] eqn:Es; cbn [bind].
  - destruct (oz_eqb oe (Some ERROR_LEVEL_H) && (otruthy mic || in_micro ov)); [intros H; injection H as <-; reflexivity|].
    destruct (eci && (otruthy mic || in_micro ov)); [intros H; injection H as <-; reflexivity|discriminate].
  - intros H; injection H as <-. destruct om as [m|]; [|discriminate Es]. destruct ov as [v|]; [|discriminate Es].
    destruct (is_mode_supported m v) as [b|y] eqn:Eb; cbn [bind] in Es.
    + destruct b; [discriminate Es|]. injection Es as <-. reflexivity.
    + injection Es as <-. exact (is_mode_supported_exn _ _ _ Eb).
Qed.

Theorem pre_checks_ok error version mode eci mic ov oe om :
  pre_checks error version mode eci mic = Ok (ov, oe, om) ->
  normalize_version version = Ok ov /\ normalize_errorlevel error true = Ok oe /\ normalize_mode mode = Ok om /\
  (mic = Some false -> in_micro ov = false) /\
  (otruthy mic = true -> forall x, ov = Some x -> memZ x MICRO_VERSIONS = true) /\
  (forall m v, om = Some m -> ov = Some v -> is_mode_supported m v = Ok true) /\
  (oe = Some ERROR_LEVEL_H -> otruthy mic = false /\ in_micro ov = false) /\
  (eci = true -> otruthy mic = false /\ in_micro ov = false).
Proof.
  unfold pre_checks.
  destruct (normalize_version version) as [ov'|x]; cbn [bind]; [|discriminate].
  destruct ((match mic with Some false => true | _ => false end) && in_micro ov') eqn:E1; [discriminate|].
  destruct (otruthy mic && (match ov' with Some x => negb (memZ x MICRO_VERSIONS) | None => false end)) eqn:E2;
    [discriminate|].
  destruct (normalize_errorlevel error true) as [oe'|x]; cbn [bind]; [|discriminate].
  destruct (normalize_mode mode) as [om'|x]; cbn [bind]; [|discriminate].
  destruct (match om', ov' with
            | Some m, Some v => do b <- is_mode_supported m v; if b then Ok tt else Err ValueError
            | _, _ => Ok tt end) as [u|x] eqn:Es; cbn [bind]; [|discriminate].
  destruct (oz_eqb oe' (Some ERROR_LEVEL_H) && (otruthy mic || in_micro ov')) eqn:E3; [discriminate|].
  destruct (eci && (otruthy mic || in_micro ov')) eqn:E4; [discriminate|].
  intros H. injection H as -> -> ->.
  split; [reflexivity|]. split; [reflexivity|]. split; [reflexivity|]. split; [|split; [|split; [|split]]].
  - intros ->. cbn [andb] in E1. exact E1.
  - intros Ht x ->. rewrite Ht in E2. cbn [andb] in E2. destruct (memZ x MICRO_VERSIONS); [reflexivity|discriminate E2].
  - intros m v -> ->. destruct (is_mode_supported m v) as [b|y]; cbn [bind] in Es; [|discriminate Es].
    destruct b; [reflexivity|discriminate Es].
  - intros ->. change (oz_eqb (Some ERROR_LEVEL_H) (Some ERROR_LEVEL_H)) with true in E3. cbn [andb] in E3.
    apply orb_false_elim in E3. exact E3.
  - intros ->. cbn [andb] in E4. apply orb_false_elim in E4. exact E4.
Qed.

(* ---- the content pipeline ---- *)
Definition post_facts (parts : list part) (ov oe : option Z) (mask : pyval) (eci : bool) (mic : option bool) (k : code) : Prop :=
  prepare_data parts = Ok (c_segments k) /\
  -3 <= c_version k <= 40 /\
  (forall x, ov = Some x -> c_version k = x) /\
  (exists omask, normalize_mask mask (c_version k <? 1) = Ok omask /\ forall m, omask = Some m -> c_mask k = m) /\
  0 <= c_mask k < (if c_version k <? 1 then 4 else 8) /\
  (exists cap, capacity (c_version k) (c_error k) = Ok cap) /\
  all_available (c_version k) (c_segments k) = true /\
  (c_version k <= 0 -> mic <> Some false /\ eci = false) /\
  (ov = None -> 1 <= c_version k -> mic <> Some true).

Theorem stage_post_exn parts ov oe mask eci mic boost :
  Forall wf_part parts -> olevel_ok oe -> (forall x, ov = Some x -> -3 <= x <= 40) -> eci && otruthy mic = false ->
  match post parts ov oe mask eci mic boost with
  | Ok k => post_facts parts ov oe mask eci mic k
  | Err e => allowed e
  end.
Proof.
  intros Hp Hoe Hov Hex. unfold post.
  pose proof (stage_prepare_exn parts Hp) as Hprep.
  destruct (prepare_data parts) as [segs|x] eqn:Eprep; cbn [bind].
  2:{ unfold allowed. destruct Hprep as [->|[->| ->]]; auto. }
  pose proof (seg_inv_wf segs Hprep) as Hwf.
  destruct (find_version segs oe eci mic false) as [g|x] eqn:Efv; cbn [bind].
  2:{ unfold allowed. destruct (find_version_err _ _ _ _ _ Hwf Hex Efv) as [->| ->]; auto. }
  destruct (find_version_ok_facts _ _ _ _ _ Hwf Efv) as (Hg & _ & Hgm & Hgq & _).
  (* the version *)
  assert (Hver : match (match ov with None => Ok g | Some v => if v <? g then Err DataOverflow else Ok v end) with
                 | Ok v => g <= v <= 40 /\ (forall x, ov = Some x -> v = x) /\ (ov = None -> v = g)
                 | Err x => x = DataOverflow end).
  { destruct ov as [x|].
    - specialize (Hov x eq_refl). destruct (x <? g) eqn:E; [reflexivity|].
      split; [lia|]. split; [intros y Hy; injection Hy as <-; reflexivity|discriminate].
    - split; [lia|]. split; [discriminate|reflexivity]. }
  destruct (match ov with None => Ok g | Some v => if v <? g then Err DataOverflow else Ok v end) as [v|x]; cbn [bind].
  2:{ subst x. unfold allowed. auto. }
  destruct Hver as (Hgv & Hvx & Hvn).
  destruct (stage_version_lookups segs oe eci mic g v Hwf Hoe Efv Hgv) as (Hv & Hav & (cap & Hcap) & Hbl & Heff).
  rewrite Hcap, Hbl. cbn [bind].
  destruct (cap <? spec_bits v (map (abs_seg eci) segs) false) eqn:Efit; [unfold allowed; auto|].
  assert (Hst : stage_ok segs eci v (eff_error v oe)).
  { split; [exact Hv|]. split; [exact Heff|]. split; [exact Hav|]. exists cap. split; [exact Hcap|lia]. }
  destruct (normalize_mask mask (v <? 1)) as [om|x] eqn:Emask; cbn [bind].
  2:{ rewrite (normalize_mask_exn _ _ _ Emask). unfold allowed. auto. }
  assert (Hmk : mask_ok v om).
  { destruct om as [k0|]; [|exact I]. exact (normalize_mask_ok _ _ _ Emask). }
  pose proof (stage_encode_core_exn segs (eff_error v oe) v om eci boost Hprep Hst Hmk) as Hcore.
  destruct (encode_core segs (eff_error v oe) v om eci boost None) as [k|x].
  2:{ unfold allowed. destruct Hcore as [->| ->]; auto. }
  destruct Hcore as (Hcv & Hcm & Hcmm & Hcs & Hce). unfold post_facts. rewrite Hcv, Hcs.
  split; [exact Eprep|]. split; [exact Hv|]. split; [exact Hvx|].
  split; [exists om; split; [exact Emask|exact Hcmm]|]. split; [exact Hcm|]. split; [exact Hce|].
  split; [exact Hav|]. split.
  - intros Hv0. apply Hgm. lia.
  - intros Hn Hv1. rewrite (Hvn Hn) in Hv1. apply Hgq. exact Hv1.
Qed.

(* ================================================================================================ *)
(* 7. Main theorem                                                                                  *)
(* ================================================================================================ *)
Lemma omode_ok_norm mode om : normalize_mode mode = Ok om -> omode_ok om.
Proof. destruct om as [m|]; [|intros _; exact I]. apply normalize_mode_ok. Qed.

(* general form: the content function is only ever applied to the NORMALISED global mode, so its parts need
   to be well formed for None and the five mode constants only *)
Theorem encode_args_exn_class_gen : forall parts_of_mode error version mode mask eci micro boost e,
  (forall m, omode_ok m -> Forall wf_part (parts_of_mode m)) ->
  encode_args parts_of_mode error version mode mask eci micro boost = Err e -> allowed e.
Proof.
  intros pom error version mode mask eci micro boost e Hp0 H. rewrite encode_args_eq in H.
  destruct (pre_checks error version mode eci (micro_of micro)) as [[[ov oe] om]|x] eqn:Epre.
  - destruct (pre_checks_ok _ _ _ _ _ _ _ _ Epre) as (Hnv & Hne & Hnm & _ & _ & _ & _ & Heci).
    assert (Hp : Forall wf_part (pom om)) by (apply Hp0; exact (omode_ok_norm _ _ Hnm)).
    assert (Hoe : olevel_ok oe).
    { destruct oe as [x|]; [|exact I]. exact (normalize_errorlevel_ok _ _ _ Hne). }
    assert (Hov : forall x, ov = Some x -> -3 <= x <= 40).
    { intros x ->. exact (normalize_version_ok _ _ Hnv). }
    assert (Hex : eci && otruthy (micro_of micro) = false).
    { destruct eci; [|reflexivity]. destruct (Heci eq_refl) as [-> _]. reflexivity. }
    pose proof (stage_post_exn (pom om) ov oe mask eci (micro_of micro) boost Hp Hoe Hov Hex) as Hpost.
    rewrite H in Hpost. exact Hpost.
  - injection H as <-. rewrite (stage_pre_checks_exn _ _ _ _ _ _ Epre). unfold allowed. auto.
Qed.
Print Assumptions encode_args_exn_class_gen.

(* the statement as requested *)
Theorem encode_args_exn_class : forall parts_of_mode error version mode mask eci micro boost e,
  (forall m, Forall wf_part (parts_of_mode m)) ->
  encode_args parts_of_mode error version mode mask eci micro boost = Err e -> allowed e.
Proof.
  intros pom error version mode mask eci micro boost e Hp. apply encode_args_exn_class_gen. intros m _. apply Hp.
Qed.
Print Assumptions encode_args_exn_class.

(* the shape the public functions (and the test driver) use: every part carries the normalised global mode *)
Definition with_mode (ps : list part) (m : option Z) : list part :=
  map (fun p => {| p_content := p_content p; p_mode := m; p_enc := p_enc p |}) ps.
Lemma with_mode_wf ps : Forall (fun p => wf_content (p_content p)) ps ->
  forall m, omode_ok m -> Forall wf_part (with_mode ps m).
Proof.
  intros H m Hm. unfold with_mode. apply Forall_forall. intros q Hq. apply in_map_iff in Hq.
  destruct Hq as (p & <- & Hp). rewrite Forall_forall in H. split; [exact (H p Hp)|exact Hm].
Qed.
Corollary encode_args_exn_class_content : forall ps error version mode mask eci micro boost e,
  Forall (fun p => wf_content (p_content p)) ps ->
  encode_args (with_mode ps) error version mode mask eci micro boost = Err e -> allowed e.
Proof.
  intros ps error version mode mask eci micro boost e Hps. apply encode_args_exn_class_gen. apply with_mode_wf. exact Hps.
Qed.
Print Assumptions encode_args_exn_class_content.

(* the same statement with the excluded exception classes spelled out *)
Corollary encode_args_no_internal_error : forall parts_of_mode error version mode mask eci micro boost,
  (forall m, Forall wf_part (parts_of_mode m)) ->
  forall e, In e [IndexErr; KeyErr; TypeErr; AssertErr; AttributeErr] ->
  encode_args parts_of_mode error version mode mask eci micro boost <> Err e.
Proof.
  intros pom error version mode mask eci micro boost Hp e Hin H.
  apply encode_args_exn_class in H; [|exact Hp]. unfold allowed in H. cbn [In] in Hin.
  destruct Hin as [<-|[<-|[<-|[<-|[<-|[]]]]]]; destruct H as [H|[H|[H|H]]]; discriminate H.
Qed.
Print Assumptions encode_args_no_internal_error.

(* ================================================================================================ *)
(* 8. Documented exclusions are always refused, whatever the content                                *)
(* ================================================================================================ *)
Lemma truthy_micro_of micro : truthy micro = true -> micro_of micro = Some true.
Proof. destruct micro as [|b|z|s]; unfold micro_of; intros H; [discriminate H| | |]; rewrite H; reflexivity. Qed.
Lemma falsy_micro_of micro : micro <> VNone -> truthy micro = false -> micro_of micro = Some false.
Proof. destruct micro as [|b|z|s]; unfold micro_of; intros Hn H; [congruence| | |]; rewrite H; reflexivity. Qed.
Lemma micro_mem x : memZ x MICRO_VERSIONS = true <-> -3 <= x <= 0.
Proof. unfold MICRO_VERSIONS, memZ. cbn [existsb]. lia. Qed.

Lemma pre_checks_refuse error version mode eci mic :
  (forall r, pre_checks error version mode eci mic <> Ok r) -> pre_checks error version mode eci mic = Err ValueError.
Proof.
  intros H. destruct (pre_checks error version mode eci mic) as [r|e] eqn:E; [exfalso; exact (H r eq_refl)|].
  rewrite (stage_pre_checks_exn _ _ _ _ _ _ E). reflexivity.
Qed.
Lemma encode_args_pre_refuse pom error version mode mask eci micro boost :
  (forall r, pre_checks error version mode eci (micro_of micro) <> Ok r) ->
  encode_args pom error version mode mask eci micro boost = Err ValueError.
Proof. intros H. rewrite encode_args_eq, (pre_checks_refuse _ _ _ _ _ H). reflexivity. Qed.

(* an argument that cannot be normalised *)
Theorem excluded_version pom error version mode mask eci micro boost e :
  normalize_version version = Err e -> encode_args pom error version mode mask eci micro boost = Err ValueError.
Proof.
  intros H. apply encode_args_pre_refuse. intros [[ov oe] om] Hpre.
  destruct (pre_checks_ok _ _ _ _ _ _ _ _ Hpre) as (Hnv & _). congruence.
Qed.
Theorem excluded_error pom error version mode mask eci micro boost e :
  normalize_errorlevel error true = Err e -> encode_args pom error version mode mask eci micro boost = Err ValueError.
Proof.
  intros H. apply encode_args_pre_refuse. intros [[ov oe] om] Hpre.
  destruct (pre_checks_ok _ _ _ _ _ _ _ _ Hpre) as (_ & Hne & _). congruence.
Qed.
Theorem excluded_mode pom error version mode mask eci micro boost e :
  normalize_mode mode = Err e -> encode_args pom error version mode mask eci micro boost = Err ValueError.
Proof.
  intros H. apply encode_args_pre_refuse. intros [[ov oe] om] Hpre.
  destruct (pre_checks_ok _ _ _ _ _ _ _ _ Hpre) as (_ & _ & Hnm & _). congruence.
Qed.

(* micro=False with a Micro QR version; micro=True with a QR version *)
Theorem excluded_micro_false_version pom error version mode mask eci micro boost x :
  micro <> VNone -> truthy micro = false -> normalize_version version = Ok (Some x) -> x <= 0 ->
  encode_args pom error version mode mask eci micro boost = Err ValueError.
Proof.
  intros Hn Hf Hx Hle. apply encode_args_pre_refuse. intros [[ov oe] om] Hpre.
  destruct (pre_checks_ok _ _ _ _ _ _ _ _ Hpre) as (Hnv & _ & _ & Hmf & _).
  rewrite Hx in Hnv. injection Hnv as <-. specialize (Hmf (falsy_micro_of micro Hn Hf)). cbn [in_micro] in Hmf.
  pose proof (normalize_version_ok _ _ Hx) as Hr.
  assert (Hm : memZ x MICRO_VERSIONS = true) by (apply micro_mem; lia). congruence.
Qed.
Theorem excluded_micro_true_version pom error version mode mask eci micro boost x :
  truthy micro = true -> normalize_version version = Ok (Some x) -> 1 <= x ->
  encode_args pom error version mode mask eci micro boost = Err ValueError.
Proof.
  intros Ht Hx Hle. apply encode_args_pre_refuse. intros [[ov oe] om] Hpre.
  destruct (pre_checks_ok _ _ _ _ _ _ _ _ Hpre) as (Hnv & _ & _ & _ & Hmt & _).
  rewrite Hx in Hnv. injection Hnv as <-. rewrite (truthy_micro_of micro Ht) in Hmt.
  specialize (Hmt eq_refl x eq_refl). apply micro_mem in Hmt. lia.
Qed.

(* error level H with micro=True or a Micro QR version *)
Theorem excluded_H_micro pom error version mode mask eci micro boost :
  normalize_errorlevel error true = Ok (Some ERROR_LEVEL_H) ->
  truthy micro = true \/ (exists x, normalize_version version = Ok (Some x) /\ x <= 0) ->
  encode_args pom error version mode mask eci micro boost = Err ValueError.
Proof.
  intros HH Hc. apply encode_args_pre_refuse. intros [[ov oe] om] Hpre.
  destruct (pre_checks_ok _ _ _ _ _ _ _ _ Hpre) as (Hnv & Hne & _ & _ & _ & _ & Hh & _).
  rewrite HH in Hne. injection Hne as <-. destruct (Hh eq_refl) as [Ht Hm].
  destruct Hc as [Htr|(x & Hx & Hle)].
  - rewrite (truthy_micro_of micro Htr) in Ht. discriminate Ht.
  - rewrite Hx in Hnv. injection Hnv as <-. cbn [in_micro] in Hm.
    pose proof (normalize_version_ok _ _ Hx) as Hr.
    assert (Hmm : memZ x MICRO_VERSIONS = true) by (apply micro_mem; lia). congruence.
Qed.

(* ECI with micro=True or a Micro QR version *)
Theorem excluded_eci_micro pom error version mode mask micro boost :
  truthy micro = true \/ (exists x, normalize_version version = Ok (Some x) /\ x <= 0) ->
  encode_args pom error version mode mask true micro boost = Err ValueError.
Proof.
  intros Hc. apply encode_args_pre_refuse. intros [[ov oe] om] Hpre.
  destruct (pre_checks_ok _ _ _ _ _ _ _ _ Hpre) as (Hnv & _ & _ & _ & _ & _ & _ & He).
  destruct (He eq_refl) as [Ht Hm].
  destruct Hc as [Htr|(x & Hx & Hle)].
  - rewrite (truthy_micro_of micro Htr) in Ht. discriminate Ht.
  - rewrite Hx in Hnv. injection Hnv as <-. cbn [in_micro] in Hm.
    pose proof (normalize_version_ok _ _ Hx) as Hr.
    assert (Hmm : memZ x MICRO_VERSIONS = true) by (apply micro_mem; lia). congruence.
Qed.

(* a mode that the requested version does not offer (ISO Table 2) *)
Theorem excluded_mode_version pom error version mode mask eci micro boost m v :
  normalize_mode mode = Ok (Some m) -> normalize_version version = Ok (Some v) -> mode_available m v = false ->
  encode_args pom error version mode mask eci micro boost = Err ValueError.
Proof.
  intros Hm Hv Hav. apply encode_args_pre_refuse. intros [[ov oe] om] Hpre.
  destruct (pre_checks_ok _ _ _ _ _ _ _ _ Hpre) as (Hnv & _ & Hnm & _ & _ & Hsup & _).
  rewrite Hm in Hnm. injection Hnm as <-. rewrite Hv in Hnv. injection Hnv as <-.
  specialize (Hsup m v eq_refl eq_refl).
  rewrite (is_mode_supported_spec m v (normalize_mode_ok _ _ Hm) (normalize_version_ok _ _ Hv)), Hav in Hsup.
  discriminate Hsup.
Qed.
(* in particular Hanzi with any Micro QR version, byte / kanji with M1 / M2, alphanumeric with M1 *)
Corollary excluded_hanzi_micro pom error version mode mask eci micro boost v :
  normalize_mode mode = Ok (Some MODE_HANZI) -> normalize_version version = Ok (Some v) -> v <= 0 ->
  encode_args pom error version mode mask eci micro boost = Err ValueError.
Proof.
  intros Hm Hv Hle. apply (excluded_mode_version pom error version mode mask eci micro boost MODE_HANZI v Hm Hv).
  unfold mode_available, MODE_HANZI. destruct (0 <? v) eqn:E; [lia|reflexivity].
Qed.

(* ---- inversion of a successful run (no hypothesis on the content) ---- *)
Ltac bind_inv H a Ha := apply bind_ok in H; destruct H as (a & Ha & H); cbv beta zeta in H.

Lemma encode_core_ok_shape segs e v mask eci boost sa k :
  encode_core segs e v mask eci boost sa = Ok k ->
  c_version k = v /\ c_segments k = segs /\ forall k0, mask = Some k0 -> c_mask k = k0.
Proof.
  unfold encode_core. intros H.
  bind_inv H e' He'. bind_inv H buff Hbuff. bind_inv H final Hfinal. bind_inv H m1 Hm1. bind_inv H m2 Hm2.
  bind_inv H m3 Hm3. bind_inv H km Hkm. destruct km as [k' m4]. bind_inv H m5 Hm5. bind_inv H m6 Hm6.
  apply Ok_inj in H. subst k. cbn [c_version c_segments c_mask]. split; [reflexivity|]. split; [reflexivity|].
  intros k0 ->. unfold find_and_apply_best_mask in Hkm. bind_inv Hkm fm Hfm. apply Ok_inj in Hkm. congruence.
Qed.

Lemma post_inv parts ov oe mask eci mic boost k : post parts ov oe mask eci mic boost = Ok k ->
  exists segs g v om,
    prepare_data parts = Ok segs /\ find_version segs oe eci mic false = Ok g /\
    (match ov with None => v = g | Some x => v = x /\ g <= x end) /\
    normalize_mask mask (v <? 1) = Ok om /\
    encode_core segs (eff_error v oe) v om eci boost None = Ok k.
Proof.
  unfold post. intros H.
  bind_inv H segs Hsegs. bind_inv H g Hg. bind_inv H v Hv. bind_inv H cap Hcap. bind_inv H len Hlen.
  destruct (cap <? len); [discriminate H|]. bind_inv H om Hom.
  exists segs, g, v, om. split; [exact Hsegs|]. split; [exact Hg|]. split; [|split; [exact Hom|exact H]].
  destruct ov as [x|].
  - destruct (x <? g) eqn:E; [discriminate Hv|]. apply Ok_inj in Hv. split; [congruence|lia].
  - apply Ok_inj in Hv. congruence.
Qed.

(* the mask: refused late (once the version is known), but never silently altered *)
Theorem encode_args_mask_range pom error version mode mask eci micro boost k :
  encode_args pom error version mode mask eci micro boost = Ok k -> mask <> VNone ->
  normalize_mask mask (c_version k <? 1) = Ok (Some (c_mask k)) /\
  0 <= c_mask k < (if c_version k <? 1 then 4 else 8).
Proof.
  intros H Hn. rewrite encode_args_eq in H.
  destruct (pre_checks error version mode eci (micro_of micro)) as [[[ov oe] om]|x]; [|discriminate H].
  destruct (post_inv _ _ _ _ _ _ _ _ H) as (segs & g & v & omask & _ & _ & _ & Hmask & Hcore).
  destruct (encode_core_ok_shape _ _ _ _ _ _ _ _ Hcore) as (Hv & _ & Hk). rewrite Hv.
  destruct omask as [k0|]; [|apply normalize_mask_none in Hmask; contradiction].
  rewrite (Hk k0 eq_refl). split; [exact Hmask|]. exact (normalize_mask_ok _ _ _ Hmask).
Qed.

Lemma normalize_mask_micro_qr mask r : normalize_mask mask true = Ok r -> normalize_mask mask false = Ok r.
Proof.
  rewrite !normalize_mask_eq. destruct mask as [|c|z|s]; [intros H; exact H| | |];
    (destruct (py_int_val _) as [n|x]; cbn [bind]; [|discriminate]); unfold mask_post;
    (destruct ((0 <=? n) && (n <? 4)) eqn:E; [|discriminate]); intros H;
    replace ((0 <=? n) && (n <? 8)) with true by lia; exact H.
Qed.
(* a mask outside 0..7 (or not an integer / decimal string) never yields a symbol *)
Corollary excluded_mask pom error version mode mask eci micro boost e :
  normalize_mask mask false = Err e -> forall k, encode_args pom error version mode mask eci micro boost <> Ok k.
Proof.
  intros He k H. assert (Hn : mask <> VNone) by (intros ->; discriminate He).
  destruct (encode_args_mask_range _ _ _ _ _ _ _ _ _ H Hn) as [Hm _].
  destruct (c_version k <? 1); [apply normalize_mask_micro_qr in Hm|]; congruence.
Qed.
(* masks 4..7 never yield a Micro QR symbol *)
Corollary excluded_mask_micro pom error version mode mask eci micro boost k :
  encode_args pom error version mode mask eci micro boost = Ok k -> mask <> VNone -> c_version k <= 0 ->
  0 <= c_mask k < 4 /\ normalize_mask mask true = Ok (Some (c_mask k)).
Proof.
  intros H Hn Hv. destruct (encode_args_mask_range _ _ _ _ _ _ _ _ _ H Hn) as [Hm Hr].
  destruct (c_version k <? 1) eqn:E; [|lia]. split; assumption.
Qed.

(* ---- everything a returned symbol guarantees about its parameters ---- *)
Lemma level_H_qr_only v c : -3 <= v <= 40 -> spec_capacity v (Some 2) = Some c -> 1 <= v.
Proof.
  intros Hv Hc. destruct (cap_level_in v 2 c ltac:(unfold valid_level; auto) Hv Hc) as [Hin _].
  unfold levels_of_version in Hin. destruct (v =? -3); [destruct Hin|].
  destruct (v <? 0) eqn:E0; [cbn [In] in Hin; lia|]. destruct (v =? 0) eqn:E; [cbn [In] in Hin; lia|lia].
Qed.

Theorem encode_args_ok_facts pom error version mode mask eci micro boost k :
  (forall m, omode_ok m -> Forall wf_part (pom m)) ->
  encode_args pom error version mode mask eci micro boost = Ok k ->
  exists ov oe om,
    normalize_version version = Ok ov /\ normalize_errorlevel error true = Ok oe /\ normalize_mode mode = Ok om /\
    prepare_data (pom om) = Ok (c_segments k) /\
    -3 <= c_version k <= 40 /\
    (forall x, ov = Some x -> c_version k = x) /\                              (* requested version honoured *)
    (exists omask, normalize_mask mask (c_version k <? 1) = Ok omask /\ forall m, omask = Some m -> c_mask k = m) /\
    0 <= c_mask k < (if c_version k <? 1 then 4 else 8) /\
    (exists cap, capacity (c_version k) (c_error k) = Ok cap) /\               (* the level exists for the version *)
    Forall (fun s => mode_available (s_mode s) (c_version k) = true) (c_segments k) /\
    (c_version k <= 0 ->                                                       (* Micro QR: *)
       eci = false /\ c_error k <> Some ERROR_LEVEL_H /\ oe <> Some ERROR_LEVEL_H /\
       micro_of micro <> Some false /\ Forall (fun s => s_mode s <> MODE_HANZI) (c_segments k)) /\
    (1 <= c_version k -> truthy micro = false).                                (* QR: micro not demanded *)
Proof.
  intros Hp0 H. rewrite encode_args_eq in H.
  destruct (pre_checks error version mode eci (micro_of micro)) as [[[ov oe] om]|x] eqn:Epre; [|discriminate H].
  destruct (pre_checks_ok _ _ _ _ _ _ _ _ Epre) as (Hnv & Hne & Hnm & Hmf & Hmt & _ & Hh & Heci).
  assert (Hp : Forall wf_part (pom om)) by (apply Hp0; exact (omode_ok_norm _ _ Hnm)).
  assert (Hoe : olevel_ok oe).
  { destruct oe as [x|]; [|exact I]. exact (normalize_errorlevel_ok _ _ _ Hne). }
  assert (Hov : forall x, ov = Some x -> -3 <= x <= 40).
  { intros x ->. exact (normalize_version_ok _ _ Hnv). }
  assert (Hex : eci && otruthy (micro_of micro) = false).
  { destruct eci; [|reflexivity]. destruct (Heci eq_refl) as [-> _]. reflexivity. }
  pose proof (stage_post_exn (pom om) ov oe mask eci (micro_of micro) boost Hp Hoe Hov Hex) as Hpost.
  rewrite H in Hpost. destruct Hpost as (Hprep & Hv & Hvx & Hmask & Hmr & (cap & Hcap) & Hav & Hmic & Hqr).
  assert (HavF : Forall (fun s => mode_available (s_mode s) (c_version k) = true) (c_segments k)).
  { unfold all_available, seg_modes in Hav. rewrite forallb_forall in Hav. apply Forall_forall. intros s Hs.
    apply Hav. apply in_map. exact Hs. }
  exists ov, oe, om. repeat (split; [assumption|]). split; [exists cap; exact Hcap|]. split; [exact HavF|]. split.
  - intros Hv0. destruct (Hmic Hv0) as [Hmf' Heci']. split; [exact Heci'|]. split; [|split; [|split; [exact Hmf'|]]].
    + intros Ec. rewrite Ec in Hcap. apply capacity_Ok_spec in Hcap. pose proof (level_H_qr_only _ _ Hv Hcap). lia.
    + intros ->. destruct (Hh eq_refl) as [Ht Him]. destruct ov as [x|].
      * rewrite <- (Hvx x eq_refl) in Him. cbn [in_micro] in Him.
        assert (memZ (c_version k) MICRO_VERSIONS = true) by (apply micro_mem; lia). congruence.
      * (* version chosen by find_version with level H: never a Micro QR version *)
        clear - H Hv0 Hp Hv. destruct (post_inv _ _ _ _ _ _ _ _ H) as (segs & g & v & omask & Hsegs & Hg & Hvg & _ & Hcore).
        destruct (encode_core_ok_shape _ _ _ _ _ _ _ _ Hcore) as (Hcv & _ & _). subst v. rewrite <- Hcv in Hg.
        pose proof (stage_prepare_exn (pom om) Hp) as Hinv. rewrite Hsegs in Hinv.
        destruct (find_version_ok_facts _ _ _ _ _ (seg_inv_wf _ Hinv) Hg) as (_ & Hfit & _).
        rewrite spec_fits_unfold in Hfit. apply andb_prop in Hfit. destruct Hfit as [_ Hfit].
        unfold eff_level in Hfit. destruct (c_version k =? -3) eqn:E3.
        -- assert (E : c_version k = -3) by lia. rewrite E in Hg.
           destruct (find_version_ok_facts _ _ _ _ _ (seg_inv_wf _ Hinv) Hg) as (_ & _ & _ & _ & Hn). specialize (Hn eq_refl).
           discriminate Hn.
        -- unfold ERROR_LEVEL_H in Hfit. destruct (spec_capacity (c_version k) (Some 2)) as [c|] eqn:Ec; [|discriminate Hfit].
           pose proof (level_H_qr_only _ _ Hv Ec). lia.
    + apply Forall_forall. intros s Hs Hm. rewrite Forall_forall in HavF. specialize (HavF s Hs).
      rewrite Hm in HavF. unfold mode_available, MODE_HANZI in HavF. destruct (0 <? c_version k) eqn:E; [lia|discriminate HavF].
  - intros Hv1. destruct (truthy micro) eqn:Et; [|reflexivity]. exfalso.
    pose proof (truthy_micro_of micro Et) as Hmo. destruct ov as [x|].
    + rewrite Hmo in Hmt. specialize (Hmt eq_refl x eq_refl). apply micro_mem in Hmt. rewrite (Hvx x eq_refl) in Hv1. lia.
    + exact (Hqr eq_refl Hv1 Hmo).
Qed.
Print Assumptions encode_args_ok_facts.

(* ================================================================================================ *)
(* 9. Alternative spellings yield the same result (symbol or exception)                             *)
(* ================================================================================================ *)
Lemma post_mask_ext parts ov oe k1 k2 eci mic boost :
  (forall b, normalize_mask k1 b = normalize_mask k2 b) ->
  post parts ov oe k1 eci mic boost = post parts ov oe k2 eci mic boost.
Proof.
  intros Hk. unfold post.
  destruct (prepare_data parts) as [segs|x]; cbn [bind]; [|reflexivity].
  destruct (find_version segs oe eci mic false) as [g|x]; cbn [bind]; [|reflexivity].
  destruct (match ov with None => Ok g | Some v => if v <? g then Err DataOverflow else Ok v end) as [v|x];
    cbn [bind]; [|reflexivity].
  destruct (capacity v (eff_error v oe)) as [cap|x]; cbn [bind]; [|reflexivity].
  destruct (bit_length_with_overhead segs v eci false) as [len|x]; cbn [bind]; [|reflexivity].
  destruct (cap <? len); [reflexivity|]. rewrite Hk. reflexivity.
Qed.

Theorem encode_args_spelling pom e1 e2 v1 v2 m1 m2 k1 k2 eci micro boost :
  normalize_errorlevel e1 true = normalize_errorlevel e2 true -> normalize_version v1 = normalize_version v2 ->
  normalize_mode m1 = normalize_mode m2 -> (forall b, normalize_mask k1 b = normalize_mask k2 b) ->
  encode_args pom e1 v1 m1 k1 eci micro boost = encode_args pom e2 v2 m2 k2 eci micro boost.
Proof.
  intros He Hv Hm Hk. rewrite !encode_args_eq.
  assert (Hpre : pre_checks e1 v1 m1 eci (micro_of micro) = pre_checks e2 v2 m2 eci (micro_of micro)).
  { unfold pre_checks. rewrite He, Hv, Hm. reflexivity. }
  rewrite Hpre. destruct (pre_checks e2 v2 m2 eci (micro_of micro)) as [[[ov oe] om]|x]; [|reflexivity].
  apply post_mask_ext. exact Hk.
Qed.
Print Assumptions encode_args_spelling.

(* versions: decimal strings as the number, names in any letter case *)
Corollary encode_args_version_str_int pom error s n mode mask eci micro boost : int_of_str s = Some n ->
  encode_args pom error (VStr s) mode mask eci micro boost = encode_args pom error (VInt n) mode mask eci micro boost.
Proof. intros H. apply encode_args_spelling; try reflexivity. apply normalize_version_str_int. exact H. Qed.
Corollary encode_args_version_case pom error s t mode mask eci micro boost : py_upper s = py_upper t ->
  encode_args pom error (VStr s) mode mask eci micro boost = encode_args pom error (VStr t) mode mask eci micro boost.
Proof. intros H. apply encode_args_spelling; try reflexivity. apply normalize_version_case. exact H. Qed.
(* error levels and modes in any letter case *)
Corollary encode_args_error_case pom s t version mode mask eci micro boost : py_upper s = py_upper t ->
  encode_args pom (VStr s) version mode mask eci micro boost = encode_args pom (VStr t) version mode mask eci micro boost.
Proof. intros H. apply encode_args_spelling; try reflexivity. apply normalize_errorlevel_case. exact H. Qed.
Corollary encode_args_mode_case pom error version s t mask eci micro boost : py_lower s = py_lower t ->
  encode_args pom error version (VStr s) mask eci micro boost = encode_args pom error version (VStr t) mask eci micro boost.
Proof. intros H. apply encode_args_spelling; try reflexivity. apply normalize_mode_case. exact H. Qed.
(* names and constants *)
Corollary encode_args_mode_name pom error version s m mask eci micro boost :
  normalize_mode (VStr s) = Ok (Some m) ->
  encode_args pom error version (VStr s) mask eci micro boost = encode_args pom error version (VInt m) mask eci micro boost.
Proof.
  intros H. apply encode_args_spelling; try reflexivity. rewrite H, normalize_mode_int.
  pose proof (normalize_mode_ok _ _ H) as Hm. apply mode_values_mem in Hm. unfold mode_values, MODE_MAPPING in Hm.
  cbn [map snd] in Hm. rewrite Hm. reflexivity.
Qed.
Corollary encode_args_error_name pom s e version mode mask eci micro boost :
  normalize_errorlevel (VStr s) true = Ok (Some e) ->
  encode_args pom (VStr s) version mode mask eci micro boost = encode_args pom (VInt e) version mode mask eci micro boost.
Proof.
  intros H. apply encode_args_spelling; try reflexivity. rewrite H, normalize_errorlevel_int.
  pose proof (normalize_errorlevel_ok _ _ _ H) as He. apply error_values_mem in He. unfold error_values, ERROR_MAPPING in He.
  cbn [map snd] in He. rewrite He. reflexivity.
Qed.
(* masks: decimal strings as the number *)
Corollary encode_args_mask_str_int pom error version mode s n eci micro boost : int_of_str s = Some n ->
  encode_args pom error version mode (VStr s) eci micro boost = encode_args pom error version mode (VInt n) eci micro boost.
Proof. intros H. apply encode_args_spelling; try reflexivity. intros b. apply normalize_mask_str_int. exact H. Qed.

(* ================================================================================================ *)
(* 10. Examples through the whole entry point                                                       *)
(* ================================================================================================ *)
Definition bytes_part (bs : list Z) : part := {| p_content := PBytes bs; p_mode := None; p_enc := None |}.
Definition res_summary (r : res code) : res (Z * option Z * Z) :=
  match r with Ok k => Ok (c_version k, c_error k, c_mask k) | Err e => Err e end.
Definition pstr (s : String.string) : pyval := VStr (str_of_string s).

(* a requested Micro QR version with a level it does not have: the guessed version is larger -> DataOverflow,
   capacity(M2, Q) (a KeyError) is never evaluated *)
Example ex_M2_Q :
  res_summary (encode_args (with_mode [bytes_part [49]]) (pstr "Q") (pstr "M2") VNone VNone false VNone true) = Err DataOverflow.
Proof. vm_compute. reflexivity. Qed.
Example ex_M4_H :
  res_summary (encode_args (with_mode [bytes_part [49]]) (pstr "h") (pstr "m4") VNone VNone false VNone true) = Err ValueError.
Proof. vm_compute. reflexivity. Qed.
Example ex_version_m5_refused :
  res_summary (encode_args (with_mode [bytes_part [49]]) VNone (pstr "m5") VNone VNone false VNone true) = Err ValueError.
Proof. vm_compute. reflexivity. Qed.
Example ex_mask_8_refused :
  res_summary (encode_args (with_mode [bytes_part [49]]) VNone VNone VNone (pstr "8") false VNone true) = Err ValueError.
Proof. vm_compute. reflexivity. Qed.
Example ex_mask_4_micro_refused :
  res_summary (encode_args (with_mode [bytes_part [49]]) VNone VNone VNone (VInt 4) false (VBool true) true) = Err ValueError.
Proof. vm_compute. reflexivity. Qed.
Example ex_error_x_refused :
  res_summary (encode_args (with_mode [bytes_part [49]]) (pstr "x") VNone VNone VNone false VNone true) = Err ValueError.
Proof. vm_compute. reflexivity. Qed.
Example ex_hanzi_M4_refused :
  res_summary (encode_args (with_mode [bytes_part [176; 161]]) VNone (pstr "M4") (pstr "hanzi") VNone false VNone true) = Err ValueError.
Proof. vm_compute. reflexivity. Qed.
Example ex_alnum_M1_refused :
  res_summary (encode_args (with_mode [bytes_part [65]]) VNone (pstr "M1") VNone VNone false VNone true) = Err DataOverflow.
Proof. vm_compute. reflexivity. Qed.
Example ex_empty_content :
  res_summary (encode_args (with_mode []) VNone VNone VNone VNone false VNone true) = Err ValueError.
Proof. vm_compute. reflexivity. Qed.
Example ex_unknown_codec :
  res_summary (encode_args (with_mode [{| p_content := PText CRLookup CRLookup CRLookup CRLookup; p_mode := None;
                                          p_enc := Some {| e_name := "no-such-codec"; e_canon := None |} |}])
                           VNone VNone VNone VNone false VNone true) = Err LookupErr.
Proof. vm_compute. reflexivity. Qed.
(* alternative spellings, end to end *)
Example ex_ok_spelled :
  res_summary (encode_args (with_mode [bytes_part [49; 50]]) (pstr "l") (pstr "m2") (pstr "NUMERIC") (pstr " 3") false VNone false)
  = Ok (-2, Some 1, 3) /\
  encode_args (with_mode [bytes_part [49; 50]]) (pstr "l") (pstr "m2") (pstr "NUMERIC") (pstr " 3") false VNone false
  = encode_args (with_mode [bytes_part [49; 50]]) (VInt 1) (pstr "M2") (VInt 1) (VInt 3) false VNone false.
Proof. vm_compute. split; reflexivity. Qed.

(* ================================================================================================ *)
(* 11. Assumptions                                                                                  *)
(* ================================================================================================ *)
Print Assumptions normalize_version_str_iff.
Print Assumptions normalize_version_upper.
Print Assumptions normalize_mode_str_iff.
Print Assumptions normalize_errorlevel_str_iff.
Print Assumptions normalize_errorlevel_str_ascii.
Print Assumptions int_of_str_upper.
Print Assumptions normalize_mask_str_int.
Print Assumptions stage_prepare_exn.
Print Assumptions stage_version_lookups.
Print Assumptions stage_boost_exn.
Print Assumptions stage_data_stream_exn.
Print Assumptions stage_encode_core_exn.
Print Assumptions stage_post_exn.
Print Assumptions excluded_H_micro.
Print Assumptions excluded_eci_micro.
Print Assumptions excluded_mode_version.
Print Assumptions excluded_version.
Print Assumptions excluded_mask.
Print Assumptions encode_args_mask_range.
