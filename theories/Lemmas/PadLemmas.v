(* Terminator / padding (ISO 7.4.9, 7.4.10): the model of segno's write_terminator,
   write_padding_bits, write_pad_codewords equals the specification [iso_pad_kf] (= [iso_pad] except for
   the known deviation D1), for bit streams of unbounded length. *)
From Coq Require Import ZArith List Bool Lia ZifyBool.
From Segno Require Import Base.PyLite Ref.IsoData Ref.Geometry Ref.Spec Model.Bits Model.Stream.
Import ListNotations.
Open Scope Z_scope.
Ltac Zify.zify_post_hook ::= Z.to_euclidean_division_equations.

(* ------------------------------------------------------------------ *)
(* 1. the terminator table                                             *)
(* ------------------------------------------------------------------ *)
Lemma terminator_table_all :
  forallb (fun v => match getOZ (if v <? 1 then Some v else None) TERMINATOR_LENGTH with
                    | Ok t => t =? iso_terminator_length v
                    | Err _ => false end) (zrange (-3) 41) = true.
Proof. vm_compute. reflexivity. Qed.

Lemma terminator_table v : -3 <= v <= 40 ->
  getOZ (if v <? 1 then Some v else None) TERMINATOR_LENGTH = Ok (iso_terminator_length v).
Proof.
  intros Hv. pose proof terminator_table_all as Hall. rewrite forallb_forall in Hall.
  assert (Hin : In v (zrange (-3) 41)) by (apply zrange_In; lia).
  specialize (Hall v Hin). cbv beta in Hall.
  destruct (getOZ (if v <? 1 then Some v else None) TERMINATOR_LENGTH) as [t|e]; [|discriminate Hall].
  apply Z.eqb_eq in Hall. subst t. reflexivity.
Qed.
Print Assumptions terminator_table.

Lemma iso_terminator_length_bounds v : -3 <= v <= 40 -> 3 <= iso_terminator_length v <= 9.
Proof. intros Hv. unfold iso_terminator_length. destruct (0 <? v) eqn:Hp; lia. Qed.

(* ------------------------------------------------------------------ *)
(* general list / length facts                                         *)
(* ------------------------------------------------------------------ *)
Lemma lenZ_nonneg {A} (l : list A) : 0 <= lenZ l.
Proof. unfold lenZ. lia. Qed.
Lemma lenZ_app {A} (a b : list A) : lenZ (a ++ b) = lenZ a + lenZ b.
Proof. unfold lenZ. rewrite app_length. lia. Qed.
Lemma lenZ_repeat {A} (x : A) n : lenZ (repeat x n) = Z.of_nat n.
Proof. unfold lenZ. rewrite repeat_length. reflexivity. Qed.
Lemma lenZ_zeros n : lenZ (zeros n) = Z.max 0 n.
Proof. unfold zeros. rewrite lenZ_repeat. lia. Qed.
Lemma zeros_app a b : 0 <= a -> 0 <= b -> zeros a ++ zeros b = zeros (a + b).
Proof. intros Ha Hb. unfold zeros. rewrite Z2Nat.inj_add by lia. symmetry. apply repeat_app. Qed.

Lemma pad_codeword_eq i : pad_codeword i = pad_byte i.
Proof. unfold pad_codeword, pad_byte. rewrite Zmod_even. destruct (Z.even i); reflexivity. Qed.
Lemma pad_codewords_eq n : pad_codewords n = flat_map pad_byte (zrange 0 n).
Proof. unfold pad_codewords. apply flat_map_ext. intros a. apply pad_codeword_eq. Qed.
Lemma pad_byte_length k : List.length (pad_byte k) = 8%nat.
Proof. unfold pad_byte. destruct (Z.even k); reflexivity. Qed.
Lemma flat_map_pad_length l : List.length (flat_map pad_byte l) = (8 * List.length l)%nat.
Proof.
  induction l as [|k l IH]; [reflexivity|].
  cbn [flat_map]. rewrite app_length, pad_byte_length, IH. cbn [List.length]. lia.
Qed.
Lemma zrange_length a b : List.length (zrange a b) = Z.to_nat (b - a).
Proof. unfold zrange. apply zrange_aux_length. Qed.
Lemma lenZ_pads n : lenZ (flat_map pad_byte (zrange 0 n)) = 8 * Z.max 0 n.
Proof. unfold lenZ. rewrite flat_map_pad_length, zrange_length. lia. Qed.
Lemma lenZ_pad_codewords n : lenZ (pad_codewords n) = 8 * Z.max 0 n.
Proof. rewrite pad_codewords_eq. apply lenZ_pads. Qed.
Lemma neg_mod8 l : l mod 8 <> 0 -> (- l) mod 8 = 8 - l mod 8.
Proof. lia. Qed.
Lemma neg_mod8_0 l : l mod 8 = 0 -> (- l) mod 8 = 0.
Proof. lia. Qed.

Lemma firstn_all_Z {A} (l : list A) n : lenZ l <= n -> firstn (Z.to_nat n) l = l.
Proof. intros H. apply firstn_all2. unfold lenZ in H. lia. Qed.
Lemma firstn_app_exact_Z {A} (a b : list A) n : lenZ a = n -> firstn (Z.to_nat n) (a ++ b) = a.
Proof.
  intros H. unfold lenZ in H. rewrite firstn_app.
  replace (Z.to_nat n - List.length a)%nat with 0%nat by lia.
  rewrite firstn_all2 by lia. cbn [firstn]. apply app_nil_r.
Qed.

Lemma is_m1_m3_eq v : is_m1_m3 v = ((v =? -3) || (v =? -1)).
Proof. reflexivity. Qed.

(* ------------------------------------------------------------------ *)
(* 2. model = iso_pad_kf                                               *)
(* ------------------------------------------------------------------ *)
Theorem pad_model_is_iso_kf : forall v cap stream b1,
  -3 <= v <= 40 -> 0 <= cap ->
  cap mod 8 = (if is_m1_m3 v then 4 else 0) ->
  lenZ stream <= cap ->
  write_terminator stream cap (if v <? 1 then Some v else None) = Ok b1 ->
  firstn (Z.to_nat cap) (write_pad_codewords (write_padding_bits b1 v) v cap) = iso_pad_kf v cap stream.
Proof.
  intros v cap stream b1 Hv Hcap Hmod Hlen Hwt.
  unfold write_terminator in Hwt. rewrite (terminator_table v Hv) in Hwt. cbn [bind] in Hwt.
  injection Hwt as Hb1.
  pose proof (iso_terminator_length_bounds v Hv) as HT.
  pose proof (lenZ_nonneg stream) as Hl0.
  unfold iso_pad_kf, kf_pad_aligned, iso_pad; cbv zeta.
  unfold write_padding_bits, write_pad_codewords; cbv zeta.
  rewrite !is_m1_m3_eq. rewrite is_m1_m3_eq in Hmod.
  remember (Z.min (cap - lenZ stream) (iso_terminator_length v)) as tt eqn:Htt.
  assert (Htt' : 0 <= tt <= 9 /\ lenZ stream + tt <= cap) by lia.
  clear Htt HT.
  assert (Hl1 : lenZ b1 = lenZ stream + tt).
  { subst b1. rewrite lenZ_app, lenZ_zeros. lia. }
  remember (lenZ stream + tt) as l1 eqn:Hl1def.
  destruct ((v =? -3) || (v =? -1)) eqn:Hs; cbn [negb andb].
  - (* M1 / M3 *)
    rewrite Hl1.
    destruct (l1 <? cap - 4) eqn:Hd.
    + destruct (cap - 4 <? l1) eqn:Hc; [lia|].
      assert (E : lenZ (b1 ++ zeros ((- l1) mod 8)
                           ++ pad_codewords ((cap - 4) / 8 - (l1 + 7) / 8)) = cap - 4).
      { rewrite !lenZ_app, lenZ_zeros, lenZ_pad_codewords, Hl1. lia. }
      rewrite E. replace (cap - (cap - 4)) with 4 by lia.
      rewrite firstn_all_Z by (rewrite lenZ_app, E, lenZ_zeros; lia).
      subst b1. rewrite pad_codewords_eq. unfold zeros.
      change (Z.to_nat 4) with 4%nat. cbn [repeat].
      replace ((cap - 4) / 8 - (l1 + 7) / 8) with ((cap - 4 - (l1 + (- l1) mod 8)) / 8) by lia.
      rewrite <- !app_assoc. reflexivity.
    + destruct (cap - 4 <? l1) eqn:Hc.
      * rewrite Hl1.
        rewrite firstn_all_Z by (rewrite lenZ_app, lenZ_zeros; lia).
        subst b1. unfold zeros. reflexivity.
      * assert (Hl1e : l1 = cap - 4) by lia.
        rewrite Hl1.
        rewrite firstn_all_Z by (rewrite lenZ_app, lenZ_zeros; lia).
        replace ((- l1) mod 8) with 0 by lia.
        replace ((cap - 4 - (l1 + 0)) / 8) with 0 by lia.
        replace (cap - l1) with 4 by lia.
        subst b1. unfold zeros.
        change (Z.to_nat 4) with 4%nat. change (Z.to_nat 0) with 0%nat.
        change (zrange 0 0) with (@nil Z). cbn [repeat flat_map app].
        rewrite app_nil_r. reflexivity.
  - (* all other versions *)
    rewrite lenZ_app, lenZ_zeros, Hl1.
    destruct (l1 mod 8 =? 0) eqn:Ha; destruct (l1 <? cap) eqn:Hb; cbn [negb andb].
    + (* aligned, room left: known deviation D1 *)
      replace (8 - l1 mod 8) with 8 by lia.
      rewrite firstn_all_Z
        by (rewrite !lenZ_app, lenZ_zeros, lenZ_pad_codewords, Hl1; lia).
      subst b1. rewrite pad_codewords_eq. unfold zeros.
      change (Z.to_nat 8) with 8%nat.
      replace (cap / 8 - (l1 + Z.max 0 8) / 8) with ((cap - (l1 + 8)) / 8) by lia.
      rewrite <- !app_assoc. reflexivity.
    + (* aligned and full: the 8 surplus zero bits are cut off *)
      destruct (cap <? l1) eqn:Hc; [lia|].
      assert (Hl1e : l1 = cap) by lia.
      replace ((- l1) mod 8) with 0 by lia.
      replace ((cap - (l1 + 0)) / 8) with 0 by lia.
      change (Z.to_nat 0) with 0%nat. change (zrange 0 0) with (@nil Z).
      cbn [repeat flat_map app]. rewrite !app_nil_r.
      rewrite <- (app_assoc b1).
      rewrite firstn_app_exact_Z by lia.
      subst b1. unfold zeros. reflexivity.
    + (* not aligned *)
      destruct (cap <? l1) eqn:Hc; [lia|].
      rewrite firstn_all_Z
        by (rewrite !lenZ_app, lenZ_zeros, lenZ_pad_codewords, Hl1; lia).
      subst b1. rewrite pad_codewords_eq. unfold zeros.
      replace ((- l1) mod 8) with (8 - l1 mod 8) by lia.
      replace (cap / 8 - (l1 + Z.max 0 (8 - l1 mod 8)) / 8)
        with ((cap - (l1 + (8 - l1 mod 8))) / 8) by lia.
      rewrite app_nil_r. rewrite <- !app_assoc. reflexivity.
    + exfalso. lia.
Qed.
Print Assumptions pad_model_is_iso_kf.

(* ------------------------------------------------------------------ *)
(* 3. iso_pad_kf = iso_pad outside the known deviation                 *)
(* ------------------------------------------------------------------ *)
Theorem iso_pad_kf_is_iso : forall v cap stream,
  kf_pad_aligned v cap (lenZ stream) = false -> iso_pad_kf v cap stream = iso_pad v cap stream.
Proof. intros v cap stream H. unfold iso_pad_kf. rewrite H. reflexivity. Qed.
Print Assumptions iso_pad_kf_is_iso.

Corollary pad_model_is_iso : forall v cap stream b1,
  -3 <= v <= 40 -> 0 <= cap ->
  cap mod 8 = (if is_m1_m3 v then 4 else 0) ->
  lenZ stream <= cap ->
  write_terminator stream cap (if v <? 1 then Some v else None) = Ok b1 ->
  kf_pad_aligned v cap (lenZ stream) = false ->
  firstn (Z.to_nat cap) (write_pad_codewords (write_padding_bits b1 v) v cap) = iso_pad v cap stream.
Proof.
  intros v cap stream b1 Hv Hcap Hmod Hlen Hwt Hkf.
  rewrite (pad_model_is_iso_kf v cap stream b1 Hv Hcap Hmod Hlen Hwt).
  apply iso_pad_kf_is_iso. exact Hkf.
Qed.
Print Assumptions pad_model_is_iso.

(* ------------------------------------------------------------------ *)
(* 4. the padded stream has exactly [cap] bits                         *)
(* ------------------------------------------------------------------ *)
Theorem iso_pad_length : forall v cap stream,
  -3 <= v <= 40 -> 0 <= cap ->
  cap mod 8 = (if (v =? -3) || (v =? -1) then 4 else 0) ->
  ((v =? -3) || (v =? -1) = true -> 4 <= cap) ->
  lenZ stream <= cap ->
  lenZ (iso_pad v cap stream) = cap.
Proof.
  intros v cap stream Hv Hcap Hmod H4 Hlen.
  pose proof (iso_terminator_length_bounds v Hv) as HT.
  pose proof (lenZ_nonneg stream) as Hl0.
  unfold iso_pad; cbv zeta.
  remember (Z.min (cap - lenZ stream) (iso_terminator_length v)) as tt eqn:Htt.
  assert (Htt' : 0 <= tt <= 9 /\ lenZ stream + tt <= cap) by lia.
  clear Htt HT H4.
  destruct ((v =? -3) || (v =? -1)) eqn:Hs.
  - destruct (cap - 4 <? lenZ stream + tt) eqn:Hc.
    + rewrite !lenZ_app, !lenZ_repeat. lia.
    + rewrite !lenZ_app, !lenZ_repeat, lenZ_pads.
      change (lenZ [false; false; false; false]) with 4. lia.
  - destruct (cap <? lenZ stream + tt) eqn:Hc.
    + rewrite !lenZ_app, !lenZ_repeat. lia.
    + rewrite !lenZ_app, !lenZ_repeat, lenZ_pads.
      change (lenZ (@nil bool)) with 0. lia.
Qed.
Print Assumptions iso_pad_length.

(* ------------------------------------------------------------------ *)
(* 5. structure of the padded stream                                   *)
(* ------------------------------------------------------------------ *)
(* explicit shape, valid for all arguments *)
Theorem iso_pad_shape : forall v cap stream,
  let len := lenZ stream in
  let t := Z.min (cap - len) (iso_terminator_length v) in
  let l1 := len + t in
  let short := (v =? -3) || (v =? -1) in
  let full := if short then cap - 4 else cap in
  let f := if full <? l1 then 0 else (- l1) mod 8 in
  let n := if full <? l1 then 0 else (full - (l1 + f)) / 8 in
  let z := if full <? l1 then cap - l1 else cap - full in
  iso_pad v cap stream
  = stream ++ repeat false (Z.to_nat t) ++ repeat false (Z.to_nat f)
           ++ flat_map pad_byte (zrange 0 n) ++ repeat false (Z.to_nat z).
Proof.
  intros v cap stream. cbv zeta. unfold iso_pad; cbv zeta.
  remember (Z.min (cap - lenZ stream) (iso_terminator_length v)) as tt eqn:Htt. clear Htt.
  destruct ((v =? -3) || (v =? -1)) eqn:Hs.
  - destruct (cap - 4 <? lenZ stream + tt) eqn:Hc.
    + change (Z.to_nat 0) with 0%nat. change (zrange 0 0) with (@nil Z).
      cbn [repeat flat_map app]. rewrite <- app_assoc. reflexivity.
    + replace (cap - (cap - 4)) with 4 by lia. change (Z.to_nat 4) with 4%nat.
      cbn [repeat]. rewrite <- !app_assoc. reflexivity.
  - destruct (cap <? lenZ stream + tt) eqn:Hc.
    + change (Z.to_nat 0) with 0%nat. change (zrange 0 0) with (@nil Z).
      cbn [repeat flat_map app]. rewrite <- app_assoc. reflexivity.
    + replace (cap - cap) with 0 by lia. change (Z.to_nat 0) with 0%nat.
      cbn [repeat]. rewrite <- !app_assoc. reflexivity.
Qed.
Print Assumptions iso_pad_shape.

(* arithmetic characterisation of the pieces of [iso_pad_shape] *)
Theorem iso_pad_shape_arith : forall v cap (stream : list bool),
  let len := lenZ stream in
  let t := Z.min (cap - len) (iso_terminator_length v) in
  let l1 := len + t in
  let short := (v =? -3) || (v =? -1) in
  let full := if short then cap - 4 else cap in
  let f := if full <? l1 then 0 else (- l1) mod 8 in
  let n := if full <? l1 then 0 else (full - (l1 + f)) / 8 in
  let z := if full <? l1 then cap - l1 else cap - full in
  -3 <= v <= 40 -> 0 <= cap ->
  cap mod 8 = (if short then 4 else 0) ->
  len <= cap ->
  0 <= t <= iso_terminator_length v /\ (t < iso_terminator_length v -> l1 = cap) /\
  0 <= f < 8 /\ 0 <= n /\ 0 <= z <= 4 /\
  (full <? l1 = true -> short = true /\ f = 0 /\ n = 0 /\ z < 4) /\
  (full <? l1 = false -> (l1 + f) mod 8 = 0 /\ l1 + f + 8 * n = full /\ z = (if short then 4 else 0)) /\
  len + t + f + 8 * n + z = cap.
Proof.
  intros v cap stream. cbv zeta. intros Hv Hcap Hmod Hlen.
  pose proof (iso_terminator_length_bounds v Hv) as HT.
  pose proof (lenZ_nonneg stream) as Hl0.
  destruct ((v =? -3) || (v =? -1)) eqn:Hs.
  - destruct (cap - 4 <? lenZ stream + Z.min (cap - lenZ stream) (iso_terminator_length v)) eqn:Hc.
    + repeat split; try lia; intros; lia.
    + repeat split; try lia; intros; lia.
  - destruct (cap <? lenZ stream + Z.min (cap - lenZ stream) (iso_terminator_length v)) eqn:Hc.
    + exfalso. lia.
    + repeat split; try lia; intros; lia.
Qed.
Print Assumptions iso_pad_shape_arith.

(* the segments are untouched *)
Theorem iso_pad_prefix : forall v cap stream,
  lenZ stream <= cap -> firstn (List.length stream) (iso_pad v cap stream) = stream.
Proof.
  intros v cap stream _. rewrite iso_pad_shape. cbv zeta.
  rewrite firstn_app. rewrite Nat.sub_diag. cbn [firstn].
  rewrite firstn_all. apply app_nil_r.
Qed.
Print Assumptions iso_pad_prefix.

(* everything after the segments: terminator zeros, fill zeros up to a codeword boundary, alternating pad
   bytes, and (M1/M3, or when the capacity is reached inside the last half codeword) at most 4 zero bits *)
Theorem iso_pad_suffix : forall v cap stream,
  -3 <= v <= 40 -> 0 <= cap ->
  cap mod 8 = (if (v =? -3) || (v =? -1) then 4 else 0) ->
  lenZ stream <= cap ->
  exists t f n z : Z,
    iso_pad v cap stream
    = stream ++ repeat false (Z.to_nat t) ++ repeat false (Z.to_nat f)
             ++ flat_map pad_byte (zrange 0 n) ++ repeat false (Z.to_nat z)
    /\ t = Z.min (cap - lenZ stream) (iso_terminator_length v)
    /\ 0 <= t /\ 0 <= f < 8 /\ 0 <= n /\ 0 <= z <= 4
    /\ lenZ stream + t + f + 8 * n + z = cap
    /\ (0 < n -> (lenZ stream + t + f) mod 8 = 0)
    /\ (0 < n \/ 0 < f -> z = (if (v =? -3) || (v =? -1) then 4 else 0)).
Proof.
  intros v cap stream Hv Hcap Hmod Hlen.
  pose proof (iso_pad_shape v cap stream) as Hshape.
  pose proof (iso_pad_shape_arith v cap stream) as Har.
  cbv zeta in Hshape, Har. specialize (Har Hv Hcap Hmod Hlen).
  destruct Har as (Ht & _ & Hf & Hn & Hz & Hover & Hfit & Hsum).
  eexists _, _, _, _. split; [exact Hshape|]. split; [reflexivity|].
  repeat split; lia.
Qed.
Print Assumptions iso_pad_suffix.

(* ------------------------------------------------------------------ *)
(* 6. the known deviation is real whenever the predicate holds         *)
(* ------------------------------------------------------------------ *)
Theorem kf_exact : forall v cap stream,
  kf_pad_aligned v cap (lenZ stream) = true -> iso_pad_kf v cap stream <> iso_pad v cap stream.
Proof.
  intros v cap stream Hkf. unfold iso_pad_kf. rewrite Hkf.
  unfold kf_pad_aligned in Hkf; cbv zeta in Hkf.
  unfold iso_pad; cbv zeta.
  remember (Z.min (cap - lenZ stream) (iso_terminator_length v)) as tt eqn:Htt. clear Htt.
  destruct ((v =? -3) || (v =? -1)) eqn:Hs; [discriminate Hkf|]. cbn [negb andb] in Hkf.
  destruct ((lenZ stream + tt) mod 8 =? 0) eqn:Ha; [|discriminate Hkf]. cbn [andb] in Hkf.
  destruct (cap <? lenZ stream + tt) eqn:Hc; [lia|].
  replace ((- (lenZ stream + tt)) mod 8) with 0 by lia.
  change (Z.to_nat 0) with 0%nat. cbn [repeat]. rewrite !app_nil_r.
  rewrite <- app_assoc. intros Heq.
  apply app_inv_head in Heq. apply app_inv_head in Heq.
  unfold zrange at 2 in Heq.
  destruct (Z.to_nat ((cap - (lenZ stream + tt + 0)) / 8 - 0)) as [|m].
  - cbn [zrange_aux flat_map repeat app] in Heq. discriminate Heq.
  - cbn [zrange_aux flat_map repeat app] in Heq.
    change (pad_byte 0) with [true; true; true; false; true; true; false; false] in Heq.
    cbn [app] in Heq. discriminate Heq.
Qed.
Print Assumptions kf_exact.

(* ------------------------------------------------------------------ *)
(* the hypotheses are satisfiable: concrete instances                  *)
(* ------------------------------------------------------------------ *)
Definition ex_stream20 : list bool :=
  [false; true; false; false; false; false; false; false; false; false; false; true;
   true; false; true; false; true; true; false; true].

(* 1-L (cap 152), 20-bit stream: 20 + 4 = 24 is aligned -> the D1 case *)
Example pad_example_kf :
  -3 <= 1 <= 40 /\ 0 <= 152 /\ 152 mod 8 = (if is_m1_m3 1 then 4 else 0) /\ lenZ ex_stream20 <= 152 /\
  kf_pad_aligned 1 152 (lenZ ex_stream20) = true /\
  exists b1, write_terminator ex_stream20 152 (if 1 <? 1 then Some 1 else None) = Ok b1 /\
    firstn (Z.to_nat 152) (write_pad_codewords (write_padding_bits b1 1) 1 152) = iso_pad_kf 1 152 ex_stream20.
Proof.
  repeat split; try (vm_compute; congruence).
  eexists. split; vm_compute; reflexivity.
Qed.

(* 1-L (cap 152), 21-bit stream: not aligned -> model = ISO *)
Example pad_example_iso :
  let s := ex_stream20 ++ [true] in
  -3 <= 1 <= 40 /\ 0 <= 152 /\ 152 mod 8 = (if is_m1_m3 1 then 4 else 0) /\ lenZ s <= 152 /\
  kf_pad_aligned 1 152 (lenZ s) = false /\
  exists b1, write_terminator s 152 (if 1 <? 1 then Some 1 else None) = Ok b1 /\
    firstn (Z.to_nat 152) (write_pad_codewords (write_padding_bits b1 1) 1 152) = iso_pad 1 152 s.
Proof.
  repeat split; try (vm_compute; congruence).
  eexists. split; vm_compute; reflexivity.
Qed.

(* M3-L (cap 84), 70-bit stream: terminator 7, fill, one pad byte, 4 zero bits *)
Example pad_example_m3 :
  let s := ex_stream20 ++ ex_stream20 ++ ex_stream20 ++ [true; false; true; true; false; true; true; false; true; true] in
  -3 <= -1 <= 40 /\ 0 <= 84 /\ 84 mod 8 = (if is_m1_m3 (-1) then 4 else 0) /\ lenZ s <= 84 /\
  exists b1, write_terminator s 84 (if -1 <? 1 then Some (-1) else None) = Ok b1 /\
    firstn (Z.to_nat 84) (write_pad_codewords (write_padding_bits b1 (-1)) (-1) 84) = iso_pad (-1) 84 s.
Proof.
  repeat split; try (vm_compute; congruence).
  eexists. split; vm_compute; reflexivity.
Qed.
Print Assumptions pad_example_kf.
Print Assumptions pad_example_iso.
Print Assumptions pad_example_m3.
